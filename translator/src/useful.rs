//! Maranget-style usefulness check on abstract patterns, used to decide whether a Coq `match`
//! needs a trailing `| _ =>` clause (Coq rejects redundant clauses).

#[derive(Clone, Debug, PartialEq)]
pub enum AP {
    Wild,
    /// constructor name, sub-patterns, family = all (constructor, arity) of the type; empty family = infinite (literals)
    Ctor(String, Vec<AP>, Vec<(String, usize)>),
    Or(Vec<AP>),
}

fn expand_or_rows(rows: Vec<Vec<AP>>) -> Vec<Vec<AP>> {
    // expand or-patterns in the first column
    let mut out = vec![];
    for r in rows {
        if r.is_empty() {
            out.push(r);
            continue;
        }
        match &r[0] {
            AP::Or(alts) => {
                for a in alts {
                    let mut nr = vec![a.clone()];
                    nr.extend_from_slice(&r[1..]);
                    out.extend(expand_or_rows(vec![nr]));
                }
            }
            _ => out.push(r),
        }
    }
    out
}

fn specialize(rows: &[Vec<AP>], c: &str, arity: usize) -> Vec<Vec<AP>> {
    let mut out = vec![];
    for r in rows {
        match &r[0] {
            AP::Wild => {
                let mut nr = vec![AP::Wild; arity];
                nr.extend_from_slice(&r[1..]);
                out.push(nr);
            }
            AP::Ctor(n, subs, _) => {
                if n == c {
                    let mut nr = subs.clone();
                    nr.extend_from_slice(&r[1..]);
                    out.push(nr);
                }
            }
            AP::Or(_) => unreachable!(),
        }
    }
    out
}

fn default_rows(rows: &[Vec<AP>]) -> Vec<Vec<AP>> {
    rows.iter().filter(|r| matches!(r[0], AP::Wild)).map(|r| r[1..].to_vec()).collect()
}

/// Is the pattern vector `q` useful with respect to the matrix `rows`?
pub fn useful(rows: Vec<Vec<AP>>, q: Vec<AP>) -> bool {
    if q.is_empty() {
        return rows.is_empty();
    }
    let rows = expand_or_rows(rows);
    match &q[0] {
        AP::Or(alts) => alts.iter().any(|a| {
            let mut nq = vec![a.clone()];
            nq.extend_from_slice(&q[1..]);
            useful(rows.clone(), nq)
        }),
        AP::Ctor(c, subs, _) => {
            let mut nq = subs.clone();
            nq.extend_from_slice(&q[1..]);
            useful(specialize(&rows, c, subs.len()), nq)
        }
        AP::Wild => {
            // constructors present in first column
            let mut present: Vec<(String, usize)> = vec![];
            let mut family: Option<Vec<(String, usize)>> = None;
            for r in &rows {
                if let AP::Ctor(n, subs, fam) = &r[0] {
                    if !present.iter().any(|(m, _)| m == n) {
                        present.push((n.clone(), subs.len()));
                    }
                    family = Some(fam.clone());
                }
            }
            let complete = match &family {
                Some(f) if !f.is_empty() => f.iter().all(|(n, _)| present.iter().any(|(m, _)| m == n)),
                _ => false,
            };
            if complete {
                for (c, a) in family.unwrap() {
                    let mut nq = vec![AP::Wild; a];
                    nq.extend_from_slice(&q[1..]);
                    if useful(specialize(&rows, &c, a), nq) {
                        return true;
                    }
                }
                false
            } else {
                useful(default_rows(&rows), q[1..].to_vec())
            }
        }
    }
}

pub fn exhaustive(pats: &[AP]) -> bool {
    !useful(pats.iter().map(|p| vec![p.clone()]).collect(), vec![AP::Wild])
}
