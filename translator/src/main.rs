//! rs2coq: translate the `const fn` core of the macro-expanded julian crate into monadic Gallina.
//! usage: rs2coq <expanded.rs> <Gen.v> <report.json>
mod cps;
mod ctx;
mod tr;
mod useful;

use ctx::*;
use quote::ToTokens;
use std::cell::{Cell, RefCell};
use std::collections::{BTreeMap, BTreeSet};
use syn::*;
use tr::*;

pub fn eval_const(cx: &Cx, e: &Expr, module: &[String], locals: &[(String, i128)]) -> i128 {
    match e {
        Expr::Lit(ExprLit { lit: Lit::Int(i), .. }) => i.base10_parse().unwrap(),
        Expr::Paren(p) => eval_const(cx, &p.expr, module, locals),
        Expr::Group(p) => eval_const(cx, &p.expr, module, locals),
        Expr::Cast(c) => {
            // `as` between integer types wraps; to anything else (or an unknown type) it is the identity here
            let v = eval_const(cx, &c.expr, module, locals);
            match cx.ty_of(&c.ty, module, None) {
                Ty::Int(t) => {
                    let (lo, hi) = int_bounds(t);
                    let m = hi - lo + 1;
                    (v - lo).rem_euclid(m) + lo
                }
                _ => v,
            }
        }
        Expr::Unary(u) if matches!(u.op, UnOp::Neg(_)) => -eval_const(cx, &u.expr, module, locals),
        Expr::Binary(b) => {
            let (l, r) = (eval_const(cx, &b.left, module, locals), eval_const(cx, &b.right, module, locals));
            match b.op {
                BinOp::Add(_) => l + r,
                BinOp::Sub(_) => l - r,
                BinOp::Mul(_) => l * r,
                _ => panic!("const operator {}", b.to_token_stream()),
            }
        }
        Expr::Path(p) => {
            let n = p.path.segments.last().unwrap().ident.to_string();
            // `T::MIN` / `T::MAX` for an integer type or an alias of one (e.g. `Jdnum::MAX`)
            if p.path.segments.len() == 2 && (n == "MIN" || n == "MAX") {
                let tn = p.path.segments[0].ident.to_string();
                let ty = match int_ty(&tn) {
                    Some(t) => Some(t),
                    None => match cx.aliases.get(&tn) {
                        Some(Ty::Int(t)) => Some(*t),
                        _ => None,
                    },
                };
                if let Some(t) = ty {
                    let (lo, hi) = int_bounds(t);
                    return if n == "MIN" { lo } else { hi };
                }
            }
            if let Some((_, v)) = locals.iter().rev().find(|(m, _)| m == &n) {
                return *v;
            }
            for c in [format!("{}{}", mod_prefix(module), n), n.clone()] {
                if let Some(v) = cx.const_vals.get(&c) {
                    return *v;
                }
            }
            panic!("unknown constant {n}")
        }
        _ => panic!("unsupported constant expression {}", e.to_token_stream()),
    }
}

struct RawConst {
    coq: String,
    module: Vec<String>,
    self_ty: Option<String>,
    ty: &'static Type,
    expr: &'static Expr,
}

struct Collect {
    cx: Cx,
    raw_structs: Vec<(String, Vec<String>, &'static ItemStruct)>,
    raw_enums: Vec<(String, Vec<String>, &'static ItemEnum)>,
    raw_fns: Vec<(Vec<String>, Option<(Vec<String>, &'static Type)>, &'static Signature, &'static Visibility, &'static Block)>,
    raw_consts: Vec<RawConst>,
    raw_impl_consts: Vec<(Vec<String>, &'static Type, &'static ImplItemConst)>,
    // API that is NOT const fn (so not translated): public non-const functions and trait impls, for the C05 coverage check
    other_api: Vec<String>,
}

fn collect_items(c: &mut Collect, items: &'static [Item], module: Vec<String>) {
    for it in items {
        match it {
            Item::Mod(m) => {
                if let Some((_, items)) = &m.content {
                    let name = m.ident.to_string();
                    if name == "tests" {
                        continue;
                    }
                    c.cx.modules.insert(name.clone());
                    let mut m2 = module.clone();
                    m2.push(name);
                    collect_items(c, items, m2);
                }
            }
            Item::Type(t) => {
                let cx = &c.cx;
                let ty = cx.ty_of(&t.ty, &module, None);
                c.cx.aliases.insert(t.ident.to_string(), ty);
            }
            Item::Struct(s) => {
                if !s.generics.params.is_empty() {
                    continue;
                }
                let coq = format!("{}{}", mod_prefix(&module), s.ident);
                c.cx.type_names.insert((module.last().cloned().unwrap_or_default(), s.ident.to_string()), coq.clone());
                c.raw_structs.push((coq, module.clone(), s));
            }
            Item::Enum(e) => {
                let coq = format!("{}{}", mod_prefix(&module), e.ident);
                c.cx.type_names.insert((module.last().cloned().unwrap_or_default(), e.ident.to_string()), coq.clone());
                c.raw_enums.push((coq, module.clone(), e));
            }
            Item::Const(k) => c.raw_consts.push(RawConst { coq: format!("{}{}", mod_prefix(&module), k.ident), module: module.clone(), self_ty: None, ty: &k.ty, expr: &k.expr }),
            Item::Fn(f) => {
                if f.sig.constness.is_some() && f.sig.generics.params.is_empty() {
                    c.raw_fns.push((module.clone(), None, &f.sig, &f.vis, &f.block));
                } else if matches!(f.vis, Visibility::Public(_)) {
                    c.other_api.push(format!("fn {}{}", mod_prefix(&module), f.sig.ident));
                }
            }
            Item::Impl(i) => {
                if let Some((_, path, _)) = &i.trait_ {
                    let t = path.to_token_stream().to_string().replace(' ', "");
                    let st = i.self_ty.to_token_stream().to_string().replace(' ', "");
                    c.other_api.push(format!("impl {} for {}{}", t, mod_prefix(&module), st));
                    continue;
                }
                if !i.generics.params.is_empty() {
                    continue;
                }
                for ii in &i.items {
                    match ii {
                        ImplItem::Fn(f) => {
                            if f.sig.constness.is_some() && f.sig.generics.params.is_empty() {
                                c.raw_fns.push((module.clone(), Some((module.clone(), &*i.self_ty)), &f.sig, &f.vis, &f.block));
                            } else if matches!(f.vis, Visibility::Public(_)) {
                                c.other_api.push(format!("fn {}{}::{}", mod_prefix(&module), i.self_ty.to_token_stream().to_string().replace(' ', ""), f.sig.ident));
                            }
                        }
                        ImplItem::Const(k) => c.raw_impl_consts.push((module.clone(), &*i.self_ty, k)),
                        _ => {}
                    }
                }
            }
            _ => {}
        }
    }
}

fn vis_text(v: &Visibility) -> String {
    match v {
        Visibility::Public(_) => "pub".into(),
        Visibility::Restricted(_) => "pub(crate)".into(),
        Visibility::Inherited => "private".into(),
    }
}

fn supported(t: &Ty) -> bool {
    match t {
        Ty::Unknown => false,
        Ty::Tuple(ts) => ts.iter().all(supported),
        Ty::Opt(t) => supported(t),
        Ty::Res(a, b) => supported(a) && supported(b),
        _ => true,
    }
}

fn type_deps(t: &Ty, out: &mut Vec<String>) {
    match t {
        Ty::Adt(n) => out.push(n.clone()),
        Ty::Tuple(ts) => ts.iter().for_each(|t| type_deps(t, out)),
        Ty::Opt(t) => type_deps(t, out),
        Ty::Res(a, b) => {
            type_deps(a, out);
            type_deps(b, out)
        }
        _ => {}
    }
}

fn main() {
    let args: Vec<String> = std::env::args().collect();
    let src = std::fs::read_to_string(&args[1]).expect("read expanded source");
    let file: &'static File = Box::leak(Box::new(parse_file(&src).expect("parse expanded source")));
    let mut c = Collect { cx: Cx::default(), raw_structs: vec![], raw_enums: vec![], raw_fns: vec![], raw_consts: vec![], raw_impl_consts: vec![], other_api: vec![] };
    collect_items(&mut c, &file.items, vec![]);

    // ---- types
    let mut skipped: Vec<(String, String)> = vec![];
    for (coq, module, s) in std::mem::take(&mut c.raw_structs) {
        let mut fields = vec![];
        let mut tuple = false;
        match &s.fields {
            Fields::Named(n) => {
                for f in &n.named {
                    fields.push((f.ident.as_ref().unwrap().to_string(), c.cx.ty_of(&f.ty, &module, Some(&coq))));
                }
            }
            Fields::Unnamed(u) => {
                tuple = true;
                for (i, f) in u.unnamed.iter().enumerate() {
                    fields.push((i.to_string(), c.cx.ty_of(&f.ty, &module, Some(&coq))));
                }
            }
            Fields::Unit => {}
        }
        c.cx.structs.insert(coq.clone(), StructDef { coq, fields, tuple });
    }
    for (coq, module, e) in std::mem::take(&mut c.raw_enums) {
        let mut variants = vec![];
        for v in &e.variants {
            let mut fields = vec![];
            let mut named = false;
            match &v.fields {
                Fields::Named(n) => {
                    named = true;
                    for f in &n.named {
                        fields.push((f.ident.as_ref().unwrap().to_string(), c.cx.ty_of(&f.ty, &module, Some(&coq))));
                    }
                }
                Fields::Unnamed(u) => {
                    for (i, f) in u.unnamed.iter().enumerate() {
                        fields.push((i.to_string(), c.cx.ty_of(&f.ty, &module, Some(&coq))));
                    }
                }
                Fields::Unit => {}
            }
            let discr = v.discriminant.as_ref().map(|(_, e)| eval_const(&c.cx, e, &module, &[]));
            variants.push(VariantDef { name: v.ident.to_string(), coq: format!("{coq}_{}", v.ident), fields, named, discr });
        }
        c.cx.enums.insert(coq.clone(), EnumDef { coq, variants });
    }
    // drop types with unsupported fields (iteratively)
    loop {
        let bad: Vec<String> = c
            .cx
            .structs
            .values()
            .filter(|s| s.fields.iter().any(|(_, t)| !supported(t) || matches!(t, Ty::Str)))
            .map(|s| s.coq.clone())
            .chain(c.cx.enums.values().filter(|e| e.variants.iter().any(|v| v.fields.iter().any(|(_, t)| !supported(t)))).map(|e| e.coq.clone()))
            .collect();
        if bad.is_empty() {
            break;
        }
        for b in bad {
            skipped.push((format!("type {b}"), "field of unsupported type".into()));
            c.cx.structs.remove(&b);
            c.cx.enums.remove(&b);
            c.cx.type_names.retain(|_, v| v != &b);
            // fields mentioning the removed type become Unknown
            for s in c.cx.structs.values_mut() {
                for f in s.fields.iter_mut() {
                    if f.1 == Ty::Adt(b.clone()) || f.1 == Ty::Opt(Box::new(Ty::Adt(b.clone()))) {
                        f.1 = Ty::Unknown;
                    }
                }
            }
            for e in c.cx.enums.values_mut() {
                for v in e.variants.iter_mut() {
                    for f in v.fields.iter_mut() {
                        if f.1 == Ty::Adt(b.clone()) {
                            f.1 = Ty::Unknown;
                        }
                    }
                }
            }
        }
    }

    // ---- integer constants (values needed for folding)
    let raw_consts = std::mem::take(&mut c.raw_consts);
    let mut pending: Vec<&RawConst> = raw_consts.iter().collect();
    let mut progress = true;
    while progress && !pending.is_empty() {
        progress = false;
        let mut next = vec![];
        for k in pending {
            let ty = c.cx.ty_of(k.ty, &k.module, None);
            if ty.is_int() {
                let r = std::panic::catch_unwind(std::panic::AssertUnwindSafe(|| eval_const(&c.cx, k.expr, &k.module, &[])));
                match r {
                    Ok(v) => {
                        c.cx.const_vals.insert(k.coq.clone(), v);
                        c.cx.consts.insert(k.coq.clone(), (ty, zlit(v)));
                        progress = true;
                    }
                    Err(_) => next.push(k),
                }
            } else {
                skipped.push((format!("const {}", k.coq), "non-integer constant".into()));
            }
        }
        pending = next;
    }
    for k in pending {
        skipped.push((format!("const {}", k.coq), "could not evaluate".into()));
    }

    // ---- function signatures
    let raw_fns = std::mem::take(&mut c.raw_fns);
    for (module, selfinfo, sig, vis, block) in &raw_fns {
        let self_ty = match selfinfo {
            Some((m, t)) => match c.cx.ty_of(t, m, None) {
                Ty::Adt(n) => Some(n),
                _ => {
                    skipped.push((format!("fn {}::{}", t.to_token_stream(), sig.ident), "impl of unsupported type".into()));
                    continue;
                }
            },
            None => None,
        };
        let coq = match &self_ty {
            Some(t) => format!("{t}_{}", sig.ident),
            None => format!("{}{}", mod_prefix(module), sig.ident),
        };
        let mut params = vec![];
        let mut ok = true;
        for a in &sig.inputs {
            match a {
                FnArg::Receiver(_) => params.push(("self".to_string(), Ty::Adt(self_ty.clone().unwrap()))),
                FnArg::Typed(pt) => {
                    let t = c.cx.ty_of(&pt.ty, module, self_ty.as_deref());
                    if !supported(&t) || t == Ty::Str {
                        ok = false;
                    }
                    let n = match &*pt.pat {
                        Pat::Ident(i) => ident(&i.ident.to_string()),
                        _ => {
                            ok = false;
                            String::new()
                        }
                    };
                    params.push((n, t));
                }
            }
        }
        let ret = match &sig.output {
            ReturnType::Type(_, t) => c.cx.ty_of(t, module, self_ty.as_deref()),
            ReturnType::Default => Ty::Unit,
        };
        if !ok || !supported(&ret) {
            skipped.push((format!("fn {coq}"), "unsupported parameter or return type".into()));
            continue;
        }
        let rust_path = match &self_ty {
            Some(t) => format!("{}::{}", t.replace("inner_", "inner::"), sig.ident),
            None => format!("{}{}", if module.is_empty() { String::new() } else { format!("{}::", module.join("::")) }, sig.ident),
        };
        assert!(!c.cx.fns.contains_key(&coq), "name clash {coq}");
        c.cx.fns.insert(coq.clone(), FnDef { coq, rust_path, module: module.clone(), self_ty, params, ret, vis: vis_text(vis), item: block });
    }

    // ---- associated constants (translated as pure terms)
    let raw_impl_consts = std::mem::take(&mut c.raw_impl_consts);
    let mut impl_consts: Vec<(String, Vec<String>, String, &'static ImplItemConst)> = vec![];
    for (module, self_t, k) in &raw_impl_consts {
        if let Ty::Adt(t) = c.cx.ty_of(self_t, module, None) {
            let coq = format!("{t}_{}", k.ident);
            let ty = c.cx.ty_of(&k.ty, module, Some(&t));
            c.cx.consts.insert(coq.clone(), (ty, String::new()));
            impl_consts.push((coq, module.clone(), t, k));
        }
    }

    let cx: &'static Cx = Box::leak(Box::new(c.cx));

    // ---- translate
    let mut out = String::new();
    out += "(* GENERATED by rs2coq from rustc's macro-expanded source of crates/julian. DO NOT EDIT. *)\n";
    out += "From JV Require Import Sem.\nOpen Scope Z_scope.\nSet Warnings \"-unused-pattern-matching-variable\".\n\n";

    // types in dependency order
    let mut emitted: BTreeSet<String> = BTreeSet::new();
    fn emit_type(cx: &Cx, n: &str, emitted: &mut BTreeSet<String>, out: &mut String) {
        if emitted.contains(n) {
            return;
        }
        emitted.insert(n.to_string());
        let mut deps = vec![];
        if let Some(s) = cx.structs.get(n) {
            s.fields.iter().for_each(|(_, t)| type_deps(t, &mut deps));
        }
        if let Some(e) = cx.enums.get(n) {
            e.variants.iter().for_each(|v| v.fields.iter().for_each(|(_, t)| type_deps(t, &mut deps)));
        }
        for d in deps {
            emit_type(cx, &d, emitted, out);
        }
        if let Some(s) = cx.structs.get(n) {
            if s.fields.is_empty() {
                *out += &format!("Inductive {n} : Set := mk{n}.\n");
            } else {
                *out += &format!("Record {n} : Set := mk{n} {{ {} }}.\n", s.fields.iter().map(|(f, t)| format!("{n}_f_{f} : {}", t.coq())).collect::<Vec<_>>().join("; "));
            }
        }
        if let Some(e) = cx.enums.get(n) {
            *out += &format!("Inductive {n} : Set :=\n");
            for v in &e.variants {
                *out += &format!("| {}{}\n", v.coq, v.fields.iter().map(|(f, t)| format!(" ({} : {})", if v.named { ident(f) } else { format!("a{f}") }, t.coq())).collect::<String>());
            }
            out.truncate(out.len() - 1);
            *out += ".\n";
            if !e.variants.is_empty() && e.variants.iter().all(|v| v.discr.is_some()) {
                *out += &format!("Definition {n}_discr (x : {n}) : Z :=\nmatch x with\n");
                for v in &e.variants {
                    *out += &format!("| {} => {}\n", v.coq, zlit(v.discr.unwrap()));
                }
                *out += "end.\n";
            }
        }
    }
    let names: Vec<String> = cx.structs.keys().chain(cx.enums.keys()).cloned().collect();
    for n in &names {
        emit_type(cx, n, &mut emitted, &mut out);
    }
    out += "\n";
    for (n, (_, v)) in &cx.consts {
        if !v.is_empty() {
            out += &format!("Definition {n} : Z := {v}.\n");
        }
    }
    out += "\n";
    for (coq, module, t, k) in &impl_consts {
        let tr = Tr { cx, module: module.clone(), self_ty: Some(t.clone()), ret: Ty::Unknown, fresh: Cell::new(0), imports: RefCell::new(vec![]), callees: RefCell::new(BTreeSet::new()), local_consts: RefCell::new(vec![]), local_const_tys: RefCell::new(vec![]) };
        let ty = cx.consts[coq].0.clone();
        let r = std::panic::catch_unwind(std::panic::AssertUnwindSafe(|| tr.pure(&k.expr, &vec![], &ty)));
        match r {
            Ok(Some((s, _))) => out += &format!("Definition {coq} : {} := {s}.\n", ty.coq()),
            _ => skipped.push((format!("const {coq}"), "associated constant is not a pure term".into())),
        }
    }
    out += "\n";

    // functions
    let mut bodies: BTreeMap<String, (String, BTreeSet<String>)> = BTreeMap::new();
    std::panic::set_hook(Box::new(|_| {}));
    for (name, f) in &cx.fns {
        let tr = Tr { cx, module: f.module.clone(), self_ty: f.self_ty.clone(), ret: f.ret.clone(), fresh: Cell::new(0), imports: RefCell::new(vec![]), callees: RefCell::new(BTreeSet::new()), local_consts: RefCell::new(vec![]), local_const_tys: RefCell::new(vec![]) };
        let env: Env = f.params.clone();
        let r = std::panic::catch_unwind(std::panic::AssertUnwindSafe(|| tr.block(&f.item.stmts, env, &f.ret, K::Return)));
        match r {
            Ok(body) => {
                let text = format!("Definition {} {} : M {} :=\n{}.\n", name, f.params.iter().map(|(n, t)| format!("({n} : {})", t.coq())).collect::<Vec<_>>().join(" "), f.ret.coq(), body);
                bodies.insert(name.clone(), (text, tr.callees.borrow().clone()));
            }
            Err(e) => {
                let msg = e.downcast_ref::<String>().cloned().or_else(|| e.downcast_ref::<&str>().map(|s| s.to_string())).unwrap_or_default();
                skipped.push((format!("fn {name}"), msg));
            }
        }
    }
    // drop functions whose callees were skipped (transitively)
    loop {
        let bad: Vec<String> = bodies.iter().filter(|(_, (_, cs))| cs.iter().any(|c| !bodies.contains_key(c))).map(|(n, _)| n.clone()).collect();
        if bad.is_empty() {
            break;
        }
        for b in bad {
            skipped.push((format!("fn {b}"), "calls a function that was not translated".into()));
            bodies.remove(&b);
        }
    }
    let mut done: BTreeSet<String> = BTreeSet::new();
    fn emit_fn(n: &str, bodies: &BTreeMap<String, (String, BTreeSet<String>)>, done: &mut BTreeSet<String>, out: &mut String) {
        if done.contains(n) {
            return;
        }
        done.insert(n.to_string());
        for c in &bodies[n].1 {
            emit_fn(c, bodies, done, out);
        }
        *out += &bodies[n].0;
        *out += "\n";
    }
    for n in bodies.keys() {
        emit_fn(n, &bodies, &mut done, &mut out);
    }
    // Functions that the reference model (args[4]: the committed snapshot of Gen.v) does not have are helpers introduced by
    // a later edit of the source: they are registered for unfolding ([autounfold with gen_new]) so that proofs about their
    // callers see through them.
    if let Some(snap) = args.get(4) {
        if let Ok(text) = std::fs::read_to_string(snap) {
            let known: BTreeSet<String> = text.lines().filter_map(|l| l.strip_prefix("Definition ")).filter_map(|l| l.split_whitespace().next()).map(|x| x.to_string()).collect();
            let newf: Vec<&String> = bodies.keys().filter(|n| !known.contains(*n)).collect();
            if !newf.is_empty() {
                out += "\n(* functions that the committed snapshot of the model does not have *)\n";
                for n in newf {
                    out += &format!("#[global] Hint Unfold {n} : gen_new.\n");
                }
            }
        }
    }

    // ---- write
    let old = std::fs::read_to_string(&args[2]).unwrap_or_default();
    if old != out {
        std::fs::write(&args[2], &out).expect("write Gen.v");
    }
    let mut rep = String::from("{\n \"functions\": [\n");
    let mut first = true;
    for n in bodies.keys() {
        let f = &cx.fns[n];
        if !first {
            rep += ",\n";
        }
        first = false;
        rep += &format!("  {{\"coq\": \"{}\", \"rust\": \"{}\", \"vis\": \"{}\", \"params\": [{}], \"ret\": \"{}\"}}", n, f.rust_path, f.vis, f.params.iter().map(|(p, t)| format!("\"{p}: {}\"", t.coq())).collect::<Vec<_>>().join(", "), f.ret.coq());
    }
    rep += "\n ],\n \"skipped\": [\n";
    rep += &skipped.iter().map(|(n, why)| format!("  {{\"item\": \"{}\", \"reason\": \"{}\"}}", n, why.replace('\\', "\\\\").replace('"', "'").replace('\n', " "))).collect::<Vec<_>>().join(",\n");
    rep += "\n ],\n \"nonconst_api\": [\n";
    let mut other = std::mem::take(&mut c.other_api);
    other.sort();
    other.dedup();
    rep += &other.iter().map(|n| format!("  \"{}\"", n.replace('\\', "\\\\").replace('"', "'"))).collect::<Vec<_>>().join(",\n");
    rep += "\n ]\n}\n";
    std::fs::write(&args[3], rep).expect("write report");
    eprintln!("rs2coq: {} functions translated, {} items skipped", bodies.len(), skipped.len());
}
