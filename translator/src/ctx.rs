//! Item tables and types for rs2coq.
use std::collections::{BTreeMap, BTreeSet};

#[derive(Clone, Debug, PartialEq)]
pub enum Ty {
    Int(&'static str),
    IntVar,
    Bool,
    Unit,
    Str,
    Tuple(Vec<Ty>),
    Opt(Box<Ty>),
    Res(Box<Ty>, Box<Ty>),
    Adt(String),
    Range,
    Unknown,
}

impl Ty {
    pub fn is_int(&self) -> bool {
        matches!(self, Ty::Int(_))
    }
    pub fn is_intlike(&self) -> bool {
        matches!(self, Ty::Int(_) | Ty::IntVar)
    }
    pub fn coq(&self) -> String {
        match self {
            Ty::Int(_) | Ty::IntVar => "Z".into(),
            Ty::Bool => "bool".into(),
            Ty::Unit => "unit".into(),
            Ty::Str => "string".into(),
            Ty::Tuple(ts) => format!("({})", ts.iter().map(|t| t.coq()).collect::<Vec<_>>().join(" * ")),
            Ty::Opt(t) => format!("(option {})", t.coq()),
            Ty::Res(t, e) => format!("(Result {} {})", t.coq(), e.coq()),
            Ty::Adt(n) => n.clone(),
            Ty::Range => "RangeInclusive".into(),
            Ty::Unknown => "_".into(),
        }
    }
    pub fn known(&self) -> bool {
        match self {
            Ty::Unknown | Ty::IntVar => false,
            Ty::Tuple(ts) => ts.iter().all(|t| t.known()),
            Ty::Opt(t) => t.known(),
            Ty::Res(a, b) => a.known() && b.known(),
            _ => true,
        }
    }
}

pub fn int_ty(name: &str) -> Option<&'static str> {
    Some(match name {
        "i8" => "i8",
        "i16" => "i16",
        "i32" => "i32",
        "i64" => "i64",
        "i128" => "i128",
        "isize" => "isize",
        "u8" => "u8",
        "u16" => "u16",
        "u32" => "u32",
        "u64" => "u64",
        "u128" => "u128",
        "usize" => "usize",
        _ => return None,
    })
}

pub fn int_bounds(t: &str) -> (i128, i128) {
    match t {
        "i8" => (i8::MIN as i128, i8::MAX as i128),
        "i16" => (i16::MIN as i128, i16::MAX as i128),
        "i32" => (i32::MIN as i128, i32::MAX as i128),
        "i64" | "isize" => (i64::MIN as i128, i64::MAX as i128),
        "u8" => (0, u8::MAX as i128),
        "u16" => (0, u16::MAX as i128),
        "u32" => (0, u32::MAX as i128),
        "u64" | "usize" => (0, u64::MAX as i128),
        _ => panic!("bounds of {t}"),
    }
}

#[derive(Clone, Debug)]
pub struct StructDef {
    pub coq: String,
    pub fields: Vec<(String, Ty)>,
    pub tuple: bool,
}

#[derive(Clone, Debug)]
pub struct VariantDef {
    pub name: String,
    pub coq: String,
    pub fields: Vec<(String, Ty)>,
    pub named: bool,
    pub discr: Option<i128>,
}

#[derive(Clone, Debug)]
pub struct EnumDef {
    pub coq: String,
    pub variants: Vec<VariantDef>,
}

pub struct FnDef {
    pub coq: String,
    pub rust_path: String,
    pub module: Vec<String>,
    pub self_ty: Option<String>,
    pub params: Vec<(String, Ty)>,
    pub ret: Ty,
    pub vis: String,
    pub item: &'static syn::Block,
}

#[derive(Default)]
pub struct Cx {
    pub aliases: BTreeMap<String, Ty>,
    /// (module path joined by "::", rust name) -> coq type name
    pub type_names: BTreeMap<(String, String), String>,
    pub structs: BTreeMap<String, StructDef>,
    pub enums: BTreeMap<String, EnumDef>,
    pub fns: BTreeMap<String, FnDef>,
    /// coq const name -> (type, coq value text)
    pub consts: BTreeMap<String, (Ty, String)>,
    pub const_vals: BTreeMap<String, i128>,
    pub modules: BTreeSet<String>,
}

pub fn mod_prefix(module: &[String]) -> String {
    match module.last().map(|s| s.as_str()) {
        Some("inner") => "inner_".into(),
        Some("ncal") => "ncal_".into(),
        _ => String::new(),
    }
}

const COQ_KEYWORDS: &[&str] = &[
    "as", "at", "cofix", "else", "end", "exists", "exists2", "fix", "for", "forall", "fun", "if", "IF", "in", "let",
    "match", "mod", "return", "Set", "Prop", "Type", "then", "using", "where", "with", "Ret", "Panic", "bind", "Ok",
    "Err", "Some", "None", "tt", "true", "false",
    // constructors and functions of Coq's prelude / Sem.v that a Rust local could be named after: as a pattern variable
    // such a name would be read as the constructor, as a `let` it would shadow what the generated code itself uses
    "pair", "nil", "cons", "inl", "inr", "left", "right", "exist", "conj", "eq_refl", "xH", "xI", "xO", "Z0", "Zpos", "Zneg",
    "O", "S", "I", "Eq", "Lt", "Gt", "fst", "snd", "negb", "andb", "orb", "chk", "chko", "of_bool", "to_u32", "to_i32", "to_i64",
    "to_u16", "to_u8", "mkRange", "nat", "bool", "unit", "option", "list", "prod", "Z", "M", "Result",
];

pub fn ident(s: &str) -> String {
    let s = s.trim_start_matches("r#");
    if COQ_KEYWORDS.contains(&s) {
        format!("{s}_")
    } else {
        s.to_string()
    }
}

impl Cx {
    /// Resolve a type name seen in `module`.
    pub fn type_name(&self, segs: &[String], module: &[String]) -> Option<String> {
        let segs: Vec<&String> = segs.iter().filter(|s| !matches!(s.as_str(), "crate" | "super" | "self")).collect();
        if segs.is_empty() {
            return None;
        }
        let (m, name): (Option<String>, &String) = if segs.len() >= 2 && self.modules.contains(segs[segs.len() - 2]) {
            (Some(segs[segs.len() - 2].clone()), segs[segs.len() - 1])
        } else {
            (None, segs[segs.len() - 1])
        };
        if let Some(m) = m {
            return self.type_names.get(&(m, name.clone())).cloned();
        }
        let cur = module.last().cloned().unwrap_or_default();
        if let Some(c) = self.type_names.get(&(cur, name.clone())) {
            return Some(c.clone());
        }
        let found: Vec<&String> = self.type_names.iter().filter(|((_, n), _)| n == name).map(|(_, c)| c).collect();
        if found.len() == 1 {
            Some(found[0].clone())
        } else if found.len() > 1 {
            // prefer top-level
            self.type_names.get(&(String::new(), name.clone())).cloned()
        } else {
            None
        }
    }

    pub fn ty_of(&self, t: &syn::Type, module: &[String], self_ty: Option<&str>) -> Ty {
        use syn::*;
        match t {
            Type::Path(p) => {
                let segs: Vec<String> = p.path.segments.iter().map(|s| s.ident.to_string()).collect();
                let last = p.path.segments.last().unwrap();
                let n = last.ident.to_string();
                let arg = |i: usize| -> Ty {
                    if let PathArguments::AngleBracketed(a) = &last.arguments {
                        if let Some(GenericArgument::Type(t)) = a.args.iter().nth(i) {
                            return self.ty_of(t, module, self_ty);
                        }
                    }
                    Ty::Unknown
                };
                if segs.len() == 1 || segs[0] == "core" || segs[0] == "std" {
                    if let Some(i) = int_ty(&n) {
                        return Ty::Int(i);
                    }
                    match n.as_str() {
                        "bool" => return Ty::Bool,
                        "str" => return Ty::Str,
                        "Option" => return Ty::Opt(Box::new(arg(0))),
                        "Result" => return Ty::Res(Box::new(arg(0)), Box::new(arg(1))),
                        "RangeInclusive" => return Ty::Range,
                        "Self" => return self_ty.map(|s| Ty::Adt(s.to_string())).unwrap_or(Ty::Unknown),
                        _ => {}
                    }
                }
                if let Some(a) = self.aliases.get(&n) {
                    return a.clone();
                }
                match self.type_name(&segs, module) {
                    Some(c) => Ty::Adt(c),
                    None => Ty::Unknown,
                }
            }
            Type::Tuple(t) => {
                if t.elems.is_empty() {
                    Ty::Unit
                } else {
                    Ty::Tuple(t.elems.iter().map(|t| self.ty_of(t, module, self_ty)).collect())
                }
            }
            Type::Reference(r) => self.ty_of(&r.elem, module, self_ty),
            Type::Paren(p) => self.ty_of(&p.elem, module, self_ty),
            Type::Group(p) => self.ty_of(&p.elem, module, self_ty),
            _ => Ty::Unknown,
        }
    }

    pub fn enum_of_variant_ctor(&self, coq_ctor: &str) -> Option<(&EnumDef, &VariantDef)> {
        for e in self.enums.values() {
            for v in &e.variants {
                if v.coq == coq_ctor {
                    return Some((e, v));
                }
            }
        }
        None
    }
}
