//! Translator state, path resolution, patterns and the pure-expression fragment.
use crate::ctx::*;
use crate::useful::AP;
use quote::ToTokens;
use std::cell::{Cell, RefCell};
use std::collections::BTreeSet;
use syn::*;

pub type Env = Vec<(String, Ty)>;

pub enum K {
    Return,
    Dead,
    Fn(Box<dyn FnOnce(&Tr, String, Ty, &Env) -> String>),
}

pub struct Tr {
    pub cx: &'static Cx,
    pub module: Vec<String>,
    pub self_ty: Option<String>,
    pub ret: Ty,
    pub fresh: Cell<u32>,
    pub imports: RefCell<Vec<String>>,
    pub callees: RefCell<BTreeSet<String>>,
    pub local_consts: RefCell<Vec<(String, i128)>>,
    pub local_const_tys: RefCell<Vec<(String, Ty)>>,
}

pub fn lookup(env: &Env, n: &str) -> Option<Ty> {
    env.iter().rev().find(|(m, _)| m == n).map(|(_, t)| t.clone())
}

pub fn zlit(v: i128) -> String {
    if v < 0 {
        format!("({v})")
    } else {
        format!("{v}")
    }
}

pub fn coq_string(s: &str) -> String {
    format!("\"{}\"%string", s.replace('"', "\"\""))
}

pub fn path_segs(p: &Path) -> Vec<String> {
    p.segments.iter().map(|s| s.ident.to_string()).collect()
}

pub fn is_ident_text(s: &str) -> bool {
    !s.is_empty() && s.chars().all(|c| c.is_alphanumeric() || c == '_' || c == '\'')
}

impl Tr {
    pub fn tmp(&self, p: &str) -> String {
        let n = self.fresh.get();
        self.fresh.set(n + 1);
        format!("{p}{n}")
    }

    pub fn apply(&self, k: K, v: String, t: Ty, env: &Env) -> String {
        match k {
            K::Return => format!("Ret {v}"),
            K::Dead => panic!("continuation of a branch classified as diverging was invoked"),
            K::Fn(f) => f(self, v, t, env),
        }
    }

    pub fn tyof(&self, t: &Type) -> Ty {
        self.cx.ty_of(t, &self.module, self.self_ty.as_deref())
    }

    fn strip<'a>(&self, segs: &'a [String]) -> Vec<String> {
        let mut out = vec![];
        for s in segs {
            match s.as_str() {
                "crate" | "super" | "self" => {}
                "Self" => out.push(self.self_ty.clone().unwrap_or_else(|| panic!("Self outside impl"))),
                _ => out.push(s.clone()),
            }
        }
        out
    }

    /// Resolve the type named by `segs` (which may start with Self, already a coq name).
    pub fn resolve_type(&self, segs: &[String]) -> Option<String> {
        let segs = self.strip(segs);
        if segs.len() == 1 && (self.cx.structs.contains_key(&segs[0]) || self.cx.enums.contains_key(&segs[0])) {
            // may already be a coq name (from Self)
            if self.cx.type_name(&segs, &self.module).is_none() {
                return Some(segs[0].clone());
            }
        }
        self.cx.type_name(&segs, &self.module)
    }

    pub fn resolve_variant(&self, segs: &[String], hint: Option<&Ty>) -> Option<(&'static EnumDef, &'static VariantDef)> {
        let segs = self.strip(segs);
        let n = segs.len();
        let last = &segs[n - 1];
        if n >= 2 {
            if let Some(t) = self.resolve_type(&segs[..n - 1]) {
                if let Some(e) = self.cx.enums.get(&t) {
                    return e.variants.iter().find(|v| &v.name == last).map(|v| (e, v));
                }
            }
            return None;
        }
        if let Some(Ty::Adt(t)) = hint {
            if let Some(e) = self.cx.enums.get(t) {
                if let Some(v) = e.variants.iter().find(|v| &v.name == last) {
                    return Some((e, v));
                }
            }
        }
        for imp in self.imports.borrow().iter().rev() {
            if let Some(e) = self.cx.enums.get(imp) {
                if let Some(v) = e.variants.iter().find(|v| &v.name == last) {
                    return Some((e, v));
                }
            }
        }
        None
    }

    /// constants: returns (coq text, type)
    pub fn resolve_const(&self, segs: &[String]) -> Option<(String, Ty)> {
        let segs = self.strip(segs);
        let n = segs.len();
        let last = &segs[n - 1];
        if n == 1 {
            if let Some((_, v)) = self.local_consts.borrow().iter().rev().find(|(m, _)| m == last) {
                let t = self.local_const_tys.borrow().iter().rev().find(|(m, _)| m == last).map(|(_, t)| t.clone()).unwrap_or(Ty::Unknown);
                return Some((zlit(*v), t));
            }
        }
        if n == 2 && (last == "MIN" || last == "MAX") {
            let t = int_ty(&segs[0]).or_else(|| match self.cx.aliases.get(&segs[0]) {
                Some(Ty::Int(i)) => Some(*i),
                _ => None,
            });
            if let Some(t) = t {
                let (lo, hi) = int_bounds(t);
                return Some((zlit(if last == "MIN" { lo } else { hi }), Ty::Int(t)));
            }
        }
        let mut cands = vec![];
        if n == 1 {
            cands.push(format!("{}{}", mod_prefix(&self.module), last));
            cands.push(last.clone());
            if let Some(s) = &self.self_ty {
                cands.push(format!("{s}_{last}"));
            }
        } else {
            if let Some(t) = self.resolve_type(&segs[..n - 1]) {
                cands.push(format!("{t}_{last}"));
            }
            if self.cx.modules.contains(&segs[n - 2]) {
                cands.push(format!("{}{}", mod_prefix(&segs[n - 2..n - 1]), last));
            }
        }
        for c in cands {
            if let Some((t, _)) = self.cx.consts.get(&c) {
                return Some((c, t.clone()));
            }
        }
        None
    }

    pub fn resolve_fn(&self, segs: &[String]) -> Option<&'static FnDef> {
        let segs = self.strip(segs);
        let n = segs.len();
        let last = &segs[n - 1];
        let mut cands = vec![];
        if n == 1 {
            cands.push(format!("{}{}", mod_prefix(&self.module), last));
            cands.push(last.clone());
        } else {
            if let Some(t) = self.resolve_type(&segs[..n - 1]) {
                cands.push(format!("{t}_{last}"));
            }
            if self.cx.modules.contains(&segs[n - 2]) {
                cands.push(format!("{}{}", mod_prefix(&segs[n - 2..n - 1]), last));
            }
        }
        for c in cands {
            if let Some(f) = self.cx.fns.get(&c) {
                return Some(f);
            }
        }
        None
    }

    pub fn note_use(&self, u: &ItemUse) {
        fn walk(tr: &Tr, t: &UseTree, prefix: Vec<String>) {
            match t {
                UseTree::Path(p) => {
                    let mut pr = prefix;
                    pr.push(p.ident.to_string());
                    walk(tr, &p.tree, pr)
                }
                UseTree::Glob(_) => {
                    if let Some(t) = tr.resolve_type(&prefix) {
                        if tr.cx.enums.contains_key(&t) {
                            tr.imports.borrow_mut().push(t);
                        }
                    }
                }
                UseTree::Group(g) => {
                    for i in &g.items {
                        walk(tr, i, prefix.clone())
                    }
                }
                _ => {}
            }
        }
        walk(self, &u.tree, vec![]);
    }

    // ------------------------------------------------------------------ patterns
    fn enum_family(&self, e: &EnumDef) -> Vec<(String, usize)> {
        e.variants.iter().map(|v| (v.coq.clone(), v.fields.len())).collect()
    }

    fn ctor_pat(&self, coq: &str, subs: Vec<(String, AP)>, fam: Vec<(String, usize)>) -> (String, AP) {
        let aps = subs.iter().map(|(_, a)| a.clone()).collect();
        let s = if subs.is_empty() {
            coq.to_string()
        } else {
            format!("({} {})", coq, subs.iter().map(|(s, _)| s.clone()).collect::<Vec<_>>().join(" "))
        };
        (s, AP::Ctor(coq.to_string(), aps, fam))
    }

    pub fn pat(&self, p: &Pat, ty: &Ty, env: &mut Env) -> (String, AP) {
        match p {
            Pat::Wild(_) => ("_".into(), AP::Wild),
            Pat::Paren(pp) => self.pat(&pp.pat, ty, env),
            Pat::Reference(r) => self.pat(&r.pat, ty, env),
            Pat::Type(t) => self.pat(&t.pat, ty, env),
            Pat::Ident(i) => {
                let n = i.ident.to_string();
                if i.subpat.is_none() {
                    if n == "None" {
                        return self.ctor_pat("None", vec![], vec![("Some".into(), 1), ("None".into(), 0)]);
                    }
                    if let Some((e, v)) = self.resolve_variant(&[n.clone()], Some(ty)) {
                        if v.fields.is_empty() {
                            return self.ctor_pat(&v.coq, vec![], self.enum_family(e));
                        }
                    }
                    if let Some(t) = self.resolve_type(&[n.clone()]) {
                        if let Some(s) = self.cx.structs.get(&t) {
                            if s.fields.is_empty() {
                                return self.ctor_pat(&format!("mk{t}"), vec![], vec![(format!("mk{t}"), 0)]);
                            }
                        }
                    }
                    let c = ident(&n);
                    env.push((c.clone(), ty.clone()));
                    (c, AP::Wild)
                } else {
                    let (s, ap) = self.pat(&i.subpat.as_ref().unwrap().1, ty, env);
                    let c = ident(&n);
                    env.push((c.clone(), ty.clone()));
                    (format!("({s} as {c})"), ap)
                }
            }
            Pat::Path(pp) => {
                let segs = path_segs(&pp.path);
                if segs.len() == 1 && segs[0] == "None" {
                    return self.ctor_pat("None", vec![], vec![("Some".into(), 1), ("None".into(), 0)]);
                }
                if let Some((e, v)) = self.resolve_variant(&segs, Some(ty)) {
                    return self.ctor_pat(&v.coq, vec![], self.enum_family(e));
                }
                if let Some(t) = self.resolve_type(&segs) {
                    if self.cx.structs.get(&t).map(|s| s.fields.is_empty()).unwrap_or(false) {
                        return self.ctor_pat(&format!("mk{t}"), vec![], vec![(format!("mk{t}"), 0)]);
                    }
                }
                if let Some((c, _)) = self.resolve_const(&segs) {
                    let v = self.cx.const_vals.get(&c).unwrap_or_else(|| panic!("const pattern {c} has no value"));
                    return (zlit(*v), AP::Ctor(format!("{v}"), vec![], vec![]));
                }
                panic!("unresolved path pattern {}", p.to_token_stream())
            }
            Pat::Lit(l) => match &l.lit {
                Lit::Int(i) => {
                    let v: i128 = i.base10_parse().unwrap();
                    (zlit(v), AP::Ctor(format!("{v}"), vec![], vec![]))
                }
                Lit::Bool(b) => (
                    b.value.to_string(),
                    AP::Ctor(b.value.to_string(), vec![], vec![("true".into(), 0), ("false".into(), 0)]),
                ),
                _ => panic!("literal pattern {}", p.to_token_stream()),
            },
            Pat::Tuple(t) => {
                let tys: Vec<Ty> = match ty {
                    Ty::Tuple(ts) if ts.len() == t.elems.len() => ts.clone(),
                    _ => vec![Ty::Unknown; t.elems.len()],
                };
                let subs: Vec<(String, AP)> = t.elems.iter().zip(tys.iter()).map(|(q, qt)| self.pat(q, qt, env)).collect();
                let n = subs.len();
                let s = format!("({})", subs.iter().map(|(s, _)| s.clone()).collect::<Vec<_>>().join(", "));
                (s, AP::Ctor(format!("tuple{n}"), subs.into_iter().map(|(_, a)| a).collect(), vec![(format!("tuple{n}"), n)]))
            }
            Pat::Or(o) => {
                let mut envs: Vec<Env> = vec![];
                let mut strs = vec![];
                let mut aps = vec![];
                for c in &o.cases {
                    let mut e2 = env.clone();
                    let (s, a) = self.pat(c, ty, &mut e2);
                    strs.push(s);
                    aps.push(a);
                    envs.push(e2);
                }
                *env = envs.pop().unwrap();
                (format!("({})", strs.join(" | ")), AP::Or(aps))
            }
            Pat::TupleStruct(ts) => {
                let segs = path_segs(&ts.path);
                let last = segs.last().unwrap().as_str();
                if segs.len() == 1 && matches!(last, "Some" | "Ok" | "Err") {
                    let (inner, fam) = match (last, ty) {
                        ("Some", Ty::Opt(t)) => ((**t).clone(), vec![("Some".to_string(), 1), ("None".to_string(), 0)]),
                        ("Some", _) => (Ty::Unknown, vec![("Some".to_string(), 1), ("None".to_string(), 0)]),
                        ("Ok", Ty::Res(t, _)) => ((**t).clone(), vec![("Ok".to_string(), 1), ("Err".to_string(), 1)]),
                        ("Err", Ty::Res(_, e)) => ((**e).clone(), vec![("Ok".to_string(), 1), ("Err".to_string(), 1)]),
                        _ => (Ty::Unknown, vec![("Ok".to_string(), 1), ("Err".to_string(), 1)]),
                    };
                    assert!(ts.elems.len() == 1);
                    let sub = self.pat(&ts.elems[0], &inner, env);
                    return self.ctor_pat(last, vec![sub], fam);
                }
                if let Some((e, v)) = self.resolve_variant(&segs, Some(ty)) {
                    let subs = ts.elems.iter().zip(v.fields.iter()).map(|(q, (_, ft))| self.pat(q, ft, env)).collect();
                    return self.ctor_pat(&v.coq, subs, self.enum_family(e));
                }
                if let Some(t) = self.resolve_type(&segs) {
                    if let Some(s) = self.cx.structs.get(&t) {
                        let subs = ts.elems.iter().zip(s.fields.iter()).map(|(q, (_, ft))| self.pat(q, ft, env)).collect();
                        return self.ctor_pat(&format!("mk{t}"), subs, vec![(format!("mk{t}"), s.fields.len())]);
                    }
                }
                panic!("unresolved tuple-struct pattern {}", p.to_token_stream())
            }
            Pat::Struct(ps) => {
                let segs = path_segs(&ps.path);
                let (coq, fields, fam): (String, Vec<(String, Ty)>, Vec<(String, usize)>) =
                    if let Some((e, v)) = self.resolve_variant(&segs, Some(ty)) {
                        (v.coq.clone(), v.fields.clone(), self.enum_family(e))
                    } else if let Some(t) = self.resolve_type(&segs) {
                        let s = self.cx.structs.get(&t).unwrap_or_else(|| panic!("struct pattern on non-struct {t}"));
                        (format!("mk{t}"), s.fields.clone(), vec![(format!("mk{t}"), s.fields.len())])
                    } else {
                        panic!("unresolved struct pattern {}", p.to_token_stream())
                    };
                let mut subs = vec![];
                for (fname, fty) in &fields {
                    let fp = ps.fields.iter().find(|fp| match &fp.member {
                        Member::Named(i) => &i.to_string() == fname,
                        Member::Unnamed(i) => &i.index.to_string() == fname,
                    });
                    match fp {
                        Some(fp) => subs.push(self.pat(&fp.pat, fty, env)),
                        None => {
                            assert!(ps.rest.is_some(), "missing field {fname} in pattern without ..");
                            subs.push(("_".to_string(), AP::Wild))
                        }
                    }
                }
                self.ctor_pat(&coq, subs, fam)
            }
            _ => panic!("unsupported pattern {}", p.to_token_stream()),
        }
    }

    /// text of a let-binding pattern (irrefutable)
    pub fn let_pat(&self, p: &Pat, ty: &Ty, env: &mut Env) -> String {
        match p {
            Pat::Ident(i) if i.subpat.is_none() => {
                let c = ident(&i.ident.to_string());
                env.push((c.clone(), ty.clone()));
                c
            }
            Pat::Wild(_) => "_".into(),
            Pat::Type(t) => {
                let ty2 = self.tyof(&t.ty);
                self.let_pat(&t.pat, &ty2, env)
            }
            _ => {
                let (s, _) = self.pat(p, ty, env);
                format!("'{s}")
            }
        }
    }

    // ------------------------------------------------------------------ match groups
    /// arms: (pattern text, abstract pattern, guard (prefix binds, condition), body text)
    pub fn groups_text(&self, scrut: &str, arms: Vec<(String, AP, Option<(String, String)>, String)>, unreachable: Option<&str>) -> Option<String> {
        // split into groups: each group ends at a guarded arm
        let mut groups: Vec<Vec<(String, AP, Option<(String, String)>, String)>> = vec![vec![]];
        for a in arms {
            let guarded = a.2.is_some();
            groups.last_mut().unwrap().push(a);
            if guarded {
                groups.push(vec![]);
            }
        }
        if groups.last().unwrap().is_empty() {
            groups.pop();
        }
        fn go(tr: &Tr, scrut: &str, mut groups: Vec<Vec<(String, AP, Option<(String, String)>, String)>>, unreachable: Option<&str>) -> Option<String> {
            let g = groups.remove(0);
            let has_rest = !groups.is_empty();
            let last_guarded = g.last().unwrap().2.is_some();
            let mut out = String::new();
            let rest_name = if last_guarded { Some(tr.tmp("rest")) } else { None };
            if let Some(r) = &rest_name {
                let rest_body = if has_rest {
                    go(tr, scrut, groups, unreachable)?
                } else {
                    unreachable?.to_string()
                };
                out += &format!("let {r} := fun (_ : unit) =>\n{rest_body} in\n");
            }
            out += &format!("match {scrut} with\n");
            let aps: Vec<AP> = g.iter().map(|a| a.1.clone()).collect();
            for (ps, _, guard, body) in g {
                match guard {
                    None => out += &format!("| {ps} => {body}\n"),
                    Some((pre, cond)) => {
                        let r = rest_name.as_ref().unwrap();
                        if pre == "\u{4}" {
                            out += &format!("| {ps} => {}\n", cond.replace('\u{3}', &body).replace('\u{2}', r))
                        } else {
                            out += &format!("| {ps} => {pre}if {cond} then {body} else {r} tt\n")
                        }
                    }
                }
            }
            if !crate::useful::exhaustive(&aps) {
                match &rest_name {
                    Some(r) => out += &format!("| _ => {r} tt\n"),
                    None => out += &format!("| _ => {}\n", unreachable?),
                }
            }
            out += "end";
            Some(out)
        }
        go(self, scrut, groups, unreachable)
    }

    // ------------------------------------------------------------------ pure expressions
    pub fn pure(&self, e: &Expr, env: &Env, expect: &Ty) -> Option<(String, Ty)> {
        match e {
            Expr::Paren(p) => self.pure(&p.expr, env, expect),
            Expr::Group(p) => self.pure(&p.expr, env, expect),
            Expr::Reference(r) => self.pure(&r.expr, env, expect),
            Expr::Lit(l) => match &l.lit {
                Lit::Int(i) => {
                    let v: i128 = i.base10_parse().ok()?;
                    let ty = match int_ty(i.suffix()) {
                        Some(t) => Ty::Int(t),
                        None => {
                            if expect.is_int() {
                                expect.clone()
                            } else {
                                Ty::IntVar
                            }
                        }
                    };
                    Some((zlit(v), ty))
                }
                Lit::Bool(b) => Some((b.value.to_string(), Ty::Bool)),
                Lit::Str(s) => Some((coq_string(&s.value()), Ty::Str)),
                _ => None,
            },
            Expr::Path(p) => {
                let segs = path_segs(&p.path);
                if segs.len() == 1 {
                    let n = ident(&segs[0]);
                    if let Some(t) = lookup(env, &n) {
                        return Some((n, t));
                    }
                    if segs[0] == "self" {
                        return Some(("self".into(), self.self_ty.clone().map(Ty::Adt).unwrap_or(Ty::Unknown)));
                    }
                    if segs[0] == "None" {
                        let t = if let Ty::Opt(_) = expect { expect.clone() } else { Ty::Opt(Box::new(Ty::Unknown)) };
                        return Some(("None".into(), t));
                    }
                }
                if let Some((e, v)) = self.resolve_variant(&segs, Some(expect)) {
                    if v.fields.is_empty() {
                        return Some((v.coq.clone(), Ty::Adt(e.coq.clone())));
                    }
                }
                if let Some((c, t)) = self.resolve_const(&segs) {
                    return Some((c, t));
                }
                if let Some(t) = self.resolve_type(&segs) {
                    if self.cx.structs.get(&t).map(|s| s.fields.is_empty()).unwrap_or(false) {
                        return Some((format!("mk{t}"), Ty::Adt(t)));
                    }
                }
                panic!("unresolved path {}", e.to_token_stream())
            }
            Expr::Unary(u) => match u.op {
                UnOp::Not(_) => {
                    let (s, t) = self.pure(&u.expr, env, &Ty::Bool)?;
                    assert!(matches!(t, Ty::Bool | Ty::Unknown), "! on non-bool");
                    Some((format!("(negb {s})"), Ty::Bool))
                }
                UnOp::Neg(_) => {
                    if let Expr::Lit(ExprLit { lit: Lit::Int(i), .. }) = &*u.expr {
                        let v: i128 = i.base10_parse().ok()?;
                        let ty = match int_ty(i.suffix()) {
                            Some(t) => Ty::Int(t),
                            None => {
                                if expect.is_int() {
                                    expect.clone()
                                } else {
                                    Ty::IntVar
                                }
                            }
                        };
                        return Some((zlit(-v), ty));
                    }
                    None
                }
                UnOp::Deref(_) => self.pure(&u.expr, env, expect),
                _ => None,
            },
            Expr::Cast(c) => {
                let to = self.tyof(&c.ty);
                let (s, from) = self.pure(&c.expr, env, &Ty::Unknown)?;
                Some((self.cast(s, &from, &to), to))
            }
            Expr::Binary(b) => {
                use BinOp::*;
                match b.op {
                    And(_) | Or(_) => {
                        let (l, _) = self.pure(&b.left, env, &Ty::Bool)?;
                        let (r, _) = self.pure(&b.right, env, &Ty::Bool)?;
                        let op = if matches!(b.op, And(_)) { "&&" } else { "||" };
                        Some((format!("({l} {op} {r})"), Ty::Bool))
                    }
                    Lt(_) | Le(_) | Gt(_) | Ge(_) | Eq(_) | Ne(_) => {
                        let (l, lt) = self.pure(&b.left, env, &Ty::Unknown)?;
                        let (r, rt) = self.pure(&b.right, env, &lt)?;
                        Some((self.compare(&b.op, l, &lt, r, &rt), Ty::Bool))
                    }
                    _ => None,
                }
            }
            Expr::Field(f) => {
                let (b, bt) = self.pure(&f.base, env, &Ty::Unknown)?;
                Some(self.field(b, &bt, &f.member))
            }
            Expr::Tuple(t) => {
                if t.elems.is_empty() {
                    return Some(("tt".into(), Ty::Unit));
                }
                let exps: Vec<Ty> = match expect {
                    Ty::Tuple(ts) if ts.len() == t.elems.len() => ts.clone(),
                    _ => vec![Ty::Unknown; t.elems.len()],
                };
                let mut ss = vec![];
                let mut ts = vec![];
                for (x, xt) in t.elems.iter().zip(exps.iter()) {
                    let (s, t) = self.pure(x, env, xt)?;
                    ss.push(s);
                    ts.push(t);
                }
                Some((format!("({})", ss.join(", ")), Ty::Tuple(ts)))
            }
            Expr::Struct(s) => {
                let (coq, fields, ty) = self.struct_target(&s.path, expect);
                assert!(s.rest.is_none(), "struct update syntax");
                let mut vals = vec![];
                for (fname, fty) in &fields {
                    let fv = s
                        .fields
                        .iter()
                        .find(|fv| match &fv.member {
                            Member::Named(i) => &i.to_string() == fname,
                            Member::Unnamed(i) => &i.index.to_string() == fname,
                        })
                        .unwrap_or_else(|| panic!("missing field {fname}"));
                    let (v, _) = self.pure(&fv.expr, env, fty)?;
                    vals.push(v);
                }
                Some((self.build(&coq, vals), ty))
            }
            Expr::Call(c) => {
                let Expr::Path(p) = &*c.func else { return None };
                let segs = path_segs(&p.path);
                let (coq, ptys, rty) = self.ctor_target(&segs, expect)?;
                let mut vals = vec![];
                let mut tys = vec![];
                for (a, t) in c.args.iter().zip(ptys.iter()) {
                    let (v, vt) = self.pure(a, env, t)?;
                    vals.push(v);
                    tys.push(vt);
                }
                let rty = match (coq.as_str(), rty) {
                    ("Some", _) => Ty::Opt(Box::new(tys[0].clone())),
                    ("Ok", Ty::Res(_, e)) => Ty::Res(Box::new(tys[0].clone()), e),
                    ("Err", Ty::Res(t, _)) => Ty::Res(t, Box::new(tys[0].clone())),
                    (_, r) => r,
                };
                Some((self.build(&coq, vals), rty))
            }
            Expr::MethodCall(m) => {
                let name = m.method.to_string();
                if name == "checked_add" || name == "checked_sub" {
                    let (r, rt) = self.pure(&m.receiver, env, &Ty::Unknown)?;
                    let (a, at) = self.pure(&m.args[0], env, &rt)?;
                    let t = self.pick_int(&rt, &at, &Ty::Unknown);
                    let Ty::Int(tn) = t else { panic!("checked op on unknown int type") };
                    return Some((format!("({tn}_{name} {r} {a})"), Ty::Opt(Box::new(Ty::Int(tn)))));
                }
                None
            }
            Expr::Range(r) => {
                assert!(matches!(r.limits, RangeLimits::Closed(_)), "only ..= ranges");
                let (a, _) = self.pure(r.start.as_ref()?, env, &Ty::Unknown)?;
                let (b, _) = self.pure(r.end.as_ref()?, env, &Ty::Unknown)?;
                Some((format!("(mkRange {a} {b} false)"), Ty::Range))
            }
            Expr::Block(b) => {
                if b.block.stmts.len() == 1 {
                    if let Stmt::Expr(x, None) = &b.block.stmts[0] {
                        return self.pure(x, env, expect);
                    }
                }
                None
            }
            Expr::If(i) => {
                if matches!(&*i.cond, Expr::Let(_)) {
                    return None;
                }
                let (c, _) = self.pure(&i.cond, env, &Ty::Bool)?;
                let (_, els) = i.else_branch.as_ref()?;
                let thn = Expr::Block(ExprBlock { attrs: vec![], label: None, block: i.then_branch.clone() });
                let (a, at) = self.pure(&thn, env, expect)?;
                let (b, bt) = self.pure(els, env, if at.known() { &at } else { expect })?;
                let t = if at.known() { at } else { bt };
                Some((format!("(if {c} then {a} else {b})"), t))
            }
            Expr::Match(m) => {
                let (s, st) = self.pure(&m.expr, env, &Ty::Unknown)?;
                let mut arms = vec![];
                let mut rty = Ty::Unknown;
                for arm in &m.arms {
                    let mut env2 = env.clone();
                    let (ps, ap) = self.pat(&arm.pat, &st, &mut env2);
                    let guard = match &arm.guard {
                        Some((_, g)) => Some((String::new(), self.pure(g, &env2, &Ty::Bool)?.0)),
                        None => None,
                    };
                    let (b, bt) = self.pure(&arm.body, &env2, if rty.known() { &rty } else { expect })?;
                    if !rty.known() {
                        rty = bt;
                    }
                    arms.push((ps, ap, guard, b));
                }
                let multi = arms.iter().filter(|a| a.2.is_some()).count() > 0;
                if multi && !is_ident_text(&s) {
                    let m = self.tmp("m");
                    let body = self.groups_text(&m, arms, None)?;
                    return Some((format!("(let {m} := {s} in {body})"), rty));
                }
                Some((format!("({})", self.groups_text(&s, arms, None)?), rty))
            }
            _ => None,
        }
    }

    pub fn cast(&self, s: String, from: &Ty, to: &Ty) -> String {
        match (from, to) {
            (Ty::Int(a), Ty::Int(b)) if a == b => s,
            (Ty::IntVar, Ty::Int(_)) => s, // a literal typed by the cast (must fit; literals are checked by rustc)
            (Ty::Bool, Ty::Int(_)) => format!("(of_bool {s})"),
            (Ty::Adt(n), Ty::Int(_)) if self.cx.enums.get(n).map(|e| e.variants.iter().all(|v| v.discr.is_some())).unwrap_or(false) => {
                format!("({n}_discr {s})")
            }
            (Ty::Int(_), Ty::Int(b)) => format!("(to_{b} {s})"),
            _ => panic!("unsupported cast {from:?} -> {to:?}"),
        }
    }

    pub fn pick_int(&self, a: &Ty, b: &Ty, expect: &Ty) -> Ty {
        if a.is_int() {
            a.clone()
        } else if b.is_int() {
            b.clone()
        } else if expect.is_int() {
            expect.clone()
        } else {
            Ty::IntVar
        }
    }

    pub fn compare(&self, op: &BinOp, l: String, lt: &Ty, r: String, rt: &Ty) -> String {
        use BinOp::*;
        assert!(
            (lt.is_intlike() || *lt == Ty::Unknown) && (rt.is_intlike() || *rt == Ty::Unknown),
            "comparison on non-integers {lt:?} {rt:?}"
        );
        match op {
            Lt(_) => format!("({l} <? {r})"),
            Le(_) => format!("({l} <=? {r})"),
            Gt(_) => format!("({r} <? {l})"),
            Ge(_) => format!("({r} <=? {l})"),
            Eq(_) => format!("({l} =? {r})"),
            Ne(_) => format!("(negb ({l} =? {r}))"),
            _ => unreachable!(),
        }
    }

    pub fn field(&self, b: String, bt: &Ty, m: &Member) -> (String, Ty) {
        let fname = match m {
            Member::Named(i) => i.to_string(),
            Member::Unnamed(i) => i.index.to_string(),
        };
        let Ty::Adt(n) = bt else { panic!("field .{fname} of non-struct {bt:?} ({b})") };
        let s = self.cx.structs.get(n).unwrap_or_else(|| panic!("field access on non-struct {n}"));
        let (_, ft) = s.fields.iter().find(|(f, _)| f == &fname).unwrap_or_else(|| panic!("no field {fname} in {n}"));
        (format!("({n}_f_{fname} {b})"), ft.clone())
    }

    pub fn build(&self, coq: &str, vals: Vec<String>) -> String {
        if vals.is_empty() {
            coq.to_string()
        } else {
            format!("({} {})", coq, vals.join(" "))
        }
    }

    /// struct-literal target: (constructor, fields in declaration order, resulting type)
    pub fn struct_target(&self, p: &Path, expect: &Ty) -> (String, Vec<(String, Ty)>, Ty) {
        let segs = path_segs(p);
        if let Some((e, v)) = self.resolve_variant(&segs, Some(expect)) {
            return (v.coq.clone(), v.fields.clone(), Ty::Adt(e.coq.clone()));
        }
        if let Some(t) = self.resolve_type(&segs) {
            if let Some(s) = self.cx.structs.get(&t) {
                return (format!("mk{t}"), s.fields.clone(), Ty::Adt(t));
            }
        }
        panic!("unresolved struct literal {}", p.to_token_stream())
    }

    /// call target that is a data constructor: (constructor, parameter types, result type)
    pub fn ctor_target(&self, segs: &[String], expect: &Ty) -> Option<(String, Vec<Ty>, Ty)> {
        if segs.len() == 1 {
            match segs[0].as_str() {
                "Some" => {
                    let inner = if let Ty::Opt(t) = expect { (**t).clone() } else { Ty::Unknown };
                    return Some(("Some".into(), vec![inner.clone()], Ty::Opt(Box::new(inner))));
                }
                "Ok" | "Err" => {
                    let (t, e) = if let Ty::Res(t, e) = expect { ((**t).clone(), (**e).clone()) } else { (Ty::Unknown, Ty::Unknown) };
                    let p = if segs[0] == "Ok" { t.clone() } else { e.clone() };
                    return Some((segs[0].clone(), vec![p], Ty::Res(Box::new(t), Box::new(e))));
                }
                _ => {}
            }
        }
        if let Some((e, v)) = self.resolve_variant(segs, Some(expect)) {
            if !v.fields.is_empty() && !v.named {
                return Some((v.coq.clone(), v.fields.iter().map(|(_, t)| t.clone()).collect(), Ty::Adt(e.coq.clone())));
            }
        }
        if self.resolve_fn(segs).is_none() {
            if let Some(t) = self.resolve_type(segs) {
                if let Some(s) = self.cx.structs.get(&t) {
                    if s.tuple {
                        return Some((format!("mk{t}"), s.fields.iter().map(|(_, t)| t.clone()).collect(), Ty::Adt(t)));
                    }
                }
            }
        }
        None
    }
}
