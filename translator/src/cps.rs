//! Statement / effectful-expression translation in continuation-passing style.
use crate::ctx::*;
use crate::tr::*;
use quote::ToTokens;
use std::collections::BTreeSet;
use std::rc::Rc;
use syn::*;

fn is_panic_call(e: &Expr) -> bool {
    if let Expr::Call(c) = e {
        let f = c.func.to_token_stream().to_string().replace(' ', "");
        return f.contains("panicking::");
    }
    false
}

fn lit_true(e: &Expr) -> bool {
    match e {
        Expr::Lit(ExprLit { lit: Lit::Bool(b), .. }) => b.value,
        Expr::Paren(p) => lit_true(&p.expr),
        _ => false,
    }
}

pub fn diverges_block(b: &Block) -> bool {
    b.stmts.iter().any(|s| match s {
        Stmt::Expr(e, _) => diverges(e),
        _ => false,
    })
}

pub fn diverges(e: &Expr) -> bool {
    match e {
        Expr::Return(_) => true,
        Expr::Paren(p) => diverges(&p.expr),
        Expr::Block(b) => diverges_block(&b.block),
        Expr::If(i) => {
            if lit_true(&i.cond) {
                return diverges_block(&i.then_branch);
            }
            match &i.else_branch {
                Some((_, els)) => diverges_block(&i.then_branch) && diverges(els),
                None => false,
            }
        }
        Expr::Match(m) => m.arms.iter().all(|a| diverges(&a.body)),
        _ => is_panic_call(e),
    }
}

fn assigned_in(e: &Expr, out: &mut BTreeSet<String>) {
    struct V<'a>(&'a mut BTreeSet<String>);
    impl<'ast, 'a> visit::Visit<'ast> for V<'a> {
        fn visit_expr_assign(&mut self, a: &'ast ExprAssign) {
            if let Expr::Path(p) = &*a.left {
                self.0.insert(ident(&p.path.get_ident().unwrap().to_string()));
            } else {
                panic!("assignment to non-variable");
            }
            visit::visit_expr_assign(self, a);
        }
        fn visit_expr_binary(&mut self, b: &'ast ExprBinary) {
            use BinOp::*;
            if matches!(
                b.op,
                AddAssign(_) | SubAssign(_) | RemAssign(_) | MulAssign(_) | DivAssign(_) | BitAndAssign(_) | BitOrAssign(_) | BitXorAssign(_) | ShlAssign(_) | ShrAssign(_)
            ) {
                if let Expr::Path(p) = &*b.left {
                    self.0.insert(ident(&p.path.get_ident().unwrap().to_string()));
                } else {
                    panic!("compound assignment to non-variable");
                }
            }
            visit::visit_expr_binary(self, b);
        }
    }
    visit::Visit::visit_expr(&mut V(out), e);
}

fn block_as_expr(b: &Block) -> Expr {
    Expr::Block(ExprBlock { attrs: vec![], label: None, block: b.clone() })
}

type Call = Rc<dyn Fn(&Tr, &str, &Env) -> String>;

impl Tr {
    /// Prepare a continuation that may be entered from several branches.
    /// Returns (definition text to prepend, a generator of continuations).
    fn join(&self, vars: Vec<(String, Ty)>, value_ty: Option<Ty>, env: &Env, k: K) -> (String, Call) {
        match k {
            K::Return => (String::new(), Rc::new(move |_tr, v, _env| format!("Ret {v}"))),
            K::Dead => (String::new(), Rc::new(move |_tr, _v, _env| panic!("dead continuation entered"))),
            K::Fn(f) => {
                let name = self.tmp("jp");
                let mut params: Vec<String> = vec![];
                let mut env2 = env.clone();
                let vname = self.tmp("v");
                let with_value = value_ty.is_some();
                if let Some(t) = &value_ty {
                    params.push(if t.known() { format!("({vname} : {})", t.coq()) } else { vname.clone() });
                }
                for (v, t) in &vars {
                    params.push(if t.known() || *t == Ty::IntVar { format!("({v} : {})", t.coq()) } else { v.clone() });
                    env2.push((v.clone(), t.clone()));
                }
                if params.is_empty() {
                    params.push("(_ : unit)".into());
                }
                let (val, vty) = match &value_ty {
                    Some(t) => (vname, t.clone()),
                    None => ("tt".to_string(), Ty::Unit),
                };
                let body = f(self, val, vty, &env2);
                let def = format!("let {name} := fun {} =>\n{body} in\n", params.join(" "));
                let names: Vec<String> = vars.iter().map(|(v, _)| v.clone()).collect();
                (
                    def,
                    Rc::new(move |_tr, v, _env| {
                        let mut args: Vec<String> = vec![];
                        if with_value {
                            args.push(v.to_string());
                        }
                        args.extend(names.iter().cloned());
                        if args.is_empty() {
                            args.push("tt".into());
                        }
                        format!("{name} {}", args.join(" "))
                    }),
                )
            }
        }
    }

    /// Type of expression `e` in environment `env`, found by a dry run of the translation (the text is discarded).
    /// Used when the expected type of an `if` / `match` in value position is not known from the context.
    fn probe_ty(&self, e: &Expr, env: &Env) -> Ty {
        if diverges(e) {
            return Ty::Unknown;
        }
        let cell: Rc<std::cell::RefCell<Ty>> = Rc::new(std::cell::RefCell::new(Ty::Unknown));
        let c2 = cell.clone();
        let saved = self.fresh.get();
        let r = std::panic::catch_unwind(std::panic::AssertUnwindSafe(|| {
            self.expr(e, env.clone(), &Ty::Unknown, K::Fn(Box::new(move |_tr, _v, t, _env| { *c2.borrow_mut() = t; String::new() })))
        }));
        self.fresh.set(saved);
        if r.is_err() {
            return Ty::Unknown;
        }
        let t = cell.borrow().clone();
        t
    }

    fn kcall(call: &Call) -> K {
        let c = call.clone();
        K::Fn(Box::new(move |tr, v, _t, env| c(tr, &v, env)))
    }

    /// Distribute continuation `k` over branches; `falls[i]` says whether branch i can complete normally.
    /// Returns (definition prefix, one K per branch).
    fn distribute(&self, falls: &[bool], vars: Vec<(String, Ty)>, value_ty: Option<Ty>, env: &Env, k: K) -> (String, Vec<K>) {
        let nfall = falls.iter().filter(|b| **b).count();
        if let K::Return = k {
            return (String::new(), falls.iter().map(|_| K::Return).collect());
        }
        if nfall <= 1 {
            let mut k = Some(k);
            let ks = falls.iter().map(|f| if *f { k.take().unwrap() } else { K::Dead }).collect();
            return (String::new(), ks);
        }
        let (def, call) = self.join(vars, value_ty, env, k);
        (def, falls.iter().map(|f| if *f { Self::kcall(&call) } else { K::Dead }).collect())
    }

    pub fn block(&self, stmts: &[Stmt], env: Env, expect: &Ty, k: K) -> String {
        if stmts.is_empty() {
            return self.apply(k, "tt".into(), Ty::Unit, &env);
        }
        let (first, rest) = stmts.split_first().unwrap();
        let rest: Vec<Stmt> = rest.to_vec();
        let expect2 = expect.clone();
        match first {
            Stmt::Local(l) => {
                let (pat, declared) = match &l.pat {
                    Pat::Type(pt) => ((*pt.pat).clone(), Some(self.tyof(&pt.ty))),
                    p => (p.clone(), None),
                };
                let init = l.init.as_ref().expect("let without initialiser");
                let exp = declared.clone().unwrap_or(Ty::Unknown);
                let diverge = init.diverge.clone();
                self.expr(
                    &init.expr,
                    env,
                    &exp,
                    K::Fn(Box::new(move |tr, v, ty, env| {
                        let ty = declared.unwrap_or(ty);
                        let mut env2 = env.clone();
                        match diverge {
                            None => {
                                let p = tr.let_pat(&pat, &ty, &mut env2);
                                format!("let {p} := {v} in\n{}", tr.block(&rest, env2, &expect2, k))
                            }
                            Some((_, els)) => {
                                let (ps, ap) = tr.pat(&pat, &ty, &mut env2);
                                let body = tr.block(&rest, env2, &expect2, k);
                                assert!(diverges(&els), "let-else whose else block does not diverge");
                                let e = tr.expr(&els, env.clone(), &Ty::Unknown, K::Dead);
                                let mut out = format!("match {v} with\n| {ps} => {body}\n");
                                if !crate::useful::exhaustive(&[ap]) {
                                    out += &format!("| _ => {e}\n");
                                }
                                out + "end"
                            }
                        }
                    })),
                )
            }
            Stmt::Item(Item::Const(c)) => {
                let v = crate::eval_const(self.cx, &c.expr, &self.module, &self.local_consts.borrow());
                self.local_consts.borrow_mut().push((c.ident.to_string(), v));
                let t = self.cx.ty_of(&c.ty, &self.module, self.self_ty.as_deref());
                assert!(matches!(t, Ty::Int(_)), "local const {} of non-integer type", c.ident);
                self.local_const_tys.borrow_mut().push((c.ident.to_string(), t));
                self.block(&rest, env, expect, k)
            }
            Stmt::Item(Item::Use(u)) => {
                self.note_use(u);
                self.block(&rest, env, expect, k)
            }
            Stmt::Item(_) | Stmt::Macro(_) => self.block(&rest, env, expect, k),
            Stmt::Expr(e, semi) => {
                if rest.is_empty() && semi.is_none() {
                    return self.expr(e, env, expect, k);
                }
                // statement position: value discarded
                self.stmt(e, env, K::Fn(Box::new(move |tr, _v, _t, env| tr.block(&rest, env.clone(), &expect2, k))))
            }
        }
    }

    /// expression in statement position (its value is ignored)
    fn stmt(&self, e: &Expr, env: Env, k: K) -> String {
        match e {
            Expr::If(i) => self.tr_if(i, env, &Ty::Unit, false, k),
            Expr::Match(m) => self.tr_match(m, env, &Ty::Unit, false, k),
            Expr::Block(b) => self.block(&b.block.stmts, env, &Ty::Unit, k),
            _ => self.expr(e, env, &Ty::Unknown, k),
        }
    }

    fn args(&self, mut es: Vec<Expr>, mut tys: Vec<Ty>, env: Env, mut acc: Vec<(String, Ty)>, k: Box<dyn FnOnce(&Tr, Vec<(String, Ty)>, &Env) -> String>) -> String {
        if es.is_empty() {
            return k(self, acc, &env);
        }
        let e = es.remove(0);
        let t = if tys.is_empty() { Ty::Unknown } else { tys.remove(0) };
        self.expr(
            &e,
            env,
            &t,
            K::Fn(Box::new(move |tr, v, vt, env| {
                acc.push((v, vt));
                tr.args(es, tys, env.clone(), acc, k)
            })),
        )
    }

    /// a monadic term for a sub-expression that must not contain `return`
    fn sub(&self, e: &Expr, env: &Env, expect: &Ty) -> String {
        struct HasRet(bool);
        impl<'ast> visit::Visit<'ast> for HasRet {
            fn visit_expr_return(&mut self, _: &'ast ExprReturn) {
                self.0 = true;
            }
        }
        let mut h = HasRet(false);
        visit::Visit::visit_expr(&mut h, e);
        assert!(!h.0, "`return` inside a short-circuit operand is not supported");
        self.expr(e, env.clone(), expect, K::Return)
    }

    pub fn expr(&self, e: &Expr, env: Env, expect: &Ty, k: K) -> String {
        if let Some((s, t)) = self.pure(e, &env, expect) {
            return self.apply(k, s, t, &env);
        }
        match e {
            Expr::Paren(p) => self.expr(&p.expr, env, expect, k),
            Expr::Group(p) => self.expr(&p.expr, env, expect, k),
            Expr::Reference(r) => self.expr(&r.expr, env, expect, k),
            Expr::Unary(u) => match u.op {
                UnOp::Deref(_) => self.expr(&u.expr, env, expect, k),
                UnOp::Not(_) => self.expr(&u.expr, env, &Ty::Bool, K::Fn(Box::new(move |tr, v, _, env| tr.apply(k, format!("(negb {v})"), Ty::Bool, env)))),
                UnOp::Neg(_) => {
                    let ex = expect.clone();
                    self.expr(
                        &u.expr,
                        env,
                        expect,
                        K::Fn(Box::new(move |tr, v, t, env| {
                            let Ty::Int(tn) = tr.pick_int(&t, &ex, &Ty::Unknown) else { panic!("negation of unknown int type") };
                            let tmp = tr.tmp("t");
                            format!("{tmp} <- {tn}_neg {v};;\n{}", tr.apply(k, tmp.clone(), Ty::Int(tn), env))
                        })),
                    )
                }
                _ => panic!("unsupported unary operator"),
            },
            Expr::Cast(c) => {
                let to = self.tyof(&c.ty);
                self.expr(&c.expr, env, &Ty::Unknown, K::Fn(Box::new(move |tr, v, from, env| tr.apply(k, tr.cast(v, &from, &to), to.clone(), env))))
            }
            Expr::Binary(b) => self.binary(b, env, expect, k),
            Expr::Field(f) => {
                let m = f.member.clone();
                self.expr(
                    &f.base,
                    env,
                    &Ty::Unknown,
                    K::Fn(Box::new(move |tr, v, t, env| {
                        let (s, ft) = tr.field(v, &t, &m);
                        tr.apply(k, s, ft, env)
                    })),
                )
            }
            Expr::Tuple(t) => {
                let es: Vec<Expr> = t.elems.iter().cloned().collect();
                let tys = match expect {
                    Ty::Tuple(ts) if ts.len() == es.len() => ts.clone(),
                    _ => vec![],
                };
                self.args(
                    es,
                    tys,
                    env,
                    vec![],
                    Box::new(move |tr, vals, env| {
                        let s = format!("({})", vals.iter().map(|(v, _)| v.clone()).collect::<Vec<_>>().join(", "));
                        tr.apply(k, s, Ty::Tuple(vals.into_iter().map(|(_, t)| t).collect()), env)
                    }),
                )
            }
            Expr::Struct(s) => {
                let (coq, fields, ty) = self.struct_target(&s.path, expect);
                // evaluate in source order, then reorder
                let src: Vec<(String, Expr)> = s
                    .fields
                    .iter()
                    .map(|fv| {
                        (
                            match &fv.member {
                                Member::Named(i) => i.to_string(),
                                Member::Unnamed(i) => i.index.to_string(),
                            },
                            fv.expr.clone(),
                        )
                    })
                    .collect();
                let tys = src.iter().map(|(n, _)| fields.iter().find(|(f, _)| f == n).map(|(_, t)| t.clone()).unwrap_or(Ty::Unknown)).collect();
                let names: Vec<String> = src.iter().map(|(n, _)| n.clone()).collect();
                self.args(
                    src.into_iter().map(|(_, e)| e).collect(),
                    tys,
                    env,
                    vec![],
                    Box::new(move |tr, vals, env| {
                        let ordered = fields
                            .iter()
                            .map(|(f, _)| {
                                let i = names.iter().position(|n| n == f).unwrap_or_else(|| panic!("missing field {f}"));
                                vals[i].0.clone()
                            })
                            .collect();
                        tr.apply(k, tr.build(&coq, ordered), ty, env)
                    }),
                )
            }
            Expr::Range(r) => {
                assert!(matches!(r.limits, RangeLimits::Closed(_)), "only ..= ranges");
                let es = vec![(**r.start.as_ref().unwrap()).clone(), (**r.end.as_ref().unwrap()).clone()];
                self.args(es, vec![], env, vec![], Box::new(move |tr, vals, env| tr.apply(k, format!("(mkRange {} {} false)", vals[0].0, vals[1].0), Ty::Range, env)))
            }
            Expr::Call(c) => {
                if is_panic_call(e) {
                    return "Panic".into();
                }
                let Expr::Path(p) = &*c.func else { panic!("call of non-path") };
                let segs = path_segs(&p.path);
                let es: Vec<Expr> = c.args.iter().cloned().collect();
                if let Some((coq, ptys, rty)) = self.ctor_target(&segs, expect) {
                    return self.args(
                        es,
                        ptys,
                        env,
                        vec![],
                        Box::new(move |tr, vals, env| {
                            let rty = match (coq.as_str(), rty) {
                                ("Some", _) => Ty::Opt(Box::new(vals[0].1.clone())),
                                ("Ok", Ty::Res(_, e)) => Ty::Res(Box::new(vals[0].1.clone()), e),
                                ("Err", Ty::Res(t, _)) => Ty::Res(t, Box::new(vals[0].1.clone())),
                                (_, r) => r,
                            };
                            tr.apply(k, tr.build(&coq, vals.into_iter().map(|(v, _)| v).collect()), rty, env)
                        }),
                    );
                }
                let f = self.resolve_fn(&segs).unwrap_or_else(|| panic!("unknown function {}", p.to_token_stream()));
                self.callees.borrow_mut().insert(f.coq.clone());
                let ptys = f.params.iter().map(|(_, t)| t.clone()).collect();
                let (coq, ret) = (f.coq.clone(), f.ret.clone());
                self.args(es, ptys, env, vec![], Box::new(move |tr, vals, env| tr.emit_call(&coq, vals.into_iter().map(|(v, _)| v).collect(), ret, env, k)))
            }
            Expr::MethodCall(m) => {
                let name = m.method.to_string();
                let mut es = vec![(*m.receiver).clone()];
                es.extend(m.args.iter().cloned());
                // receiver first, then arguments
                let ex = expect.clone();
                self.args(
                    es,
                    vec![],
                    env,
                    vec![],
                    Box::new(move |tr, vals, env| {
                        let rt = vals[0].1.clone();
                        match &rt {
                            Ty::Int(_) | Ty::IntVar => {
                                let at = vals.get(1).map(|v| v.1.clone()).unwrap_or(Ty::Unknown);
                                let Ty::Int(tn) = tr.pick_int(&rt, &at, &ex) else { panic!("method {name} on integer of unknown type") };
                                match name.as_str() {
                                    "div_euclid" | "rem_euclid" => {
                                        let tmp = tr.tmp("t");
                                        format!("{tmp} <- {tn}_{name} {} {};;\n{}", vals[0].0, vals[1].0, tr.apply(k, tmp.clone(), Ty::Int(tn), env))
                                    }
                                    "checked_add" | "checked_sub" => tr.apply(k, format!("({tn}_{name} {} {})", vals[0].0, vals[1].0), Ty::Opt(Box::new(Ty::Int(tn))), env),
                                    _ => panic!("unsupported integer method {name}"),
                                }
                            }
                            Ty::Adt(t) => {
                                let f = tr.cx.fns.get(&format!("{t}_{name}")).unwrap_or_else(|| panic!("unknown method {t}::{name}"));
                                tr.callees.borrow_mut().insert(f.coq.clone());
                                tr.emit_call(&f.coq, vals.into_iter().map(|(v, _)| v).collect(), f.ret.clone(), env, k)
                            }
                            _ => panic!("method {name} on receiver of type {rt:?}"),
                        }
                    }),
                )
            }
            Expr::Return(r) => match &r.expr {
                Some(x) => {
                    let rt = self.ret.clone();
                    self.expr(x, env, &rt, K::Return)
                }
                None => "Ret tt".into(),
            },
            Expr::Block(b) => self.block(&b.block.stmts, env, expect, k),
            Expr::Assign(a) => {
                let n = if let Expr::Path(p) = &*a.left { ident(&p.path.get_ident().unwrap().to_string()) } else { panic!("assign target") };
                let t = lookup(&env, &n).unwrap_or_else(|| panic!("assignment to unknown variable {n}"));
                self.expr(&a.right, env, &t.clone(), K::Fn(Box::new(move |tr, v, _, env| format!("let {n} := {v} in\n{}", tr.apply(k, "tt".into(), Ty::Unit, env)))))
            }
            Expr::If(i) => self.tr_if(i, env, expect, true, k),
            Expr::Match(m) => self.tr_match(m, env, expect, true, k),
            _ => panic!("unsupported expression: {}", e.to_token_stream()),
        }
    }

    fn emit_call(&self, coq: &str, args: Vec<String>, ret: Ty, env: &Env, k: K) -> String {
        let call = if args.is_empty() { coq.to_string() } else { format!("{coq} {}", args.join(" ")) };
        if let K::Return = k {
            return call;
        }
        let tmp = self.tmp("t");
        format!("{tmp} <- {call};;\n{}", self.apply(k, tmp.clone(), ret, env))
    }

    fn binary(&self, b: &ExprBinary, env: Env, expect: &Ty, k: K) -> String {
        use BinOp::*;
        let opname = match b.op {
            Add(_) | AddAssign(_) => "add",
            Sub(_) | SubAssign(_) => "sub",
            Mul(_) | MulAssign(_) => "mul",
            Div(_) | DivAssign(_) => "div",
            Rem(_) | RemAssign(_) => "rem",
            And(_) => "&&",
            Or(_) => "||",
            Lt(_) | Le(_) | Gt(_) | Ge(_) | Eq(_) | Ne(_) => "cmp",
            _ => panic!("unsupported binary operator {}", b.to_token_stream()),
        };
        let assign = matches!(b.op, AddAssign(_) | SubAssign(_) | MulAssign(_) | DivAssign(_) | RemAssign(_));
        let right = (*b.right).clone();
        let op = b.op;
        match opname {
            "&&" | "||" => self.expr(
                &b.left,
                env,
                &Ty::Bool,
                K::Fn(Box::new(move |tr, lv, _, env| {
                    let rhs = tr.sub(&right, env, &Ty::Bool);
                    let tmp = tr.tmp("t");
                    let sc = if opname == "&&" { format!("if {lv} then ({rhs}) else Ret false") } else { format!("if {lv} then Ret true else ({rhs})") };
                    format!("{tmp} <- ({sc});;\n{}", tr.apply(k, tmp.clone(), Ty::Bool, env))
                })),
            ),
            "cmp" => self.expr(
                &b.left,
                env,
                &Ty::Unknown,
                K::Fn(Box::new(move |tr, lv, lt, env| {
                    let lt2 = lt.clone();
                    tr.expr(&right, env.clone(), &lt, K::Fn(Box::new(move |tr, rv, rt, env| tr.apply(k, tr.compare(&op, lv, &lt2, rv, &rt), Ty::Bool, env))))
                })),
            ),
            _ => {
                let ex = expect.clone();
                let lhs_name = if assign {
                    if let Expr::Path(p) = &*b.left {
                        Some(ident(&p.path.get_ident().unwrap().to_string()))
                    } else {
                        panic!("compound assignment target")
                    }
                } else {
                    None
                };
                self.expr(
                    &b.left,
                    env,
                    expect,
                    K::Fn(Box::new(move |tr, lv, lt, env| {
                        let lt2 = lt.clone();
                        tr.expr(
                            &right,
                            env.clone(),
                            &(if lt.is_int() { lt.clone() } else { ex.clone() }),
                            K::Fn(Box::new(move |tr, rv, rt, env| {
                                let Ty::Int(tn) = tr.pick_int(&lt2, &rt, &ex) else { panic!("arithmetic on integers of unknown type: {lv} {opname} {rv}") };
                                assert!(matches!(tn, "i32" | "u32" | "i64"), "arithmetic at type {tn} is not modelled");
                                match lhs_name {
                                    Some(n) => {
                                        let mut env2 = env.clone();
                                        env2.push((n.clone(), Ty::Int(tn)));
                                        format!("{n} <- {tn}_{opname} {lv} {rv};;\n{}", tr.apply(k, "tt".into(), Ty::Unit, &env2))
                                    }
                                    None => {
                                        let tmp = tr.tmp("t");
                                        format!("{tmp} <- {tn}_{opname} {lv} {rv};;\n{}", tr.apply(k, tmp.clone(), Ty::Int(tn), env))
                                    }
                                }
                            })),
                        )
                    })),
                )
            }
        }
    }

    fn assigned_vars(&self, es: &[&Expr], env: &Env) -> Vec<(String, Ty)> {
        let mut asg = BTreeSet::new();
        for e in es {
            assigned_in(e, &mut asg);
        }
        asg.into_iter().filter_map(|v| lookup(env, &v).map(|t| (v, t))).collect()
    }

    fn tr_if(&self, i: &ExprIf, env: Env, expect: &Ty, want_value: bool, k: K) -> String {
        if lit_true(&i.cond) {
            // `if true { .. }` from cfg!(debug_assertions) in a debug build
            return self.block(&i.then_branch.stmts, env, expect, k);
        }
        let then_e = block_as_expr(&i.then_branch);
        let mut bodies: Vec<&Expr> = vec![&then_e];
        if let Some((_, e)) = &i.else_branch {
            bodies.push(e);
        }
        let vars = self.assigned_vars(&bodies, &env);
        let has_value = want_value && i.else_branch.is_some();
        let falls = [!diverges(&then_e), i.else_branch.as_ref().map(|(_, e)| !diverges(e)).unwrap_or(true)];
        let mut expect_owned = expect.clone();
        if has_value && !expect_owned.known() && !matches!(&*i.cond, Expr::Let(_)) {
            for b in &bodies {
                let t = self.probe_ty(b, &env);
                if t.known() {
                    expect_owned = t;
                    break;
                }
            }
        }
        let expect = &expect_owned;
        let vty = if has_value { Some(expect.clone()) } else { None };
        let (def, mut ks) = self.distribute(&falls, vars, vty, &env, k);
        let k_else = ks.pop().unwrap();
        let k_then = ks.pop().unwrap();
        let exp = expect.clone();
        let then_stmts = i.then_branch.stmts.clone();
        let else_e: Option<Expr> = i.else_branch.as_ref().map(|(_, e)| (**e).clone());
        let wrap = move |k: K| -> K {
            if has_value {
                k
            } else {
                // discard branch value, continue with tt
                K::Fn(Box::new(move |tr, _v, _t, env| tr.apply(k, "tt".into(), Ty::Unit, env)))
            }
        };
        let k_then = match k_then { K::Dead => K::Dead, k => wrap(k) };
        let env0 = env.clone();
        match &*i.cond {
            Expr::Let(l) => {
                let pat = (*l.pat).clone();
                let body = self.expr(
                    &l.expr,
                    env,
                    &Ty::Unknown,
                    K::Fn(Box::new(move |tr, sv, st, env| {
                        let mut env2 = env.clone();
                        let (ps, ap) = tr.pat(&pat, &st, &mut env2);
                        let t = tr.block(&then_stmts, env2, &exp, k_then);
                        let e = match &else_e {
                            Some(e) => tr.expr(e, env0.clone(), &exp, match k_else { K::Dead => K::Dead, k => wrap(k) }),
                            None => tr.apply(k_else, "tt".into(), Ty::Unit, &env0),
                        };
                        let mut out = format!("match {sv} with\n| {ps} => {t}\n");
                        if !crate::useful::exhaustive(&[ap]) {
                            out += &format!("| _ => {e}\n");
                        }
                        out + "end"
                    })),
                );
                format!("{def}{body}")
            }
            c => {
                let body = self.expr(
                    c,
                    env,
                    &Ty::Bool,
                    K::Fn(Box::new(move |tr, cv, _, env| {
                        let t = tr.block(&then_stmts, env.clone(), &exp, k_then);
                        let e = match &else_e {
                            Some(e) => tr.expr(e, env0.clone(), &exp, match k_else { K::Dead => K::Dead, k => wrap(k) }),
                            None => tr.apply(k_else, "tt".into(), Ty::Unit, &env0),
                        };
                        format!("if {cv}\nthen {t}\nelse {e}")
                    })),
                );
                format!("{def}{body}")
            }
        }
    }

    fn tr_match(&self, m: &ExprMatch, env: Env, expect: &Ty, want_value: bool, k: K) -> String {
        let bodies: Vec<&Expr> = m.arms.iter().map(|a| &*a.body).collect();
        let vars = self.assigned_vars(&bodies, &env);
        let falls: Vec<bool> = m.arms.iter().map(|a| !diverges(&a.body)).collect();
        let mut expect_owned = expect.clone();
        if want_value && !expect_owned.known() {
            let st = self.probe_ty(&m.expr, &env);
            for a in &m.arms {
                let mut env2 = env.clone();
                let ok = std::panic::catch_unwind(std::panic::AssertUnwindSafe(|| { let _ = self.pat(&a.pat, &st, &mut env2); })).is_ok();
                if !ok {
                    continue;
                }
                let t = self.probe_ty(&a.body, &env2);
                if t.known() {
                    expect_owned = t;
                    break;
                }
            }
        }
        let expect = &expect_owned;
        let vty = if want_value { Some(expect.clone()) } else { None };
        let (def, ks) = self.distribute(&falls, vars, vty, &env, k);
        let arms: Vec<Arm> = m.arms.clone();
        let exp = expect.clone();
        let body = self.expr(
            &m.expr,
            env,
            &Ty::Unknown,
            K::Fn(Box::new(move |tr, sv, st, env| {
                let nguard = arms.iter().filter(|a| a.guard.is_some()).count();
                let (prefix, scrut) = if nguard > 0 && !is_ident_text(&sv) {
                    let m = tr.tmp("m");
                    (format!("let {m} := {sv} in\n"), m)
                } else {
                    (String::new(), sv)
                };
                let mut texts = vec![];
                for (arm, k) in arms.iter().zip(ks.into_iter()) {
                    let mut env2 = env.clone();
                    let (ps, ap) = tr.pat(&arm.pat, &st, &mut env2);
                    let guard = arm.guard.as_ref().map(|(_, g)| {
                        let s = tr.expr(g, env2.clone(), &Ty::Bool, K::Fn(Box::new(|_, v, _, _| format!("\u{1}{v}"))));
                        match s.split_once('\u{1}') {
                            Some((pre, cond)) if !cond.contains('\n') && s.matches('\u{1}').count() == 1 => (pre.to_string(), cond.to_string()),
                            _ => {
                                // the guard itself has control flow (e.g. `a && f(x)` with a call): translate it in full
                                // continuation style; \u{3} stands for the arm's body, \u{2} for the name of the rest thunk
                                let t = tr.expr(g, env2.clone(), &Ty::Bool, K::Fn(Box::new(|_, v, _, _| format!("(if {v} then \u{3} else \u{2} tt)"))));
                                ("\u{4}".to_string(), t)
                            }
                        }
                    });
                    let k = match k {
                        K::Dead => K::Dead,
                        k if want_value => k,
                        k => K::Fn(Box::new(move |tr, _v, _t, env| tr.apply(k, "tt".into(), Ty::Unit, env))),
                    };
                    let b = tr.expr(&arm.body, env2, &exp, k);
                    texts.push((ps, ap, guard, format!("({b})")));
                }
                format!("{prefix}{}", tr.groups_text(&scrut, texts, Some("Panic")).unwrap())
            })),
        );
        format!("{def}{body}")
    }
}
