//! Construct corpus for rs2coq's self-test: small `const fn`s, one per construct the translator claims to
//! understand (including the ones that only behaviour-preserving refactorings of julian-rs have so far
//! introduced).  Each is run natively (overflow checks on) and through its translation (Sem.v semantics,
//! `vm_compute`) on the same argument grid; the two must agree on every result and every panic.

pub type Jd = i32;
pub const BASE: i32 = 365;
pub const LEAPLEN: i32 = 366;
const SECS: i64 = 86400;

#[derive(Clone, Copy, PartialEq, Eq)]
pub enum Kind {
    Small = 1,
    Mid = 2,
    Big = 3,
}

#[derive(Clone, Copy)]
pub struct Pair {
    pub a: i32,
    pub b: u32,
}

pub mod inner {
    pub const fn half(x: i32) -> i32 {
        x / 2
    }
    pub const fn clamp_u(x: u32, hi: u32) -> u32 {
        if x > hi {
            hi
        } else {
            x
        }
    }
}

// ---- typed local constants (the R35 defect: a local `const X: u32` must make `X - y` a u32 subtraction)
pub const fn local_const_u32(g: u32) -> u32 {
    const COMMON: u32 = BASE as u32;
    const LEAP: u32 = LEAPLEN as u32;
    let len = if g % 2 == 0 { LEAP } else { COMMON };
    len - g
}
pub const fn local_const_i64(t: i64) -> i64 {
    const DAY: i64 = SECS;
    const LIM: i64 = Jd::MAX as i64;
    if t / DAY > LIM {
        -1
    } else {
        t * 2 - DAY
    }
}
pub const fn local_const_mixed(a: i32, b: u32) -> u32 {
    const K: u32 = 10;
    const J: i32 = -3;
    let x = a + J;
    let y = b - K;
    if x > 0 {
        y
    } else {
        K
    }
}

// ---- arithmetic at each width, overflow and division
pub const fn arith_i32(a: i32, b: i32) -> i32 {
    (a + b) * 2 - a
}
pub const fn arith_u32(a: u32, b: u32) -> u32 {
    a * 3 + b - 7
}
pub const fn arith_i64(a: i64, b: i64) -> i64 {
    a * b + a - b
}
pub const fn div_rem_i32(a: i32, b: i32) -> i32 {
    a / b + a % b
}
pub const fn div_rem_euclid(a: i32, b: i32) -> i32 {
    a.div_euclid(b) * 1000 + a.rem_euclid(b)
}
pub const fn div_rem_i64(a: i64, b: i64) -> i64 {
    a.div_euclid(b) - a.rem_euclid(b) + a / b - a % b
}
pub const fn neg_i32(a: i32) -> i32 {
    -a
}
pub const fn checked_ops(a: i32, b: i32) -> Option<i32> {
    match a.checked_add(b) {
        Some(s) => s.checked_sub(1),
        None => None,
    }
}

// ---- casts wrap, never panic
pub const fn cast_i64_i32(t: i64) -> i32 {
    t as i32
}
pub const fn cast_i32_u32(a: i32) -> u32 {
    a as u32
}
pub const fn cast_u32_i32(a: u32) -> i32 {
    a as i32
}
pub const fn cast_chain(a: i32) -> i64 {
    (a as u32) as i64 + (a as i64)
}

// ---- short-circuit operators guard a panicking right operand
pub const fn short_circuit_and(a: i32, b: i32) -> bool {
    b != 0 && a / b > 1
}
pub const fn short_circuit_or(a: i32, b: i32) -> bool {
    b == 0 || a % b == 0
}
pub const fn not_and_or(a: i32, b: i32) -> bool {
    !(a < b && b < 10) || (a == b)
}

// ---- control flow: if as a value, early return, compound assignment, shadowing
pub const fn if_value(a: i32, b: i32) -> i32 {
    let m = if a < b { a } else { b };
    let n = if a >= b { a - b } else { b - a };
    m + n
}
pub const fn early_return(a: i32, b: u32) -> u32 {
    if a < 0 {
        return 0;
    }
    if b > 100 {
        return b - 100;
    }
    b + (a as u32)
}
pub const fn compound_assign(a: i32, n: u32) -> i32 {
    let mut acc = a;
    if n > 1 {
        acc += 10;
    }
    if n > 2 {
        acc *= 3;
    }
    if n > 3 {
        acc -= a;
    }
    let acc = acc + 1;
    acc
}
pub const fn nested_if(a: i32, b: i32) -> i32 {
    if a > 0 {
        if b > 0 {
            a + b
        } else if b == 0 {
            a
        } else {
            a - b
        }
    } else {
        b
    }
}

// ---- matches: literals, ranges of arms, guards (plain and with control flow), or-patterns, enums
pub const fn match_lit(m: u32, leap: bool) -> u32 {
    match m {
        1 | 3 | 5 | 7 | 8 | 10 | 12 => 31,
        4 | 6 | 9 | 11 => 30,
        2 => {
            if leap {
                29
            } else {
                28
            }
        }
        _ => 0,
    }
}
pub const fn match_guard(a: i32, b: i32) -> i32 {
    match a {
        0 => b,
        x if x < 0 && b != 0 => x / b,
        x if x > 100 => x - b,
        _ => a + b,
    }
}
pub const fn kind_of(x: i32) -> Kind {
    if x < 10 {
        Kind::Small
    } else if x < 1000 {
        Kind::Mid
    } else {
        Kind::Big
    }
}
pub const fn match_enum(x: i32) -> i32 {
    match kind_of(x) {
        Kind::Small | Kind::Mid => x * 2,
        Kind::Big => x / 2,
    }
}
pub const fn enum_discr(x: i32) -> i32 {
    kind_of(x) as i32 + 1
}
pub const fn option_flow(a: i32, b: i32) -> Option<i32> {
    let r = if b > 0 { Some(a - b) } else { None };
    match r {
        Some(v) if v > 0 => Some(v * 2),
        Some(_) => Some(0),
        None => None,
    }
}
pub const fn let_else(a: i32, b: i32) -> i32 {
    let Some(s) = a.checked_add(b) else {
        return -1;
    };
    s / 2
}
pub const fn if_let(a: i32, b: i32) -> i32 {
    if let Some(s) = a.checked_sub(b) {
        s
    } else {
        0
    }
}

// ---- structs, methods, helpers in a module, aliases
impl Pair {
    pub const fn new(a: i32, b: u32) -> Pair {
        Pair { a, b }
    }
    pub const fn sum(&self) -> i64 {
        self.a as i64 + self.b as i64
    }
    pub const fn diff(&self) -> u32 {
        self.b - inner::clamp_u(self.a as u32, 50)
    }
}
pub const fn struct_flow(a: i32, b: u32) -> i64 {
    let p = Pair::new(inner::half(a), b);
    p.sum() * 2 - (p.diff() as i64)
}
pub const fn alias_limits(j: Jd) -> Jd {
    if j == Jd::MAX {
        Jd::MIN
    } else {
        j + 1
    }
}
pub const fn debug_checked(a: u32, b: u32) -> u32 {
    debug_assert!(a >= b);
    a - b
}
pub const fn unreachable_arm(a: u32) -> u32 {
    match a % 3 {
        0 => 10,
        1 => 20,
        2 => 30,
        _ => unreachable!(),
    }
}
pub const fn swapped_cmp(a: i32, b: i32) -> bool {
    let x = b > a;
    let y = a <= b;
    let z = b != a;
    if x {
        y && z
    } else {
        !(y && z)
    }
}

// ---- tuples, data-carrying enums, Result, variables assigned on both sides of a branch
pub enum Shape {
    Plain { max: u32 },
    Cut { lo: u32, hi: u32, max: u32 },
    Empty,
}
pub const fn shape_of(a: u32, b: u32) -> Shape {
    if a == 0 {
        Shape::Empty
    } else if b <= a {
        Shape::Plain { max: a }
    } else {
        Shape::Cut { lo: a, hi: b, max: a + b }
    }
}
pub const fn shape_len(a: u32, b: u32) -> u32 {
    match shape_of(a, b) {
        Shape::Plain { max } => max,
        Shape::Cut { lo, hi, max } => max - (hi - lo + 1),
        Shape::Empty => 0,
    }
}
pub const fn shape_has(a: u32, b: u32) -> bool {
    let d = 5;
    match shape_of(a, b) {
        Shape::Plain { max } | Shape::Cut { max, .. } if d > max => false,
        Shape::Cut { lo, hi, .. } => !(lo <= d && d <= hi),
        Shape::Plain { .. } => true,
        Shape::Empty => false,
    }
}
pub const fn divmod(a: i32, b: i32) -> (i32, i32) {
    (a.div_euclid(b), a.rem_euclid(b))
}
pub const fn tuple_flow(a: i32, b: i32) -> i32 {
    if b <= 0 {
        return 0;
    }
    let (q, r) = divmod(a, b);
    q - r
}
pub const fn match_tuple(a: i32, b: i32) -> i32 {
    match (a < 0, b < 0) {
        (true, true) => 3,
        (true, false) => 2,
        (false, true) => 1,
        (false, false) => 0,
    }
}
pub const fn res_of(a: i32, b: i32) -> Result<i32, u32> {
    if b == 0 {
        Err(7)
    } else if a < 0 {
        Err(b as u32)
    } else {
        Ok(a / b)
    }
}
pub const fn result_flow(a: i32, b: i32) -> i32 {
    let v = match res_of(a, b) {
        Ok(v) => v,
        Err(e) => return -((e % 1000) as i32),
    };
    v + 1
}
pub const fn both_sides(a: i32, b: i32) -> i32 {
    let mut x = a;
    let mut y = 0;
    if a > b {
        x -= b;
        y = 1;
    } else {
        y += 2;
    }
    if y == 2 && b > 0 {
        x = x % b;
    }
    x + y
}
pub const fn bool_cast(a: i32, b: i32) -> i32 {
    (a > b) as i32 + ((a == b) as i32) * 2
}
pub const fn narrow_cast(a: i32) -> i32 {
    (a as u16) as i32 + (a as u8) as i32
}
pub const fn uses_matches(a: i32) -> bool {
    matches!(kind_of(a), Kind::Small | Kind::Big)
}
pub const fn abs_diff_u(a: i32, b: i32) -> u32 {
    a.abs_diff(b)
}
pub const fn while_loop(n: u32) -> u32 {
    let mut i = 0;
    let mut s = 0;
    while i < n % 10 {
        s += i;
        i += 1;
    }
    s
}
pub const fn option_methods(a: i32, b: i32) -> i32 {
    let o = a.checked_add(b);
    if o.is_some() {
        1
    } else {
        0
    }
}
pub const fn both_sides_typed(a: i32, b: i32) -> i32 {
    let mut x = a;
    let mut y: i32 = 0;
    if a > b {
        x -= b;
        y = 1;
    } else {
        y += 2;
    }
    if y == 2 && b > 0 {
        x = x % b;
    }
    x + y
}

// ---- locals named like constructors of Coq's prelude
pub const fn names_clash(a: i32, b: i32) -> i32 {
    if b <= 0 {
        return 0;
    }
    let pair = divmod(a, b);
    let (left, right) = pair;
    let nil = left - right;
    match res_of(a, b) {
        Ok(pair) => pair + nil,
        Err(cons) => (cons % 1000) as i32,
    }
}
