use corpus::*;
use std::panic::{catch_unwind, AssertUnwindSafe};

const I32S: [i32; 15] = [i32::MIN, i32::MIN + 1, -86400, -101, -7, -1, 0, 1, 2, 3, 10, 100, 1001, i32::MAX - 1, i32::MAX];
const U32S: [u32; 17] = [0, 1, 2, 3, 4, 7, 10, 50, 101, 365, 366, 367, 1000, 2147483648, 4000000000, u32::MAX - 1, u32::MAX];
const I64S: [i64; 15] = [i64::MIN, i64::MIN + 1, -185753453990401, -86401, -86400, -1, 0, 1, 2, 86399, 86400, 4294967296, 185542587187200, i64::MAX - 1, i64::MAX];
const BOOLS: [bool; 2] = [false, true];

trait Show { fn show(&self) -> String; }
impl Show for i32 { fn show(&self) -> String { self.to_string() } }
impl Show for u32 { fn show(&self) -> String { self.to_string() } }
impl Show for i64 { fn show(&self) -> String { self.to_string() } }
impl Show for bool { fn show(&self) -> String { self.to_string() } }
impl Show for Option<i32> { fn show(&self) -> String { match self { Some(v) => format!("Some {v}"), None => "None".into() } } }
impl Show for Kind { fn show(&self) -> String { format!("Kind_{}", match self { Kind::Small => "Small", Kind::Mid => "Mid", Kind::Big => "Big" }) } }

fn run<R: Show>(name: &str, args: &[String], f: impl FnOnce() -> R) {
    let r = catch_unwind(AssertUnwindSafe(f));
    let res = match r { Ok(v) => format!("Ret {}", v.show()), Err(_) => "Panic".to_string() };
    println!("{} {} => {}", name, args.join(" "), res);
}
macro_rules! c1 { ($f:ident, $s:expr) => { for a in $s { run(stringify!($f), &[a.to_string()], || $f(a)); } }; }
macro_rules! c2 { ($f:ident, $s:expr, $t:expr) => { for a in $s { for b in $t { run(stringify!($f), &[a.to_string(), b.to_string()], || $f(a, b)); } } }; }

fn main() {
    std::panic::set_hook(Box::new(|_| {}));
    c1!(local_const_u32, U32S);
    c1!(local_const_i64, I64S);
    c2!(local_const_mixed, I32S, U32S);
    c2!(arith_i32, I32S, I32S);
    c2!(arith_u32, U32S, U32S);
    c2!(arith_i64, I64S, I64S);
    c2!(div_rem_i32, I32S, I32S);
    c2!(div_rem_euclid, I32S, I32S);
    c2!(div_rem_i64, I64S, I64S);
    c1!(neg_i32, I32S);
    c2!(checked_ops, I32S, I32S);
    c1!(cast_i64_i32, I64S);
    c1!(cast_i32_u32, I32S);
    c1!(cast_u32_i32, U32S);
    c1!(cast_chain, I32S);
    c2!(short_circuit_and, I32S, I32S);
    c2!(short_circuit_or, I32S, I32S);
    c2!(not_and_or, I32S, I32S);
    c2!(if_value, I32S, I32S);
    c2!(early_return, I32S, U32S);
    c2!(compound_assign, I32S, U32S);
    c2!(nested_if, I32S, I32S);
    c2!(match_lit, U32S, BOOLS);
    c2!(match_guard, I32S, I32S);
    c1!(kind_of, I32S);
    c1!(match_enum, I32S);
    c1!(enum_discr, I32S);
    c2!(option_flow, I32S, I32S);
    c2!(let_else, I32S, I32S);
    c2!(if_let, I32S, I32S);
    c2!(struct_flow, I32S, U32S);
    c1!(alias_limits, I32S);
    c2!(debug_checked, U32S, U32S);
    c1!(unreachable_arm, U32S);
    c2!(swapped_cmp, I32S, I32S);
    c2!(shape_len, U32S, U32S);
    c2!(shape_has, U32S, U32S);
    c2!(tuple_flow, I32S, I32S);
    c2!(match_tuple, I32S, I32S);
    c2!(result_flow, I32S, I32S);
    c2!(both_sides, I32S, I32S);
    c2!(both_sides_typed, I32S, I32S);
    c2!(bool_cast, I32S, I32S);
    c1!(narrow_cast, I32S);
    c1!(uses_matches, I32S);
    c2!(abs_diff_u, I32S, I32S);
    c1!(while_loop, U32S);
    c2!(option_methods, I32S, I32S);
    c2!(names_clash, I32S, I32S);
}
