//! PROTOTYPE (design phase): translate the free `const fn`s of `mod inner` of the
//! macro-expanded julian crate into monadic Gallina.  Exploration artefact only.
use quote::ToTokens;
use std::collections::{BTreeSet, HashMap};
use syn::*;

#[derive(Clone, Debug, PartialEq)]
enum Ty { I32, U32, I64, Bool, Unit, Tuple(Vec<Ty>), Option(Box<Ty>), Named(String), Unknown }

impl Ty {
    fn int_prefix(&self) -> &'static str { match self { Ty::I32 => "i32", Ty::U32 => "u32", Ty::I64 => "i64", t => panic!("not an int type: {t:?}") } }
    fn is_int(&self) -> bool { matches!(self, Ty::I32 | Ty::U32 | Ty::I64) }
    fn coq(&self) -> String { match self {
        Ty::I32 | Ty::U32 | Ty::I64 => "Z".into(), Ty::Bool => "bool".into(), Ty::Unit => "unit".into(),
        Ty::Tuple(ts) => format!("({})", ts.iter().map(|t| t.coq()).collect::<Vec<_>>().join(" * ")),
        Ty::Option(t) => format!("(option {})", t.coq()), Ty::Named(n) => n.clone(), Ty::Unknown => "_".into() } }
}

struct FnSig { params: Vec<(String, Ty)>, ret: Ty }
struct Ctx { fns: HashMap<String, FnSig>, consts: HashMap<String, (Ty, String)>, aliases: HashMap<String, Ty>, fresh: std::cell::Cell<u32> }
type Env = Vec<(String, Ty)>;
type K<'a> = Box<dyn FnOnce(String, Ty, &Env) -> String + 'a>;

fn ty_of(cx: &Ctx, t: &Type) -> Ty {
    match t {
        Type::Path(p) => { let seg = p.path.segments.last().unwrap(); let n = seg.ident.to_string();
            match n.as_str() { "i32" => Ty::I32, "u32" => Ty::U32, "i64" => Ty::I64, "bool" => Ty::Bool,
                "Option" => { if let PathArguments::AngleBracketed(a) = &seg.arguments { if let GenericArgument::Type(t) = &a.args[0] { return Ty::Option(Box::new(ty_of(cx, t))); } } Ty::Unknown }
                _ => cx.aliases.get(&n).cloned().unwrap_or(Ty::Named(n)) } }
        Type::Tuple(t) => if t.elems.is_empty() { Ty::Unit } else { Ty::Tuple(t.elems.iter().map(|t| ty_of(cx, t)).collect()) },
        Type::Reference(r) => ty_of(cx, &r.elem),
        Type::Paren(p) => ty_of(cx, &p.elem),
        _ => Ty::Unknown }
}
fn lookup(env: &Env, n: &str) -> Option<Ty> { env.iter().rev().find(|(m, _)| m == n).map(|(_, t)| t.clone()) }
impl Ctx { fn tmp(&self) -> String { let n = self.fresh.get(); self.fresh.set(n + 1); format!("t{n}") } }
fn zlit(s: &str) -> String { if s.starts_with('-') { format!("({s})") } else { s.to_string() } }

/// assigned variables (declared outside) in a block/expression, syntactically
fn assigned(e: &Expr, out: &mut BTreeSet<String>) {
    struct V<'a>(&'a mut BTreeSet<String>);
    impl<'ast, 'a> visit::Visit<'ast> for V<'a> {
        fn visit_expr_assign(&mut self, a: &'ast ExprAssign) { if let Expr::Path(p) = &*a.left { self.0.insert(p.path.get_ident().unwrap().to_string()); } visit::visit_expr_assign(self, a); }
        fn visit_expr_binary(&mut self, b: &'ast ExprBinary) {
            if matches!(b.op, BinOp::AddAssign(_) | BinOp::SubAssign(_) | BinOp::RemAssign(_) | BinOp::MulAssign(_)) { if let Expr::Path(p) = &*b.left { self.0.insert(p.path.get_ident().unwrap().to_string()); } }
            visit::visit_expr_binary(self, b); }
    }
    visit::Visit::visit_expr(&mut V(out), e);
}
fn block_expr(b: &Block) -> Expr { Expr::Block(ExprBlock { attrs: vec![], label: None, block: b.clone() }) }

fn tr_block<'a>(cx: &'a Ctx, stmts: &'a [Stmt], env: Env, expected: Option<Ty>, k: K<'a>) -> String {
    if stmts.is_empty() { return k("tt".into(), Ty::Unit, &env); }
    let (first, rest) = stmts.split_first().unwrap();
    match first {
        Stmt::Local(l) => {
            let (pat, declared) = match &l.pat { Pat::Type(pt) => ((*pt.pat).clone(), Some(ty_of(cx, &pt.ty))), p => (p.clone(), None) };
            let init = &l.init.as_ref().expect("let without init").expr;
            assert!(l.init.as_ref().unwrap().diverge.is_none(), "let-else not in prototype");
            tr_expr(cx, init, env, declared.clone(), Box::new(move |v, ty, env| {
                let ty = declared.unwrap_or(ty);
                let mut env = env.clone();
                let p = bind_pat(&pat, &ty, &mut env);
                format!("let {p} := {v} in\n{}", tr_block(cx, rest, env, expected, k))
            }))
        }
        Stmt::Item(Item::Const(c)) => {
            let ty = ty_of(cx, &c.ty); let name = c.ident.to_string();
            tr_expr(cx, &c.expr, env, Some(ty.clone()), Box::new(move |v, _, env| { let mut env = env.clone(); env.push((name.clone(), ty));
                format!("let {name} := {v} in\n{}", tr_block(cx, rest, env, expected, k)) }))
        }
        Stmt::Item(_) | Stmt::Macro(_) => tr_block(cx, rest, env, expected, k),
        Stmt::Expr(e, semi) => {
            if rest.is_empty() && semi.is_none() { return tr_expr(cx, e, env, expected, k); }
            // statement: value discarded
            tr_expr(cx, e, env, None, Box::new(move |_v, _t, env| tr_block(cx, rest, env.clone(), expected, k)))
        }
    }
}

fn bind_pat(p: &Pat, ty: &Ty, env: &mut Env) -> String {
    match p {
        Pat::Ident(i) => { let n = i.ident.to_string(); env.push((n.clone(), ty.clone())); n }
        Pat::Wild(_) => "_".into(),
        Pat::Tuple(t) => { let tys = match ty { Ty::Tuple(ts) => ts.clone(), _ => vec![Ty::Unknown; t.elems.len()] };
            format!("'({})", t.elems.iter().zip(tys.iter()).map(|(p, t)| bind_pat(p, t, env).trim_start_matches('\'').to_string()).collect::<Vec<_>>().join(", ")) }
        _ => panic!("unsupported let pattern {}", p.to_token_stream()) }
}

/// join point: wrap continuation `k` so it can be invoked from several branches.
/// Returns (definition prefix, call generator)
fn joinpoint<'a>(cx: &'a Ctx, vars: Vec<(String, Ty)>, with_value: bool, env: &Env, k: K<'a>) -> (String, Box<dyn Fn(&str) -> String + 'a>) {
    let name = format!("jp{}", cx.tmp());
    let mut params: Vec<String> = vec![]; let mut env2 = env.clone();
    let vname = format!("v{}", cx.tmp());
    if with_value { params.push(vname.clone()); }
    for (v, t) in &vars { params.push(v.clone()); env2.push((v.clone(), t.clone())); }
    if params.is_empty() { params.push("_".into()); }
    // value type is unknown here: the prototype passes Unknown and lets Coq infer
    let body = k(if with_value { vname } else { "tt".into() }, Ty::Unknown, &env2);
    let def = format!("let {name} := fun {} =>\n{body} in\n", params.join(" "));
    let vars2: Vec<String> = vars.iter().map(|(v, _)| v.clone()).collect();
    (def, Box::new(move |val: &str| { let mut args: Vec<String> = vec![]; if with_value { args.push(format!("({val})")); } args.extend(vars2.iter().cloned()); if args.is_empty() { args.push("tt".into()); } format!("{name} {}", args.join(" ")) }))
}

fn tr_expr<'a>(cx: &'a Ctx, e: &'a Expr, env: Env, expected: Option<Ty>, k: K<'a>) -> String {
    match e {
        Expr::Paren(p) => tr_expr(cx, &p.expr, env, expected, k),
        Expr::Group(p) => tr_expr(cx, &p.expr, env, expected, k),
        Expr::Lit(l) => match &l.lit {
            Lit::Int(i) => { let ty = match i.suffix() { "i32" => Ty::I32, "u32" => Ty::U32, "i64" => Ty::I64, _ => expected.clone().filter(|t| t.is_int()).unwrap_or(Ty::Unknown) }; k(zlit(i.base10_digits()), ty, &env) }
            Lit::Bool(b) => k(b.value.to_string(), Ty::Bool, &env),
            _ => panic!("literal") },
        Expr::Path(p) => { let n = p.path.segments.last().unwrap().ident.to_string();
            if let Some(t) = lookup(&env, &n) { k(n, t, &env) }
            else if let Some((t, _)) = cx.consts.get(&n) { k(n.clone(), t.clone(), &env) }
            else if n == "None" { k("None".into(), expected.unwrap_or(Ty::Unknown), &env) }
            else { k(p.to_token_stream().to_string().replace(" :: ", "_").replace("::", "_"), Ty::Unknown, &env) } }
        Expr::Unary(u) => match u.op {
            UnOp::Neg(_) => { if let Expr::Lit(ExprLit { lit: Lit::Int(i), .. }) = &*u.expr { let ty = expected.filter(|t| t.is_int()).unwrap_or(Ty::Unknown); return k(format!("(-{})", i.base10_digits()), ty, &env); }
                tr_expr(cx, &u.expr, env, expected, Box::new(move |v, t, env| { let tmp = cx.tmp(); format!("{tmp} <- {}_neg {v};;\n{}", t.int_prefix(), k(tmp.clone(), t, env)) })) }
            UnOp::Not(_) => tr_expr(cx, &u.expr, env, Some(Ty::Bool), Box::new(move |v, _, env| k(format!("(negb {v})"), Ty::Bool, env))),
            UnOp::Deref(_) => tr_expr(cx, &u.expr, env, expected, k),
            _ => panic!("unop") },
        Expr::Cast(c) => { let to = ty_of(cx, &c.ty);
            tr_expr(cx, &c.expr, env, None, Box::new(move |v, from, env| { let from = if from == Ty::Unknown { to.clone() } else { from };
                if from == to { k(v, to, env) } else { k(format!("(cast_{}_{} {v})", if from == Ty::Bool { "bool" } else { from.int_prefix() }, to.int_prefix()), to, env) } })) }
        Expr::Binary(b) => tr_binary(cx, b, env, expected, k),
        Expr::Tuple(t) => { fn go<'a>(cx: &'a Ctx, es: &'a [&'a Expr], env: Env, acc: Vec<(String, Ty)>, k: K<'a>) -> String {
                if es.is_empty() { let ts = acc.iter().map(|(_, t)| t.clone()).collect(); return k(format!("({})", acc.iter().map(|(v, _)| v.clone()).collect::<Vec<_>>().join(", ")), Ty::Tuple(ts), &env); }
                let (f, r) = es.split_first().unwrap();
                tr_expr(cx, f, env, None, Box::new(move |v, t, env| { let mut acc = acc; acc.push((v, t)); go(cx, r, env.clone(), acc, k) })) }
            let es: Vec<&Expr> = t.elems.iter().collect(); let es: &'a [&'a Expr] = Box::leak(es.into_boxed_slice());
            if es.is_empty() { return k("tt".into(), Ty::Unit, &env); }
            go(cx, es, env, vec![], k) }
        Expr::Call(c) => { let fname = c.func.to_token_stream().to_string().replace(' ', "");
            if fname.contains("panicking::panic") { return "Panic".into(); }
            let short = fname.rsplit("::").next().unwrap().to_string();
            if short == "Some" { return tr_expr(cx, &c.args[0], env, None, Box::new(move |v, t, env| k(format!("(Some {v})"), Ty::Option(Box::new(t)), env))); }
            let sig = cx.fns.get(&short).unwrap_or_else(|| panic!("unknown fn {fname}"));
            let ptys: Vec<Ty> = sig.params.iter().map(|(_, t)| t.clone()).collect(); let ret = sig.ret.clone();
            tr_args(cx, c.args.iter().collect(), ptys, env, vec![], Box::new(move |args, env| { let tmp = cx.tmp(); format!("{tmp} <- {short} {};;\n{}", args.join(" "), k(tmp.clone(), ret, env)) })) }
        Expr::MethodCall(m) => { let name = m.method.to_string();
            tr_expr(cx, &m.receiver, env, None, Box::new(move |rv, rt, env| {
                let rt = if rt == Ty::Unknown { Ty::I32 } else { rt };
                match name.as_str() {
                    "div_euclid" | "rem_euclid" => { let rt2 = rt.clone(); tr_expr(cx, &m.args[0], env.clone(), Some(rt.clone()), Box::new(move |av, _, env| { let tmp = cx.tmp(); format!("{tmp} <- {}_{name} {rv} {av};;\n{}", rt2.int_prefix(), k(tmp.clone(), rt2.clone(), env)) })) }
                    "checked_sub" | "checked_add" => { let rt2 = rt.clone(); tr_expr(cx, &m.args[0], env.clone(), Some(rt.clone()), Box::new(move |av, _, env| k(format!("({}_{name} {rv} {av})", rt2.int_prefix()), Ty::Option(Box::new(rt2.clone())), env))) }
                    _ => panic!("method {name}") } })) }
        Expr::Return(r) => tr_expr(cx, r.expr.as_ref().unwrap(), env, None, Box::new(|v, _, _| format!("Ret {v}"))),
        Expr::Block(b) => tr_block(cx, &b.block.stmts, env, expected, k),
        Expr::Assign(a) => { let n = if let Expr::Path(p) = &*a.left { p.path.get_ident().unwrap().to_string() } else { panic!("assign target") };
            let t = lookup(&env, &n).unwrap();
            tr_expr(cx, &a.right, env, Some(t), Box::new(move |v, _, env| format!("let {n} := {v} in\n{}", k("tt".into(), Ty::Unit, env)))) }
        Expr::If(i) => tr_if(cx, i, env, expected, k),
        Expr::Match(m) => tr_match(cx, m, env, expected, k),
        _ => panic!("unsupported expr: {}", e.to_token_stream()) }
}

fn tr_args<'a>(cx: &'a Ctx, es: Vec<&'a Expr>, tys: Vec<Ty>, env: Env, acc: Vec<String>, k: Box<dyn FnOnce(Vec<String>, &Env) -> String + 'a>) -> String {
    if es.is_empty() { return k(acc, &env); }
    let mut es = es; let f = es.remove(0); let mut tys = tys; let t = if tys.is_empty() { None } else { Some(tys.remove(0)) };
    tr_expr(cx, f, env, t, Box::new(move |v, _, env| { let mut acc = acc; acc.push(if v.contains(' ') && !v.starts_with('(') { format!("({v})") } else { v }); tr_args(cx, es, tys, env.clone(), acc, k) }))
}

fn is_literal(e: &Expr) -> bool { match e { Expr::Lit(_) => true, Expr::Paren(p) => is_literal(&p.expr), Expr::Unary(u) => matches!(u.op, UnOp::Neg(_)) && is_literal(&u.expr), _ => false } }

fn tr_binary<'a>(cx: &'a Ctx, b: &'a ExprBinary, env: Env, expected: Option<Ty>, k: K<'a>) -> String {
    use BinOp::*;
    let opname = match b.op { Add(_) | AddAssign(_) => "add", Sub(_) | SubAssign(_) => "sub", Mul(_) | MulAssign(_) => "mul", Div(_) => "div", Rem(_) | RemAssign(_) => "rem",
        Lt(_) => "<?", Le(_) => "<=?", Gt(_) => ">?", Ge(_) => ">=?", Eq(_) => "=?", Ne(_) => "<>?", And(_) => "&&", Or(_) => "||", _ => panic!("binop") };
    let assign = matches!(b.op, AddAssign(_) | SubAssign(_) | MulAssign(_) | RemAssign(_));
    match opname {
        "&&" | "||" => {
            // short-circuit, sequenced
            tr_expr(cx, &b.left, env, Some(Ty::Bool), Box::new(move |lv, _, env| {
                // if rhs is effect-free we can emit andb/orb directly: try translating rhs with a marker continuation
                let rhs = tr_expr(cx, &b.right, env.clone(), Some(Ty::Bool), Box::new(|rv, _, _| format!("\u{1}{rv}")));
                if let Some(pure) = rhs.strip_prefix('\u{1}') { k(format!("({lv} {opname} {pure})"), Ty::Bool, env) }
                else { let tmp = cx.tmp(); let rhs_m = rhs.replacen('\u{1}', "Ret ", 1);
                    let short = if opname == "&&" { format!("if {lv} then ({rhs_m}) else Ret false") } else { format!("if {lv} then Ret true else ({rhs_m})") };
                    format!("{tmp} <- ({short});;\n{}", k(tmp.clone(), Ty::Bool, env)) } })) }
        "<?" | "<=?" | ">?" | ">=?" | "=?" | "<>?" => {
            let (first, second, swap) = if is_literal(&b.left) { (&*b.right, &*b.left, true) } else { (&*b.left, &*b.right, false) };
            tr_expr(cx, first, env, None, Box::new(move |fv, ft, env| tr_expr(cx, second, env.clone(), Some(ft), Box::new(move |sv, _, env| {
                let (l, r) = if swap { (sv, fv) } else { (fv, sv) };
                let t = if opname == "<>?" { format!("(negb ({l} =? {r}))") } else { format!("({l} {opname} {r})") }; k(t, Ty::Bool, env) })))) }
        _ => {
            let (first, second, swap) = if is_literal(&b.left) && !assign { (&*b.right, &*b.left, true) } else { (&*b.left, &*b.right, false) };
            let exp2 = expected.clone();
            tr_expr(cx, first, env, expected, Box::new(move |fv, ft, env| { let ft = if ft == Ty::Unknown { exp2.clone().unwrap_or(Ty::Unknown) } else { ft };
                tr_expr(cx, second, env.clone(), Some(ft.clone()), Box::new(move |sv, st, env| {
                    let ty = if ft != Ty::Unknown { ft } else { st };
                    let (l, r) = if swap { (sv, fv.clone()) } else { (fv.clone(), sv) };
                    if assign { format!("{fv} <- {}_{opname} {l} {r};;\n{}", ty.int_prefix(), k("tt".into(), Ty::Unit, env)) }
                    else { let tmp = cx.tmp(); format!("{tmp} <- {}_{opname} {l} {r};;\n{}", ty.int_prefix(), k(tmp.clone(), ty, env)) } })) })) } }
}

fn tr_if<'a>(cx: &'a Ctx, i: &'a ExprIf, env: Env, expected: Option<Ty>, k: K<'a>) -> String {
    // collect variables assigned in either branch that are visible outside
    let mut asg = BTreeSet::new(); assigned(&block_expr(&i.then_branch), &mut asg); if let Some((_, e)) = &i.else_branch { assigned(e, &mut asg); }
    let vars: Vec<(String, Ty)> = asg.into_iter().filter_map(|v| lookup(&env, &v).map(|t| (v, t))).collect();
    let has_value = i.else_branch.is_some() && expected != Some(Ty::Unit) && !matches!(i.then_branch.stmts.last(), Some(Stmt::Expr(_, Some(_))) | None | Some(Stmt::Local(_)));
    let (def, call) = joinpoint(cx, vars, has_value, &env, k);
    let call = std::rc::Rc::new(call);
    let c1 = call.clone(); let c2 = call.clone();
    let then_k: K<'a> = Box::new(move |v, _, _| c1(&v)); let else_k: K<'a> = Box::new(move |v, _, _| c2(&v));
    let else_s = |env: Env| match &i.else_branch { Some((_, e)) => tr_expr(cx, e, env, expected.clone(), else_k), None => else_k("tt".into(), Ty::Unit, &env) };
    match &*i.cond {
        Expr::Let(l) => { // if let PAT = e
            let pat = &*l.pat; let exp3 = expected.clone(); let env0 = env.clone();
            format!("{def}{}", tr_expr(cx, &l.expr, env, None, Box::new(move |sv, st, env| { let mut env2 = env.clone();
                let ps = tr_pat(pat, &st, &mut env2);
                format!("match {sv} with\n| {ps} => {}\n| _ => {}\nend", tr_block(cx, &i.then_branch.stmts, env2, exp3, then_k), else_s(env0)) }))) }
        c => { let exp3 = expected.clone(); let env0 = env.clone();
            format!("{def}{}", tr_expr(cx, c, env, Some(Ty::Bool), Box::new(move |cv, _, env| format!("if {cv}\nthen {}\nelse {}", tr_block(cx, &i.then_branch.stmts, env.clone(), exp3, then_k), else_s(env0))))) } }
}

fn tr_pat(p: &Pat, ty: &Ty, env: &mut Env) -> String {
    match p {
        Pat::TupleStruct(ts) => { let n = ts.path.segments.last().unwrap().ident.to_string(); let inner = match ty { Ty::Option(t) => (**t).clone(), _ => Ty::Unknown };
            format!("{n} {}", ts.elems.iter().map(|q| tr_pat(q, &inner, env)).collect::<Vec<_>>().join(" ")) }
        Pat::Ident(i) => { let n = i.ident.to_string(); if n == "None" { return n; } env.push((n.clone(), ty.clone())); n }
        Pat::Path(pp) => pp.path.segments.last().unwrap().ident.to_string(),
        Pat::Wild(_) => "_".into(),
        _ => panic!("pattern {}", p.to_token_stream()) }
}

fn tr_match<'a>(cx: &'a Ctx, m: &'a ExprMatch, env: Env, expected: Option<Ty>, k: K<'a>) -> String {
    // prototype: no guards; flat match; join point for the continuation
    let (def, call) = joinpoint(cx, vec![], true, &env, k); let call = std::rc::Rc::new(call);
    format!("{def}{}", tr_expr(cx, &m.expr, env, None, Box::new(move |sv, st, env| {
        let mut out = format!("match {sv} with\n");
        for arm in &m.arms { assert!(arm.guard.is_none()); let mut env2 = env.clone(); let ps = tr_pat(&arm.pat, &st, &mut env2); let c = call.clone();
            out += &format!("| {ps} => {}\n", tr_expr(cx, &arm.body, env2, expected.clone(), Box::new(move |v, _, _| c(&v)))); }
        out + "end" })))
}

fn main() {
    let src = std::fs::read_to_string(std::env::args().nth(1).unwrap()).unwrap();
    let file = parse_file(&src).unwrap();
    let mut cx = Ctx { fns: HashMap::new(), consts: HashMap::new(), aliases: HashMap::new(), fresh: std::cell::Cell::new(0) };
    cx.aliases.insert("Jdnum".into(), Ty::I32);
    let mut out = String::from("(* GENERATED by the rs2coq prototype from the macro-expanded julian crate *)\nRequire Import Sem.\nOpen Scope Z_scope.\n\n");
    let mut todo: Vec<ItemFn> = vec![];
    fn consts(cx: &mut Ctx, items: &[Item], out: &mut String) { for it in items { if let Item::Const(c) = it { let ty = ty_of(cx, &c.ty); if ty.is_int() {
        let v = c.expr.to_token_stream().to_string(); let v = v.replace(' ', ""); if v.chars().all(|ch| ch.is_ascii_digit() || ch == '-') { *out += &format!("Definition {} : Z := {}.\n", c.ident, zlit(&v)); cx.consts.insert(c.ident.to_string(), (ty, v)); } } } } }
    consts(&mut cx, &file.items, &mut out);
    for it in &file.items { if let Item::Mod(m) = it { if m.ident == "inner" { let items = &m.content.as_ref().unwrap().1; consts(&mut cx, items, &mut out);
        for it in items { if let Item::Fn(f) = it { if f.sig.constness.is_some() { todo.push(f.clone()); } } } } } }
    let want = ["is_julian_leap_year", "is_gregorian_leap_year", "decompose_julian", "compose_julian", "jdn2julian", "julian2jdn", "jdn2gregorian", "gregorian2jdn"];
    todo.retain(|f| want.contains(&f.sig.ident.to_string().as_str()));
    todo.sort_by_key(|f| want.iter().position(|w| *w == f.sig.ident.to_string()).unwrap());
    for f in &todo { let params = f.sig.inputs.iter().map(|a| match a { FnArg::Typed(pt) => (pt.pat.to_token_stream().to_string(), ty_of(&cx, &pt.ty)), _ => panic!() }).collect();
        let ret = match &f.sig.output { ReturnType::Type(_, t) => ty_of(&cx, t), _ => Ty::Unit }; cx.fns.insert(f.sig.ident.to_string(), FnSig { params, ret }); }
    let cx: &'static Ctx = Box::leak(Box::new(cx)); let todo: &'static Vec<ItemFn> = Box::leak(Box::new(todo));
    for f in todo { let sig = &cx.fns[&f.sig.ident.to_string()]; cx.fresh.set(0);
        let env: Env = sig.params.clone();
        let body = tr_block(cx, &f.block.stmts, env, Some(sig.ret.clone()), Box::new(|v, _, _| format!("Ret {v}")));
        out += &format!("\nDefinition {} {} : M {} :=\n{}.\n", f.sig.ident, sig.params.iter().map(|(n, t)| format!("({n} : {})", t.coq())).collect::<Vec<_>>().join(" "), sig.ret.coq(), body);
    }
    print!("{out}");
}
