(* PROTOTYPE semantics library for the rs2coq prototype.  Exploration artefact. *)
From Coq Require Export ZArith Lia ZifyBool Bool.
Open Scope Z_scope.

Inductive M (A : Type) : Type := Ret (a : A) | Panic.
Arguments Ret {A} a. Arguments Panic {A}.
Definition bind {A B} (m : M A) (f : A -> M B) : M B := match m with Ret a => f a | Panic => Panic end.
Notation "x <- m ;; k" := (bind m (fun x => k)) (at level 61, m at next level, right associativity).

Definition i32_min := -2147483648. Definition i32_max := 2147483647. Definition u32_max := 4294967295.
Definition in_i32 z := i32_min <= z <= i32_max.
Definition in_u32 z := 0 <= z <= u32_max.
Definition chk32 z : M Z := if (i32_min <=? z) && (z <=? i32_max) then Ret z else Panic.
Definition chku32 z : M Z := if (0 <=? z) && (z <=? u32_max) then Ret z else Panic.
Definition i32_add a b := chk32 (a + b).
Definition i32_sub a b := chk32 (a - b).
Definition i32_mul a b := chk32 (a * b).
Definition u32_add a b := chku32 (a + b).
Definition u32_sub a b := chku32 (a - b).
Definition zdiv_euclid a b := if 0 <? b then a / b else - (a / (- b)).
Definition i32_div_euclid a b := if b =? 0 then Panic else chk32 (zdiv_euclid a b).
Definition i32_rem_euclid a b := if b =? 0 then Panic else if (a =? i32_min) && (b =? -1) then Panic else Ret (a mod (Z.abs b)).
Definition i32_div a b := if b =? 0 then Panic else chk32 (Z.quot a b).
Definition i32_rem a b := if b =? 0 then Panic else if (a =? i32_min) && (b =? -1) then Panic else Ret (Z.rem a b).
Definition i32_checked_sub a b : option Z := let r := a - b in if (i32_min <=? r) && (r <=? i32_max) then Some r else None.
Definition i32_checked_add a b : option Z := let r := a + b in if (i32_min <=? r) && (r <=? i32_max) then Some r else None.
Definition cast_i32_u32 a : Z := a mod 4294967296.
Definition cast_u32_i32 a : Z := let r := a mod 4294967296 in if r <=? i32_max then r else r - 4294967296.

Lemma chk32_ok z : in_i32 z -> chk32 z = Ret z.
Proof. unfold chk32, in_i32, i32_min, i32_max. intros. replace (_ && _) with true by lia. reflexivity. Qed.
Lemma chku32_ok z : in_u32 z -> chku32 z = Ret z.
Proof. unfold chku32, in_u32, u32_max. intros. replace (_ && _) with true by lia. reflexivity. Qed.

Lemma i32_add_ok a b : in_i32 (a + b) -> i32_add a b = Ret (a + b). Proof. apply chk32_ok. Qed.
Lemma i32_sub_ok a b : in_i32 (a - b) -> i32_sub a b = Ret (a - b). Proof. apply chk32_ok. Qed.
Lemma i32_mul_ok a b : in_i32 (a * b) -> i32_mul a b = Ret (a * b). Proof. apply chk32_ok. Qed.
Lemma u32_add_ok a b : in_u32 (a + b) -> u32_add a b = Ret (a + b). Proof. apply chku32_ok. Qed.
Lemma u32_sub_ok a b : in_u32 (a - b) -> u32_sub a b = Ret (a - b). Proof. apply chku32_ok. Qed.
Lemma i32_div_euclid_pos a b : 0 < b -> in_i32 (a / b) -> i32_div_euclid a b = Ret (a / b).
Proof. intros. unfold i32_div_euclid, zdiv_euclid. replace (b =? 0) with false by lia. replace (0 <? b) with true by lia. now apply chk32_ok. Qed.
Lemma i32_rem_euclid_pos a b : 0 < b -> i32_rem_euclid a b = Ret (a mod b).
Proof. intros. unfold i32_rem_euclid. replace (b =? 0) with false by lia. replace (b =? -1) with false by lia. rewrite andb_false_r. now rewrite Z.abs_eq by lia. Qed.
Lemma i32_rem_pos a b : 0 < b -> i32_rem a b = Ret (Z.rem a b).
Proof. intros. unfold i32_rem. replace (b =? 0) with false by lia. replace (b =? -1) with false by lia. now rewrite andb_false_r. Qed.
Lemma i32_div_pos a b : 0 < b -> in_i32 (Z.quot a b) -> i32_div a b = Ret (Z.quot a b).
Proof. intros. unfold i32_div. replace (b =? 0) with false by lia. now apply chk32_ok. Qed.
