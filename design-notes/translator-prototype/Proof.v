(* PROTOTYPE: a theorem about the GENERATED decompose_julian / jdn2julian. *)
Require Import Sem Gen.
Open Scope Z_scope.
Ltac Zify.zify_post_hook ::= Z.to_euclidean_division_equations.

Definition JC0 (y : Z) : Z := 365 * y + (y + 3) / 4.
Ltac range := unfold in_i32, in_u32, i32_min, i32_max, u32_max in *; lia.
Ltac consts := unfold JULIAN_LEAP_CYCLE_DAYS, JULIAN_LEAP_CYCLE_YEARS, LEAP_YEAR_LENGTH, COMMON_YEAR_LENGTH, JDN0_YEAR in *.
Ltac mstep :=
  first
  [ rewrite i32_add_ok by range | rewrite i32_sub_ok by range | rewrite i32_mul_ok by range
  | rewrite u32_add_ok by range | rewrite u32_sub_ok by range
  | rewrite i32_div_euclid_pos by range | rewrite i32_rem_euclid_pos by range
  | rewrite i32_rem_pos by range | rewrite i32_div_pos by range
  | progress cbn [bind] ].

Lemma decompose_julian_ok days : in_i32 days ->
  exists y o, decompose_julian days = Ret (y, o) /\ JC0 y <= days < JC0 (y + 1) /\ o = days - JC0 y + 1.
Proof.
  intros H. unfold decompose_julian. consts. repeat mstep. cbv zeta.
  destruct (Z.gtb_spec (days mod 1461) 365); repeat mstep;
    (eexists _, _; split; [reflexivity|]; unfold JC0, cast_i32_u32; lia).
Qed.

Lemma jdn2julian_ok jd : in_i32 jd ->
  exists y o, jdn2julian jd = Ret (y, o) /\ JC0 (y + 4712) <= jd < JC0 (y + 4712 + 1) /\ o = jd - JC0 (y + 4712) + 1.
Proof.
  intros H. unfold jdn2julian. destruct (decompose_julian_ok jd H) as (y & o & E & B & O). rewrite E. cbn [bind].
  assert (-5879490 <= y <= 5879489) by (unfold JC0 in *; range).
  consts. unfold i32_add. rewrite chk32_ok by range. cbn [bind].
  eexists _, _. split; [reflexivity|]. replace (y + -4712 + 4712) with y by lia. auto.
Qed.
Print Assumptions jdn2julian_ok.
