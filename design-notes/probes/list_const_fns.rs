use syn::{Item, ImplItem};
fn walk(items: &[Item], path: &str, n: &mut usize) {
    for it in items {
        match it {
            Item::Fn(f) => { if f.sig.constness.is_some() { *n += 1; println!("const fn {}::{}", path, f.sig.ident); } }
            Item::Impl(im) => {
                let ty = quote::quote!(#(im.self_ty)).to_string();
                let _ = ty;
                let tyname = { let t = &im.self_ty; quote::quote!(#t).to_string() };
                let tr = im.trait_.as_ref().map(|(_, p, _)| quote::quote!(#p).to_string());
                for ii in &im.items { if let ImplItem::Fn(f) = ii { if f.sig.constness.is_some() { *n += 1; println!("const fn {}::<{}{}>::{}", path, tyname, tr.as_ref().map(|t| format!(" as {t}")).unwrap_or_default(), f.sig.ident); } } }
            }
            Item::Mod(m) => { if let Some((_, items)) = &m.content { walk(items, &format!("{}::{}", path, m.ident), n); } }
            _ => {}
        }
    }
}
fn main() {
    let src = std::fs::read_to_string(std::env::args().nth(1).unwrap()).unwrap();
    let file = syn::parse_file(&src).expect("parse");
    let mut n = 0;
    walk(&file.items, "crate", &mut n);
    println!("{n} const fns");
}
