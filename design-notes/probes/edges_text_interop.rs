use julian::*;
use std::panic;
fn main() {
    panic::set_hook(Box::new(|_| {}));
    let cals = vec![Calendar::JULIAN, Calendar::GREGORIAN, Calendar::REFORM1582, Calendar::reforming(1830692).unwrap(), Calendar::reforming(2147439588).unwrap(), Calendar::reforming(19582149).unwrap(), Calendar::reforming(1000000000).unwrap()];
    let mut bad = 0u64;
    for cal in &cals {
        // extremes
        for (lo, hi) in [(i32::MIN as i64, i32::MIN as i64 + 1500), (i32::MAX as i64 - 1500, i32::MAX as i64), (-1500, 1500)] {
            for j in lo..=hi {
                let j = j as i32;
                let d = match panic::catch_unwind(|| cal.at_jdn(j)) { Ok(d) => d, Err(_) => { println!("PANIC at_jdn {cal:?} {j}"); bad += 1; continue; } };
                assert_eq!(d.julian_day_number(), j);
                let r1 = panic::catch_unwind(|| cal.at_ymd(d.year(), d.month(), d.day()));
                if r1.as_ref().ok() != Some(&Ok(d)) { println!("at_ymd rt {cal:?} {j} {d} {r1:?}"); bad += 1; }
                let r2 = panic::catch_unwind(|| cal.at_ordinal_date(d.year(), d.ordinal()));
                if r2.as_ref().ok() != Some(&Ok(d)) { println!("at_ord rt {cal:?} {j} {d} {r2:?}"); bad += 1; }
                let s = panic::catch_unwind(|| d.succ());
                let es = j.checked_add(1).map(|k| cal.at_jdn(k));
                if s.as_ref().ok() != Some(&es) { println!("succ {cal:?} {j} {s:?}"); bad += 1; }
                let p = panic::catch_unwind(|| d.pred());
                let ep = j.checked_sub(1).map(|k| cal.at_jdn(k));
                if p.as_ref().ok() != Some(&ep) { println!("pred {cal:?} {j} {p:?}"); bad += 1; }
                for alt in [false, true] {
                    let s = if alt { format!("{d:#}") } else { format!("{d}") };
                    let r = cal.parse_date(&s);
                    if r.as_ref().ok() != Some(&d) { println!("parse rt {cal:?} {j} {s:?} {r:?}"); bad += 1; }
                }
                // months shapes dates iteration
                if let Some(ms) = cal.month_shape(d.year(), d.month()) {
                    let r = panic::catch_unwind(|| ms.dates().count());
                    match r { Ok(n) => if n as u32 != ms.len() { if bad < 50 { println!("dates count {cal:?} {}-{} got {n} len {}", d.year(), d.month(), ms.len()); } bad += 1; }, Err(_) => { println!("PANIC dates {cal:?} {d}"); bad += 1; } }
                }
            }
        }
        // beyond range
        for (y, m, dd) in [(i32::MAX, 1u32, 1u32), (i32::MIN, 12, 31), (5874898, 6, 4), (5874898, 6, 3), (5874777, 10, 18), (5874777,10,17), (-5884323, 5, 14), (-5884323,5,15), (-5884202, 3, 15), (-5884202,3,16)] {
            let r = panic::catch_unwind(|| cal.at_ymd(y, Month::try_from(m).unwrap(), dd));
            println!("{:?} at_ymd({y},{m},{dd}) = {:?}", cal.reformation(), r.map(|r| r.map(|d| d.julian_day_number())));
        }
        for y in [i32::MIN, i32::MAX, -5884324, 5874899] {
            for o in [0u32, 1, 365, 366, 367, u32::MAX] {
                let r = panic::catch_unwind(|| cal.at_ordinal_date(y, o));
                if r.is_err() { println!("PANIC at_ordinal_date {cal:?} {y} {o}"); bad += 1; }
            }
            let _ = panic::catch_unwind(|| cal.year_kind(y)).map_err(|_| println!("PANIC year_kind {y}"));
            let _ = panic::catch_unwind(|| cal.year_length(y)).map_err(|_| println!("PANIC year_length {y}"));
        }
    }
    // reforming acceptance
    let mut first_ok = None; let mut last_ok = None;
    for r in (1830000..1832000).chain(2147430000..=2147483647i64).chain(-2147483648..-2147483000).chain((-2147483648i64..2147483647).step_by(1000003)) {
        let r = r as i32;
        match panic::catch_unwind(|| Calendar::reforming(r)) { Err(_) => { println!("PANIC reforming {r}"); bad+=1; }
            Ok(Ok(_)) => { if first_ok.is_none() || first_ok.unwrap() > r { first_ok = Some(r); } if last_ok.is_none() || last_ok.unwrap() < r { last_ok = Some(r); } if !(1830692..=2147439588).contains(&r) { println!("accepted {r}"); bad+=1; } }
            Ok(Err(e)) => { if (1830692..=2147439588).contains(&r) { println!("rejected {r} {e:?}"); bad+=1; } else { let exp = if r < 1830692 { errors::ReformingError::InvalidReformation } else { errors::ReformingError::Arithmetic }; if e != exp { println!("wrong err {r} {e:?}"); bad += 1; } } } }
    }
    println!("first_ok {first_ok:?} last_ok {last_ok:?}");
    println!("{:?} {:?}", Calendar::REFORM1582, Calendar::reforming(2299161).unwrap());
    println!("eqdebug {}", format!("{:?}", Calendar::REFORM1582) == format!("{:?}", Calendar::reforming(2299161).unwrap()));
    // unix
    for t in [i64::MIN, i64::MAX, -185753453990400, -185753453990401, 185331720383999, 185331720384000, -1, 0, 86399, 86400, -86400, -86401] {
        println!("unix2jdn({t}) = {:?}", panic::catch_unwind(|| unix2jdn(t)));
    }
    use std::time::{Duration, UNIX_EPOCH};
    println!("{:?}", system2jdn(UNIX_EPOCH - Duration::from_millis(500)));
    println!("{:?}", system2jdn(UNIX_EPOCH - Duration::new(86400, 0)));
    println!("{:?}", system2jdn(UNIX_EPOCH - Duration::new(86400, 1)));
    println!("{:?}", system2jdn(UNIX_EPOCH + Duration::new(86399, 999999999)));
    println!("{}", Calendar::GREGORIAN.at_ymd(-1, Month::January, 1).unwrap());
    println!("{:#}", Calendar::GREGORIAN.at_ymd(-12345, Month::January, 1).unwrap());
    println!("{}", Calendar::GREGORIAN.at_ymd(12345, Month::January, 1).unwrap());
    // chrono
    {
        use chrono::{NaiveDate, Datelike};
        let mut n = 0u64;
        let mut d = NaiveDate::MIN;
        loop {
            let jd: Date = d.into();
            if jd.julian_day_number() != d.num_days_from_ce() + 1721425 || jd.year() != d.year() || jd.month().number() != d.month() || jd.day() != d.day() { println!("chrono mismatch {d}"); bad += 1; break; }
            let back = NaiveDate::try_from(jd);
            if back != Ok(d) { println!("chrono back {d} {back:?}"); bad += 1; break; }
            n += 1;
            match d.succ_opt() { Some(x) => d = x, None => break }
            if n % 1000 != 0 { /* all */ }
        }
        println!("chrono all {n} dates ok; MIN {} MAX {}", NaiveDate::MIN, NaiveDate::MAX);
        for j in [i32::MIN, i32::MAX, 0, -100000000, 100000000] { for cal in &cals { let r = panic::catch_unwind(|| NaiveDate::try_from(cal.at_jdn(j))); if r.is_err() { println!("PANIC chrono from {j}"); bad+=1; } } }
    }
    {
        let mut n = 0u64; let mut d = time::Date::MIN;
        loop {
            let jd: Date = d.into();
            if jd.julian_day_number() != d.to_julian_day() || jd.year() != d.year() || jd.month().number() != (d.month() as u8 as u32) || jd.day() != d.day() as u32 { println!("time mismatch {d}"); bad += 1; break; }
            if time::Date::try_from(jd) != Ok(d) { println!("time back {d}"); bad += 1; break; }
            n += 1;
            match d.next_day() { Some(x) => d = x, None => break }
        }
        println!("time all {n} dates ok; MIN {} MAX {}", time::Date::MIN, time::Date::MAX);
        for j in [i32::MIN, i32::MAX, 0, -100000000, 100000000] { for cal in &cals { let r = panic::catch_unwind(|| time::Date::try_from(cal.at_jdn(j))); if r.is_err() { println!("PANIC time from {j}"); bad+=1; } } }
    }
    println!("bad = {bad}");
}
