fn fdiv(a: i64, b: i64) -> i64 { a.div_euclid(b) }
fn greg_ymd(j: i64) -> (i64, u32, u32) {
    let z = j - 2440588 + 719468; let era = fdiv(z, 146097); let doe = z - era * 146097;
    let yoe = (doe - doe / 1460 + doe / 36524 - doe / 146096) / 365; let y = yoe + era * 400;
    let doy = doe - (365 * yoe + yoe / 4 - yoe / 100); let mp = (5 * doy + 2) / 153;
    let d = (doy - (153 * mp + 2) / 5 + 1) as u32; let m = if mp < 10 { mp + 3 } else { mp - 9 } as u32;
    (if m <= 2 { y + 1 } else { y }, m, d)
}
fn jul_ymd(j: i64) -> (i64, u32, u32) {
    let z = j - 1721118; let era = fdiv(z, 1461); let doe = z - era * 1461;
    let yoe = (doe - doe / 1460) / 365; let y = yoe + era * 4; let doy = doe - 365 * yoe;
    let mp = (5 * doy + 2) / 153; let d = (doy - (153 * mp + 2) / 5 + 1) as u32; let m = if mp < 10 { mp + 3 } else { mp - 9 } as u32;
    (if m <= 2 { y + 1 } else { y }, m, d)
}
fn main() {
    let (mut fm, mut fy) = (None, None);
    let (mut nm_after, mut ny_after) = (0u64, 0u64);
    for r in 1830692i64..=2147439588 {
        let a = jul_ymd(r - 1); let b = greg_ymd(r);
        let months = (b.0 * 12 + b.1 as i64) - (a.0 * 12 + a.1 as i64) - 1;
        let years = b.0 - a.0 - 1;
        if months > 0 { if fm.is_none() { fm = Some(r); } } else if fm.is_some() { nm_after += 1; }
        if years > 0 { if fy.is_none() { fy = Some(r); } } else if fy.is_some() { ny_after += 1; }
        if r >= 40_000_000 && r % 1000 != 0 { continue; }
    }
    println!("first skipped month at R={fm:?}; calendars after that without skipped month: {nm_after}");
    println!("first skipped year at R={fy:?}; calendars after that without skipped year: {ny_after}");
}
