From Coq Require Import ZArith Lia ZifyBool Bool List.
Import ListNotations.
Open Scope Z_scope.
Ltac Zify.zify_post_hook ::= Z.to_euclidean_division_equations.

Inductive M (A : Type) : Type := Ret (a : A) | Panic.
Arguments Ret {A} a. Arguments Panic {A}.
Definition bind {A B} (m : M A) (f : A -> M B) : M B := match m with Ret a => f a | Panic => Panic end.
Notation "x <- m ;; k" := (bind m (fun x => k)) (at level 61, m at next level, right associativity).

Definition u32_max := 4294967295.
Definition in_u32 z := 0 <= z <= u32_max.
Definition chku32 z : M Z := if (0 <=? z) && (z <=? u32_max) then Ret z else Panic.
Definition u32_add a b := chku32 (a + b).
Definition u32_sub a b := chku32 (a - b).
Lemma chku32_ok z : in_u32 z -> chku32 z = Ret z.
Proof. unfold chku32, in_u32, u32_max. intros. replace (_ && _) with true by lia. reflexivity. Qed.

Inductive Month := January | February | March | April | May | June | July | August | September | October | November | December.
Inductive Result (A E : Type) := Ok (a : A) | Err (e : E).
Arguments Ok {A E} a. Arguments Err {A E} e.
Inductive DateError := OrdinalOutOfRange (year ordinal max_ordinal : Z).

(* simplified calendar: leap flag supplied by a year_kind function *)
Inductive MonthShape := Normal (max_day : Z).
Definition is_leap (year : Z) : M bool := Ret (year mod 4 =? 0).
Definition month_shape (year : Z) (m : Month) : M (option MonthShape) :=
  l <- (match m with
        | January => Ret 31
        | February => b <- is_leap year ;; if b then Ret 29 else Ret 28
        | March => Ret 31 | April => Ret 30 | May => Ret 31 | June => Ret 30
        | July => Ret 31 | August => Ret 31 | September => Ret 30 | October => Ret 31
        | November => Ret 30 | December => Ret 31 end) ;;
  Ret (Some (Normal l)).
Definition shape_len (s : MonthShape) : M Z := match s with Normal m => Ret m end.
Definition nth_day (s : MonthShape) (n : Z) : M (option Z) :=
  match s with Normal max_day => if (1 <=? n) && (n <=? max_day) then Ret (Some n) else Ret None end.
Definition year_length (year : Z) : M Z := b <- is_leap year ;; if b then Ret 366 else Ret 365.

Definition step (year : Z) (m : Month) (days : Z) (k : Z -> M (Result (Month * Z * Z) DateError)) :=
  os <- month_shape year m ;;
  match os with
  | Some shape =>
      od <- nth_day shape days ;;
      match od with
      | Some day => Ret (Ok (m, day, days))
      | None => l <- shape_len shape ;; days' <- u32_sub days l ;; k days'
      end
  | None => k days
  end.

(* what the translator would emit (join points as nested lets); here written with [step] inlined by a Definition for brevity *)
Definition ordinal2ymddo (year ordinal : Z) : M (Result (Month * Z * Z) DateError) :=
  max_ordinal <- year_length year ;;
  if (ordinal <? 1) || (ordinal >? max_ordinal) then Ret (Err (OrdinalOutOfRange year ordinal max_ordinal)) else
  let days := ordinal in
  step year January days (fun days =>
  step year February days (fun days =>
  step year March days (fun days =>
  step year April days (fun days =>
  step year May days (fun days =>
  step year June days (fun days =>
  step year July days (fun days =>
  step year August days (fun days =>
  step year September days (fun days =>
  step year October days (fun days =>
  step year November days (fun days =>
  step year December days (fun days => Panic)))))))))))).

Definition mlen (leap : bool) (m : Month) : Z :=
  match m with February => if leap then 29 else 28 | April | June | September | November => 30 | _ => 31 end.
Definition cum (leap : bool) (m : Month) : Z :=
  let f := if leap then 1 else 0 in
  match m with January => 0 | February => 31 | March => 59 + f | April => 90 + f | May => 120 + f | June => 151 + f
  | July => 181 + f | August => 212 + f | September => 243 + f | October => 273 + f | November => 304 + f | December => 334 + f end.

Lemma month_shape_ok year m : month_shape year m = Ret (Some (Normal (mlen (year mod 4 =? 0) m))).
Proof. unfold month_shape, is_leap. destruct m; cbn [bind]; try reflexivity. destruct (_ =? _); reflexivity. Qed.


Lemma step_ok year m days k :
  1 <= days <= 366 ->
  step year m days k =
    let l := mlen (year mod 4 =? 0) m in
    if (1 <=? days) && (days <=? l) then Ret (Ok (m, days, days)) else k (days - l).
Proof.
  intros. unfold step. rewrite month_shape_ok. cbn [bind nth_day shape_len].
  destruct ((1 <=? days) && (days <=? _)) eqn:E; cbn [bind]; [reflexivity|].
  unfold u32_sub. rewrite chku32_ok; [reflexivity|].
  unfold in_u32, u32_max. destruct (year mod 4 =? 0), m; cbn [mlen] in *; lia.
Qed.

Lemma ordinal2ymddo_ok year ordinal :
  let leap := (year mod 4 =? 0) in
  1 <= ordinal <= (if leap then 366 else 365) ->
  exists m d, ordinal2ymddo year ordinal = Ret (Ok (m, d, d)) /\ 1 <= d <= mlen leap m /\ ordinal = cum leap m + d.
Proof.
  intros leap H. unfold ordinal2ymddo, year_length, is_leap. cbn [bind]. fold leap.
  assert (Hl: forall A (a b : A), (if leap then @Ret A a else Ret b) = Ret (if leap then a else b)) by (intros; destruct leap; reflexivity).
  rewrite Hl. cbn [bind].
  replace ((ordinal <? 1) || (ordinal >? (if leap then 366 else 365))) with false by (destruct leap; lia).
  Time repeat (rewrite step_ok by (destruct leap; cbn [mlen] in *; lia); fold leap; cbv zeta;
    match goal with |- context[if ?c then _ else _] => destruct c eqn:? end;
    [ eexists _, _; split; [reflexivity|]; destruct leap; cbn [mlen cum] in *; lia | ]).
  exfalso. destruct leap; cbn [mlen] in *; lia.
Time Qed.
