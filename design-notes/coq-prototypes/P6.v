(* Prototype: the Julian/Gregorian offset that decides which reformation days are valid.
   Exploration artefact. *)
From Coq Require Import ZArith Lia ZifyBool Bool.
Open Scope Z_scope.
Ltac Zify.zify_post_hook ::= Z.to_euclidean_division_equations.

Definition jleap (y : Z) : bool := y mod 4 =? 0.
Definition gleap (y : Z) : bool := (y mod 4 =? 0) && (negb (y mod 100 =? 0) || (y mod 400 =? 0)).
Definition J0 (y : Z) : Z := 365 * (y + 4712) + (y + 4715) / 4.
Definition cent (y : Z) : Z := (y - 1) / 100 + 48.
Definition G0 (y : Z) : Z := 365 * (y + 4712) + 38 + (y + 4715) / 4 - (cent y - cent y / 4).
Definition ylen (leap : bool) : Z := if leap then 366 else 365.

Lemma G0_step y : G0 (y + 1) = G0 y + ylen (gleap y).
Proof.
  unfold G0, cent, ylen, gleap.
  destruct (Z.eqb_spec (y mod 4) 0), (Z.eqb_spec (y mod 100) 0), (Z.eqb_spec (y mod 400) 0); cbn [negb orb andb]; lia.
Qed.
Lemma G0_anchor : G0 (-4713) + 328 - 1 = 0.   (* JDN 0 = day 328 (Nov 24) of -4713 *)
Proof. reflexivity. Qed.

(* leap-day shift inside the year: 1 after February in a leap year *)
Definition after_feb (leap : bool) (m : Z) : Z := if leap && (3 <=? m) then 1 else 0.

(* offset between the Julian and the Gregorian day number of one and the same label (y, m, d):
   only the leap-day part of the cumulative month table differs *)
Definition delta (y m : Z) : Z := (J0 y + after_feb (jleap y) m) - (G0 y + after_feb (gleap y) m).

Lemma delta_closed y m : 1 <= m <= 12 ->
  delta y m = cent y - cent y / 4 - 38 + (if jleap y && negb (gleap y) && (3 <=? m) then 1 else 0).
Proof.
  intros. unfold delta, J0, G0, after_feb, jleap, gleap.
  destruct (Z.eqb_spec (y mod 4) 0), (Z.eqb_spec (y mod 100) 0), (Z.eqb_spec (y mod 400) 0), (Z.leb_spec 3 m);
    cbn [negb orb andb]; lia.
Qed.

(* the calendars diverge forwards exactly from 0300-03-01 on *)
Lemma delta_pos y m : 1 <= m <= 12 -> (0 < delta y m <-> (300 < y \/ (y = 300 /\ 3 <= m))).
Proof.
  intros H. rewrite (delta_closed y m H). unfold cent, jleap, gleap.
  destruct (Z.eqb_spec (y mod 4) 0), (Z.eqb_spec (y mod 100) 0), (Z.eqb_spec (y mod 400) 0), (Z.leb_spec 3 m);
    cbn [negb orb andb]; lia.
Qed.

(* and the offset never decreases along the calendar *)
Lemma delta_mono y m y' m' : 1 <= m <= 12 -> 1 <= m' <= 12 ->
  (y < y' \/ (y = y' /\ m <= m')) -> delta y m <= delta y' m'.
Proof.
  intros H H' Hle. rewrite (delta_closed y m H), (delta_closed y' m' H'). unfold cent, jleap, gleap.
  destruct (Z.eqb_spec (y mod 4) 0), (Z.eqb_spec (y mod 100) 0), (Z.eqb_spec (y mod 400) 0), (Z.leb_spec 3 m),
           (Z.eqb_spec (y' mod 4) 0), (Z.eqb_spec (y' mod 100) 0), (Z.eqb_spec (y' mod 400) 0), (Z.leb_spec 3 m');
    cbn [negb orb andb]; try lia.
Qed.
Print Assumptions delta_mono.
