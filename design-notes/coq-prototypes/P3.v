(* Prototype: proving a translator-shaped (monadic, checked-arithmetic) function
   against its closed-form spec.  Exploration artefact, not framework code. *)
From Coq Require Import ZArith Lia ZifyBool Bool.
Open Scope Z_scope.
Ltac Zify.zify_post_hook ::= Z.to_euclidean_division_equations.

Inductive M (A : Type) : Type := Ret (a : A) | Panic.
Arguments Ret {A} a. Arguments Panic {A}.
Definition bind {A B} (m : M A) (f : A -> M B) : M B := match m with Ret a => f a | Panic => Panic end.
Notation "x <- m ;; k" := (bind m (fun x => k)) (at level 61, m at next level, right associativity).

Definition i32_min := -2147483648. Definition i32_max := 2147483647.
Definition in_i32 z := i32_min <= z <= i32_max.
Definition chk32 z : M Z := if (i32_min <=? z) && (z <=? i32_max) then Ret z else Panic.
Definition i32_add a b := chk32 (a + b).
Definition i32_sub a b := chk32 (a - b).
Definition i32_mul a b := chk32 (a * b).
(* only positive divisors occur in the code; b <= 0 is treated like the panicking cases *)
Definition i32_div_euclid a b := if b <=? 0 then Panic else chk32 (a / b).
Definition i32_rem_euclid a b := if b <=? 0 then Panic else Ret (a mod b).
Definition i32_rem a b := if b <=? 0 then Panic else Ret (Z.rem a b).
Definition cast_i32_u32 a : Z := a mod 4294967296.

Lemma chk32_ok z : in_i32 z -> chk32 z = Ret z.
Proof. unfold chk32, in_i32, i32_min, i32_max. intros. replace (_ && _) with true by lia. reflexivity. Qed.

Definition decompose_julian (days : Z) : M (Z * Z) :=
  t1 <- i32_div_euclid days 1461;;
  year <- i32_mul t1 4;;
  ordinal <- i32_rem_euclid days 1461;;
  ordinal <- (if ordinal >? 365 then
       t2 <- i32_sub ordinal 366;; t3 <- i32_div_euclid t2 365;; i32_add ordinal t3
     else Ret ordinal);;
  t4 <- i32_div_euclid ordinal 366;;
  year <- i32_add year t4;;
  ordinal <- i32_rem ordinal 366;;
  t5 <- i32_add ordinal 1;;
  Ret (year, cast_i32_u32 t5).

Definition JC0 (y : Z) : Z := 365 * y + (y + 3) / 4.

Ltac range := unfold in_i32, i32_min, i32_max in *; lia.
Ltac mstep :=
  first
  [ rewrite chk32_ok by range; cbn [bind]
  | progress cbn [bind]
  | progress (unfold i32_add, i32_sub, i32_mul, i32_div_euclid, i32_rem_euclid, i32_rem);
    repeat match goal with |- context[?c <=? 0] => change (c <=? 0) with false end; cbv iota ].

Lemma decompose_julian_ok days : in_i32 days ->
  exists y o, decompose_julian days = Ret (y, o) /\ JC0 y <= days < JC0 (y + 1) /\ o = days - JC0 y + 1.
Proof.
  intros H. unfold decompose_julian. repeat mstep.
  destruct (Z.gtb_spec (days mod 1461) 365); repeat mstep;
    (eexists _, _; split; [reflexivity|]; unfold JC0, cast_i32_u32; lia).
Qed.
Print Assumptions decompose_julian_ok.
