From Coq Require Import ZArith Lia ZifyBool.
Open Scope Z_scope.
Ltac Zify.zify_post_hook ::= Z.div_mod_to_equations.

Definition GC0 (y : Z) : Z := 365 * y + (y + 3) / 4 - (y + 99) / 100 + (y + 399) / 400.

Definition decompose_julian (days : Z) : Z * Z :=
  let year := (days / 1461) * 4 in
  let ordinal := days mod 1461 in
  let ordinal := if ordinal >? 365 then ordinal + (ordinal - 366) / 365 else ordinal in
  let year := year + ordinal / 366 in
  let ordinal := ordinal mod 366 in
  (year, ordinal + 1).

Definition dec_greg (jd : Z) : Z * Z :=
  let quads := jd / 146097 in
  let qp := jd mod 146097 in
  let qp := if qp >=? 366 then qp + (qp - 366) / 36524 else qp in
  let '(ys, ord) := decompose_julian qp in
  (quads * 400 + ys, ord).

Lemma dec_greg_spec jd :
  let '(y, o) := dec_greg jd in
  GC0 y <= jd < GC0 (y + 1) /\ o = jd - GC0 y + 1.
Proof.
  unfold dec_greg, decompose_julian, GC0.
  destruct (Z.geb_spec (jd mod 146097) 366).
  - match goal with |- context[if ?c then _ else _] => destruct c eqn:E end.
    + Time lia.
    + Time lia.
  - match goal with |- context[if ?c then _ else _] => destruct c eqn:E end.
    + Time lia.
    + Time lia.
Qed.
