From Coq Require Import ZArith Lia ZifyBool.
Open Scope Z_scope.
Ltac Zify.zify_post_hook ::= Z.div_mod_to_equations.

(* cycle-relative Julian: year 0 leap, JC0 y = days before year y *)
Definition JC0 (y : Z) : Z := 365 * y + (y + 3) / 4.
Definition jlen (y : Z) : Z := if (y mod 4 =? 0) then 366 else 365.

Lemma JC0_step y : JC0 (y + 1) = JC0 y + jlen y.
Proof. unfold JC0, jlen. destruct (Z.eqb_spec (y mod 4) 0); lia. Qed.

(* pure transcription of decompose_julian *)
Definition decompose_julian (days : Z) : Z * Z :=
  let year := (days / 1461) * 4 in
  let ordinal := days mod 1461 in
  let ordinal := if ordinal >? 365 then ordinal + (ordinal - 366) / 365 else ordinal in
  let year := year + ordinal / 366 in
  let ordinal := ordinal mod 366 in
  (year, ordinal + 1).

Lemma decompose_julian_spec days :
  let '(y, o) := decompose_julian days in
  JC0 y <= days < JC0 (y + 1) /\ o = days - JC0 y + 1.
Proof.
  unfold decompose_julian, JC0.
  destruct (Z.gtb_spec (days mod 1461) 365).
  - Time lia.
  - Time lia.
Qed.
