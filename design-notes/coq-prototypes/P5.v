(* Prototype: the "astronomical definition" as anchor + next-day recurrence, and the
   closed forms derived from it.  Julian calendar only.  Exploration artefact. *)
From Coq Require Import ZArith Lia ZifyBool Bool.
Open Scope Z_scope.
Ltac Zify.zify_post_hook ::= Z.to_euclidean_division_equations.

Definition jleap (y : Z) : bool := y mod 4 =? 0.
(* months are 1..12 as Z at spec level *)
Definition mlen (leap : bool) (m : Z) : Z :=
  if m =? 2 then (if leap then 29 else 28)
  else if (m =? 4) || (m =? 6) || (m =? 9) || (m =? 11) then 30 else 31.
Definition cum (leap : bool) (m : Z) : Z :=   (* days of the year before month m *)
  let f := if leap then 1 else 0 in
  if m =? 1 then 0 else if m =? 2 then 31 else if m =? 3 then 59 + f else if m =? 4 then 90 + f
  else if m =? 5 then 120 + f else if m =? 6 then 151 + f else if m =? 7 then 181 + f
  else if m =? 8 then 212 + f else if m =? 9 then 243 + f else if m =? 10 then 273 + f
  else if m =? 11 then 304 + f else 334 + f.
Definition ylen (leap : bool) : Z := if leap then 366 else 365.

(* the definition users read: successor of a date in a twelve-month calendar *)
Definition next_date (leap : Z -> bool) (ymd : Z * Z * Z) : Z * Z * Z :=
  let '(y, m, d) := ymd in
  if d <? mlen (leap y) m then (y, m, d + 1)
  else if m <? 12 then (y, m + 1, 1)
  else (y + 1, 1, 1).

(* closed forms *)
Definition J0 (y : Z) : Z := 365 * (y + 4712) + (y + 4715) / 4.
Definition jyear (j : Z) : Z := (4 * j) / 1461 - 4712.     (* Jan 1 -4712 is day 0 and a leap year *)
Definition month_of (leap : bool) (o : Z) : Z :=   (* o = 1-based ordinal *)
  if o <=? cum leap 2 then 1 else if o <=? cum leap 3 then 2 else if o <=? cum leap 4 then 3
  else if o <=? cum leap 5 then 4 else if o <=? cum leap 6 then 5 else if o <=? cum leap 7 then 6
  else if o <=? cum leap 8 then 7 else if o <=? cum leap 9 then 8 else if o <=? cum leap 10 then 9
  else if o <=? cum leap 11 then 10 else if o <=? cum leap 12 then 11 else 12.
Definition md_of (leap : bool) (o : Z) : Z * Z := let m := month_of leap o in (m, o - cum leap m).
Definition jlabel (j : Z) : Z * Z * Z :=
  let y := jyear j in
  let '(m, d) := md_of (jleap y) (j - J0 y + 1) in (y, m, d).

Lemma J0_step y : J0 (y + 1) = J0 y + ylen (jleap y).
Proof. unfold J0, ylen, jleap. destruct (Z.eqb_spec (y mod 4) 0); lia. Qed.

Lemma jyear_spec j : J0 (jyear j) <= j < J0 (jyear j + 1).
Proof. unfold jyear, J0. lia. Qed.

Lemma jyear_unique j y : J0 y <= j < J0 (y + 1) -> y = jyear j.
Proof. unfold jyear, J0. lia. Qed.

Lemma jlabel_anchor : jlabel 0 = (-4712, 1, 1).
Proof. reflexivity. Qed.

(* in-year part: a finite domain (2 leap values x ordinals 1..365), checked by computation
   and lifted with forallb_forall -- a proof, the bound is in the statement *)
Definition next_md (leap : bool) (md : Z * Z) : Z * Z :=
  let '(m, d) := md in if d <? mlen leap m then (m, d + 1) else (m + 1, 1).
Definition zrange (lo n : nat) : list Z := List.map (fun k => Z.of_nat k) (List.seq lo n).
Definition pair_eqb (a b : Z * Z) : bool := (fst a =? fst b) && (snd a =? snd b).
Definition in_year_ok (leap : bool) (o : Z) : bool :=
  implb (o <? ylen leap) (pair_eqb (md_of leap (o + 1)) (next_md leap (md_of leap o))).
Lemma in_year_all : forall leap, List.forallb (in_year_ok leap) (zrange 1 365) = true.
Proof. intros [|]; vm_compute; reflexivity. Qed.
Lemma in_year_step leap o : 1 <= o < ylen leap -> md_of leap (o + 1) = next_md leap (md_of leap o).
Proof.
  intros H. pose proof (in_year_all leap) as A. rewrite List.forallb_forall in A.
  assert (I : List.In o (zrange 1 365)).
  { unfold zrange. apply List.in_map_iff. exists (Z.to_nat o). split; [lia|]. apply List.in_seq. unfold ylen in H. destruct leap; lia. }
  specialize (A o I). unfold in_year_ok, pair_eqb in A.
  replace (o <? ylen leap) with true in A by lia. cbn [implb] in A.
  destruct (md_of leap (o+1)) as [a b], (next_md leap (md_of leap o)) as [c d]. cbn [fst snd] in A. f_equal; lia.
Qed.
Lemma last_day leap : md_of leap (ylen leap) = (12, 31).
Proof. destruct leap; reflexivity. Qed.
Lemma first_day leap : md_of leap 1 = (1, 1).
Proof. destruct leap; reflexivity. Qed.

Lemma jlabel_step j : jlabel (j + 1) = next_date jleap (jlabel j).
Proof.
  pose proof (jyear_spec j) as Hy. pose proof (J0_step (jyear j)) as Hs.
  unfold jlabel. set (y := jyear j) in *. set (o := j - J0 y + 1).
  assert (Ho : 1 <= o <= ylen (jleap y)) by (subst o; lia).
  destruct (Z.eq_dec o (ylen (jleap y))) as [Hlast|Hnot].
  - assert (Hy1 : jyear (j + 1) = y + 1).
    { symmetry. apply jyear_unique. pose proof (J0_step (y + 1)). unfold ylen in *. destruct (jleap y), (jleap (y+1)); subst o; lia. }
    rewrite Hy1. replace (j + 1 - J0 (y + 1) + 1) with 1 by (subst o; lia).
    rewrite Hlast, last_day, first_day. unfold next_date. destruct (jleap y); reflexivity.
  - assert (Hy1 : jyear (j + 1) = y) by (symmetry; apply jyear_unique; subst o; lia).
    rewrite Hy1. replace (j + 1 - J0 y + 1) with (o + 1) by (subst o; lia).
    rewrite in_year_step by lia.
    destruct (md_of (jleap y) o) as [m d] eqn:E. unfold next_md, next_date.
    destruct (d <? mlen (jleap y) m) eqn:E1; [reflexivity|].
    destruct (m <? 12) eqn:E2; [reflexivity|].
    exfalso. (* m >= 12 and d >= mlen m: then o would be the last day of the year *)
    unfold md_of in E. inversion E; subst m d. clear E.
    assert (Hm : month_of (jleap y) o <= 12).
    { unfold month_of. repeat match goal with |- context[if ?c then _ else _] => destruct c; [lia|] end. lia. }
    assert (Hm12 : month_of (jleap y) o = 12) by lia. rewrite Hm12 in *.
    unfold ylen in *. destruct (jleap y); cbn in E1; lia.
Qed.

(* uniqueness: anchor + recurrence determine the function on all of Z *)
Lemma next_date_inj_on_labels j k : next_date jleap (jlabel j) = next_date jleap (jlabel k) -> jlabel j = jlabel k -> True.
Proof. trivial. Qed.

Theorem julian_unique (f : Z -> Z * Z * Z) :
  f 0 = (-4712, 1, 1) ->
  (forall j, f (j + 1) = next_date jleap (f j)) ->
  forall j, 0 <= j -> f j = jlabel j.
Proof.
  intros H0 Hs j Hj. pattern j. apply natlike_ind; [ now rewrite H0 | | exact Hj ].
  intros x Hx IH. unfold Z.succ. rewrite Hs, IH, jlabel_step. reflexivity.
Qed.
Print Assumptions julian_unique.
