//! Brute-force oracle used ONLY to search for a concrete failing input when a proof or a correspondence
//! stream has broken: independent civil-date arithmetic in i64 (Hinnant's algorithms), labels computed day by
//! day over the window of years around a reformation, compared with every calendar-level API.
//! Each failure is reported as a protocol case line (replayable with `jharness eval` / `jdriver spec`) plus a kind.
use julian::errors::*;
use julian::*;
use std::collections::BTreeMap;
use std::panic;

// independent spec (i64, floor arithmetic)
fn fdiv(a: i64, b: i64) -> i64 { a.div_euclid(b) }
fn greg_leap(y: i64) -> bool { y.rem_euclid(4) == 0 && (y.rem_euclid(100) != 0 || y.rem_euclid(400) == 0) }
fn jul_leap(y: i64) -> bool { y.rem_euclid(4) == 0 }
fn mlen(leap: bool, m: u32) -> u32 { match m { 2 => if leap {29} else {28}, 4|6|9|11 => 30, _ => 31 } }
// days from civil (Hinnant), proleptic gregorian; returns JDN
fn greg_jdn(y: i64, m: u32, d: u32) -> i64 {
    let y2 = if m <= 2 { y - 1 } else { y };
    let era = fdiv(y2, 400);
    let yoe = y2 - era * 400;
    let mp = ((m + 9) % 12) as i64;
    let doy = (153 * mp + 2) / 5 + d as i64 - 1;
    let doe = yoe * 365 + yoe / 4 - yoe / 100 + doy;
    era * 146097 + doe - 719468 + 2440588
}
fn jul_jdn(y: i64, m: u32, d: u32) -> i64 {
    let y2 = if m <= 2 { y - 1 } else { y };
    let era = fdiv(y2, 4);
    let yoe = y2 - era * 4;
    let mp = ((m + 9) % 12) as i64;
    let doy = (153 * mp + 2) / 5 + d as i64 - 1;
    let doe = yoe * 365 + doy;
    // 0000-03-01 julian = JDN 1721118
    era * 1461 + doe + 1721118
}
fn greg_ymd(j: i64) -> (i64, u32, u32) {
    let z = j - 2440588 + 719468;
    let era = fdiv(z, 146097);
    let doe = z - era * 146097;
    let yoe = (doe - doe / 1460 + doe / 36524 - doe / 146096) / 365;
    let y = yoe + era * 400;
    let doy = doe - (365 * yoe + yoe / 4 - yoe / 100);
    let mp = (5 * doy + 2) / 153;
    let d = (doy - (153 * mp + 2) / 5 + 1) as u32;
    let m = if mp < 10 { mp + 3 } else { mp - 9 } as u32;
    (if m <= 2 { y + 1 } else { y }, m, d)
}
fn jul_ymd(j: i64) -> (i64, u32, u32) {
    let z = j - 1721118;
    let era = fdiv(z, 1461);
    let doe = z - era * 1461;
    let yoe = (doe - doe / 1460) / 365;
    let y = yoe + era * 4;
    let doy = doe - 365 * yoe;
    let mp = (5 * doy + 2) / 153;
    let d = (doy - (153 * mp + 2) / 5 + 1) as u32;
    let m = if mp < 10 { mp + 3 } else { mp - 9 } as u32;
    (if m <= 2 { y + 1 } else { y }, m, d)
}

#[derive(Clone, Copy, PartialEq, Eq, Debug)]
pub enum Cal { J, G, R(i32) }
fn label(c: Cal, j: i64) -> (i64, u32, u32) {
    match c { Cal::J => jul_ymd(j), Cal::G => greg_ymd(j), Cal::R(r) => if j < r as i64 { jul_ymd(j) } else { greg_ymd(j) } }
}
fn mk(c: Cal) -> Calendar { match c { Cal::J => Calendar::JULIAN, Cal::G => Calendar::GREGORIAN, Cal::R(r) => Calendar::reforming(r).unwrap() } }

fn mon(m: u32) -> Month { Month::try_from(m).unwrap() }

pub fn check_cal(c: Cal, lo: i64, hi: i64, report: &mut dyn FnMut(&str, String)) {
    // lo..=hi: JDN window, must start at a Jan 1 label's year start and end at a year end (caller ensures full years)
    let cal = match panic::catch_unwind(|| mk(c)) { Ok(c) => c, Err(_) => { report("reforming_panic", format!("{c:?}")); return; } };
    let labels: Vec<(i64,(i64,u32,u32))> = (lo..=hi).map(|j| (j, label(c, j))).collect();
    // monotone labels
    for w in labels.windows(2) { if !(w[0].1 < w[1].1) { report("label_not_monotone", format!("{c:?} {:?}", w)); } }
    let mut years: BTreeMap<i64, Vec<(i64,(i64,u32,u32))>> = BTreeMap::new();
    for &(j, l) in &labels { years.entry(l.0).or_default().push((j, l)); }
    let ymin = *years.keys().next().unwrap(); let ymax = *years.keys().last().unwrap();
    let (post_ym, pre_ym) = match c { Cal::R(r) => { let p = greg_ymd(r as i64); let q = jul_ymd(r as i64 - 1); ((p.0, p.1), (q.0,q.1)) }, Cal::J => ((i64::MAX, 13),(i64::MAX,13)), Cal::G => ((i64::MIN, 0),(i64::MIN,0)) };
    for y in ymin..=ymax {
        let yi = y as i32;
        let days = years.get(&y).cloned().unwrap_or_default();
        let tlen = days.len() as u32;
        let has_feb29 = days.iter().any(|&(_, l)| l.1 == 2 && l.2 == 29);
        // year kind spec
        let exp_kind = if tlen == 0 { YearKind::Skipped } else {
            let all_j = match c { Cal::J => true, Cal::G => false, Cal::R(r) => days.last().unwrap().0 < r as i64 };
            let all_g = match c { Cal::J => false, Cal::G => true, Cal::R(r) => days[0].0 >= r as i64 };
            let full = if all_j { tlen == if jul_leap(y) {366} else {365} } else if all_g { tlen == if greg_leap(y) {366} else {365} } else { false };
            if full { if has_feb29 { YearKind::Leap } else { YearKind::Common } } else if has_feb29 { YearKind::ReformLeap } else { YearKind::ReformCommon }
        };
        match panic::catch_unwind(|| cal.year_kind(yi)) { Ok(k) => if k != exp_kind { report("year_kind", format!("{c:?} y={y} got {k:?} exp {exp_kind:?}")); }, Err(_) => report("year_kind_panic", format!("{c:?} y={y}")) }
        match panic::catch_unwind(|| cal.year_length(yi)) { Ok(k) => if k != tlen { report("year_length", format!("{c:?} y={y} got {k} exp {tlen}")); }, Err(_) => report("year_length_panic", format!("{c:?} y={y}")) }
        // ordinal dates
        for o in [0u32, 1, 2, tlen.saturating_sub(1), tlen, tlen + 1, tlen + 2, 366, 367, u32::MAX] {
            let r = panic::catch_unwind(|| cal.at_ordinal_date(yi, o));
            match r { Err(_) => report("at_ordinal_date_panic", format!("{c:?} y={y} o={o}")),
                Ok(r) => {
                    if o >= 1 && o <= tlen {
                        let (j, l) = days[(o - 1) as usize];
                        match r { Ok(d) => if d.julian_day_number() as i64 != j || d.month().number() != l.1 || d.day() != l.2 || d.ordinal() != o { report("at_ordinal_date_wrong", format!("{c:?} y={y} o={o} got {d:?}")); },
                            Err(e) => report("at_ordinal_date_err", format!("{c:?} y={y} o={o} {e:?}")) }
                    } else {
                        let exp = Err(DateError::OrdinalOutOfRange { year: yi, ordinal: o, max_ordinal: tlen });
                        if r != exp { report("at_ordinal_date_errkind", format!("{c:?} y={y} o={o} got {r:?} exp {exp:?}")); }
                    }
                } }
        }
        // months
        let mut msum = 0u32;
        for m in 1..=12u32 {
            let md: Vec<(i64,(i64,u32,u32))> = days.iter().cloned().filter(|&(_, l)| l.1 == m).collect();
            let shape = match panic::catch_unwind(|| cal.month_shape(yi, mon(m))) { Ok(s) => s, Err(_) => { report("month_shape_panic", format!("{c:?} {y}-{m}")); continue; } };
            let jrule = (y, m) < post_ym;
            let nat = mlen(if jrule { jul_leap(y) } else { greg_leap(y) }, m);
            if md.is_empty() {
                if shape.is_some() { report("month_shape_should_be_none", format!("{c:?} {y}-{m} {shape:?}")); }
                for d in [0u32, 1, 15, 31, 32, u32::MAX] {
                    let r = panic::catch_unwind(|| cal.at_ymd(yi, mon(m), d));
                    let exp: Result<Date, DateError> = Err(DateError::SkippedDate { year: yi, month: mon(m), day: d });
                    if r.is_err() || r.as_ref().ok() != Some(&exp) { report("at_ymd_skipped_month", format!("{c:?} {y}-{m}-{d} got {r:?}")); }
                }
                continue;
            }
            let Some(shape) = shape else { report("month_shape_none", format!("{c:?} {y}-{m}")); continue; };
            let dl: Vec<u32> = md.iter().map(|&(_, l)| l.2).collect();
            msum += shape.len();
            if shape.len() as usize != dl.len() { report("shape_len", format!("{c:?} {y}-{m} got {} exp {}", shape.len(), dl.len())); }
            if shape.first_day() != dl[0] || shape.last_day() != *dl.last().unwrap() { report("shape_first_last", format!("{c:?} {y}-{m} got {}..{} exp {}..{}", shape.first_day(), shape.last_day(), dl[0], dl.last().unwrap())); }
            let got: Vec<u32> = match panic::catch_unwind(|| shape.days().collect::<Vec<u32>>()) { Ok(v) => v, Err(_) => { report("days_panic", format!("{c:?} {y}-{m}")); vec![] } };
            if got != dl { report("shape_days", format!("{c:?} {y}-{m} got {got:?} exp {dl:?}")); }
            // gap: natural days removed
            let removed: Vec<u32> = (1..=nat).filter(|d| !dl.contains(d)).collect();
            let exp_gap = if removed.is_empty() { None } else { Some(removed[0]..=*removed.last().unwrap()) };
            if !removed.is_empty() && (removed.last().unwrap() - removed[0] + 1) as usize != removed.len() { report("spec_removed_not_contiguous", format!("{c:?} {y}-{m}")); }
            if shape.gap() != exp_gap { report("shape_gap", format!("{c:?} {y}-{m} got {:?} exp {:?} pre_ym={pre_ym:?} post_ym={post_ym:?}", shape.gap(), exp_gap)); }
            let exp_kind = match &exp_gap { None => MonthKind::Normal, Some(g) => if *g.start() == 1 { MonthKind::Headless } else if *g.end() == nat { MonthKind::Tailless } else { MonthKind::Gapped } };
            if shape.kind() != exp_kind { report("shape_kind", format!("{c:?} {y}-{m} got {:?} exp {:?}", shape.kind(), exp_kind)); }
            for d in 0..=33u32 {
                let ex = dl.iter().position(|&x| x == d);
                if shape.contains(d) != ex.is_some() { report("shape_contains", format!("{c:?} {y}-{m}-{d}")); }
                if shape.day_ordinal(d) != ex.map(|i| i as u32 + 1) { report("shape_day_ordinal", format!("{c:?} {y}-{m}-{d}")); }
                let r = panic::catch_unwind(|| cal.at_ymd(yi, mon(m), d));
                match r { Err(_) => report("at_ymd_panic", format!("{c:?} {y}-{m}-{d}")),
                    Ok(r) => match ex {
                        Some(i) => { let (j, _) = md[i]; match r { Ok(dt) => { if dt.julian_day_number() as i64 != j || dt.day_ordinal() != i as u32 + 1 { report("at_ymd_wrong", format!("{c:?} {y}-{m}-{d} got {dt:?} exp jdn {j}")); } }, Err(e) => report("at_ymd_err", format!("{c:?} {y}-{m}-{d} {e:?}")) } }
                        None => { let exp = if d >= 1 && d <= nat { DateError::SkippedDate { year: yi, month: mon(m), day: d } } else { DateError::DayOutOfRange { year: yi, month: mon(m), day: d, min_day: dl[0], max_day: *dl.last().unwrap() } };
                            if r != Err(exp) { report("at_ymd_errkind", format!("{c:?} {y}-{m}-{d} got {r:?} exp {exp:?}")); } }
                    } }
            }
            for n in [0u32, 1, dl.len() as u32, dl.len() as u32 + 1, u32::MAX] {
                let exp = if n >= 1 && n as usize <= dl.len() { Some(dl[n as usize - 1]) } else { None };
                match panic::catch_unwind(|| shape.nth_day(n)) { Ok(g) => if g != exp { report("nth_day", format!("{c:?} {y}-{m} n={n} got {g:?}")); }, Err(_) => report("nth_day_panic", format!("{c:?} {y}-{m} n={n}")) }
            }
        }
        if tlen > 0 && msum != tlen { report("month_sum", format!("{c:?} y={y} sum {msum} len {tlen}")); }
    }
    // at_jdn and succ/pred
    let mut ord = 0u32; let mut dord = 0u32; let mut prev: Option<(i64,u32)> = None;
    for (i, &(j, l)) in labels.iter().enumerate() {
        if prev.map(|p| p.0) != Some(l.0) { ord = 0; }
        if prev != Some((l.0, l.1)) { dord = 0; }
        ord += 1; dord += 1; prev = Some((l.0, l.1));
        let d = match panic::catch_unwind(|| cal.at_jdn(j as i32)) { Ok(d) => d, Err(_) => { report("at_jdn_panic", format!("{c:?} j={j} {l:?}")); continue; } };
        if (d.year() as i64, d.month().number(), d.day()) != l { report("at_jdn_label", format!("{c:?} j={j} got {d} exp {l:?}")); continue; }
        if d.ordinal() != ord { report("at_jdn_ordinal", format!("{c:?} j={j} {d} got {} exp {ord}", d.ordinal())); }
        if d.day_ordinal() != dord { report("at_jdn_day_ordinal", format!("{c:?} j={j} {d} got {} exp {dord}", d.day_ordinal())); }
        if d.julian_day_number() as i64 != j { report("at_jdn_jdn", format!("{c:?} j={j}")); }
        if let Cal::R(r) = c { if d.is_julian() != (j < r as i64) || d.is_gregorian() != (j >= r as i64) { report("style", format!("{c:?} j={j}")); } }
        if i + 1 < labels.len() {
            let exp = panic::catch_unwind(|| cal.at_jdn(j as i32 + 1)).ok();
            match panic::catch_unwind(|| d.succ()) { Ok(s) => if s != exp || exp.is_none() { report("succ", format!("{c:?} j={j} {d} got {s:?} exp {exp:?}")); }, Err(_) => report("succ_panic", format!("{c:?} j={j} {d}")) }
        }
        if i > 0 {
            let exp = panic::catch_unwind(|| cal.at_jdn(j as i32 - 1)).ok();
            match panic::catch_unwind(|| d.pred()) { Ok(s) => if s != exp || exp.is_none() { report("pred", format!("{c:?} j={j} {d} got {s:?} exp {exp:?}")); }, Err(_) => report("pred_panic", format!("{c:?} j={j} {d}")) }
        }
    }
    if let Cal::R(r) = c {
        let lj = cal.last_julian_date().unwrap(); let fg = cal.first_gregorian_date().unwrap();
        if panic::catch_unwind(|| cal.at_jdn(r - 1)).ok() != Some(lj) { report("last_julian_date", format!("{c:?} {lj:?}")); }
        if panic::catch_unwind(|| cal.at_jdn(r)).ok() != Some(fg) { report("first_gregorian_date", format!("{c:?} {fg:?}")); }
    }
}


pub fn window(c: Cal) -> (i64, i64) {
    match c {
        Cal::R(r) => {
            let r = r as i64;
            let pre = jul_ymd(r - 1);
            let post = greg_ymd(r);
            let lo = jul_jdn(pre.0 - 1, 1, 1);
            let hi = greg_jdn(post.0 + 1, 12, 31);
            (lo.max(i32::MIN as i64 + 400), hi.min(i32::MAX as i64 - 400))
        }
        _ => unreachable!(),
    }
}

/// whole-year window [Jan 1 of y0, Dec 31 of y1] of a proleptic calendar
pub fn proleptic_window(c: Cal, y0: i64, y1: i64) -> (i64, i64) {
    match c {
        Cal::J => (jul_jdn(y0, 1, 1), jul_jdn(y1, 12, 31)),
        _ => (greg_jdn(y0, 1, 1), greg_jdn(y1, 12, 31)),
    }
}

fn cal_tok(s: &str) -> String {
    // "R(123)" -> "R123", "J" -> "J"
    s.replace('(', "").replace(')', "")
}

/// turn an oracle report (kind, free-text message starting with the calendar Debug) into a protocol case line
pub fn case_line(kind: &str, msg: &str) -> String {
    let mut it = msg.split_whitespace();
    let cal = cal_tok(it.next().unwrap_or("J"));
    let rest: Vec<&str> = it.collect();
    let find = |p: &str| -> Option<String> { rest.iter().find_map(|t| t.strip_prefix(p).map(|x| x.trim_end_matches(|c: char| !c.is_ascii_digit()).to_string())) };
    let ymd = rest.iter().find(|t| { let u = t.trim_start_matches('-'); u.contains('-') && u.chars().next().map_or(false, |c| c.is_ascii_digit()) }).map(|t| t.to_string());
    let split_ymd = |t: &str| -> Vec<String> {
        let neg = t.starts_with('-');
        let parts: Vec<&str> = t.trim_start_matches('-').split('-').collect();
        let mut v: Vec<String> = parts.iter().map(|s| s.to_string()).collect();
        if neg { v[0] = format!("-{}", v[0]); }
        v
    };
    if kind.starts_with("year_kind") { return format!("year_kind {cal} {}", find("y=").unwrap_or_default()); }
    if kind.starts_with("year_length") || kind == "month_sum" { return format!("year_length {cal} {}", find("y=").unwrap_or_default()); }
    if kind.starts_with("at_ordinal_date") { return format!("at_ordinal_date {cal} {} {}", find("y=").unwrap_or_default(), find("o=").unwrap_or_default()); }
    if kind.starts_with("at_jdn") || kind == "style" { return format!("at_jdn {cal} {}", find("j=").unwrap_or_default()); }
    if kind.starts_with("succ") { return format!("succ {cal} {}", find("j=").unwrap_or_default()); }
    if kind.starts_with("pred") { return format!("pred {cal} {}", find("j=").unwrap_or_default()); }
    if kind == "last_julian_date" || kind == "first_gregorian_date" { return format!("boundary {cal}"); }
    if let Some(t) = ymd {
        let p = split_ymd(&t);
        if kind.starts_with("at_ymd") && p.len() == 3 { return format!("at_ymd {cal} {} {} {}", p[0], p[1], p[2]); }
        if (kind == "shape_contains" || kind == "shape_day_ordinal") && p.len() == 3 { return format!("shape_q {cal} {} {} {}", p[0], p[1], p[2]); }
        if kind.starts_with("nth_day") && p.len() >= 2 { return format!("shape_q {cal} {} {} {}", p[0], p[1], find("n=").unwrap_or_default()); }
        if p.len() >= 2 { return format!("month_shape {cal} {} {}", p[0], p[1]); }
    }
    format!("at_jdn {cal} 0")
}
