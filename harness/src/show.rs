//! Printing of protocol values (CAL, DATE, DERR, SHAPE, <str>, ...).
//!
//! The private gap record of a `Calendar` and the private `inner` field of a `MonthShape`
//! are recovered by parsing the derived `Debug` output.

use julian::errors::{DateError, ParseDateError};
use julian::{Calendar, Date, MonthShape};
use std::fmt::Write;

/// Panic payload used when the harness itself (not the library) cannot do its job, e.g. when
/// the `Debug` layout of the library changed.  Reported as `HARNESSERR <msg>`, never as `PANIC`.
pub struct HarnessError(pub String);

fn harness_error(msg: String) -> ! {
    std::panic::panic_any(HarnessError(msg))
}

struct Cur<'a> {
    all: &'a str,
    rest: &'a str,
}

impl<'a> Cur<'a> {
    fn new(s: &'a str) -> Cur<'a> {
        Cur { all: s, rest: s }
    }

    fn expect(&mut self, lit: &str) {
        match self.rest.strip_prefix(lit) {
            Some(r) => self.rest = r,
            None => harness_error(format!(
                "debug-parse: expected {:?} at {:?} in {:?}",
                lit, self.rest, self.all
            )),
        }
    }

    fn int(&mut self) -> &'a str {
        let end = self
            .rest
            .char_indices()
            .find(|&(i, c)| !(c.is_ascii_digit() || (i == 0 && c == '-')))
            .map_or(self.rest.len(), |(i, _)| i);
        if end == 0 || &self.rest[..end] == "-" {
            harness_error(format!(
                "debug-parse: expected integer at {:?} in {:?}",
                self.rest, self.all
            ));
        }
        let (a, b) = self.rest.split_at(end);
        self.rest = b;
        a
    }

    fn ident(&mut self) -> &'a str {
        let end = self
            .rest
            .char_indices()
            .find(|&(_, c)| !c.is_ascii_alphabetic())
            .map_or(self.rest.len(), |(i, _)| i);
        if end == 0 {
            harness_error(format!(
                "debug-parse: expected identifier at {:?} in {:?}",
                self.rest, self.all
            ));
        }
        let (a, b) = self.rest.split_at(end);
        self.rest = b;
        a
    }

    fn end(&self) {
        if !self.rest.is_empty() {
            harness_error(format!(
                "debug-parse: trailing {:?} in {:?}",
                self.rest, self.all
            ));
        }
    }
}

fn month_number_from_name(name: &str, ctx: &str) -> u32 {
    match name {
        "January" => 1,
        "February" => 2,
        "March" => 3,
        "April" => 4,
        "May" => 5,
        "June" => 6,
        "July" => 7,
        "August" => 8,
        "September" => 9,
        "October" => 10,
        "November" => 11,
        "December" => 12,
        _ => harness_error(format!("debug-parse: bad month {:?} in {:?}", name, ctx)),
    }
}

/// Appends the CAL rendering of `cal`.
pub fn cal(out: &mut String, cal: &Calendar) {
    let s = format!("{:?}", cal);
    match s.as_str() {
        "Calendar(Julian)" => out.push('J'),
        "Calendar(Gregorian)" => out.push('G'),
        _ => {
            let mut c = Cur::new(&s);
            c.expect("Calendar(Reforming { reformation: ");
            let r = c.int();
            c.expect(", gap: ReformGap { pre_reform: Date { year: ");
            let py = c.int();
            c.expect(", ordinal: ");
            let po = c.int();
            c.expect(", month: ");
            let pm = month_number_from_name(c.ident(), &s);
            c.expect(", day: ");
            let pd = c.int();
            c.expect(" }, post_reform: Date { year: ");
            let qy = c.int();
            c.expect(", ordinal: ");
            let qo = c.int();
            c.expect(", month: ");
            let qm = month_number_from_name(c.ident(), &s);
            c.expect(", day: ");
            let qd = c.int();
            c.expect(" }, kind: ");
            let kind = c.ident();
            match kind {
                "IntraMonth" | "CrossMonth" | "CrossYear" | "MultiYear" => {}
                _ => harness_error(format!("debug-parse: bad gap kind {:?} in {:?}", kind, s)),
            }
            c.expect(", ordinal_gap_start: ");
            let gs = c.int();
            c.expect(", ordinal_gap: ");
            let g = c.int();
            c.expect(" } })");
            c.end();
            let _ = write!(
                out,
                "R{r}{{{py},{po},{pm},{pd};{qy},{qo},{qm},{qd};{kind};{gs};{g}}}"
            );
        }
    }
}

/// Appends the DATE rendering of `d`.
pub fn date(out: &mut String, d: &Date) {
    out.push_str("D[");
    cal(out, &d.calendar());
    let _ = write!(
        out,
        "]({},{},{},{},{},{})",
        d.year(),
        d.ordinal(),
        d.month().number(),
        d.day(),
        d.day_ordinal(),
        d.julian_day_number()
    );
}

/// `None` / `Some(<DATE>)`
pub fn opt_date(out: &mut String, d: &Option<Date>) {
    match d {
        None => out.push_str("None"),
        Some(d) => {
            out.push_str("Some(");
            date(out, d);
            out.push(')');
        }
    }
}

/// `<DATE>` or `-`
pub fn date_or_dash(out: &mut String, d: &Option<Date>) {
    match d {
        None => out.push('-'),
        Some(d) => date(out, d),
    }
}

pub fn opt_u32(out: &mut String, v: Option<u32>) {
    match v {
        None => out.push_str("None"),
        Some(v) => {
            let _ = write!(out, "Some({v})");
        }
    }
}

pub fn derr(out: &mut String, e: &DateError) {
    match *e {
        DateError::Arithmetic => out.push_str("Arithmetic"),
        DateError::DayOutOfRange {
            year,
            month,
            day,
            min_day,
            max_day,
        } => {
            let _ = write!(
                out,
                "DayOutOfRange({},{},{},{},{})",
                year,
                month.number(),
                day,
                min_day,
                max_day
            );
        }
        DateError::OrdinalOutOfRange {
            year,
            ordinal,
            max_ordinal,
        } => {
            let _ = write!(out, "OrdinalOutOfRange({year},{ordinal},{max_ordinal})");
        }
        DateError::SkippedDate { year, month, day } => {
            let _ = write!(out, "SkippedDate({},{},{})", year, month.number(), day);
        }
    }
}

/// `Ok <DATE>` / `Err <DERR>`
pub fn date_result(out: &mut String, r: &Result<Date, DateError>) {
    match r {
        Ok(d) => {
            out.push_str("Ok ");
            date(out, d);
        }
        Err(e) => {
            out.push_str("Err ");
            derr(out, e);
        }
    }
}

pub fn uplus(out: &mut String, c: char) {
    let _ = write!(out, "U+{:04X}", c as u32);
}

pub fn perr(out: &mut String, e: &ParseDateError) {
    use std::num::IntErrorKind;
    match e {
        ParseDateError::InvalidDate(de) => {
            out.push_str("InvalidDate(");
            derr(out, de);
            out.push(')');
        }
        ParseDateError::InvalidMonth { value } => {
            let _ = write!(out, "InvalidMonth({value})");
        }
        ParseDateError::Trailing => out.push_str("Trailing"),
        ParseDateError::InvalidIntStart { got } => {
            out.push_str("InvalidIntStart(");
            uplus(out, *got);
            out.push(')');
        }
        ParseDateError::InvalidUIntStart { got } => {
            out.push_str("InvalidUIntStart(");
            uplus(out, *got);
            out.push(')');
        }
        ParseDateError::EmptyInt => out.push_str("EmptyInt"),
        ParseDateError::UnexpectedChar { expected, got } => {
            out.push_str("UnexpectedChar(");
            uplus(out, *expected);
            out.push(',');
            uplus(out, *got);
            out.push(')');
        }
        ParseDateError::UnexpectedEnd { expected } => {
            out.push_str("UnexpectedEnd(");
            uplus(out, *expected);
            out.push(')');
        }
        ParseDateError::ParseInt(pe) => {
            let k = match pe.kind() {
                IntErrorKind::Empty => "Empty",
                IntErrorKind::InvalidDigit => "InvalidDigit",
                IntErrorKind::PosOverflow => "PosOverflow",
                IntErrorKind::NegOverflow => "NegOverflow",
                IntErrorKind::Zero => "Zero",
                _ => "Other",
            };
            let _ = write!(out, "ParseInt({k})");
        }
    }
}

/// Appends the SHAPE rendering (private `inner` field) of a month shape.
pub fn shape(out: &mut String, sh: &MonthShape) {
    let s = format!("{:?}", sh);
    const KEY: &str = ", inner: ";
    let Some(idx) = s.rfind(KEY) else {
        harness_error(format!("debug-parse: no inner field in {:?}", s));
    };
    if !s.starts_with("MonthShape { calendar: Calendar(") {
        harness_error(format!("debug-parse: unexpected MonthShape layout {:?}", s));
    }
    let mut c = Cur::new(&s[idx + KEY.len()..]);
    let variant = c.ident();
    match variant {
        "Normal" => {
            c.expect(" { max_day: ");
            let max = c.int();
            c.expect(" } }");
            c.end();
            let _ = write!(out, "Normal({max})");
        }
        "Headless" => {
            c.expect(" { min_day: ");
            let min = c.int();
            c.expect(", max_day: ");
            let max = c.int();
            c.expect(" } }");
            c.end();
            let _ = write!(out, "Headless({min},{max})");
        }
        "Tailless" => {
            c.expect(" { max_day: ");
            let max = c.int();
            c.expect(", natural_max_day: ");
            let nat = c.int();
            c.expect(" } }");
            c.end();
            let _ = write!(out, "Tailless({max},{nat})");
        }
        "Gapped" => {
            c.expect(" { gap_start: ");
            let gs = c.int();
            c.expect(", gap_end: ");
            let ge = c.int();
            c.expect(", max_day: ");
            let max = c.int();
            c.expect(" } }");
            c.end();
            let _ = write!(out, "Gapped({gs},{ge},{max})");
        }
        _ => harness_error(format!("debug-parse: bad shape variant in {:?}", s)),
    }
}

/// `<str>`: `x` + lowercase hex of the UTF-8 bytes.
pub fn hexstr(out: &mut String, s: &str) {
    const HEX: &[u8; 16] = b"0123456789abcdef";
    out.push('x');
    for &b in s.as_bytes() {
        out.push(HEX[(b >> 4) as usize] as char);
        out.push(HEX[(b & 15) as usize] as char);
    }
}

pub fn hex_of(s: &str) -> String {
    let mut o = String::with_capacity(1 + 2 * s.len());
    hexstr(&mut o, s);
    o
}

/// Decodes a `<str>` token.  Only lowercase hex is accepted.
pub fn unhex(tok: &str) -> Option<String> {
    let body = tok.strip_prefix('x')?.as_bytes();
    if body.len() % 2 != 0 {
        return None;
    }
    fn nib(b: u8) -> Option<u8> {
        match b {
            b'0'..=b'9' => Some(b - b'0'),
            b'a'..=b'f' => Some(b - b'a' + 10),
            _ => None,
        }
    }
    let mut bytes = Vec::with_capacity(body.len() / 2);
    for pair in body.chunks(2) {
        bytes.push(nib(pair[0])? << 4 | nib(pair[1])?);
    }
    String::from_utf8(bytes).ok()
}

pub fn ordering(o: std::cmp::Ordering) -> &'static str {
    match o {
        std::cmp::Ordering::Less => "Less",
        std::cmp::Ordering::Equal => "Equal",
        std::cmp::Ordering::Greater => "Greater",
    }
}
