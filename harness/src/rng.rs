//! SplitMix64 PRNG: the only source of randomness of `jharness gen`.

pub struct Rng(u64);

impl Rng {
    pub fn new(seed: u64) -> Rng {
        Rng(seed)
    }

    pub fn next_u64(&mut self) -> u64 {
        self.0 = self.0.wrapping_add(0x9E37_79B9_7F4A_7C15);
        let mut z = self.0;
        z = (z ^ (z >> 30)).wrapping_mul(0xBF58_476D_1CE4_E5B9);
        z = (z ^ (z >> 27)).wrapping_mul(0x94D0_49BB_1331_11EB);
        z ^ (z >> 31)
    }

    /// Uniform-ish value in `0..n` (`n > 0`); the tiny modulo bias is irrelevant here.
    pub fn below(&mut self, n: u64) -> u64 {
        debug_assert!(n > 0);
        self.next_u64() % n
    }

    /// Uniform value in the inclusive range `lo..=hi`.
    pub fn range(&mut self, lo: i64, hi: i64) -> i64 {
        debug_assert!(lo <= hi);
        let span = (hi as i128 - lo as i128 + 1) as u128;
        let v = (self.next_u64() as u128) % span;
        (lo as i128 + v as i128) as i64
    }

    pub fn i32_any(&mut self) -> i32 {
        self.next_u64() as u32 as i32
    }

    pub fn i64_any(&mut self) -> i64 {
        self.next_u64() as i64
    }

    /// True with probability `pct`/100.
    pub fn pct(&mut self, pct: u64) -> bool {
        self.below(100) < pct
    }

    pub fn pick<'a, T>(&mut self, items: &'a [T]) -> &'a T {
        &items[self.below(items.len() as u64) as usize]
    }
}
