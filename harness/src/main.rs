//! jharness: implementation side of the correspondence protocol (see PROTOCOL.md), case
//! generators and exhaustive sweeps for the `julian` crate.

mod eval;
mod gen;
mod rng;
mod show;
mod oracle;
mod sweep;

use std::process::ExitCode;

fn usage() -> ExitCode {
    eprintln!(
        "usage:\n  jharness eval                       (case lines on stdin, result lines on stdout)\n  jharness gen <stream> <seed> <count>  (streams: {})\n  jharness streams\n  jharness sweep roundtrip <cal> <lo> <hi> | chrono | time | reforming_all <lo> <hi>",
        gen::STREAMS.join(" ")
    );
    ExitCode::from(2)
}

fn main() -> ExitCode {
    let args: Vec<String> = std::env::args().skip(1).collect();
    match args.first().map(String::as_str) {
        Some("eval") if args.len() == 1 => {
            if std::env::var_os("JHARNESS_SHOW_PANICS").is_none() {
                std::panic::set_hook(Box::new(|_| {}));
            }
            match eval::run() {
                Ok(()) => ExitCode::SUCCESS,
                Err(e) if e.kind() == std::io::ErrorKind::BrokenPipe => ExitCode::SUCCESS,
                Err(e) => {
                    eprintln!("jharness eval: {e}");
                    ExitCode::FAILURE
                }
            }
        }
        Some("gen") if args.len() == 4 => {
            let (Ok(seed), Ok(count)) = (args[2].parse::<u64>(), args[3].parse::<usize>()) else {
                return usage();
            };
            match gen::run(&args[1], seed, count) {
                Ok(()) => ExitCode::SUCCESS,
                Err(e) => {
                    eprintln!("jharness gen: {e}");
                    ExitCode::FAILURE
                }
            }
        }
        Some("streams") => {
            for s in gen::STREAMS {
                println!("{s}");
            }
            ExitCode::SUCCESS
        }
        Some("sweep") if args.len() >= 2 => match sweep::run(&args[1], &args[2..]) {
            Ok(true) => ExitCode::SUCCESS,
            Ok(false) => ExitCode::FAILURE,
            Err(e) => {
                eprintln!("jharness sweep: {e}");
                ExitCode::from(2)
            }
        },
        _ => usage(),
    }
}
