//! `jharness eval`: implementation side of PROTOCOL.md.

use crate::show::{self, HarnessError};
use julian::iter::MonthIter;
use julian::{Calendar, Date, Month, Weekday};
use std::collections::hash_map::DefaultHasher;
use std::fmt::Write as _;
use std::hash::{Hash, Hasher};
use std::io::{BufRead, Write};
use std::panic::{catch_unwind, AssertUnwindSafe};
use std::str::FromStr;
use std::time::{Duration, UNIX_EPOCH};

/// Reasons for which a case cannot be evaluated at all.
pub enum Bad {
    /// Malformed case line (wrong token count, unparsable integer, ...): `BADCASE`
    Case,
    /// `Calendar::reforming` failed for a `<cal>` token: `BADCAL`
    Cal,
    /// `<v>` does not fit `<ty>` in a `*_try_from` case: `BADARG`
    Arg,
    /// Unknown operation: `UNKNOWN`
    Unknown,
}

type R<T> = Result<T, Bad>;

struct Toks<'a>(std::str::Split<'a, char>);

fn parse_int<T: FromStr>(tok: &str) -> R<T> {
    // decimal, optional leading '-', no '+'
    let digits = tok.strip_prefix('-').unwrap_or(tok);
    if digits.is_empty() || !digits.bytes().all(|b| b.is_ascii_digit()) {
        return Err(Bad::Case);
    }
    tok.parse::<T>().map_err(|_| Bad::Case)
}

pub fn parse_cal(tok: &str) -> R<Calendar> {
    match tok {
        "J" => Ok(Calendar::JULIAN),
        "G" => Ok(Calendar::GREGORIAN),
        "X" => Ok(Calendar::REFORM1582),
        _ => {
            let r: i32 = parse_int(tok.strip_prefix('R').ok_or(Bad::Case)?)?;
            Calendar::reforming(r).map_err(|_| Bad::Cal)
        }
    }
}

impl<'a> Toks<'a> {
    fn tok(&mut self) -> R<&'a str> {
        self.0.next().ok_or(Bad::Case)
    }
    fn int<T: FromStr>(&mut self) -> R<T> {
        parse_int(self.tok()?)
    }
    fn cal(&mut self) -> R<Calendar> {
        parse_cal(self.tok()?)
    }
    fn month(&mut self) -> R<Month> {
        let n: u32 = self.int()?;
        month_of(n).ok_or(Bad::Case)
    }
    fn string(&mut self) -> R<String> {
        show::unhex(self.tok()?).ok_or(Bad::Case)
    }
    fn end(&mut self) -> R<()> {
        match self.0.next() {
            None => Ok(()),
            Some(_) => Err(Bad::Case),
        }
    }
}

/// Month for a number without going through the library's `TryFrom` impls (which are
/// themselves under test).
pub fn month_of(n: u32) -> Option<Month> {
    use Month::*;
    Some(match n {
        1 => January,
        2 => February,
        3 => March,
        4 => April,
        5 => May,
        6 => June,
        7 => July,
        8 => August,
        9 => September,
        10 => October,
        11 => November,
        12 => December,
        _ => return None,
    })
}

fn weekday_of(n: u32) -> Option<Weekday> {
    use Weekday::*;
    Some(match n {
        1 => Monday,
        2 => Tuesday,
        3 => Wednesday,
        4 => Thursday,
        5 => Friday,
        6 => Saturday,
        7 => Sunday,
        _ => return None,
    })
}

fn hash_of<T: Hash>(t: &T) -> u64 {
    let mut h = DefaultHasher::new();
    t.hash(&mut h);
    h.finish()
}

fn cmp_line<T: Ord + Hash>(out: &mut String, a: &T, b: &T) {
    let c = a.cmp(b);
    let eq = a == b;
    let hasheq = hash_of(a) == hash_of(b);
    let pc = a.partial_cmp(b).unwrap();
    let _ = write!(
        out,
        "{};eq={};hasheq={};pcmp={}",
        show::ordering(c),
        eq,
        hasheq,
        show::ordering(pc)
    );
}

enum Big {
    Neg(i128),
    Pos(u128),
}

fn parse_big(tok: &str) -> R<Big> {
    let digits = tok.strip_prefix('-').unwrap_or(tok);
    if digits.is_empty() || !digits.bytes().all(|b| b.is_ascii_digit()) {
        return Err(Bad::Case);
    }
    // A well-formed decimal beyond 128 bits fits no `<ty>`: BADARG.
    if tok.starts_with('-') {
        tok.parse::<i128>().map(Big::Neg).map_err(|_| Bad::Arg)
    } else {
        tok.parse::<u128>().map(Big::Pos).map_err(|_| Bad::Arg)
    }
}

macro_rules! try_from_impl {
    ($fname:ident, $target:ty) => {
        /// `Ok(Some(number))`, `Ok(None)` (conversion error) or `Err(Bad::Arg)`.
        fn $fname(ty: &str, v: &Big) -> R<Option<u32>> {
            macro_rules! go {
                ($t:ty) => {{
                    let x: $t = match *v {
                        Big::Neg(i) => <$t>::try_from(i).map_err(|_| Bad::Arg)?,
                        Big::Pos(u) => <$t>::try_from(u).map_err(|_| Bad::Arg)?,
                    };
                    Ok(<$target>::try_from(x).ok().map(|m| m.number()))
                }};
            }
            match ty {
                "i8" => go!(i8),
                "i16" => go!(i16),
                "i32" => go!(i32),
                "i64" => go!(i64),
                "i128" => go!(i128),
                "isize" => go!(isize),
                "u8" => go!(u8),
                "u16" => go!(u16),
                "u32" => go!(u32),
                "u64" => go!(u64),
                "u128" => go!(u128),
                "usize" => go!(usize),
                _ => Err(Bad::Case),
            }
        }
    };
}

try_from_impl!(month_try_from, Month);
try_from_impl!(weekday_try_from, Weekday);

fn push_join(out: &mut String, first: &mut bool) {
    if !*first {
        out.push(';');
    }
    *first = false;
}

fn check_iter_ops(ops: &str) -> R<&str> {
    if ops == "." {
        return Ok("");
    }
    if ops.is_empty() || !ops.bytes().all(|b| matches!(b, b'f' | b'b' | b'l')) {
        return Err(Bad::Case);
    }
    Ok(ops)
}

fn run_iter_ops<I, F>(out: &mut String, ops: &str, mut it: I, mut show_item: F)
where
    I: DoubleEndedIterator + ExactSizeIterator,
    F: FnMut(&mut String, I::Item),
{
    let mut first = true;
    for op in ops.bytes() {
        push_join(out, &mut first);
        match op {
            b'f' => match it.next() {
                Some(x) => show_item(out, x),
                None => out.push('-'),
            },
            b'b' => match it.next_back() {
                Some(x) => show_item(out, x),
                None => out.push('-'),
            },
            _ => {
                let _ = write!(out, "{}", it.len());
            }
        }
    }
}

fn take_n<I: Iterator<Item = Date>>(out: &mut String, mut it: I, n: u32) {
    let mut first = true;
    for _ in 0..n {
        push_join(out, &mut first);
        show::date_or_dash(out, &it.next());
    }
}

fn system_time(before: u32, secs: u64, nanos: u32) -> Option<std::time::SystemTime> {
    // Duration::new panics if the nanosecond carry overflows the seconds; that would be a panic
    // of the harness, not of the library, so it is reported as UNREP instead.
    let secs = secs.checked_add(u64::from(nanos / 1_000_000_000))?;
    let dur = Duration::new(secs, nanos % 1_000_000_000);
    if before == 1 {
        UNIX_EPOCH.checked_sub(dur)
    } else {
        UNIX_EPOCH.checked_add(dur)
    }
}

fn name_q(
    out: &mut String,
    name: &str,
    short: &str,
    display: String,
    alt: String,
    number: u32,
    number0: u32,
    pred: Option<u32>,
    succ: Option<u32>,
) {
    out.push_str("name=");
    show::hexstr(out, name);
    out.push_str(";short=");
    show::hexstr(out, short);
    out.push_str(";display=");
    show::hexstr(out, &display);
    out.push_str(";alt=");
    show::hexstr(out, &alt);
    let _ = write!(out, ";number={number};number0={number0};pred=");
    show::opt_u32(out, pred);
    out.push_str(";succ=");
    show::opt_u32(out, succ);
}

enum HOp {
    Succ,
    Pred,
    Conv(Calendar),
    Nth(u32),
    ParseShow,
    ParseAlt,
    Ymd,
    Ord,
    Later,
    Earlier,
    AndLater,
    Chrono,
    Time,
}

fn parse_hop(tok: &str) -> R<HOp> {
    Ok(match tok {
        "s" => HOp::Succ,
        "p" => HOp::Pred,
        "t" => HOp::ParseShow,
        "o" => HOp::ParseAlt,
        "y" => HOp::Ymd,
        "r" => HOp::Ord,
        "L" => HOp::Later,
        "E" => HOp::Earlier,
        "A" => HOp::AndLater,
        "h" => HOp::Chrono,
        "m" => HOp::Time,
        _ => {
            if let Some(c) = tok.strip_prefix("c:") {
                HOp::Conv(parse_cal(c)?)
            } else if let Some(k) = tok.strip_prefix("n:") {
                HOp::Nth(parse_int(k)?)
            } else {
                return Err(Bad::Case);
            }
        }
    })
}

fn apply_hop(d: &Date, op: &HOp) -> Option<Date> {
    match op {
        HOp::Succ => d.succ(),
        HOp::Pred => d.pred(),
        HOp::Conv(c) => Some(d.convert_to(*c)),
        HOp::Nth(k) => d
            .calendar()
            .month_shape(d.year(), d.month())
            .unwrap()
            .nth_date(*k),
        HOp::ParseShow => d.calendar().parse_date(&d.to_string()).ok(),
        HOp::ParseAlt => d.calendar().parse_date(&format!("{:#}", d)).ok(),
        HOp::Ymd => d.calendar().at_ymd(d.year(), d.month(), d.day()).ok(),
        HOp::Ord => d.calendar().at_ordinal_date(d.year(), d.ordinal()).ok(),
        HOp::Later => d.later().next(),
        HOp::Earlier => d.earlier().next(),
        HOp::AndLater => d.and_later().next(),
        HOp::Chrono => chrono::NaiveDate::try_from(*d).ok().map(Date::from),
        HOp::Time => time::Date::try_from(*d).ok().map(Date::from),
    }
}

fn eval_inner(line: &str, out: &mut String) -> R<()> {
    let mut t = Toks(line.split(' '));
    let op = t.tok()?;
    match op {
        "reforming" => {
            let r: i32 = t.int()?;
            t.end()?;
            match Calendar::reforming(r) {
                Ok(c) => {
                    out.push_str("Ok ");
                    show::cal(out, &c);
                }
                Err(julian::errors::ReformingError::InvalidReformation) => {
                    out.push_str("Err InvalidReformation")
                }
                Err(julian::errors::ReformingError::Arithmetic) => out.push_str("Err Arithmetic"),
            }
        }
        "at_jdn" => {
            let cal = t.cal()?;
            let j: i32 = t.int()?;
            t.end()?;
            show::date(out, &cal.at_jdn(j));
        }
        "at_ymd" => {
            let cal = t.cal()?;
            let y: i32 = t.int()?;
            let m = t.month()?;
            let d: u32 = t.int()?;
            t.end()?;
            show::date_result(out, &cal.at_ymd(y, m, d));
        }
        "at_ordinal_date" => {
            let cal = t.cal()?;
            let y: i32 = t.int()?;
            let o: u32 = t.int()?;
            t.end()?;
            show::date_result(out, &cal.at_ordinal_date(y, o));
        }
        "year_kind" => {
            let cal = t.cal()?;
            let y: i32 = t.int()?;
            t.end()?;
            use julian::YearKind::*;
            let k = cal.year_kind(y);
            out.push_str(match k {
                Common => "Common",
                Leap => "Leap",
                ReformCommon => "ReformCommon",
                ReformLeap => "ReformLeap",
                Skipped => "Skipped",
            });
            let _ = write!(
                out,
                ";is_leap={};is_common={};is_reform={};is_skipped={}",
                k.is_leap(),
                k.is_common(),
                k.is_reform(),
                k.is_skipped()
            );
        }
        "year_length" => {
            let cal = t.cal()?;
            let y: i32 = t.int()?;
            t.end()?;
            let _ = write!(out, "{}", cal.year_length(y));
        }
        "month_shape" => {
            let cal = t.cal()?;
            let y: i32 = t.int()?;
            let m = t.month()?;
            t.end()?;
            match cal.month_shape(y, m) {
                None => out.push_str("None"),
                Some(sh) => {
                    out.push_str("Some(");
                    show::shape(out, &sh);
                    let _ = write!(
                        out,
                        ";len={};first={};last={};gap=",
                        sh.len(),
                        sh.first_day(),
                        sh.last_day()
                    );
                    match sh.gap() {
                        None => out.push_str("None"),
                        Some(r) => {
                            let _ = write!(out, "{}..={}", r.start(), r.end());
                        }
                    }
                    use julian::MonthKind;
                    let kind = match sh.kind() {
                        MonthKind::Normal => "Normal",
                        MonthKind::Headless => "Headless",
                        MonthKind::Tailless => "Tailless",
                        MonthKind::Gapped => "Gapped",
                    };
                    let _ = write!(
                        out,
                        ";kind={};year={};month={};cal=",
                        kind,
                        sh.year(),
                        sh.month().number()
                    );
                    show::cal(out, &sh.calendar());
                    out.push(')');
                }
            }
        }
        "shape_q" => {
            let cal = t.cal()?;
            let y: i32 = t.int()?;
            let m = t.month()?;
            let d: u32 = t.int()?;
            t.end()?;
            match cal.month_shape(y, m) {
                None => out.push_str("None"),
                Some(sh) => {
                    let _ = write!(out, "contains={};day_ordinal=", sh.contains(d));
                    show::opt_u32(out, sh.day_ordinal(d));
                    out.push_str(";nth_day=");
                    show::opt_u32(out, sh.nth_day(d));
                    out.push_str(";nth_date=");
                    show::opt_date(out, &sh.nth_date(d));
                }
            }
        }
        "succ" | "pred" => {
            let cal = t.cal()?;
            let j: i32 = t.int()?;
            t.end()?;
            let d = cal.at_jdn(j);
            let r = if op == "succ" { d.succ() } else { d.pred() };
            show::opt_date(out, &r);
        }
        "boundary" => {
            let cal = t.cal()?;
            t.end()?;
            out.push_str("last=");
            show::opt_date(out, &cal.last_julian_date());
            out.push_str(";first=");
            show::opt_date(out, &cal.first_gregorian_date());
        }
        "observers" => {
            let cal = t.cal()?;
            t.end()?;
            out.push_str("reformation=");
            match cal.reformation() {
                None => out.push_str("None"),
                Some(r) => {
                    let _ = write!(out, "Some({r})");
                }
            }
            let _ = write!(
                out,
                ";is_reforming={};is_proleptic={}",
                cal.is_reforming(),
                cal.is_proleptic()
            );
        }
        "unix2jdn" => {
            let ts: i64 = t.int()?;
            t.end()?;
            match julian::unix2jdn(ts) {
                Ok((j, s)) => {
                    let _ = write!(out, "Ok({j},{s})");
                }
                Err(_) => out.push_str("Err"),
            }
        }
        "jdn2unix" => {
            let j: i32 = t.int()?;
            t.end()?;
            let _ = write!(out, "{}", julian::jdn2unix(j));
        }
        "at_unix_time" => {
            let cal = t.cal()?;
            let ts: i64 = t.int()?;
            t.end()?;
            match cal.at_unix_time(ts) {
                Ok((d, s)) => {
                    out.push_str("Ok(");
                    show::date(out, &d);
                    let _ = write!(out, ",{s})");
                }
                Err(_) => out.push_str("Err"),
            }
        }
        "weekday" => {
            let j: i32 = t.int()?;
            t.end()?;
            let _ = write!(out, "{}", Weekday::for_jdn(j).number());
        }
        "date_q" => {
            let cal = t.cal()?;
            let j: i32 = t.int()?;
            t.end()?;
            let d = cal.at_jdn(j);
            let _ = write!(
                out,
                "weekday={};is_julian={};is_gregorian={};ordinal0={};day_ordinal0={};show=",
                d.weekday().number(),
                d.is_julian(),
                d.is_gregorian(),
                d.ordinal0(),
                d.day_ordinal0()
            );
            show::hexstr(out, &format!("{}", d));
            out.push_str(";showalt=");
            show::hexstr(out, &format!("{:#}", d));
        }
        "parse" => {
            let cal = t.cal()?;
            let s = t.string()?;
            t.end()?;
            match cal.parse_date(&s) {
                Ok(d) => {
                    out.push_str("Ok ");
                    show::date(out, &d);
                }
                Err(e) => {
                    out.push_str("Err ");
                    show::perr(out, &e);
                }
            }
        }
        "system2jdn" => {
            let before: u32 = t.int()?;
            let secs: u64 = t.int()?;
            let nanos: u32 = t.int()?;
            t.end()?;
            if before > 1 {
                return Err(Bad::Case);
            }
            match system_time(before, secs, nanos) {
                None => out.push_str("UNREP"),
                Some(st) => match julian::system2jdn(st) {
                    Ok((j, s)) => {
                        let _ = write!(out, "Ok({j},{s})");
                    }
                    Err(_) => out.push_str("Err"),
                },
            }
        }
        "at_system_time" => {
            let cal = t.cal()?;
            let before: u32 = t.int()?;
            let secs: u64 = t.int()?;
            let nanos: u32 = t.int()?;
            t.end()?;
            if before > 1 {
                return Err(Bad::Case);
            }
            match system_time(before, secs, nanos) {
                None => out.push_str("UNREP"),
                Some(st) => match cal.at_system_time(st) {
                    Ok((d, s)) => {
                        out.push_str("Ok(");
                        show::date(out, &d);
                        let _ = write!(out, ",{s})");
                    }
                    Err(_) => out.push_str("Err"),
                },
            }
        }
        "month_from_str" => {
            let s = t.string()?;
            t.end()?;
            match s.parse::<Month>() {
                Ok(m) => {
                    let _ = write!(out, "Ok {}", m.number());
                }
                Err(_) => out.push_str("Err"),
            }
        }
        "weekday_from_str" => {
            let s = t.string()?;
            t.end()?;
            match s.parse::<Weekday>() {
                Ok(w) => {
                    let _ = write!(out, "Ok {}", w.number());
                }
                Err(_) => out.push_str("Err"),
            }
        }
        "month_try_from" | "weekday_try_from" => {
            let ty = t.tok()?;
            let v = parse_big(t.tok()?)?;
            t.end()?;
            let r = if op == "month_try_from" {
                month_try_from(ty, &v)?
            } else {
                weekday_try_from(ty, &v)?
            };
            match r {
                Some(n) => {
                    let _ = write!(out, "Ok {n}");
                }
                None => out.push_str("Err"),
            }
        }
        "month_q" => {
            let m = t.month()?;
            t.end()?;
            name_q(
                out,
                m.name(),
                m.short_name(),
                format!("{}", m),
                format!("{:#}", m),
                m.number(),
                m.number0(),
                m.pred().map(|x| x.number()),
                m.succ().map(|x| x.number()),
            );
        }
        "weekday_q" => {
            let n: u32 = t.int()?;
            t.end()?;
            let w = weekday_of(n).ok_or(Bad::Case)?;
            name_q(
                out,
                w.name(),
                w.short_name(),
                format!("{}", w),
                format!("{:#}", w),
                w.number(),
                w.number0(),
                w.pred().map(|x| x.number()),
                w.succ().map(|x| x.number()),
            );
        }
        "days" | "dates" => {
            let cal = t.cal()?;
            let y: i32 = t.int()?;
            let m = t.month()?;
            let ops = check_iter_ops(t.tok()?)?;
            t.end()?;
            match cal.month_shape(y, m) {
                None => out.push_str("None"),
                Some(sh) => {
                    if op == "days" {
                        run_iter_ops(out, ops, sh.days(), |o, x| {
                            let _ = write!(o, "{x}");
                        });
                    } else {
                        run_iter_ops(out, ops, sh.dates(), |o, x| show::date(o, &x));
                    }
                }
            }
        }
        "foreign_enums" => {
            // C16: Month / Weekday <-> chrono / time enums are bijections preserving the month / ISO weekday number
            t.end()?;
            let mut bad: Vec<String> = Vec::new();
            for n in 1u32..=12 {
                let m = Month::try_from(n).unwrap();
                let cm = chrono::Month::from(m);
                if cm.number_from_month() != n || Month::from(cm) != m { bad.push(format!("chrono-month-{n}")); }
                let tm = time::Month::from(m);
                if u32::from(tm as u8) != n || Month::from(tm) != m { bad.push(format!("time-month-{n}")); }
            }
            for n in 1u32..=7 {
                let w = Weekday::try_from(n).unwrap();
                let cw = chrono::Weekday::from(w);
                if cw.number_from_monday() != n || Weekday::from(cw) != w { bad.push(format!("chrono-weekday-{n}")); }
                let tw = time::Weekday::from(w);
                if u32::from(tw.number_from_monday()) != n || Weekday::from(tw) != w { bad.push(format!("time-weekday-{n}")); }
            }
            if bad.is_empty() { out.push_str("ok"); } else { out.push_str(&bad.join(",")); }
        }
        "months" => {
            let ops = check_iter_ops(t.tok()?)?;
            t.end()?;
            run_iter_ops(out, ops, MonthIter::new(), |o, x| {
                let _ = write!(o, "{}", x.number());
            });
        }
        "later" | "earlier" | "and_later" | "and_earlier" => {
            let cal = t.cal()?;
            let j: i32 = t.int()?;
            let n: u32 = t.int()?;
            t.end()?;
            let d = cal.at_jdn(j);
            match op {
                "later" => take_n(out, d.later(), n),
                "earlier" => take_n(out, d.earlier(), n),
                "and_later" => take_n(out, d.and_later(), n),
                _ => take_n(out, d.and_earlier(), n),
            }
        }
        "cal_cmp" => {
            let c1 = t.cal()?;
            let c2 = t.cal()?;
            t.end()?;
            cmp_line(out, &c1, &c2);
        }
        "date_cmp" => {
            let c1 = t.cal()?;
            let j1: i32 = t.int()?;
            let c2 = t.cal()?;
            let j2: i32 = t.int()?;
            t.end()?;
            let d1 = c1.at_jdn(j1);
            let d2 = c2.at_jdn(j2);
            cmp_line(out, &d1, &d2);
        }
        "convert" => {
            let c1 = t.cal()?;
            let j: i32 = t.int()?;
            let c2 = t.cal()?;
            t.end()?;
            show::date(out, &c1.at_jdn(j).convert_to(c2));
        }
        "history" => {
            let cal = t.cal()?;
            let j: i32 = t.int()?;
            let mut ops = Vec::new();
            for tok in t.0.by_ref() {
                ops.push(parse_hop(tok)?);
            }
            let mut d = cal.at_jdn(j);
            let mut first = true;
            for hop in &ops {
                push_join(out, &mut first);
                let r = apply_hop(&d, hop);
                show::date_or_dash(out, &r);
                if let Some(nd) = r {
                    d = nd;
                }
            }
        }
        _ => return Err(Bad::Unknown),
    }
    Ok(())
}

/// Evaluates one case line into `out` (cleared first).  Never panics.
pub fn eval_case(line: &str, out: &mut String) {
    out.clear();
    let r = catch_unwind(AssertUnwindSafe(|| eval_inner(line, out)));
    let special = match r {
        Ok(Ok(())) => return,
        Ok(Err(Bad::Case)) => "BADCASE".to_string(),
        Ok(Err(Bad::Cal)) => "BADCAL".to_string(),
        Ok(Err(Bad::Arg)) => "BADARG".to_string(),
        Ok(Err(Bad::Unknown)) => "UNKNOWN".to_string(),
        Err(payload) => match payload.downcast_ref::<HarnessError>() {
            Some(h) => format!("HARNESSERR {}", h.0.replace('\n', " ")),
            None => "PANIC".to_string(),
        },
    };
    out.clear();
    out.push_str(&special);
}

pub fn run() -> std::io::Result<()> {
    let stdin = std::io::stdin();
    let mut input = std::io::BufReader::with_capacity(1 << 16, stdin.lock());
    let stdout = std::io::stdout();
    let mut output = std::io::BufWriter::with_capacity(1 << 16, stdout.lock());
    let mut line = Vec::new();
    let mut out = String::new();
    loop {
        line.clear();
        if input.read_until(b'\n', &mut line)? == 0 {
            break;
        }
        if line.last() == Some(&b'\n') {
            line.pop();
        }
        match std::str::from_utf8(&line) {
            Ok(s) => eval_case(s, &mut out),
            Err(_) => {
                out.clear();
                out.push_str("BADCASE");
            }
        }
        out.push('\n');
        output.write_all(out.as_bytes())?;
    }
    output.flush()
}
