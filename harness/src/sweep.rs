//! `jharness sweep <name> [args]`: exhaustive Rust-only sweeps of direct predicates.

use crate::eval::parse_cal;
use julian::errors::ReformingError;
use julian::{Calendar, Date};
use std::panic::{catch_unwind, AssertUnwindSafe};
use std::sync::atomic::{AtomicI64, Ordering};
use std::sync::Mutex;

const MAX_FAILS: usize = 20;

#[derive(Default)]
struct Acc {
    checked: u64,
    failures: u64,
    /// (sort key, FAIL line body); at most MAX_FAILS smallest kept per worker
    fails: Vec<(i64, String)>,
}

impl Acc {
    fn fail(&mut self, key: i64, msg: String) {
        self.failures += 1;
        if self.fails.len() < MAX_FAILS {
            self.fails.push((key, msg));
        } else if let Some((i, _)) = self
            .fails
            .iter()
            .enumerate()
            .max_by_key(|(_, (k, _))| *k)
            .filter(|(_, (k, _))| *k > key)
        {
            self.fails[i] = (key, msg);
        }
    }

    fn merge(&mut self, other: Acc) {
        self.checked += other.checked;
        self.failures += other.failures;
        self.fails.extend(other.fails);
        self.fails.sort();
        self.fails.truncate(MAX_FAILS);
    }
}

/// Runs `work(a, b, acc)` over consecutive chunks `[a, b]` covering `[lo, hi]`, on
/// `available_parallelism()` threads.
fn par<F>(lo: i64, hi: i64, chunk: i64, work: F) -> Acc
where
    F: Fn(i64, i64, &mut Acc) + Sync,
{
    let total = Mutex::new(Acc::default());
    if lo > hi {
        return total.into_inner().unwrap();
    }
    let nthreads = std::thread::available_parallelism().map_or(1, |n| n.get());
    let next = AtomicI64::new(lo);
    std::thread::scope(|s| {
        for _ in 0..nthreads {
            s.spawn(|| {
                let mut acc = Acc::default();
                loop {
                    let a = next.fetch_add(chunk, Ordering::Relaxed);
                    if a > hi {
                        break;
                    }
                    let b = (a + chunk - 1).min(hi);
                    work(a, b, &mut acc);
                }
                total.lock().unwrap().merge(acc);
            });
        }
    });
    total.into_inner().unwrap()
}

fn report(name: &str, acc: Acc) -> bool {
    println!(
        "SWEEP {} checked={} failures={}",
        name, acc.checked, acc.failures
    );
    let mut fails = acc.fails;
    fails.sort();
    for (_, msg) in fails.iter().take(MAX_FAILS) {
        println!("FAIL {msg}");
    }
    acc.failures == 0
}

fn ymd(d: &Date) -> (i32, u32, u32) {
    (d.year(), d.month().number(), d.day())
}

fn roundtrip_one(cal: Calendar, j: i32, prev: Option<(i32, u32, u32)>) -> Result<(i32, u32, u32), String> {
    let d = cal.at_jdn(j);
    let cur = ymd(&d);
    if d.julian_day_number() != j {
        return Err(format!("julian_day_number()={}", d.julian_day_number()));
    }
    match cal.at_ymd(d.year(), d.month(), d.day()) {
        Ok(d2) if d2 == d => {}
        other => {
            return Err(format!(
                "at_ymd({},{},{}) = {:?}, expected Ok of at_jdn result (ordinal {}, day_ordinal {})",
                d.year(),
                d.month().number(),
                d.day(),
                other.map(|x| (ymd(&x), x.ordinal(), x.day_ordinal(), x.julian_day_number())),
                d.ordinal(),
                d.day_ordinal()
            ))
        }
    }
    match cal.at_ordinal_date(d.year(), d.ordinal()) {
        Ok(d2) if d2 == d => {}
        other => {
            return Err(format!(
                "at_ordinal_date({},{}) = {:?}, expected Ok of at_jdn result {:?}",
                d.year(),
                d.ordinal(),
                other.map(|x| (ymd(&x), x.ordinal(), x.day_ordinal(), x.julian_day_number())),
                (cur, d.ordinal(), d.day_ordinal())
            ))
        }
    }
    if let Some(p) = prev {
        if cur <= p {
            return Err(format!("(y,m,d)={:?} not greater than previous day's {:?}", cur, p));
        }
    }
    Ok(cur)
}

fn parse_i64(s: &str) -> Result<i64, String> {
    s.parse::<i64>().map_err(|_| format!("bad integer {:?}", s))
}

fn roundtrip(args: &[String]) -> Result<bool, String> {
    if args.len() != 3 {
        return Err("usage: sweep roundtrip <cal> <lo> <hi>".into());
    }
    let tok = args[0].clone();
    let cal = catch_unwind(|| parse_cal(&tok))
        .map_err(|_| format!("PANIC constructing {tok}"))?
        .map_err(|_| format!("cannot construct calendar {tok} (BADCAL/BADCASE)"))?;
    let lo = parse_i64(&args[1])?.max(i64::from(i32::MIN));
    let hi = parse_i64(&args[2])?.min(i64::from(i32::MAX));
    let acc = par(lo, hi, 1 << 16, |a, b, acc| {
        let mut prev = if a > lo {
            catch_unwind(|| ymd(&cal.at_jdn((a - 1) as i32))).ok()
        } else {
            None
        };
        for j in a..=b {
            let j32 = j as i32;
            acc.checked += 1;
            match catch_unwind(AssertUnwindSafe(|| roundtrip_one(cal, j32, prev))) {
                Ok(Ok(cur)) => prev = Some(cur),
                Ok(Err(msg)) => {
                    acc.fail(j, format!("at_jdn {tok} {j} # {msg}"));
                    prev = catch_unwind(|| ymd(&cal.at_jdn(j32))).ok();
                }
                Err(_) => {
                    acc.fail(j, format!("at_jdn {tok} {j} # PANIC"));
                    prev = None;
                }
            }
        }
    });
    Ok(report("roundtrip", acc))
}

fn chrono_one(nd: chrono::NaiveDate) -> Result<(), String> {
    use chrono::Datelike;
    let d = Date::from(nd);
    if (d.year(), d.month().number(), d.day()) != (nd.year(), nd.month(), nd.day()) {
        return Err(format!("Date::from gives {:?}", ymd(&d)));
    }
    let want = i64::from(nd.num_days_from_ce()) + 1721425;
    if i64::from(d.julian_day_number()) != want {
        return Err(format!(
            "jdn {} != num_days_from_ce()+1721425 = {}",
            d.julian_day_number(),
            want
        ));
    }
    if d.calendar() != Calendar::GREGORIAN {
        return Err("calendar is not GREGORIAN".into());
    }
    match chrono::NaiveDate::try_from(d) {
        Ok(back) if back == nd => Ok(()),
        other => Err(format!("NaiveDate::try_from gives {:?}", other)),
    }
}

fn chrono_sweep() -> bool {
    use chrono::{Datelike, NaiveDate};
    let ylo = i64::from(NaiveDate::MIN.year());
    let yhi = i64::from(NaiveDate::MAX.year());
    let acc = par(ylo, yhi, 512, |a, b, acc| {
        let start = if a == ylo {
            Some(NaiveDate::MIN)
        } else {
            NaiveDate::from_ymd_opt(a as i32, 1, 1)
        };
        let mut cur = start;
        while let Some(nd) = cur {
            if i64::from(nd.year()) > b {
                break;
            }
            acc.checked += 1;
            match catch_unwind(|| chrono_one(nd)) {
                Ok(Ok(())) => {}
                Ok(Err(msg)) => acc.fail(
                    i64::from(nd.num_days_from_ce()),
                    format!("chrono {:?} # {}", nd, msg),
                ),
                Err(_) => acc.fail(
                    i64::from(nd.num_days_from_ce()),
                    format!("chrono {:?} # PANIC", nd),
                ),
            }
            cur = nd.succ_opt();
        }
    });
    report("chrono", acc)
}

fn time_one(td: time::Date) -> Result<(), String> {
    let d = Date::from(td);
    if (d.year(), d.month().number(), d.day())
        != (td.year(), u32::from(u8::from(td.month())), u32::from(td.day()))
    {
        return Err(format!("Date::from gives {:?}", ymd(&d)));
    }
    if d.julian_day_number() != td.to_julian_day() {
        return Err(format!(
            "jdn {} != to_julian_day() = {}",
            d.julian_day_number(),
            td.to_julian_day()
        ));
    }
    if d.calendar() != Calendar::GREGORIAN {
        return Err("calendar is not GREGORIAN".into());
    }
    match time::Date::try_from(d) {
        Ok(back) if back == td => Ok(()),
        other => Err(format!("time::Date::try_from gives {:?}", other)),
    }
}

fn time_sweep() -> bool {
    let ylo = i64::from(time::Date::MIN.year());
    let yhi = i64::from(time::Date::MAX.year());
    let acc = par(ylo, yhi, 64, |a, b, acc| {
        let start = if a == ylo {
            Some(time::Date::MIN)
        } else {
            time::Date::from_calendar_date(a as i32, time::Month::January, 1).ok()
        };
        let mut cur = start;
        while let Some(td) = cur {
            if i64::from(td.year()) > b {
                break;
            }
            acc.checked += 1;
            let key = i64::from(td.to_julian_day());
            match catch_unwind(|| time_one(td)) {
                Ok(Ok(())) => {}
                Ok(Err(msg)) => acc.fail(key, format!("time {:?} # {}", td, msg)),
                Err(_) => acc.fail(key, format!("time {:?} # PANIC", td)),
            }
            cur = td.next_day();
        }
    });
    report("time", acc)
}

fn reforming_all(args: &[String]) -> Result<bool, String> {
    if args.len() != 2 {
        return Err("usage: sweep reforming_all <lo> <hi>".into());
    }
    let lo = parse_i64(&args[0])?.max(i64::from(i32::MIN));
    let hi = parse_i64(&args[1])?.min(i64::from(i32::MAX));
    let acc = par(lo, hi, 1 << 16, |a, b, acc| {
        for r in a..=b {
            acc.checked += 1;
            let want = if r < crate::gen::RMIN {
                "Err InvalidReformation"
            } else if r <= crate::gen::RMAX {
                "Ok"
            } else {
                "Err Arithmetic"
            };
            let got = match catch_unwind(|| Calendar::reforming(r as i32)) {
                Ok(Ok(c)) => {
                    if c.reformation() == Some(r as i32) {
                        "Ok"
                    } else {
                        "Ok with wrong reformation()"
                    }
                }
                Ok(Err(ReformingError::InvalidReformation)) => "Err InvalidReformation",
                Ok(Err(ReformingError::Arithmetic)) => "Err Arithmetic",
                Err(_) => "PANIC",
            };
            if got != want {
                acc.fail(r, format!("reforming {r} # got {got}, expected {want}"));
            }
        }
    });
    Ok(report("reforming_all", acc))
}

/// Returns Ok(true) if the sweep found no failures.
pub fn run(name: &str, args: &[String]) -> Result<bool, String> {
    std::panic::set_hook(Box::new(|_| {}));
    match name {
        "roundtrip" => roundtrip(args),
        "chrono" => Ok(chrono_sweep()),
        "oracle" => oracle_sweep(args),
        "oracle_proleptic" => Ok(oracle_proleptic()),
        "time" => Ok(time_sweep()),
        "reforming_all" => reforming_all(args),
        _ => Err(format!(
            "unknown sweep {:?}; known: roundtrip <cal> <lo> <hi>, chrono, time, reforming_all <lo> <hi>",
            name
        )),
    }
}


/// `sweep oracle <lo> <hi> <stride>`: brute-force oracle over the window of every reforming calendar R in lo..=hi by stride
fn oracle_sweep(args: &[String]) -> Result<bool, String> {
    if args.len() != 3 {
        return Err("usage: sweep oracle <lo> <hi> <stride>".into());
    }
    let lo: i64 = args[0].parse().map_err(|_| "bad lo")?;
    let hi: i64 = args[1].parse().map_err(|_| "bad hi")?;
    let stride: i64 = args[2].parse().map_err(|_| "bad stride")?;
    let n = if hi >= lo { (hi - lo) / stride + 1 } else { 0 };
    let acc = par(0, n - 1, 64, |a, b, acc| {
        for k in a..=b {
            let r = lo + k * stride;
            if r < 1830692 || r > 2147439588 {
                continue;
            }
            let c = crate::oracle::Cal::R(r as i32);
            let (w0, w1) = crate::oracle::window(c);
            let mut seen: Vec<String> = Vec::new();
            let mut rep = |kind: &str, msg: String| {
                let line = crate::oracle::case_line(kind, &msg);
                if !seen.contains(&line) {
                    seen.push(line.clone());
                    acc.fail(r, format!("{line} # {kind}: {}", msg.chars().take(160).collect::<String>()));
                }
            };
            crate::oracle::check_cal(c, w0, w1, &mut rep);
            acc.checked += 1;
        }
    });
    Ok(report("oracle", acc))
}

/// the two proleptic calendars over whole-year windows around the anchors, century boundaries and both range ends
fn oracle_proleptic() -> bool {
    let mut acc = Acc::default();
    let windows: [(i64, i64); 9] = [(-4716, -4708), (-3, 5), (296, 304), (1578, 1586), (1896, 1904), (1996, 2004), (-5884200, -5884196), (5874770, 5874775), (-102, -96)];
    for (ci, c) in [crate::oracle::Cal::J, crate::oracle::Cal::G].into_iter().enumerate() {
        for (y0, y1) in windows {
            let (y0, y1) = if ci == 1 && y0 < -5884000 { (-5884321, -5884317) } else if ci == 1 && y0 > 5874000 { (5874891, 5874896) } else { (y0, y1) };
            let (w0, w1) = crate::oracle::proleptic_window(c, y0, y1);
            let mut rep = |kind: &str, msg: String| {
                let line = crate::oracle::case_line(kind, &msg);
                acc.fail(w0, format!("{line} # {kind}: {}", msg.chars().take(160).collect::<String>()));
            };
            crate::oracle::check_cal(c, w0, w1, &mut rep);
            acc.checked += 1;
        }
    }
    report("oracle_proleptic", acc)
}
