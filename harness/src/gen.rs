//! `jharness gen <stream> <seed> <count>`: case generators, one stream per property id.
//!
//! All random choices come from one SplitMix64 state.  The library itself is used while
//! generating (to find interesting calendars and to derive follow-up cases); every such call
//! goes through `safe()` so that library panics cannot crash the generator.

use crate::eval::month_of;
use crate::rng::Rng;
use crate::show::hex_of;
use julian::{ncal, Calendar, Date, Month};
use std::io::Write;
use std::panic::{catch_unwind, AssertUnwindSafe};

pub const STREAMS: &[&str] = &[
    "C01", "C02", "C03", "C04", "C05", "C06", "C07", "C08", "C09", "C10", "C11", "C12", "C13",
    "C14", "C15", "C16", "C17",
];

pub const RMIN: i64 = 1830692;
pub const RMAX: i64 = 2147439588;
const IMIN: i64 = i32::MIN as i64;
const IMAX: i64 = i32::MAX as i64;
const UNIX_LO: i64 = -185753453990400;
const UNIX_HI: i64 = 185331720383999;
const END_YEARS: [i32; 4] = [-5884202, -5884323, 5874777, 5874898];

const NCAL: &[i32] = &[
    ncal::ALBANIA,
    ncal::AUSTRALIA,
    ncal::AUSTRIA,
    ncal::BELGIUM,
    ncal::BULGARIA,
    ncal::CANADA,
    ncal::CHINA,
    ncal::CZECH_REPUBLIC,
    ncal::DENMARK,
    ncal::FINLAND,
    ncal::FRANCE,
    ncal::GERMANY,
    ncal::GREECE,
    ncal::HUNGARY,
    ncal::ICELAND,
    ncal::ITALY,
    ncal::JAPAN,
    ncal::LATVIA,
    ncal::LITHUANIA,
    ncal::LUXEMBOURG,
    ncal::NETHERLANDS,
    ncal::NORWAY,
    ncal::POLAND,
    ncal::PORTUGAL,
    ncal::ROMANIA,
    ncal::RUSSIA,
    ncal::SLOVENIA,
    ncal::SPAIN,
    ncal::SWEDEN,
    ncal::SWITZERLAND,
    ncal::TURKEY,
    ncal::UNITED_KINGDOM,
    ncal::UNITED_STATES,
    ncal::YUGOSLAVIA,
];

const I32_LIMS: [i64; 11] = [
    IMIN,
    IMIN + 1,
    IMIN + 2,
    -2,
    -1,
    0,
    1,
    2,
    IMAX - 2,
    IMAX - 1,
    IMAX,
];
const U32_LIMS: [u32; 8] = [
    0,
    1,
    2,
    i32::MAX as u32,
    i32::MAX as u32 + 1,
    u32::MAX - 2,
    u32::MAX - 1,
    u32::MAX,
];
const I64_LIMS: [i64; 15] = [
    i64::MIN,
    i64::MIN + 1,
    -86400,
    -1,
    0,
    1,
    86400,
    i64::MAX - 1,
    i64::MAX,
    UNIX_LO - 1,
    UNIX_LO,
    UNIX_LO + 1,
    UNIX_HI - 1,
    UNIX_HI,
    UNIX_HI + 1,
];

fn safe<T>(f: impl FnOnce() -> T) -> Option<T> {
    catch_unwind(AssertUnwindSafe(f)).ok()
}

fn clamp32(v: i64) -> i32 {
    v.clamp(IMIN, IMAX) as i32
}

fn is_greg_leap(y: i32) -> bool {
    y % 4 == 0 && (y % 100 != 0 || y % 400 == 0)
}

#[derive(Clone, Copy, PartialEq, Eq, Debug)]
pub enum CalSpec {
    J,
    G,
    X,
    R(i32),
}

impl CalSpec {
    pub fn tok(&self) -> String {
        match self {
            CalSpec::J => "J".into(),
            CalSpec::G => "G".into(),
            CalSpec::X => "X".into(),
            CalSpec::R(r) => format!("R{r}"),
        }
    }

    pub fn cal(&self) -> Option<Calendar> {
        match *self {
            CalSpec::J => Some(Calendar::JULIAN),
            CalSpec::G => Some(Calendar::GREGORIAN),
            CalSpec::X => Some(Calendar::REFORM1582),
            CalSpec::R(r) => safe(|| Calendar::reforming(r).ok()).flatten(),
        }
    }

    fn is_reforming(&self) -> bool {
        matches!(self, CalSpec::X | CalSpec::R(_))
    }
}

/// A calendar together with its "window" (see README / task description).
pub struct Ctx {
    pub spec: CalSpec,
    pub tok: String,
    pub cal: Option<Calendar>,
    /// reformation day (2299161 for the proleptic calendars, which borrow that window)
    pub r: i64,
    pub lo: i64,
    pub hi: i64,
    pub years: Vec<i32>,
}

fn window(r: i64) -> (i64, i64, Vec<i32>) {
    let jul = Calendar::JULIAN;
    let greg = Calendar::GREGORIAN;
    let y1 = safe(|| jul.at_jdn(clamp32(r - 1)).year()).unwrap_or(0);
    let y2 = safe(|| greg.at_jdn(clamp32(r)).year()).unwrap_or(y1);
    let lo = safe(|| jul.at_ymd(y1, Month::January, 1).ok())
        .flatten()
        .map_or(IMIN, |d| i64::from(d.julian_day_number()))
        - 366;
    let hi = safe(|| greg.at_ymd(y2, Month::December, 31).ok())
        .flatten()
        .map_or(IMAX, |d| i64::from(d.julian_day_number()))
        + 366;
    let (lo, hi) = (lo.clamp(IMIN, IMAX), hi.clamp(IMIN, IMAX));
    let (lo, hi) = if lo <= hi { (lo, hi) } else { (hi, lo) };
    let ya = i64::from(y1) - 1;
    let yb = (i64::from(y2) + 1).max(ya);
    let mut years = Vec::new();
    if yb - ya + 1 > 6 {
        for y in [ya, ya + 1, ya + 2, yb - 2, yb - 1, yb] {
            years.push(clamp32(y));
        }
    } else {
        for y in ya..=yb {
            years.push(clamp32(y));
        }
    }
    (lo, hi, years)
}

struct Emit {
    w: std::io::BufWriter<std::io::StdoutLock<'static>>,
    n: usize,
    limit: usize,
}

impl Emit {
    fn line(&mut self, s: &str) {
        if self.n < self.limit {
            let ok = self.w.write_all(s.as_bytes()).is_ok() && self.w.write_all(b"\n").is_ok();
            if ok {
                self.n += 1;
            } else {
                // e.g. broken pipe: stop generating
                self.n = self.limit;
            }
        }
    }
    fn full(&self) -> bool {
        self.n >= self.limit
    }
}

macro_rules! e {
    ($g:expr, $($arg:tt)*) => {{
        let line = format!($($arg)*);
        $g.em.line(&line)
    }};
}

struct Gen {
    rng: Rng,
    em: Emit,
}

impl Gen {
    // ---------------------------------------------------------------- calendars

    fn special_reformation(&mut self) -> i64 {
        let jul = Calendar::JULIAN;
        let greg = Calendar::GREGORIAN;
        let kind = self.rng.below(9);
        if kind >= 7 {
            // first Gregorian date in a century year
            let k = self.rng.range(3, 58748);
            let y = (100 * k) as i32;
            let ord = self.rng.range(1, 366) as u32;
            let r = safe(|| greg.at_ordinal_date(y, ord).ok())
                .flatten()
                .map_or(RMIN, |d| i64::from(d.julian_day_number()));
            return r.clamp(RMIN, RMAX);
        }
        let start = if self.rng.pct(60) {
            self.rng.range(RMIN, 3_000_000)
        } else {
            self.rng.range(RMIN, RMAX - 3000)
        };
        for r in start..(start + 3000).min(RMAX) {
            let hit = safe(|| {
                let pj = jul.at_jdn((r - 1) as i32);
                let fg = greg.at_jdn(r as i32);
                match kind {
                    0 => pj.month() == Month::February && pj.day() == 28,
                    1 => pj.month() == Month::February && pj.day() == 29,
                    2 => pj.month() == Month::December && pj.day() == 31,
                    3 => fg.month() == Month::January && fg.day() == 1,
                    4 => fg.month() == Month::March && fg.day() == 1,
                    5 => fg.month() == Month::February && fg.day() == 29,
                    _ => fg.month().number() <= 2 && is_greg_leap(fg.year()),
                }
            })
            .unwrap_or(false);
            if hit {
                if kind == 6 {
                    // do not always land on the first matching day
                    let fg = safe(|| greg.at_jdn(r as i32));
                    if let Some(fg) = fg {
                        let left = 60 - i64::from(fg.ordinal());
                        if left > 0 {
                            return (r + self.rng.range(0, left)).min(RMAX);
                        }
                    }
                }
                return r;
            }
        }
        start
    }

    fn gen_reformation(&mut self) -> i64 {
        match self.rng.below(20) {
            0..=2 => self.rng.range(RMIN, RMAX),
            3 => {
                let base = *self.rng.pick(&[RMIN, RMAX]);
                base + self.rng.range(-3, 3)
            }
            4 | 5 => RMIN + self.rng.range(0, 3000),
            6 | 7 => 2299161 + self.rng.range(-400, 400),
            8 | 9 => i64::from(*self.rng.pick(NCAL)),
            10 => 3145930 + self.rng.range(-50, 50),
            11 => 19582149 + self.rng.range(-50, 50),
            12..=16 => self.special_reformation(),
            17 => self.rng.range(100_000_000, RMAX),
            18 => self.rng.range(1_000_000_000, RMAX),
            _ => self.rng.range(RMIN, 3_000_000),
        }
    }

    /// Calendar classes used by all streams.
    fn gen_cal(&mut self) -> CalSpec {
        match self.rng.below(100) {
            0..=7 => CalSpec::J,
            8..=15 => CalSpec::G,
            16..=21 => CalSpec::X,
            _ => CalSpec::R(self.gen_reformation() as i32),
        }
    }

    fn ctx(&mut self, spec: CalSpec) -> Ctx {
        let r = match spec {
            CalSpec::R(r) => i64::from(r),
            _ => 2299161,
        };
        let (lo, hi, years) = window(r);
        Ctx {
            spec,
            tok: spec.tok(),
            cal: spec.cal(),
            r,
            lo,
            hi,
            years,
        }
    }

    fn any_ctx(&mut self) -> Ctx {
        let spec = self.gen_cal();
        self.ctx(spec)
    }

    /// A context whose calendar is valid (no BADCAL).
    fn valid_ctx(&mut self) -> Ctx {
        loop {
            let c = self.any_ctx();
            if c.cal.is_some() {
                return c;
            }
        }
    }

    /// A context for a reforming calendar (X or R<r>), possibly an invalid one.
    fn ref_ctx(&mut self) -> Ctx {
        loop {
            let spec = self.gen_cal();
            if spec.is_reforming() {
                return self.ctx(spec);
            }
        }
    }

    /// Some other calendar token, for conversions and comparisons.
    fn other_cal_tok(&mut self, c: &Ctx) -> String {
        match self.rng.below(8) {
            0 | 1 => "J".into(),
            2 | 3 => "G".into(),
            4 => "X".into(),
            5 => c.tok.clone(),
            6 => format!("R{}", (c.r + self.rng.range(-2, 2)).clamp(RMIN, RMAX)),
            _ => loop {
                let s = self.gen_cal();
                if s.cal().is_some() {
                    break s.tok();
                }
            },
        }
    }

    // ---------------------------------------------------------------- day numbers

    fn window_day(&mut self, c: &Ctx) -> i32 {
        let v = match self.rng.below(20) {
            0..=5 => c.r + self.rng.range(-400, 400),
            6..=8 => c.lo + self.rng.range(0, 800),
            9..=11 => c.hi - self.rng.range(0, 800),
            12 => c.lo + 366 + self.rng.range(-2, 2),
            13 => c.hi - 366 + self.rng.range(-2, 2),
            14 => c.r + self.rng.range(-2, 1),
            _ => self.rng.range(c.lo, c.hi),
        };
        clamp32(v)
    }

    fn cycle_day(&mut self) -> i32 {
        loop {
            let cyc = *self.rng.pick(&[1461i64, 36524, 146097]);
            let off = *self.rng.pick(&[0i64, -32104, 113993]);
            let kmax = IMAX / cyc;
            let k = if self.rng.pct(50) {
                self.rng.range(-kmax - 1, kmax + 1)
            } else {
                self.rng.range(-20, 20)
            };
            let v = cyc * k + off + self.rng.range(-2, 2);
            if (IMIN..=IMAX).contains(&v) {
                return v as i32;
            }
        }
    }

    /// Day-number pool.
    fn gen_jdn(&mut self, c: &Ctx) -> i32 {
        if c.spec.is_reforming() && self.rng.pct(60) {
            return self.window_day(c);
        }
        match self.rng.below(6) {
            0 => (IMIN + self.rng.range(0, 800)) as i32,
            1 => (IMAX - self.rng.range(0, 800)) as i32,
            2 => self.rng.range(-800, 800) as i32,
            3 => self.cycle_day(),
            4 => self.rng.i32_any(),
            _ => {
                if c.spec.is_reforming() {
                    self.rng.i32_any()
                } else {
                    self.window_day(c)
                }
            }
        }
    }

    fn limit_jdn(&mut self) -> i32 {
        match self.rng.below(3) {
            0 => (IMIN + self.rng.range(0, 5)) as i32,
            1 => (IMAX - self.rng.range(0, 5)) as i32,
            _ => *self.rng.pick(&I32_LIMS) as i32,
        }
    }

    fn window_year(&mut self, c: &Ctx) -> i32 {
        *self.rng.pick(&c.years)
    }

    fn any_year(&mut self, c: &Ctx) -> i32 {
        match self.rng.below(10) {
            0..=5 => self.window_year(c),
            6 => self.rng.i32_any(),
            7 => clamp32(i64::from(*self.rng.pick(&END_YEARS)) + self.rng.range(-2, 2)),
            8 => *self.rng.pick(&I32_LIMS) as i32,
            _ => self.rng.range(-10000, 10000) as i32,
        }
    }

    fn month(&mut self) -> u32 {
        self.rng.range(1, 12) as u32
    }

    fn date_at(&mut self, c: &Ctx, j: i32) -> Option<Date> {
        let cal = c.cal?;
        safe(|| cal.at_jdn(j))
    }

    // ---------------------------------------------------------------- streams

    /// at_jdn + at_ymd / at_ordinal_date on what at_jdn returned
    fn triple(&mut self, c: &Ctx, j: i32) {
        e!(self, "at_jdn {} {}", c.tok, j);
        if let Some(d) = self.date_at(c, j) {
            e!(
                self,
                "at_ymd {} {} {} {}",
                c.tok,
                d.year(),
                d.month().number(),
                d.day()
            );
            e!(
                self,
                "at_ordinal_date {} {} {}",
                c.tok,
                d.year(),
                d.ordinal()
            );
        }
    }

    fn c01(&mut self) {
        while !self.em.full() {
            let c = self.any_ctx();
            let k = if c.cal.is_none() {
                1
            } else {
                1 + self.rng.below(12)
            };
            for _ in 0..k {
                let j = self.gen_jdn(&c);
                self.triple(&c, j);
            }
        }
    }

    fn c02_year(&mut self) -> i32 {
        match self.rng.below(12) {
            0 => *self.rng.pick(&[0, -4, -100, -400, 1, -1, 4, 100, 400]),
            1 | 2 => (100 * self.rng.range(-21474836, 21474836)) as i32,
            3 => (400 * self.rng.range(-5368709, 5368709)) as i32,
            4 => clamp32(4 * self.rng.range(-536870912, 536870911) + self.rng.range(-1, 1)),
            5 => *self.rng.pick(&I32_LIMS) as i32,
            6 => self.rng.range(-2000, 3000) as i32,
            7 => (100 * self.rng.range(-30, 30)) as i32,
            _ => self.rng.i32_any(),
        }
    }

    fn c02(&mut self) {
        while !self.em.full() {
            let spec = *self.rng.pick(&[CalSpec::J, CalSpec::G]);
            let c = self.ctx(spec);
            match self.rng.below(10) {
                0..=4 => {
                    let j = self.gen_jdn(&c);
                    self.triple(&c, j);
                }
                5 | 6 => {
                    let y = self.c02_year();
                    e!(self, "year_kind {} {}", c.tok, y);
                }
                _ => {
                    let y = i64::from(*self.rng.pick(&END_YEARS)) + self.rng.range(-2, 2);
                    let m = self.month();
                    let d = *self.rng.pick(&[1u32, 15, 16, 17, 28, 29, 30, 31]);
                    e!(self, "at_ymd {} {} {} {}", c.tok, y, m, d);
                }
            }
        }
    }

    fn c03(&mut self) {
        while !self.em.full() {
            let c = self.ref_ctx();
            e!(self, "boundary {}", c.tok);
            if c.cal.is_none() {
                continue;
            }
            let k = 2 + self.rng.below(10);
            for _ in 0..k {
                let j = clamp32(c.r + self.rng.range(-400, 400));
                match self.rng.below(6) {
                    0..=2 => {
                        e!(self, "at_jdn {} {}", c.tok, j);
                        e!(self, "at_jdn J {}", j);
                        e!(self, "at_jdn G {}", j);
                    }
                    3 => e!(self, "date_q {} {}", c.tok, j),
                    _ => {
                        let other = self.other_cal_tok(&c);
                        if self.rng.pct(50) {
                            e!(self, "convert {} {} {}", c.tok, j, other);
                        } else {
                            e!(self, "convert {} {} {}", other, j, c.tok);
                        }
                    }
                }
            }
            // the two days around the reformation, always
            for j in [c.r - 1, c.r] {
                e!(self, "at_jdn {} {}", c.tok, j);
                e!(self, "date_q {} {}", c.tok, j);
            }
        }
    }

    fn c04(&mut self) {
        while !self.em.full() {
            let c = self.any_ctx();
            let k = if c.cal.is_none() {
                1
            } else {
                2 + self.rng.below(12)
            };
            for _ in 0..k {
                let j = self.window_day(&c);
                e!(self, "at_jdn {} {}", c.tok, j);
                e!(self, "date_q {} {}", c.tok, j);
                let y = match self.date_at(&c, j) {
                    Some(d) => d.year(),
                    None => self.window_year(&c),
                };
                e!(self, "year_length {} {}", c.tok, y);
            }
            for y in c.years.clone() {
                e!(self, "year_length {} {}", c.tok, y);
            }
        }
    }

    fn lim32(&mut self) -> i64 {
        *self.rng.pick(&I32_LIMS)
    }
    fn limu32(&mut self) -> u32 {
        *self.rng.pick(&U32_LIMS)
    }
    fn lim64(&mut self) -> i64 {
        *self.rng.pick(&I64_LIMS)
    }
    fn extreme_year(&mut self, c: &Ctx) -> i64 {
        match self.rng.below(4) {
            0 => self.lim32(),
            1 => i64::from(*self.rng.pick(&END_YEARS)) + self.rng.range(-1, 1),
            2 => i64::from(self.window_year(c)),
            _ => *self.rng.pick(&[IMIN, IMAX]),
        }
    }
    fn sys_secs_limit(&mut self) -> u64 {
        *self.rng.pick(&[
            0u64,
            1,
            u64::MAX,
            u64::MAX - 1,
            1 << 63,
            (1 << 63) - 1,
            (1 << 63) + 1,
            UNIX_HI as u64,
            UNIX_HI as u64 + 1,
            UNIX_LO.unsigned_abs(),
            UNIX_LO.unsigned_abs() + 1,
            UNIX_LO.unsigned_abs() - 1,
        ])
    }

    fn c05(&mut self) {
        const SHAPE_DAYS: [u32; 36] = [
            0,
            1,
            2,
            3,
            4,
            5,
            6,
            7,
            8,
            9,
            10,
            11,
            12,
            13,
            14,
            15,
            16,
            17,
            18,
            19,
            20,
            21,
            22,
            23,
            24,
            25,
            26,
            27,
            28,
            29,
            30,
            31,
            32,
            33,
            u32::MAX - 1,
            u32::MAX,
        ];
        const TYPES: [(&str, i128, u128); 12] = [
            ("i8", i8::MIN as i128, i8::MAX as u128),
            ("i16", i16::MIN as i128, i16::MAX as u128),
            ("i32", i32::MIN as i128, i32::MAX as u128),
            ("i64", i64::MIN as i128, i64::MAX as u128),
            ("i128", i128::MIN, i128::MAX as u128),
            ("isize", isize::MIN as i128, isize::MAX as u128),
            ("u8", 0, u8::MAX as u128),
            ("u16", 0, u16::MAX as u128),
            ("u32", 0, u32::MAX as u128),
            ("u64", 0, u64::MAX as u128),
            ("u128", 0, u128::MAX),
            ("usize", 0, usize::MAX as u128),
        ];
        while !self.em.full() {
            let c = if self.rng.pct(85) {
                self.valid_ctx()
            } else {
                self.any_ctx()
            };
            let t = c.tok.clone();
            let k = 3 + self.rng.below(10);
            for _ in 0..k {
                match self.rng.below(30) {
                    0 => e!(self, "at_jdn {} {}", t, self.lim32()),
                    1 => {
                        let (y, m, d) = (self.extreme_year(&c), self.month(), self.limu32());
                        e!(self, "at_ymd {} {} {} {}", t, y, m, d);
                    }
                    2 => {
                        let (y, m) = (self.extreme_year(&c), self.month());
                        let d = self.rng.range(0, 33);
                        e!(self, "at_ymd {} {} {} {}", t, y, m, d);
                    }
                    3 => {
                        let (y, o) = (self.extreme_year(&c), self.limu32());
                        e!(self, "at_ordinal_date {} {} {}", t, y, o);
                    }
                    4 => {
                        let y = self.extreme_year(&c);
                        let o = self.rng.range(0, 367);
                        e!(self, "at_ordinal_date {} {} {}", t, y, o);
                    }
                    5 => e!(self, "year_kind {} {}", t, self.extreme_year(&c)),
                    6 => e!(self, "year_length {} {}", t, self.extreme_year(&c)),
                    7 | 8 => {
                        let y = self.extreme_year(&c);
                        let m = self.month();
                        e!(self, "month_shape {} {} {}", t, y, m);
                    }
                    9..=11 => {
                        let y = if self.rng.pct(70) {
                            i64::from(self.window_year(&c))
                        } else {
                            self.extreme_year(&c)
                        };
                        let m = self.month();
                        let d = *self.rng.pick(&SHAPE_DAYS);
                        e!(self, "shape_q {} {} {} {}", t, y, m, d);
                    }
                    12 => e!(self, "succ {} {}", t, self.lim32()),
                    13 => e!(self, "pred {} {}", t, self.lim32()),
                    14 => e!(self, "unix2jdn {}", self.lim64()),
                    15 => e!(self, "jdn2unix {}", self.lim32()),
                    16 => e!(self, "at_unix_time {} {}", t, self.lim64()),
                    17 => e!(self, "weekday {}", self.lim32()),
                    18 => e!(self, "date_q {} {}", t, self.lim32()),
                    19 => {
                        let b = self.rng.below(2);
                        let s = self.sys_secs_limit();
                        let n = *self.rng.pick(&[0u32, 1, 999_999_999]);
                        if self.rng.pct(50) {
                            e!(self, "system2jdn {} {} {}", b, s, n);
                        } else {
                            e!(self, "at_system_time {} {} {} {}", t, b, s, n);
                        }
                    }
                    20 => {
                        let y = self.extreme_year(&c);
                        let m = self.month();
                        let op = *self.rng.pick(&["days", "dates"]);
                        let ops = *self.rng.pick(&["lfbl", "flbfl", "bbbl", "l", "."]);
                        e!(self, "{} {} {} {} {}", op, t, y, m, ops);
                    }
                    21 => {
                        let op = *self
                            .rng
                            .pick(&["later", "earlier", "and_later", "and_earlier"]);
                        let n = self.rng.range(0, 4);
                        e!(self, "{} {} {} {}", op, t, self.lim32(), n);
                    }
                    22 => {
                        let o = self.other_cal_tok(&c);
                        e!(self, "convert {} {} {}", t, self.lim32(), o);
                    }
                    23 => {
                        let o = self.other_cal_tok(&c);
                        let (a, b) = (self.lim32(), self.lim32());
                        e!(self, "date_cmp {} {} {} {}", t, a, o, b);
                    }
                    24 => {
                        let j = self.lim32();
                        let n = 2 + self.rng.below(5) as usize;
                        let ops = self.history_ops(&c, n, false);
                        e!(self, "history {} {} {}", t, j, ops);
                    }
                    25 => e!(self, "reforming {}", self.lim32()),
                    26 | 27 => {
                        let (ty, lo, hi) = *self.rng.pick(&TYPES);
                        let op = *self.rng.pick(&["month_try_from", "weekday_try_from"]);
                        match self.rng.below(4) {
                            0 => e!(self, "{} {} {}", op, ty, lo),
                            1 => e!(self, "{} {} {}", op, ty, hi),
                            2 => {
                                // one beyond the lower limit: BADARG
                                if lo == i128::MIN {
                                    e!(self, "{} {} {}", op, ty, lo);
                                } else {
                                    e!(self, "{} {} {}", op, ty, lo - 1);
                                }
                            }
                            _ => {
                                // one beyond the upper limit: BADARG
                                if hi == u128::MAX {
                                    e!(self, "{} {} {}", op, ty, hi);
                                } else {
                                    e!(self, "{} {} {}", op, ty, hi + 1);
                                }
                            }
                        }
                    }
                    28 => e!(self, "boundary {}", t),
                    _ => e!(self, "observers {}", t),
                }
            }
        }
    }

    fn history_ops(&mut self, c: &Ctx, n: usize, foreign: bool) -> String {
        let mut ops: Vec<String> = Vec::with_capacity(n);
        for _ in 0..n {
            let top = if foreign { 17 } else { 13 };
            let s = match self.rng.below(top) {
                0 | 1 => "s".to_string(),
                2 | 3 => "p".to_string(),
                4 => format!("c:{}", self.other_cal_tok(c)),
                5 => {
                    let k = match self.rng.below(6) {
                        0 => *self.rng.pick(&[0i64, 1, 28, 29, 30, 31, 32]),
                        1 => i64::from(self.limu32()),
                        _ => self.rng.range(1, 31),
                    };
                    format!("n:{k}")
                }
                6 => "t".to_string(),
                7 => "o".to_string(),
                8 => "y".to_string(),
                9 => "r".to_string(),
                10 => "L".to_string(),
                11 => "E".to_string(),
                12 => "A".to_string(),
                13 | 14 => "h".to_string(),
                _ => "m".to_string(),
            };
            ops.push(s);
        }
        ops.join(" ")
    }

    fn c06(&mut self) {
        while !self.em.full() {
            let c = if self.rng.pct(95) {
                self.valid_ctx()
            } else {
                self.any_ctx()
            };
            let k = 1 + self.rng.below(6);
            for _ in 0..k {
                let j = match self.rng.below(10) {
                    0..=6 => self.window_day(&c),
                    7 => (IMIN + self.rng.range(0, 400)) as i32,
                    8 => (IMAX - self.rng.range(0, 400)) as i32,
                    _ => self.gen_jdn(&c),
                };
                let n = 2 + self.rng.below(11) as usize;
                let ops = self.history_ops(&c, n, false);
                e!(self, "history {} {} {}", c.tok, j, ops);
            }
        }
    }

    fn c07(&mut self) {
        while !self.em.full() {
            let c = self.any_ctx();
            if c.cal.is_none() {
                e!(self, "at_ymd {} 2000 1 1", c.tok);
                continue;
            }
            let cal = c.cal.unwrap();
            let k = 1 + self.rng.below(4);
            for _ in 0..k {
                let y = self.any_year(&c);
                if self.rng.pct(60) {
                    let months: Vec<u32> = if self.rng.pct(50) {
                        (1..=12).collect()
                    } else {
                        vec![self.month()]
                    };
                    for m in months {
                        for d in 0..=33u32 {
                            if self.rng.pct(25) {
                                e!(self, "at_ymd {} {} {} {}", c.tok, y, m, d);
                            }
                        }
                    }
                    if self.rng.pct(20) {
                        let m = self.month();
                        let d = self.rng.next_u64() as u32;
                        e!(self, "at_ymd {} {} {} {}", c.tok, y, m, d);
                    }
                } else {
                    let len = safe(|| cal.year_length(y)).map_or(365, i64::from);
                    let mut ords: Vec<i64> = vec![
                        0,
                        1,
                        2,
                        len - 1,
                        len,
                        len + 1,
                        365,
                        366,
                        367,
                        i64::from(u32::MAX),
                    ];
                    ords.push(self.rng.range(0, 400));
                    ords.push(self.rng.range(0, 400));
                    ords.push(self.rng.range(0, i64::from(u32::MAX)));
                    for o in ords {
                        if o >= 0 && self.rng.pct(70) {
                            e!(self, "at_ordinal_date {} {} {}", c.tok, y, o);
                        }
                    }
                }
            }
        }
    }

    fn c08(&mut self) {
        while !self.em.full() {
            let c = self.any_ctx();
            if c.cal.is_none() {
                e!(self, "year_kind {} 2000", c.tok);
                continue;
            }
            let mut years = c.years.clone();
            years.push(self.rng.i32_any());
            years.push(self.c02_year());
            if self.rng.pct(30) {
                years.push(clamp32(
                    i64::from(*self.rng.pick(&END_YEARS)) + self.rng.range(-1, 1),
                ));
            }
            for y in years {
                e!(self, "year_kind {} {}", c.tok, y);
                e!(self, "year_length {} {}", c.tok, y);
                for m in 1..=12 {
                    e!(self, "month_shape {} {} {}", c.tok, y, m);
                }
            }
        }
    }

    fn c09(&mut self) {
        let fwd = "f".repeat(40);
        let bwd = "b".repeat(40);
        while !self.em.full() {
            let c = self.valid_ctx();
            let k = 1 + self.rng.below(5);
            for _ in 0..k {
                // favour the months next to the reformation
                let (y, m) = match (self.rng.below(4), c.cal) {
                    (0, Some(cal)) => {
                        let j = clamp32(c.r - self.rng.range(0, 1));
                        match safe(|| cal.at_jdn(j)) {
                            Some(d) => (d.year(), d.month().number()),
                            None => (self.window_year(&c), self.month()),
                        }
                    }
                    _ => (self.window_year(&c), self.month()),
                };
                e!(self, "month_shape {} {} {}", c.tok, y, m);
                for d in 0..=33u32 {
                    if self.rng.pct(40) {
                        e!(self, "shape_q {} {} {} {}", c.tok, y, m, d);
                    }
                }
                e!(self, "days {} {} {} {}", c.tok, y, m, fwd);
                e!(self, "days {} {} {} {}", c.tok, y, m, bwd);
            }
        }
    }

    fn c10(&mut self) {
        while !self.em.full() {
            let c = self.valid_ctx();
            let k = 2 + self.rng.below(8);
            for _ in 0..k {
                let j = match self.rng.below(10) {
                    0..=6 => self.window_day(&c),
                    7 | 8 => self.limit_jdn(),
                    _ => self.gen_jdn(&c),
                };
                match self.rng.below(8) {
                    0 | 1 => e!(self, "succ {} {}", c.tok, j),
                    2 | 3 => e!(self, "pred {} {}", c.tok, j),
                    x => {
                        let op = ["later", "earlier", "and_later", "and_earlier"][(x - 4) as usize];
                        let n = self.rng.range(0, 40);
                        e!(self, "{} {} {} {}", op, c.tok, j, n);
                    }
                }
            }
            if self.rng.pct(30) {
                let op = *self
                    .rng
                    .pick(&["later", "earlier", "and_later", "and_earlier"]);
                let j = if op.ends_with("later") {
                    IMAX - self.rng.range(0, 5)
                } else {
                    IMIN + self.rng.range(0, 5)
                };
                let n = self.rng.range(0, 12);
                e!(self, "{} {} {} {}", op, c.tok, j, n);
            }
        }
    }

    fn c11(&mut self) {
        let mut pool: Vec<String> = [
            "J",
            "G",
            "X",
            "R2299161",
            "R2299160",
            "R2299162",
            "R1830692",
            "R1830693",
            "R2147439588",
            "R2147439587",
        ]
        .iter()
        .map(|s| s.to_string())
        .collect();
        for _ in 0..2 {
            let c = loop {
                let c = self.ref_ctx();
                if c.cal.is_some() {
                    break c;
                }
            };
            pool.push(c.tok);
        }
        let budget = self.em.limit / 2;
        'outer: for a in &pool {
            for b in &pool {
                if self.em.n >= budget {
                    break 'outer;
                }
                e!(self, "cal_cmp {} {}", a, b);
            }
        }
        while !self.em.full() {
            if self.rng.pct(10) {
                // two reforming calendars a few days apart (same month, same year, often both with a gap that crosses a
                // year end): any comparison key coarser than the reformation day itself confuses them
                let c = self.valid_ctx();
                let d = self.rng.range(-12, 12);
                let r2 = (c.r + d).clamp(RMIN, RMAX);
                e!(self, "cal_cmp R{} R{}", c.r.clamp(RMIN, RMAX), r2);
                e!(self, "cal_cmp R{} R{}", r2, c.r.clamp(RMIN, RMAX));
                continue;
            }
            if self.rng.pct(15) {
                let a = if self.rng.pct(50) {
                    self.rng.pick(&pool).clone()
                } else {
                    self.valid_ctx().tok
                };
                let b = if self.rng.pct(50) {
                    self.rng.pick(&pool).clone()
                } else {
                    self.valid_ctx().tok
                };
                e!(self, "cal_cmp {} {}", a, b);
                continue;
            }
            let c1 = self.valid_ctx();
            let t2 = if self.rng.pct(50) {
                self.rng.pick(&pool).clone()
            } else {
                self.other_cal_tok(&c1)
            };
            let j = i64::from(self.gen_jdn(&c1));
            // a third of the pairs are far apart (independent day numbers, type limits included): the difference of
            // two day numbers does not fit in 32 bits, which a comparison written as a subtraction gets wrong
            let (j1, j2) = match self.rng.below(6) {
                0 => (self.lim32(), self.lim32()),
                1 => {
                    let k = i64::from(self.gen_jdn(&c1));
                    if self.rng.pct(50) { (j, self.lim32()) } else { (self.lim32(), k) }
                }
                2 => (j, self.rng.range(IMIN, IMAX)),
                _ => (
                    i64::from(clamp32(j + self.rng.range(-1, 1))),
                    i64::from(clamp32(j + self.rng.range(-1, 1))),
                ),
            };
            e!(self, "date_cmp {} {} {} {}", c1.tok, j1, t2, j2);
        }
    }

    fn c12(&mut self) {
        e!(self, "reforming 2299161");
        e!(self, "boundary X");
        e!(self, "observers X");
        e!(self, "observers J");
        e!(self, "observers G");
        let centers: [i64; 6] = [RMIN, RMAX, IMIN, IMIN + 44133, 0, IMAX];
        let mut fixed: Vec<i64> = Vec::new();
        for cen in centers {
            for d in -5..=5 {
                let v = cen + d;
                if (IMIN..=IMAX).contains(&v) {
                    fixed.push(v);
                }
            }
        }
        for &n in NCAL {
            fixed.push(i64::from(n));
        }
        let budget = self.em.limit / 2;
        for v in fixed.iter() {
            if self.em.n >= budget {
                break;
            }
            e!(self, "reforming {}", v);
        }
        while !self.em.full() {
            match self.rng.below(10) {
                0..=2 => e!(self, "reforming {}", self.rng.i32_any()),
                3 => e!(self, "reforming {}", self.rng.pick(&fixed)),
                4 => e!(self, "reforming {}", self.gen_reformation()),
                5 => {
                    // around the thresholds, a bit wider
                    let cen = *self.rng.pick(&centers);
                    let v = (cen + self.rng.range(-50000, 50000)).clamp(IMIN, IMAX);
                    e!(self, "reforming {}", v);
                }
                6 | 7 => {
                    let c = self.any_ctx();
                    e!(self, "observers {}", c.tok);
                }
                _ => {
                    let c = self.any_ctx();
                    e!(self, "boundary {}", c.tok);
                }
            }
        }
    }

    // ---------------------------------------------------------------- C13 (text)

    fn mutate(&mut self, s: &str) -> String {
        let fields: Vec<&str> = s.split('-').collect();
        // NB: a negative year yields an empty first field; the mutations below stay meaningful.
        let mut f: Vec<String> = fields.iter().map(|x| x.to_string()).collect();
        let nf = f.len() as u64;
        let i = self.rng.below(nf) as usize;
        match self.rng.below(18) {
            0 => format!("+{s}"),
            1 => {
                f[i] = format!("+{}", f[i]);
                f.join("-")
            }
            2 => {
                let z = "0".repeat(1 + self.rng.below(12) as usize);
                f[i] = format!("{}{}", z, f[i]);
                f.join("-")
            }
            3 => {
                f.remove(i);
                f.join("-")
            }
            4 => format!("{}-{}", s, self.rng.range(0, 40)),
            5 => {
                f[i] = String::new();
                f.join("-")
            }
            6 => match self.rng.below(4) {
                0 => format!(" {s}"),
                1 => format!("{s} "),
                2 => s.replacen('-', " -", 1),
                _ => s.replacen('-', "- ", 1),
            },
            7 => {
                // an Arabic-Indic digit replaces or follows an ASCII digit
                let chars: Vec<char> = s.chars().collect();
                let pos = self.rng.below(chars.len().max(1) as u64) as usize;
                let mut o = String::new();
                for (k, ch) in chars.iter().enumerate() {
                    if k == pos {
                        if ch.is_ascii_digit() && self.rng.pct(50) {
                            o.push('٣');
                            continue;
                        }
                        o.push(*ch);
                        o.push('٣');
                    } else {
                        o.push(*ch);
                    }
                }
                o
            }
            8 => {
                // U+2212 MINUS SIGN for one '-' (or as a sign)
                if s.contains('-') && self.rng.pct(70) {
                    let cnt = s.matches('-').count() as u64;
                    let which = self.rng.below(cnt) as usize;
                    let mut k = 0;
                    s.chars()
                        .map(|ch| {
                            if ch == '-' {
                                k += 1;
                                if k - 1 == which {
                                    return '\u{2212}';
                                }
                            }
                            ch
                        })
                        .collect()
                } else {
                    format!("\u{2212}{s}")
                }
            }
            9 => {
                let n = *self.rng.pick(&[10usize, 11, 20, 40, 300]);
                let run: String = (0..n)
                    .map(|_| char::from(b'0' + self.rng.below(10) as u8))
                    .collect();
                f[i] = run;
                f.join("-")
            }
            10 => {
                let z = "0".repeat(*self.rng.pick(&[30usize, 100, 1000]));
                f[i] = format!("{}{}", z, f[i]);
                f.join("-")
            }
            11 => format!("-{s}"),
            12 => format!("{s}-"),
            13 => s.replace('-', "/"),
            14 => s.replacen('-', "--", 1),
            15 => format!("{s}x"),
            16 => {
                // drop one character
                let chars: Vec<char> = s.chars().collect();
                if chars.is_empty() {
                    return String::new();
                }
                let pos = self.rng.below(chars.len() as u64) as usize;
                chars
                    .iter()
                    .enumerate()
                    .filter(|(k, _)| *k != pos)
                    .map(|(_, c)| *c)
                    .collect()
            }
            _ => {
                f[i] = format!("{}{}", f[i], self.rng.range(0, 9));
                f.join("-")
            }
        }
    }

    fn c13(&mut self) {
        const EDGE_YEARS: [i32; 21] = [
            -99999, -10000, -9999, -1000, -999, -100, -99, -10, -9, -1, 0, 1, 9, 10, 99, 100, 999,
            1000, 9999, 10000, 99999,
        ];
        const FIXED: &[&str] = &[
            "2147483648-01-01",
            "-2147483649-1-1",
            "2147483647-01-01",
            "-2147483648-01-01",
            "2147483647-1",
            "-2147483648-366",
            "2023-4294967296",
            "2023-4294967295",
            "2023-01-4294967296",
            "2023-01-4294967295",
            "2023-4294967296-01",
            "+2023-04-30",
            "+2023-120",
            "-0-1-1",
            "+0-001",
            "-0000-01-01",
            "",
            "-",
            "+",
            "--1-1",
            "+-1-1",
            "-+1-1",
            "++1-1-1",
            "2023",
            "2023-",
            "2023-13-01",
            "2023-0-1",
            "2023-00-01",
            "2023-1-0",
            "2023-000",
            "2023-0",
            "2023-12-",
            "2023-12-31-",
            "2023-12-31-1",
            "2023-04-30 ",
            " 2023-04-30",
            "2023 -04-30",
            "2023- 04-30",
            "2023-04-+30",
            "2023-+04-30",
            "2023-04--30",
            "٢٠٢٣-04-30",
            "2023-٠٤-30",
            "2023-04-٣٠",
            "2023-04-3٣",
            "\u{2212}2023-04-30",
            "2023\u{2212}04\u{2212}30",
            "1582-10-04",
            "1582-10-05",
            "1582-10-14",
            "1582-10-15",
            "1582-278",
            "1582-355",
            "1582-356",
            "0000-01-01",
            "0-1-1",
            "00000000000000000000000000002023-0000000000000004-000000000000000000030",
            "2023-04-30\n",
            "2023-04-30\0",
            "x",
            "2023x04x30",
        ];
        for s in FIXED {
            let t = *self.rng.pick(&["J", "G", "X"]);
            e!(self, "parse {} {}", t, hex_of(s));
            if self.em.n * 4 > self.em.limit {
                break;
            }
        }
        while !self.em.full() {
            let c = self.valid_ctx();
            let cal = c.cal.unwrap();
            let k = 2 + self.rng.below(8);
            for _ in 0..k {
                // a valid rendering to start from
                let j = match self.rng.below(10) {
                    0..=4 => self.window_day(&c),
                    5..=7 => {
                        // a small / large year
                        let y = *self.rng.pick(&EDGE_YEARS);
                        let m = month_of(self.month()).unwrap();
                        let d = self.rng.range(1, 28) as u32;
                        safe(|| cal.at_ymd(y, m, d).ok())
                            .flatten()
                            .map_or(0, |d| d.julian_day_number())
                    }
                    _ => self.gen_jdn(&c),
                };
                let Some(d) = safe(|| cal.at_jdn(j)) else {
                    e!(self, "date_q {} {}", c.tok, j);
                    continue;
                };
                let Some((s1, s2)) = safe(|| (format!("{}", d), format!("{:#}", d))) else {
                    e!(self, "date_q {} {}", c.tok, j);
                    continue;
                };
                match self.rng.below(10) {
                    0 | 1 => {
                        e!(self, "date_q {} {}", c.tok, j);
                        e!(self, "parse {} {}", c.tok, hex_of(&s1));
                        e!(self, "parse {} {}", c.tok, hex_of(&s2));
                    }
                    2 => {
                        // unpadded / differently padded but valid forms
                        let w = self.rng.below(8) as usize;
                        let sign = if d.year() >= 0 && self.rng.pct(30) { "+" } else { "" };
                        let a = format!(
                            "{}{:0w$}-{:0w$}-{:0w$}",
                            sign,
                            d.year(),
                            d.month().number(),
                            d.day(),
                            w = w
                        );
                        let b = format!("{}{}-{:0w$}", sign, d.year(), d.ordinal(), w = w);
                        e!(self, "parse {} {}", c.tok, hex_of(&a));
                        e!(self, "parse {} {}", c.tok, hex_of(&b));
                    }
                    3 => {
                        // same text in another calendar (skipped dates, out-of-range days)
                        let o = self.other_cal_tok(&c);
                        e!(self, "parse {} {}", o, hex_of(&s1));
                        e!(self, "parse {} {}", o, hex_of(&s2));
                    }
                    4 => {
                        // neighbouring day / ordinal numbers, valid or not
                        let dd = (i64::from(d.day()) + self.rng.range(-3, 12)).max(0);
                        let oo = (i64::from(d.ordinal()) + self.rng.range(-3, 40)).max(0);
                        let a = format!("{:04}-{:02}-{:02}", d.year(), d.month().number(), dd);
                        let b = format!("{:04}-{:03}", d.year(), oo);
                        e!(self, "parse {} {}", c.tok, hex_of(&a));
                        e!(self, "parse {} {}", c.tok, hex_of(&b));
                    }
                    5..=8 => {
                        let base = if self.rng.pct(60) { &s1 } else { &s2 };
                        let mut m = self.mutate(base);
                        if self.rng.pct(15) {
                            m = self.mutate(&m);
                        }
                        e!(self, "parse {} {}", c.tok, hex_of(&m));
                    }
                    _ => {
                        const ALPHA: [char; 15] = [
                            '0', '1', '2', '3', '4', '5', '6', '7', '8', '9', '-', '+', ' ', 'x',
                            '٣',
                        ];
                        let n = self.rng.below(13);
                        let s: String = (0..n).map(|_| *self.rng.pick(&ALPHA)).collect();
                        e!(self, "parse {} {}", c.tok, hex_of(&s));
                    }
                }
            }
        }
    }

    // ---------------------------------------------------------------- C14 (time)

    fn unix_time(&mut self) -> i64 {
        match self.rng.below(10) {
            0 => UNIX_LO + self.rng.range(-2, 2),
            1 => UNIX_HI + self.rng.range(-2, 2),
            2 | 3 => {
                let k = if self.rng.pct(50) {
                    self.rng.range(-2_200_000_000, 2_200_000_000)
                } else {
                    self.rng.range(-40000, 40000)
                };
                86400 * k + self.rng.range(-1, 1)
            }
            4 => -self.rng.range(0, 1 << 40),
            5 => self.rng.range(0, 1 << 33),
            6 => self.lim64(),
            7 => self.rng.range(UNIX_LO, UNIX_HI),
            _ => self.rng.i64_any(),
        }
    }

    fn sys_secs(&mut self) -> u64 {
        match self.rng.below(10) {
            0 | 1 => *self.rng.pick(&[0u64, 1, 86399, 86400, 86401]),
            2 => (UNIX_HI + self.rng.range(-2, 2)) as u64,
            3 => (UNIX_LO.unsigned_abs() as i64 + self.rng.range(-2, 2)) as u64,
            4 | 5 => self.rng.below(1 << 44),
            6 => self.rng.below(1 << 32),
            7 => (86400 * self.rng.range(0, 2_200_000_000) + self.rng.range(-1, 1)).max(0) as u64,
            8 => self.sys_secs_limit(),
            _ => (1u64 << 63) | self.rng.next_u64(),
        }
    }

    fn c14(&mut self) {
        while !self.em.full() {
            match self.rng.below(10) {
                0..=2 => e!(self, "unix2jdn {}", self.unix_time()),
                3 | 4 => {
                    let c = self.any_ctx();
                    e!(self, "at_unix_time {} {}", c.tok, self.unix_time());
                }
                5 => {
                    let j = match self.rng.below(4) {
                        0 => self.lim32() as i32,
                        1 => 2440588 + self.rng.range(-3, 3) as i32,
                        2 => self.cycle_day(),
                        _ => self.rng.i32_any(),
                    };
                    e!(self, "jdn2unix {}", j);
                }
                x => {
                    let before = self.rng.below(2);
                    let secs = self.sys_secs();
                    let nanos = *self.rng.pick(&[0u32, 1, 500_000_000, 999_999_999]);
                    if x <= 7 {
                        e!(self, "system2jdn {} {} {}", before, secs, nanos);
                    } else {
                        let c = self.any_ctx();
                        e!(
                            self,
                            "at_system_time {} {} {} {}",
                            c.tok,
                            before,
                            secs,
                            nanos
                        );
                    }
                }
            }
        }
    }

    // ---------------------------------------------------------------- C15 (names, numbers)

    fn name_variant(&mut self, base: &str) -> String {
        match self.rng.below(12) {
            0 => base.to_string(),
            1 => base.to_lowercase(),
            2 => base.to_uppercase(),
            3 | 4 => base
                .chars()
                .map(|ch| {
                    if self.rng.pct(50) {
                        ch.to_ascii_uppercase()
                    } else {
                        ch.to_ascii_lowercase()
                    }
                })
                .collect(),
            5 => {
                // proper prefix (near miss unless it is the short name)
                let n = base.chars().count() as u64;
                let k = self.rng.below(n + 1) as usize;
                base.chars().take(k).collect()
            }
            6 => format!("{}{}", base, self.rng.pick(&["y", "s", ".", " ", "\0", "e"])),
            7 => format!("{}{}", self.rng.pick(&[" ", "\t", "x", "\u{feff}"]), base),
            8 => {
                // unicode lookalikes that case-fold to ASCII letters
                let s = base.to_lowercase();
                match self.rng.below(4) {
                    0 => s.replace('s', "\u{17f}"),
                    1 => s.replace('k', "\u{212a}").replace('K', "\u{212a}"),
                    2 => s.replace('i', "\u{131}"),
                    _ => s.replace('a', "\u{430}"), // Cyrillic a
                }
            }
            9 => {
                // one character changed
                let chars: Vec<char> = base.chars().collect();
                let pos = self.rng.below(chars.len() as u64) as usize;
                chars
                    .iter()
                    .enumerate()
                    .map(|(k, ch)| {
                        if k == pos {
                            char::from(b'a' + self.rng.below(26) as u8)
                        } else {
                            *ch
                        }
                    })
                    .collect()
            }
            10 => {
                // fullwidth form of the first letter
                let mut it = base.chars();
                let f = it.next().unwrap();
                let fw = char::from_u32(f as u32 - 0x20 + 0xFF00).unwrap_or(f);
                std::iter::once(fw).chain(it).collect()
            }
            _ => base.chars().take(4).collect(),
        }
    }

    fn c15(&mut self) {
        const MONTHS: [&str; 12] = [
            "January",
            "February",
            "March",
            "April",
            "May",
            "June",
            "July",
            "August",
            "September",
            "October",
            "November",
            "December",
        ];
        const DAYS: [&str; 7] = [
            "Monday",
            "Tuesday",
            "Wednesday",
            "Thursday",
            "Friday",
            "Saturday",
            "Sunday",
        ];
        const NEAR: &[&str] = &[
            "Sept", "Mo", "Marc", "mayy", "", "ma", "jun.", "Juni", "Thurs", "Tues", "Weds", "sa",
            "su", "\u{17f}un", "\u{17f}unday", "\u{17f}at", "\u{17f}ep", "augu\u{17f}t",
            "tue\u{17f}day", "\u{212a}", "mar\u{212a}", "o\u{212a}t", "January February", "1",
            "01", "jan\u{0301}", "J\u{0430}n", "m\u{0430}y", "fr\u{131}", "fr\u{130}",
            "de\u{0441}", "MAY", "mAY", "SUN", "sUNDAY", "decembe", "decemberr", "mon day",
        ];
        const TYPES: [(&str, i128, u128); 12] = [
            ("i8", i8::MIN as i128, i8::MAX as u128),
            ("i16", i16::MIN as i128, i16::MAX as u128),
            ("i32", i32::MIN as i128, i32::MAX as u128),
            ("i64", i64::MIN as i128, i64::MAX as u128),
            ("i128", i128::MIN, i128::MAX as u128),
            ("isize", isize::MIN as i128, isize::MAX as u128),
            ("u8", 0, u8::MAX as u128),
            ("u16", 0, u16::MAX as u128),
            ("u32", 0, u32::MAX as u128),
            ("u64", 0, u64::MAX as u128),
            ("u128", 0, u128::MAX),
            ("usize", 0, usize::MAX as u128),
        ];
        const VALUES: [i128; 14] = [
            -1,
            0,
            1,
            2,
            6,
            7,
            8,
            11,
            12,
            13,
            255,
            256,
            1 << 31,
            (1 << 32) + 1,
        ];
        // fixed part: all names, the query ops
        let budget = self.em.limit / 3;
        let mut fixed: Vec<String> = Vec::new();
        for m in 1..=12 {
            fixed.push(format!("month_q {m}"));
        }
        for w in 1..=7 {
            fixed.push(format!("weekday_q {w}"));
        }
        for n in MONTHS.iter().chain(DAYS.iter()) {
            let short: String = n.chars().take(3).collect();
            for s in [n.to_string(), short] {
                fixed.push(format!("month_from_str {}", hex_of(&s)));
                fixed.push(format!("weekday_from_str {}", hex_of(&s)));
            }
        }
        for s in NEAR {
            fixed.push(format!("month_from_str {}", hex_of(s)));
            fixed.push(format!("weekday_from_str {}", hex_of(s)));
        }
        // every name and abbreviation with something appended or prepended (short and long: an implementation that
        // looks at a bounded prefix, or trims, accepts these)
        for n in MONTHS.iter().chain(DAYS.iter()) {
            let short: String = n.chars().take(3).collect();
            for base in [n.to_string(), short] {
                for suffix in ["s", " ", "day", ", 3 May 2023", "\n"] {
                    let t = format!("{base}{suffix}");
                    fixed.push(format!("month_from_str {}", hex_of(&t)));
                    fixed.push(format!("weekday_from_str {}", hex_of(&t)));
                }
                let t = format!(" {base}");
                fixed.push(format!("month_from_str {}", hex_of(&t)));
                fixed.push(format!("weekday_from_str {}", hex_of(&t)));
            }
        }
        for l in fixed {
            if self.em.n >= budget {
                break;
            }
            self.em.line(&l);
        }
        while !self.em.full() {
            match self.rng.below(10) {
                0 | 1 => {
                    let j = match self.rng.below(5) {
                        0 => self.rng.range(-30, 30) as i32,
                        1 => self.lim32() as i32,
                        2 => self.cycle_day(),
                        3 => -(self.rng.range(0, IMAX) as i32),
                        _ => self.rng.i32_any(),
                    };
                    e!(self, "weekday {}", j);
                }
                2..=4 => {
                    let is_month = self.rng.pct(55);
                    let base = if is_month {
                        *self.rng.pick(&MONTHS)
                    } else {
                        *self.rng.pick(&DAYS)
                    };
                    let base: String = if self.rng.pct(40) {
                        base.chars().take(3).collect()
                    } else {
                        base.to_string()
                    };
                    let s = if self.rng.pct(10) {
                        self.rng.pick(NEAR).to_string()
                    } else {
                        self.name_variant(&base)
                    };
                    // mostly the matching parser, sometimes the other one
                    let op = if is_month == self.rng.pct(80) {
                        "month_from_str"
                    } else {
                        "weekday_from_str"
                    };
                    e!(self, "{} {}", op, hex_of(&s));
                }
                5..=8 => {
                    let (ty, lo, hi) = *self.rng.pick(&TYPES);
                    let op = *self.rng.pick(&["month_try_from", "weekday_try_from"]);
                    match self.rng.below(8) {
                        0 => e!(self, "{} {} {}", op, ty, lo),
                        1 => e!(self, "{} {} {}", op, ty, hi),
                        2 => e!(self, "{} {} {}", op, ty, self.rng.range(-2, 14)),
                        _ => e!(self, "{} {} {}", op, ty, self.rng.pick(&VALUES)),
                    }
                }
                _ => {
                    if self.rng.pct(60) {
                        e!(self, "month_q {}", self.month());
                    } else {
                        e!(self, "weekday_q {}", self.rng.range(1, 7));
                    }
                }
            }
        }
    }

    // ---------------------------------------------------------------- C16 (foreign types)

    fn c16(&mut self) {
        let greg = Calendar::GREGORIAN;
        while !self.em.full() {
            let c = self.valid_ctx();
            let k = 1 + self.rng.below(5);
            for _ in 0..k {
                let j = match self.rng.below(12) {
                    0..=2 => self.window_day(&c),
                    3 | 4 => {
                        // around the ends of chrono's / time's ranges
                        let (y, m, d) = *self.rng.pick(&[
                            (-262143, 1, 1),
                            (262142, 12, 31),
                            (-9999, 1, 1),
                            (9999, 12, 31),
                            (0, 1, 1),
                            (1, 1, 1),
                            (-1, 12, 31),
                        ]);
                        let base = safe(|| greg.at_ymd(y, month_of(m).unwrap(), d).ok())
                            .flatten()
                            .map_or(0, |d| i64::from(d.julian_day_number()));
                        clamp32(base + self.rng.range(-40, 40))
                    }
                    5 => self.rng.range(-1_930_999, 5_373_484) as i32, // time's range
                    6 => self.rng.range(-94_000_000, 97_500_000) as i32, // about chrono's range
                    7 => self.limit_jdn(),
                    8 => self.rng.range(1721060, 1721060 + 800) as i32, // years 0-1
                    _ => self.gen_jdn(&c),
                };
                let n = 2 + self.rng.below(9) as usize;
                let mut ops = self.history_ops(&c, n, true);
                if !ops.contains('h') && !ops.contains('m') {
                    ops.push_str(if self.rng.pct(50) { " h" } else { " m" });
                }
                e!(self, "history {} {} {}", c.tok, j, ops);
            }
        }
    }

    // ---------------------------------------------------------------- C17 (iterators)

    fn iter_ops(&mut self) -> String {
        let n = match self.rng.below(8) {
            0 => 0,
            1 => self.rng.range(1, 5),
            _ => self.rng.range(0, 60),
        } as usize;
        if n == 0 {
            return ".".to_string();
        }
        let style = self.rng.below(5);
        let mut s = String::with_capacity(n);
        for i in 0..n {
            let ch = match style {
                0 => {
                    // forward run then backward run
                    if i < n / 2 {
                        'f'
                    } else {
                        'b'
                    }
                }
                1 => *self.rng.pick(&['f', 'f', 'f', 'f', 'b', 'l']),
                2 => *self.rng.pick(&['b', 'b', 'b', 'b', 'f', 'l']),
                3 => {
                    if i % 2 == 0 {
                        *self.rng.pick(&['f', 'b'])
                    } else {
                        'l'
                    }
                }
                _ => *self.rng.pick(&['f', 'b', 'f', 'b', 'l']),
            };
            s.push(ch);
        }
        s
    }

    fn edge_month(&mut self, c: &Ctx) -> (i64, u32) {
        let cal = c.cal.unwrap_or(Calendar::GREGORIAN);
        let j = *self.rng.pick(&[i32::MIN, i32::MAX]);
        let (y, m) = safe(|| {
            let d = cal.at_jdn(j);
            (i64::from(d.year()), d.month().number())
        })
        .unwrap_or((0, 1));
        match self.rng.below(4) {
            0 => {
                if m == 1 {
                    (y - 1, 12)
                } else {
                    (y, m - 1)
                }
            }
            1 => {
                if m == 12 {
                    (y + 1, 1)
                } else {
                    (y, m + 1)
                }
            }
            _ => (y, m),
        }
    }

    fn c17(&mut self) {
        while !self.em.full() {
            if self.rng.pct(8) {
                e!(self, "months {}", self.iter_ops());
                continue;
            }
            let c = match self.rng.below(10) {
                0 => self.ctx(CalSpec::J),
                1 => self.ctx(CalSpec::G),
                _ => self.valid_ctx(),
            };
            let k = 1 + self.rng.below(6);
            for _ in 0..k {
                let (y, m) = match (self.rng.below(10), c.cal) {
                    (0..=1, _) => self.edge_month(&c),
                    (2..=5, Some(cal)) => {
                        // the months touched by the reformation
                        let j = clamp32(c.r - self.rng.range(0, 1));
                        match safe(|| cal.at_jdn(j)) {
                            Some(d) => (i64::from(d.year()), d.month().number()),
                            None => (i64::from(self.window_year(&c)), self.month()),
                        }
                    }
                    _ => (i64::from(self.window_year(&c)), self.month()),
                };
                let op = if self.rng.pct(50) { "days" } else { "dates" };
                e!(self, "{} {} {} {} {}", op, c.tok, y, m, self.iter_ops());
            }
        }
    }
}

pub fn run(stream: &str, seed: u64, count: usize) -> Result<(), String> {
    if !STREAMS.contains(&stream) {
        return Err(format!(
            "unknown stream {:?}; known streams: {}",
            stream,
            STREAMS.join(" ")
        ));
    }
    let prev = std::panic::take_hook();
    std::panic::set_hook(Box::new(|_| {}));
    let mut g = Gen {
        rng: Rng::new(seed),
        em: Emit {
            w: std::io::BufWriter::with_capacity(1 << 16, std::io::stdout().lock()),
            n: 0,
            limit: count,
        },
    };
    match stream {
        "C01" => g.c01(),
        "C02" => g.c02(),
        "C03" => g.c03(),
        "C04" => g.c04(),
        "C05" => g.c05(),
        "C06" => g.c06(),
        "C07" => g.c07(),
        "C08" => g.c08(),
        "C09" => g.c09(),
        "C10" => g.c10(),
        "C11" => g.c11(),
        "C12" => g.c12(),
        "C13" => g.c13(),
        "C14" => g.c14(),
        "C15" => g.c15(),
        "C16" => g.c16(),
        "C17" => g.c17(),
        _ => unreachable!(),
    }
    let r = match g.em.w.flush() {
        Err(e) if e.kind() != std::io::ErrorKind::BrokenPipe => Err(e.to_string()),
        _ => Ok(()),
    };
    std::panic::set_hook(prev);
    r
}
