#!/usr/bin/env python3
"""Regenerates the two generated tables of DESIGN.md: §9.1 (theorems per property + non-trivial rule) and §10.4 (seeded
changes and what catches them), from coq/Properties/*.v, bin/props.py and seeded/*/meta.json."""
import json, re, glob, os, sys
sys.path.insert(0, '/verif/bin')
from props import PROPS
V = '/verif'
DESC = {
 'mut-C01': '`year_kind`, `EqLower` arm: wrong leap rule for a "tailless" last Julian year',
 'mut-C02': '`julian2jdn`: `checked_sub` replaced by a plain `year - JDN0_YEAR`',
 'mut-C03': '`year_kind`, `EqBoth` arm: `le` → `lt` on the first Gregorian month',
 'mut-C04': '`year_length` of the first Gregorian year derived from the year kind again',
 'mut-C05': '`nth_day`, `Headless` guard rewritten as `day_ordinal + min_day - 1 <= max_day`',
 'mut-C06': '`next_year_after` / `prev_year_before` "simplified"',
 'mut-C07': '`year_kind`, `EqUpper`/1 January: Julian instead of Gregorian leap rule',
 'mut-C08': '"reformation after 29 February" test replaced by an off-by-one ordinal comparison',
 'mut-C09': "extra condition on February's natural length as last Julian month",
 'mut-C10': '`and_later`/`and_earlier` rebuilt on `Later`/`Earlier` from the neighbouring day',
 'mut-C11': '`month_shape`: "same month" stands in for `GapKind::IntraMonth`',
 'mut-C12': '`reforming`: extra guard on the century correction rejects valid reformation days',
 'mut-C13': '`scan` counts chars instead of bytes: `parse_date` panics on non-ASCII digits',
 'mut-C14': '`system2jdn` restructured: range check on the ceiling second, unchecked `jdn - 1`',
 'mut-C15': '`TryFrom<int> for Weekday`: truncating `as` cast instead of `try_from`',
 'mut-C16': '`TryFrom<Date> for time::Date`: stale `date.year()` after the Gregorian conversion',
 'mut-C17': '`Dates::new`: `nth_day` instead of `nth_date` in the back-trimming loop',
 'mut-C18': "CLI `parse_arg`: `find('-')` — negative-year dates taken for day numbers",
 'mut-C19': 'CLI `parse_arg`: `s[1..]` slices inside a multi-byte first character → panic',
 'mut-C20': 'CLI `date_to_jdn`: quiet mode returns before the JSON branch',
 'b3-C01': '`GapKind::for_dates` flattened: month compared before year (same patch as b3-C09, found independently)',
 'b3-C03': '`reforming`: `ordinal - 1` (bumped local) instead of `post_reform.ordinal - 1` for the cross-year gap',
 'b3-C07': "February's 29 natural days as last Julian month only when the year is *not* Gregorian-leap",
 'b3-C09': '`GapKind::for_dates` flattened: month compared before year',
 'b3-C10': '`Date::succ` takes the first day of the next year from `month_shape(year, January)`',
 'b3-C11': '`Ord for Date` by the sign of `self.jdn - other.jdn` (overflows for far-apart dates)',
 'b3-C12': '`reforming`: underflow mapped to `InvalidReformation` only when `post_reform.year < -5884202`',
 'b3-C13': '`Display for Date`: `{year:04}` for all years (the D6 defect again)',
 'b3-C14': '`unix2jdn`: range check replaced by a sign test on the truncated `i32`',
 'b3-C17': '`Days` rebuilt on `taken`/`remaining` counters; `next_back` ignores `taken`',
 'b3-C18': 'CLI: `-r` stored aside and installed after the option loop, so a later `-j` no longer wins',
 'b3-C20': 'CLI `date2json`: `"day"` printed from `day_ordinal()`',
 'b4-C02': '`gregorian2jdn`: explicit range guard replaced by `checked_add` on the two final sums only',
 'b4-C04': '`first_gregorian_date`: `day_ordinal` chosen by "same month" instead of `GapKind::IntraMonth`',
 'b4-C05': '`unix2jdn`: seconds of day as `t - days * 86400`, computed before the range check',
 'b4-C06': '`first_gregorian_date`: same one-line change as b4-C04, found independently',
 'b4-C08': '`month_shape`: `post_reform.month == month` instead of `GapKind::IntraMonth`',
 'b4-C10': '`AndLater::next` with an extra `?`: the last date at the upper limit is never yielded',
 'b4-C11': '`Ord for inner::Calendar`: reforming calendars compared by `(post_reform.year, post_reform.ordinal)`',
 'b4-C13': '`DateParser`: merged number parser lets a `+` through in front of month, day and ordinal',
 'b4-C15': '`FromStr for Weekday` through `to_uppercase()` (full Unicode case mapping: `ſun`, `frı`)',
 'b4-C16': '`TryFrom<Date> for NaiveDate` through `from_num_days_from_ce_opt(jdn - 1721425)` (unchecked subtraction)',
 'b4-C17': '`MonthIter` rebuilt on two counters that may cross',
 'b4-C19': 'CLI: digit-cluster branch uses `v.string()?` — non-Unicode error raised before a later `-h`',
 'b4-C20': 'CLI `Options::run`: comma / bracket patching by argument count (breaks `-J` with no argument)',
 'b5-C01': '`ymdo2ordinal`: early return when the shape of a month *before* the target is absent (skipped months no longer count as zero days)',
 'b5-C04': '`get_day_ordinal`: fast path `Ok(day)` for days 1–28 in years more than one away from the last Julian year',
 'b5-C07': '`day_ordinal_err`, `Tailless`: lower bound of the "skipped" range dropped, day 0 reported as skipped',
 'b5-C09': '`MonthShape::day_ordinal` reimplemented; `Gapped`: `day > gap_len` where `day > gap_end` is meant',
 'b5-C10': '`Date::pred`: year decremented first, `prev_year_before` called only on an empty year (steps over one skipped year only)',
 'b5-C11': '`Ord for inner::Calendar` by `(post_reform.year, post_reform.ordinal)` (same idea as b4-C11, found independently)',
 'b5-C12': '`GapKind::for_dates` flattened: same month name ⇒ `IntraMonth` even across years; `reforming` then underflows',
 'b5-C14': '`system2jdn`, before 1970: `-(as_secs_f64().ceil() as i64)` — sub-µs fractions rounded away far from the epoch',
 'b5-C15': '`FromStr for Weekday` through a 9-byte lower-casing buffer: longer input silently truncated (`Wednesdays`)',
 'b5-C16': '`TryFrom<Date> for NaiveDate`, Old Style dates via `chrono::Days` (`u64`): negative day numbers refused',
}
def prop_table():
    rows = []
    for p in sorted(PROPS):
        names = []
        for f in sorted(glob.glob(V + '/coq/Properties/%s_*.v' % p)):
            names += re.findall(r'^Theorem (\w+)', open(f).read(), re.M)
        rows.append('| %s | %s | %s |' % (p, ', '.join('`%s`' % n for n in names), PROPS[p]['rule']))
    return '\n'.join(rows)
def seeded_table():
    rows = []; last = None
    order = sorted(glob.glob(V + '/seeded/*/'), key=lambda d: (0 if 'revert' in d else 1 if 'mut-' in d else 2 if 'b3-' in d else 3, d))
    for d in order:
        name = os.path.basename(d.rstrip('/'))
        m = json.load(open(d + 'meta.json'))
        for prop, det in sorted(m.get('detection', {}).items()):
            br = det.get('no_longer_checks', '')
            chan = []
            mm = re.search(r'BROKEN proof: \./((?:Proofs|Hand)/\w+\.v) line (\d+)', br)
            if mm: chan.append('proof `%s`:%s' % (mm.group(1), mm.group(2)))
            mc = re.search(r'BROKEN correspondence: (stream \w+: \d+ of \d+|cli: CLI-CORR cases=\d+ disagreements=\d+ panics=\d+)', br)
            if mc: chan.append('correspondence (%s)' % mc.group(1))
            if 'extraction/driver' in br: chan.append('model no longer extracts')
            fi = det.get('first_failing_input', '')
            mi = re.search(r'"case": "([^"]+)"', fi)
            case = mi.group(1) if mi else ''
            if case == 'julian command':
                ma = re.search(r"argv=\[([^\]]*)\]", fi)
                case = 'julian ' + (ma.group(1) if ma else '…')
            if not case:
                case = '(none: ' + ('exit %s' % det.get('exit')) + (', no-failing-input-found' if 'no-failing-input-found' in det.get('violation_line', '') else '') + ')'
            desc = DESC.get(name, 'reverse of the `fix:` commit of ' + name.split('-')[1]) if name != last else '″'
            rows.append('| `%s` | %s | %s | %s | `%s` |' % (name, desc, prop, '; '.join(chan) or ('— (exit %s)' % det.get('exit')), case[:80].replace('|', '\\|')))
            last = name
    return '\n'.join(rows)
s = open(V + '/DESIGN.md').read()
a = s.index('| C01 | `C01_at_jdn_total_roundtrip`'); b = s.index('\n\n', a)
s = s[:a] + prop_table() + s[b:]
a = s.index('| `revert-D1` |') if '| `revert-D1` |' in s else s.index('| `mut-C01` |')
a = min(x for x in (s.find('| `revert-D1` |'), s.find('| `mut-C01` |')) if x >= 0)
b = s.index('\n\n', a)
s = s[:a] + seeded_table() + s[b:]
open(V + '/DESIGN.md', 'w').write(s)
print('tables regenerated')
