#!/usr/bin/env python3
"""(re)generate MANIFEST.json from bin/props.py and the list of claimed properties"""
import json, sys
sys.path.insert(0, '/verif/bin')
from props import PROPS
CLAIMED = json.load(open('/verif/bin/claimed.json'))
props = {json.loads(l)['id']: json.loads(l) for l in open('/verif/properties.jsonl')}
m = {
 "version": 1,
 "setup_cmd": "bin/setup",
 "hooks": {
  "guard": "jwodder_julian_rs_verif",
  "enable": "no hooks are needed: every observation goes through the public API (private records are read from Debug output); the guard name is reserved and unused",
  "baseline_off_cmd": "cd /repo && cargo test --workspace --no-fail-fast --offline",
  "source_commits": [],
  "add_only": True
 },
 "engines": [
  {"name": "coq-proof", "path": "coq/", "serves_properties": sorted(CLAIMED), "kind_free_text": "Coq 8.16.1 theorems about a model regenerated from the source on every run (rs2coq translator) plus hand models tied by differential correspondence"},
  {"name": "rs2coq", "path": "translator/", "serves_properties": sorted(CLAIMED), "kind_free_text": "Rust -> Gallina translator for the const fn core (tie 1)"},
  {"name": "correspondence", "path": "harness/ driver/", "serves_properties": sorted(CLAIMED), "kind_free_text": "Rust harness vs OCaml driver over extracted Gen.v / Hand/*.v / Spec (tie 2, and counterexample search)"}
 ],
 "checks": [],
 "notes": "See DESIGN.md. Checks take a lock on /verif/build; bin/setup builds everything once.",
 "not_applicable": []
}
for pid in sorted(props):
    if pid in CLAIMED:
        c = CLAIMED[pid]
        m["checks"].append({
            "property_id": pid,
            "quick_cmd": "bin/check %s --tier quick" % pid,
            "thorough_cmd": "bin/check %s --tier thorough" % pid,
            "evidence_file": "/verif/evidence/%s.json" % pid,
            "replay_cmd_template": "cat {path}",
            "engine": "coq-proof",
            "level_claimed": {"category": "proof", "text": c["text"], "design_ref": "DESIGN.md section 6, " + pid},
            "level_note": c["note"],
            "technique": c["technique"],
        })
    else:
        m["not_applicable"].append({"property_id": pid, "reason": "not claimed yet: its theorem files are still being written (see DESIGN.md)"})
json.dump(m, open('/verif/MANIFEST.json', 'w'), indent=1)
print("claimed:", sorted(CLAIMED))
