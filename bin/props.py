# Per-property configuration of the checks: which theorem files decide the property, which
# correspondence streams tie the model to the code, and what makes a case non-trivial.
import re

def _has(tok):
    return lambda line: tok in line

def _window(line):
    # reforming calendars are where all gap logic lives
    return bool(re.search(r'\b(R-?\d+|X)\b', line))

def _limits(line):
    return bool(re.search(r'-?(2147483[0-9]{3}|429496729[0-9]|9223372036854775[0-9]{3}|58[78]\d{4})\b', line))

PROPS = {
    'C01': dict(streams=['C01'], sweeps=['roundtrip J -2147483648 2147483647', 'roundtrip G -2147483648 2147483647', 'roundtrip X -2147483648 2147483647'],
                rule='reforming calendar (gap logic active), or within the 32-bit / range-end neighbourhood', nontrivial=lambda l: _window(l) or _limits(l)),
    'C02': dict(streams=['C02'], search_streams=['C05', 'C07'], relevant=lambda l: bool(re.match(r'^(at_jdn|at_ymd|at_ordinal_date|year_kind|year_length) [JG] ', l)), sweeps=[], rule='negative or range-end year, or year_kind query, or refused construction',
                nontrivial=lambda l: ' -' in l or _limits(l) or l.startswith('year_kind')),
    'C03': dict(streams=['C03'], sweeps=[], rule='reforming calendar case (day near the reformation) or boundary accessor',
                nontrivial=lambda l: _window(l)),
    'C04': dict(streams=['C04'], search_streams=['C03', 'C06'], relevant=lambda l: bool(re.match(r'^(boundary|at_jdn|history) ', l)), sweeps=[], rule='date in a reforming calendar (years/months containing the reformation are favoured by the generator)',
                nontrivial=lambda l: _window(l)),
    'C05': dict(streams=['C05', 'C09', 'C17', 'C16'], sweeps=[], rule='argument at a type limit or range end, or an iterator/shape query', nontrivial=lambda l: _limits(l) or ' 0' in l),
    'C06': dict(streams=['C06', 'C16'], sweeps=[], rule='history of >= 2 steps in a reforming calendar or near a limit', nontrivial=lambda l: l.count(' ') >= 4 and (_window(l) or _limits(l))),
    'C07': dict(streams=['C07'], sweeps=[], rule='request in a reforming calendar or with an out-of-range / extreme argument', nontrivial=lambda l: _window(l) or _limits(l) or ' 0' in l),
    'C08': dict(streams=['C08'], sweeps=[], rule='year of a reforming calendar', nontrivial=lambda l: _window(l)),
    'C09': dict(streams=['C09'], sweeps=[], rule='month of a reforming calendar', nontrivial=lambda l: _window(l)),
    'C10': dict(streams=['C10'], sweeps=[], rule='step or walk in a reforming calendar or at a 32-bit limit', nontrivial=lambda l: _window(l) or _limits(l)),
    'C11': dict(streams=['C11'], sweeps=[], rule='pair involving a reforming calendar', nontrivial=lambda l: _window(l)),
    'C12': dict(streams=['C12'], sweeps=['reforming_all -2147483648 2147483647'], rule='candidate reformation day within 50000 of a threshold, negative, or an ncal constant',
                nontrivial=lambda l: l.startswith('reforming')),
    'C13': dict(streams=['C13'], sweeps=[], rule='parse request, or rendering of a negative / non-4-digit year', nontrivial=lambda l: l.startswith('parse') or ' -' in l),
    'C14': dict(streams=['C14'], sweeps=[], rule='negative, boundary or out-of-range timestamp, or system time with sub-second part', nontrivial=lambda l: ' -' in l or 'system' in l or _limits(l)),
    'C15': dict(streams=['C15'], sweeps=[], rule='negative day number, or a refused / case-changed name or number', nontrivial=lambda l: ' -' in l or 'from' in l),
    'C16': dict(streams=['C16'], extra_cases=['foreign_enums'], sweeps=['chrono', 'time'], rule='history through chrono (h) or time (m) in a non-Gregorian calendar or near a foreign range end', nontrivial=lambda l: _window(l) or ' J ' in l or _limits(l)),
    'C17': dict(streams=['C17'], sweeps=[], rule='interleaving mixing front and back', nontrivial=lambda l: ('f' in l.split(' ')[-1] and 'b' in l.split(' ')[-1])),
    'C18': dict(streams=[], cli=True, sweeps=[], rule='argv with options interleaved with arguments, or a negative year', nontrivial=None),
    'C19': dict(streams=[], cli=True, sweeps=[], rule='argv that is rejected, contains a digit cluster or non-UTF-8 bytes, or mixes -h/-V/-c with other tokens', nontrivial=None),
    'C20': dict(streams=[], cli=True, sweeps=[], rule='-J with 0, 1, 2 or >= 3 arguments', nontrivial=None),
}

TRUSTED_BASE = [
    'Coq 8.16.1 kernel (coqc; vm_compute used, native_compute not used; no -type-in-type, guard/positivity/universe checks on)',
    'rs2coq translator (/verif/translator) and Sem.v (meaning of Rust operators, casts, patterns, evaluation order, debug_assert), cross-checked on every run by executing extracted Gen.v against the compiled Rust',
    "rustc nightly -Zunpretty=expanded prints the program it compiles",
    'extraction: ExtrOcamlBasic only (bool, option, unit, list, prod, sumbool, sumor, andb, orb directives); Z/positive/ascii/string stay extracted inductives; OCaml 4.13.1',
    'OCaml driver and Rust harness (argument decoding, canonical printing, generators) — trusted for the correspondence only',
    'hand models (coq/Hand/*.v) are tied to the code by differential correspondence only; std/foreign behaviour they transcribe is listed at the top of each model file',
]

# failure kinds of the brute-force oracle sweep (harness/src/oracle.rs) that bear on each property
ORACLE_KINDS = {
    'C01': ['at_jdn', 'at_ymd_wrong', 'at_ymd_err', 'at_ordinal_date_wrong', 'at_ordinal_date_err', 'label_not_monotone'],
    'C02': ['at_jdn', 'at_ymd', 'at_ordinal_date', 'year_kind', 'year_length'],
    'C03': ['at_jdn_label', 'at_jdn_panic', 'style', 'last_julian_date', 'first_gregorian_date'],
    'C04': ['at_jdn_ordinal', 'at_jdn_day_ordinal', 'at_jdn_panic', 'year_length', 'last_julian_date', 'first_gregorian_date'],
    'C05': ['_panic'],
    'C06': ['succ', 'pred', 'at_ymd_wrong', 'at_ordinal_date_wrong', 'last_julian_date', 'first_gregorian_date'],
    'C07': ['at_ymd', 'at_ordinal_date'],
    'C08': ['year_kind', 'year_length', 'month_sum'],
    'C09': ['month_shape', 'shape_', 'nth_day', 'days_panic'],
    'C10': ['succ', 'pred'],
    'C11': ['label_not_monotone', 'at_jdn_ordinal', 'at_ymd_errkind', 'at_ymd_wrong'],
    'C12': ['reforming_panic'],
}
ORACLE_SWEEPS = ['oracle 1830692 3200000 1', 'oracle 1830692 2147439588 20011', 'oracle 19500000 19700000 7', 'oracle 2147000000 2147439588 97', 'oracle_proleptic']
