(* SpecX.v — the executable specification phrased over the generated types (records, enums of Gen.v):
   what every public constructor / observer must return, built only from Spec.v.  No proofs here, and no
   reference to any generated FUNCTION: this file still builds (and is extracted as the oracle for the
   counterexample search) when a code change breaks the proofs. *)
From JV Require Import Sem Gen Spec.
Import ListNotations.
Open Scope Z_scope.

Definition month_of_Z (n : Z) : Month :=
  if n =? 1 then Month_January else if n =? 2 then Month_February else if n =? 3 then Month_March
  else if n =? 4 then Month_April else if n =? 5 then Month_May else if n =? 6 then Month_June
  else if n =? 7 then Month_July else if n =? 8 then Month_August else if n =? 9 then Month_September
  else if n =? 10 then Month_October else if n =? 11 then Month_November else Month_December.

Definition gap_kind (py pm qy qm : Z) : inner_GapKind :=
  if py =? qy then (if pm =? qm then inner_GapKind_IntraMonth else inner_GapKind_CrossMonth)
  else if py + 1 =? qy then inner_GapKind_CrossYear else inner_GapKind_MultiYear.

Definition gap_of (r : Z) : inner_ReformGap :=
  let '(py, pm, pd) := jlabel (r - 1) in
  let '(qy, qm, qd) := glabel r in
  let po := r - 1 - J0 py + 1 in      (* Julian day-of-year of day r-1 *)
  let qo := r - G0 qy + 1 in          (* Gregorian day-of-year of day r *)
  let kind := gap_kind py pm qy qm in
  let same_year := py =? qy in
  mkinner_ReformGap
    (mkinner_Date py po (month_of_Z pm) pd)
    (mkinner_Date qy (if same_year then po + 1 else 1) (month_of_Z qm) qd)
    kind
    (if same_year then qo - 1 else 0)
    (if same_year then qo - po - 1 else qo - 1).

Definition cal_of (c : cal) : Calendar :=
  match c with
  | CJ => Calendar_JULIAN
  | CG => Calendar_GREGORIAN
  | CR r => mkCalendar (inner_Calendar_Reforming r (gap_of r))
  end.

Definition ykind_gen (k : ykind) : YearKind :=
  match k with
  | KCommon => YearKind_Common | KLeap => YearKind_Leap | KReformCommon => YearKind_ReformCommon
  | KReformLeap => YearKind_ReformLeap | KSkipped => YearKind_Skipped
  end.

Definition in_i32b z := (i32_min <=? z) && (z <=? i32_max).

Definition chk_jdn (v : Z) : option Z := if in_i32b v then Some v else None.

Definition WfShape (s : inner_MonthShape) : Prop :=
  match s with
  | inner_MonthShape_Normal mx => 1 <= mx <= 31
  | inner_MonthShape_Headless mn mx => 2 <= mn <= mx /\ mx <= 31
  | inner_MonthShape_Tailless mx nat => 1 <= mx < nat /\ nat <= 31
  | inner_MonthShape_Gapped gs ge mx => 2 <= gs <= ge /\ ge < mx /\ mx <= 31
  end.

Definition sh_len (s : inner_MonthShape) : Z :=
  match s with
  | inner_MonthShape_Normal mx => mx
  | inner_MonthShape_Headless mn mx => mx - mn + 1
  | inner_MonthShape_Tailless mx _ => mx
  | inner_MonthShape_Gapped gs ge mx => mx - (ge - gs + 1)
  end.

Definition sh_in (s : inner_MonthShape) (d : Z) : bool :=
  match s with
  | inner_MonthShape_Normal mx | inner_MonthShape_Tailless mx _ => (1 <=? d) && (d <=? mx)
  | inner_MonthShape_Headless mn mx => (mn <=? d) && (d <=? mx)
  | inner_MonthShape_Gapped gs ge mx => (1 <=? d) && (d <=? mx) && negb ((gs <=? d) && (d <=? ge))
  end.

Definition sh_nth (s : inner_MonthShape) (k : Z) : Z :=
  match s with
  | inner_MonthShape_Normal _ | inner_MonthShape_Tailless _ _ => k
  | inner_MonthShape_Headless mn _ => k + mn - 1
  | inner_MonthShape_Gapped gs ge _ => if k <? gs then k else k + (ge - gs + 1)
  end.

Definition sh_ord (s : inner_MonthShape) (d : Z) : Z :=
  match s with
  | inner_MonthShape_Normal _ | inner_MonthShape_Tailless _ _ => d
  | inner_MonthShape_Headless mn _ => d - mn + 1
  | inner_MonthShape_Gapped gs ge _ => if d <? gs then d else d - (ge - gs + 1)
  end.

Definition sh_first (s : inner_MonthShape) : Z := match s with inner_MonthShape_Headless mn _ => mn | _ => 1 end.

Definition sh_last (s : inner_MonthShape) : Z :=
  match s with
  | inner_MonthShape_Normal mx | inner_MonthShape_Headless _ mx | inner_MonthShape_Tailless mx _ | inner_MonthShape_Gapped _ _ mx => mx
  end.

Definition sh_natural (s : inner_MonthShape) : Z :=
  match s with inner_MonthShape_Tailless _ nat => nat | _ => sh_last s end.

Definition sh_gap (s : inner_MonthShape) : option (Z * Z) :=
  match s with
  | inner_MonthShape_Normal _ => None
  | inner_MonthShape_Headless mn _ => Some (1, mn - 1)
  | inner_MonthShape_Tailless mx nat => Some (mx + 1, nat)
  | inner_MonthShape_Gapped gs ge _ => Some (gs, ge)
  end.

Definition sh_day_err (y : Z) (m : Month) (s : inner_MonthShape) (d : Z) : Result Z DateError :=
  if sh_in s d then Ok (sh_ord s d)
  else if (1 <=? d) && (d <=? sh_natural s) then Err (DateError_SkippedDate y m d)
  else Err (DateError_DayOutOfRange y m d (sh_first s) (sh_last s)).

Definition shape_from (o f n nl : Z) : inner_MonthShape :=
  if n =? 0 then (if o =? nl then inner_MonthShape_Normal nl else inner_MonthShape_Tailless o nl)
  else if o =? 0 then (if f =? 1 then inner_MonthShape_Normal nl else inner_MonthShape_Headless f nl)
  else inner_MonthShape_Gapped (o + 1) (f - 1) nl.

Definition shape_of (c : cal) (y m : Z) : inner_MonthShape :=
  shape_from (old_mdays c y m) (new_mfirst c y m) (new_mdays c y m) (natural_len c y m).

Definition month_shape_spec (c : cal) (y : Z) (m : Month) : option MonthShape :=
  if month_count c y (Month_discr m) =? 0 then None
  else Some (mkMonthShape (cal_of c) y m (shape_of c y (Month_discr m))).

Definition WalkRes : Type := Result (Month * Z * Z) DateError.

Fixpoint locate_in (c : cal) (y : Z) (ms : list Z) (days : Z) : option (Z * Z) :=
  match ms with
  | [] => None
  | m :: rest => if days <=? month_count c y m then Some (m, days) else locate_in c y rest (days - month_count c y m)
  end.

Definition locate (c : cal) (y o : Z) : option (Z * Z) := locate_in c y (zseq 1 12) o.

Definition ymddo_spec (c : cal) (y o : Z) : WalkRes :=
  if (o <? 1) || (year_count c y <? o) then Err (DateError_OrdinalOutOfRange y o (year_count c y))
  else match locate c y o with
       | Some (m, p) => Ok (month_of_Z m, sh_nth (shape_of c y m) p, p)
       | None => Err DateError_Arithmetic (* unreachable: see locate_spec *)
       end.

Definition date_of (c : cal) (j : Z) : Date :=
  let '(y, m, d) := lbl c j in
  mkDate (cal_of c) y (ordinal_of c j) (month_of_Z m) d (day_ordinal_of c j) j.

Definition jdn_result (v : Z) : Result Z ArithmeticError :=
  match chk_jdn v with Some j => Ok j | None => Err mkArithmeticError end.

Definition date_result (c : cal) (v : Z) : Result Date DateError :=
  match chk_jdn v with Some j => Ok (date_of c j) | None => Err DateError_Arithmetic end.

Definition at_ordinal_date_spec (c : cal) (y o : Z) : Result Date DateError :=
  if (o <? 1) || (year_count c y <? o) then Err (DateError_OrdinalOutOfRange y o (year_count c y))
  else date_result c (jdn_of_ordinal c y o).

Definition at_ymd_spec (c : cal) (y : Z) (m : Month) (d : Z) : Result Date DateError :=
  let mz := Month_discr m in
  if month_count c y mz =? 0 then Err (DateError_SkippedDate y m d)
  else match sh_day_err y m (shape_of c y mz) d with
       | Err e => Err e
       | Ok p => date_result c (jdn_of_ordinal c y (msum c y mz + p))
       end.

(* ---- the two enums: names, abbreviations, numbers, neighbours (C15) *)
Definition month_names_spec : list (string * string) :=
  [("January", "Jan"); ("February", "Feb"); ("March", "Mar"); ("April", "Apr"); ("May", "May"); ("June", "Jun");
   ("July", "Jul"); ("August", "Aug"); ("September", "Sep"); ("October", "Oct"); ("November", "Nov"); ("December", "Dec")]%string.
Definition weekday_names_spec : list (string * string) :=
  [("Monday", "Mon"); ("Tuesday", "Tue"); ("Wednesday", "Wed"); ("Thursday", "Thu"); ("Friday", "Fri");
   ("Saturday", "Sat"); ("Sunday", "Sun")]%string.
(* for the value numbered n: name, abbreviation, number, number0, number of the predecessor, of the successor *)
Definition enum_q_spec (names : list (string * string)) (n : Z) : option (string * string * Z * Z * option Z * option Z) :=
  match nth_error names (Z.to_nat (n - 1)) with
  | Some (a, b) => Some (a, b, n, n - 1, (if n =? 1 then None else Some (n - 1)), (if n =? Z.of_nat (List.length names) then None else Some (n + 1)))
  | None => None
  end.

(* what the four predicates on a year kind answer: (is_leap, is_common, is_reform, is_skipped) *)
Definition ykind_flags (k : YearKind) : bool * bool * bool * bool :=
  match k with
  | YearKind_Common => (false, true, false, false)
  | YearKind_Leap => (true, false, false, false)
  | YearKind_ReformCommon => (false, true, true, false)
  | YearKind_ReformLeap => (true, false, true, false)
  | YearKind_Skipped => (false, false, false, true)
  end.
