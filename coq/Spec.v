(* Spec.v — what "right" means, independently of the code (no reference to Gen.v).
   The Julian / Gregorian calendars are DEFINED by an anchor and the next-day recurrence
   ([IsCalendar]); closed forms are given here and shown to satisfy the definition in
   Proofs/SpecFacts.v.  Months are numbers 1..12 at this level.  Everything executable here
   is extracted and used as the oracle when a check searches for a failing input. *)
From Coq Require Import ZArith Lia ZifyBool Bool List.
Import ListNotations.
Open Scope Z_scope.

(* ------------------------------------------------------------------ the astronomical definition *)
Definition jleap (y : Z) : bool := y mod 4 =? 0.
Definition gleap (y : Z) : bool := (y mod 4 =? 0) && (negb (y mod 100 =? 0) || (y mod 400 =? 0)).

Definition mlen (leap : bool) (m : Z) : Z :=
  if m =? 2 then (if leap then 29 else 28)
  else if (m =? 4) || (m =? 6) || (m =? 9) || (m =? 11) then 30 else 31.
Definition ylen (leap : bool) : Z := if leap then 366 else 365.

Definition ymd : Type := (Z * Z * Z)%type.
Definition next_date (leap : Z -> bool) (l : ymd) : ymd :=
  let '(y, m, d) := l in
  if d <? mlen (leap y) m then (y, m, d + 1)
  else if m <? 12 then (y, m + 1, 1)
  else (y + 1, 1, 1).

(* A day-labelling [lab] is THE calendar with leap rule [leap] anchored at [lab 0 = a] when: *)
Definition IsCalendar (leap : Z -> bool) (a : ymd) (lab : Z -> ymd) : Prop :=
  lab 0 = a /\ forall j, lab (j + 1) = next_date leap (lab j).
Definition julian_anchor : ymd := (-4712, 1, 1).
Definition gregorian_anchor : ymd := (-4713, 11, 24).

(* ------------------------------------------------------------------ closed forms *)
(* days of the year before month m *)
Definition cum (leap : bool) (m : Z) : Z :=
  let f := if leap then 1 else 0 in
  if m =? 1 then 0 else if m =? 2 then 31 else if m =? 3 then 59 + f else if m =? 4 then 90 + f
  else if m =? 5 then 120 + f else if m =? 6 then 151 + f else if m =? 7 then 181 + f
  else if m =? 8 then 212 + f else if m =? 9 then 243 + f else if m =? 10 then 273 + f
  else if m =? 11 then 304 + f else 334 + f.

(* Julian day number of 1 January of year y *)
Definition J0 (y : Z) : Z := 365 * (y + 4712) + (y + 4715) / 4.
Definition G0 (y : Z) : Z := 1721426 + 365 * (y - 1) + (y - 1) / 4 - (y - 1) / 100 + (y - 1) / 400.

Definition jyear (j : Z) : Z := (4 * j) / 1461 - 4712.
Definition g_est (j : Z) : Z := (400 * (j - 1721426)) / 146097 + 1.
Definition gyear (j : Z) : Z :=
  let y := g_est j in if j <? G0 y then y - 1 else if G0 (y + 1) <=? j then y + 1 else y.

Definition month_of (leap : bool) (o : Z) : Z :=   (* o = one-based day of year *)
  if o <=? cum leap 2 then 1 else if o <=? cum leap 3 then 2 else if o <=? cum leap 4 then 3
  else if o <=? cum leap 5 then 4 else if o <=? cum leap 6 then 5 else if o <=? cum leap 7 then 6
  else if o <=? cum leap 8 then 7 else if o <=? cum leap 9 then 8 else if o <=? cum leap 10 then 9
  else if o <=? cum leap 11 then 10 else if o <=? cum leap 12 then 11 else 12.
Definition md_of (leap : bool) (o : Z) : Z * Z := let m := month_of leap o in (m, o - cum leap m).

Definition jlabel (j : Z) : ymd :=
  let y := jyear j in let '(m, d) := md_of (jleap y) (j - J0 y + 1) in (y, m, d).
Definition glabel (j : Z) : ymd :=
  let y := gyear j in let '(m, d) := md_of (gleap y) (j - G0 y + 1) in (y, m, d).

(* day number of a label *)
Definition jdn_j (y m d : Z) : Z := J0 y + cum (jleap y) m + d - 1.
Definition jdn_g (y m d : Z) : Z := G0 y + cum (gleap y) m + d - 1.
Definition valid_md (leap : bool) (m d : Z) : Prop := 1 <= m <= 12 /\ 1 <= d <= mlen leap m.
Definition valid_mdb (leap : bool) (m d : Z) : bool := (1 <=? m) && (m <=? 12) && (1 <=? d) && (d <=? mlen leap m).

(* ------------------------------------------------------------------ calendars *)
Inductive cal : Set := CJ | CG | CR (r : Z).
Definition ValidR (r : Z) : Prop := 1830692 <= r <= 2147439588.
Definition ValidCal (c : cal) : Prop := match c with CR r => ValidR r | _ => True end.
Definition is_old (c : cal) (j : Z) : bool := match c with CJ => true | CG => false | CR r => j <? r end.
Definition lbl (c : cal) (j : Z) : ymd := if is_old c j then jlabel j else glabel j.
Definition l_year (l : ymd) : Z := fst (fst l).
Definition l_month (l : ymd) : Z := snd (fst l).
Definition l_day (l : ymd) : Z := snd l.
Definition lex_lt (a b : ymd) : Prop :=
  l_year a < l_year b \/ (l_year a = l_year b /\ (l_month a < l_month b \/ (l_month a = l_month b /\ l_day a < l_day b))).

(* --- set-based notions, stated the way the properties state them --- *)
(* the dates of calendar c that fall in year y / in month (y,m) *)
Definition InYear (c : cal) (y : Z) (j : Z) : Prop := l_year (lbl c j) = y.
Definition InMonth (c : cal) (y m : Z) (j : Z) : Prop := l_year (lbl c j) = y /\ l_month (lbl c j) = m.
Definition InCal (c : cal) (y m d : Z) : Prop := exists j, lbl c j = (y, m, d).
(* "the set {j | P j} has exactly n elements", for sets that are intervals (proved in SpecFacts) *)
Definition CountIs (P : Z -> Prop) (n : Z) : Prop :=
  (n = 0 /\ forall j, ~ P j) \/ (0 < n /\ exists a, forall j, P j <-> a <= j < a + n).
(* one plus the number of earlier dates with the same year (month) *)
Definition OrdinalIs (c : cal) (j o : Z) : Prop :=
  exists j0, j0 <= j /\ (forall j', (j' < j /\ InYear c (l_year (lbl c j)) j') <-> j0 <= j' < j) /\ o = j - j0 + 1.
Definition DayOrdinalIs (c : cal) (j o : Z) : Prop :=
  exists j0, j0 <= j /\ (forall j', (j' < j /\ InMonth c (l_year (lbl c j)) (l_month (lbl c j)) j') <-> j0 <= j' < j) /\ o = j - j0 + 1.

(* --- executable closed forms of the same notions --- *)
(* first day number of the Julian (old-style) and Gregorian (new-style) segment of year y, and their sizes *)
Definition old_days (c : cal) (y : Z) : Z :=       (* number of old-style days in year y *)
  match c with
  | CJ => ylen (jleap y)
  | CG => 0
  | CR r => Z.max 0 (Z.min r (J0 (y + 1)) - J0 y)
  end.
Definition new_start (c : cal) (y : Z) : Z :=      (* first new-style day number of year y, if any *)
  match c with CR r => Z.max r (G0 y) | _ => G0 y end.
Definition new_days (c : cal) (y : Z) : Z :=
  match c with
  | CJ => 0
  | CG => ylen (gleap y)
  | CR r => Z.max 0 (G0 (y + 1) - Z.max r (G0 y))
  end.
Definition year_count (c : cal) (y : Z) : Z := old_days c y + new_days c y.
Definition ordinal_of (c : cal) (j : Z) : Z :=
  if is_old c j then j - J0 (jyear j) + 1
  else let y := gyear j in old_days c y + (j - new_start c y) + 1.

(* month level: old-style days of month (y,m) are 1..old_mdays, new-style days are new_mfirst..mlen *)
Definition old_mdays (c : cal) (y m : Z) : Z :=
  match c with
  | CJ => mlen (jleap y) m
  | CG => 0
  | CR r => Z.max 0 (Z.min (mlen (jleap y) m) (r - jdn_j y m 1))
  end.
Definition new_mfirst (c : cal) (y m : Z) : Z :=   (* first new-style day of month (y,m); > mlen if none *)
  match c with
  | CJ => 32
  | CG => 1
  | CR r => Z.max 1 (r - jdn_g y m 1 + 1)
  end.
Definition new_mdays (c : cal) (y m : Z) : Z :=
  match c with CJ => 0 | _ => Z.max 0 (mlen (gleap y) m - new_mfirst c y m + 1) end.
Definition month_count (c : cal) (y m : Z) : Z := old_mdays c y m + new_mdays c y m.
Definition incalb (c : cal) (y m d : Z) : bool :=
  (1 <=? m) && (m <=? 12) &&
  (((1 <=? d) && (d <=? old_mdays c y m)) || ((new_mfirst c y m <=? d) && (d <=? mlen (gleap y) m) && negb (match c with CJ => true | _ => false end))).
Definition day_ordinal_of (c : cal) (j : Z) : Z :=
  let '(y, m, d) := lbl c j in
  if is_old c j then d else old_mdays c y m + (d - new_mfirst c y m) + 1.
(* the list of day-of-month numbers that exist in month (y,m), ascending *)
Fixpoint zseq (lo : Z) (n : nat) : list Z := match n with O => [] | S k => lo :: zseq (lo + 1) k end.
Definition month_days (c : cal) (y m : Z) : list Z :=
  zseq 1 (Z.to_nat (old_mdays c y m)) ++ zseq (new_mfirst c y m) (Z.to_nat (new_mdays c y m)).

(* the length month (y,m) would have without the reformation: governed by the rule in force at its end,
   i.e. Julian iff the month precedes the month of the first Gregorian date (or the calendar is Julian) *)
Definition natural_len (c : cal) (y m : Z) : Z :=
  match c with
  | CJ => mlen (jleap y) m
  | CG => mlen (gleap y) m
  | CR r => let '(gy, gm, _) := glabel r in
            if (y <? gy) || ((y =? gy) && (m <? gm)) then mlen (jleap y) m else mlen (gleap y) m
  end.

(* year kinds *)
Inductive ykind : Set := KCommon | KLeap | KReformCommon | KReformLeap | KSkipped.
Definition year_kind_of (c : cal) (y : Z) : ykind :=
  let n := year_count c y in
  if n =? 0 then KSkipped
  else if (new_days c y =? 0) && (n =? ylen (jleap y)) then (if jleap y then KLeap else KCommon)
  else if (old_days c y =? 0) && (n =? ylen (gleap y)) then (if gleap y then KLeap else KCommon)
  else if incalb c y 2 29 then KReformLeap else KReformCommon.

(* the gap record of a reforming calendar, from labels only *)
Definition gap_pre (r : Z) : Z * Z * Z * Z :=     (* year, ordinal, month, day of day r-1, Julian *)
  let '(y, m, d) := jlabel (r - 1) in (y, r - 1 - J0 y + 1, m, d).
Definition gap_post_label (r : Z) : ymd := glabel r.

(* ------------------------------------------------------------------ month sums and inverses *)
Fixpoint msum_n (c : cal) (y : Z) (k : nat) : Z :=
  match k with O => 0 | S k' => msum_n c y k' + month_count c y (Z.of_nat k') end.

Definition msum (c : cal) (y m : Z) : Z := msum_n c y (Z.to_nat m) - month_count c y 0.

Definition clamp (x lo hi : Z) : Z := Z.max lo (Z.min hi x).

Definition cum13 (l : bool) (m : Z) : Z := if m =? 13 then ylen l else cum l m.

Definition osum (c : cal) (y m : Z) : Z :=
  match c with
  | CJ => cum13 (jleap y) m
  | CG => 0
  | CR r => clamp (r - J0 y) 0 (cum13 (jleap y) m)
  end.

Definition nsum (c : cal) (y m : Z) : Z :=
  match c with
  | CJ => 0
  | CG => cum13 (gleap y) m
  | CR r => clamp (G0 y + cum13 (gleap y) m - r) 0 (cum13 (gleap y) m)
  end.

Definition jdn_of_ordinal (c : cal) (y o : Z) : Z :=
  if o <=? old_days c y then J0 y + o - 1 else new_start c y + (o - old_days c y) - 1.
