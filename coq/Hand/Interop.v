(* Interop.v — model of the chrono / time glue of lib.rs (From<NaiveDate> / TryFrom<Date> and the same for
   time::Date).  NOT const fn, hence hand-modelled; calls Gen.v for everything julian does itself.

   ASSUMED about the foreign crates (trusted; checked exhaustively by `jharness sweep chrono|time` over every
   value of both foreign date types, never proved):
   * a foreign date is a proleptic-Gregorian (year, month, day) with ymin <= year <= ymax and a valid month/day;
     its accessors return those numbers; chrono: ymin = -262143, ymax = 262142; time: ymin = -9999, ymax = 9999;
   * from_ymd_opt / from_calendar_date succeed exactly on such triples and return the date with those accessors;
   * num_days_from_ce() + 1721425 = to_julian_day() = the Julian day number of that Gregorian date.
   So a foreign date is modelled by its triple [fdate] and the foreign constructors by [f_mk]. *)
From JV Require Import Sem Gen.
Open Scope Z_scope.

Definition fdate : Set := (Z * Z * Z)%type.
Definition f_gleap (y : Z) : bool := (y mod 4 =? 0) && (negb (y mod 100 =? 0) || (y mod 400 =? 0)).
Definition f_mlen (y m : Z) : Z :=
  if m =? 2 then (if f_gleap y then 29 else 28) else if (m =? 4) || (m =? 6) || (m =? 9) || (m =? 11) then 30 else 31.
Definition f_valid (ymin ymax : Z) (f : fdate) : bool :=
  let '(y, m, d) := f in (ymin <=? y) && (y <=? ymax) && (1 <=? m) && (m <=? 12) && (1 <=? d) && (d <=? f_mlen y m).
(* NaiveDate::from_ymd_opt / time::Date::from_calendar_date *)
Definition f_mk (ymin ymax y m d : Z) : option fdate := if f_valid ymin ymax (y, m, d) then Some (y, m, d) else None.

Definition month_try_from_u32 (v : Z) : option Month :=
  if v =? 1 then Some Month_January else if v =? 2 then Some Month_February else if v =? 3 then Some Month_March
  else if v =? 4 then Some Month_April else if v =? 5 then Some Month_May else if v =? 6 then Some Month_June
  else if v =? 7 then Some Month_July else if v =? 8 then Some Month_August else if v =? 9 then Some Month_September
  else if v =? 10 then Some Month_October else if v =? 11 then Some Month_November else if v =? 12 then Some Month_December else None.

(* impl From<NaiveDate> for Date / impl From<time::Date> for Date: the two `expect`s are Panic *)
Definition from_foreign (f : fdate) : M Date :=
  let '(y, m, d) := f in
  match month_try_from_u32 m with
  | None => Panic
  | Some mo => r <- Calendar_at_ymd Calendar_GREGORIAN y mo d;; match r with Ok x => Ret x | Err _ => Panic end
  end.

(* impl TryFrom<Date> for NaiveDate / time::Date; [u8day]: time's path also converts the day to u8 (unreachable! on failure) *)
Definition to_foreign (ymin ymax : Z) (u8day : bool) (d : Date) : M (option fdate) :=
  b <- Date_is_gregorian d;;
  g <- (if b then Ret d else Date_convert_to d Calendar_GREGORIAN);;
  y <- Date_year g;; mo <- Date_month g;; n <- Month_number mo;; dd <- Date_day g;;
  if u8day && negb ((0 <=? dd) && (dd <=? 255)) then Panic
  else Ret (f_mk ymin ymax y n dd).

Definition chrono_ymin := -262143. Definition chrono_ymax := 262142.
Definition time_ymin := -9999. Definition time_ymax := 9999.

(* the round trip exercised by the correspondence stream: Date -> foreign -> Date *)
Definition via_foreign (ymin ymax : Z) (u8day : bool) (d : Date) : M (option Date) :=
  f <- to_foreign ymin ymax u8day d;;
  match f with None => Ret None | Some f => x <- from_foreign f;; Ret (Some x) end.
