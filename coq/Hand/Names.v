(* Hand/Names.v — executable models of the name / number glue of `Month` and `Weekday`
   (crates/julian/src/lib.rs: `impl fmt::Display`, `impl FromStr`, `impl TryFrom<iN/uN>`), none of which is
   `const fn`.  Strings are `list Z` of Unicode scalar values.  No proofs here (see Proofs/NamesProofs.v).

   TRUSTED TRANSCRIPTIONS OF std BEHAVIOUR (assumed, not verified)
   * `str::eq_ignore_ascii_case(a, b)` = `a.len() == b.len()` (UTF-8 byte lengths) and bytewise
     `u8::eq_ignore_ascii_case`, i.e. equality after mapping the bytes b'A'..=b'Z' to lower case.  On valid
     UTF-8 this is the same as: equal number of scalar values and pairwise equality after folding only the
     code points U+0041..U+005A (bytes >= 0x80 never fold and a byte < 0x80 is always a whole character), which
     is what [eq_ignore_ascii_case] below computes on code points.
   * `write!(f, "{}", s)` for `s : &str` appends exactly `s`, whatever flags the outer formatter carries
     (`{:#}` only selects the short name; width / precision given by a caller are NOT modelled).
   * `iN/uN -> i32` `TryFrom` (`Jdnum::try_from(value)`) succeeds iff the mathematical value lies in
     i32::MIN..=i32::MAX and then returns that value.
   * A `match value { 1 => .., ..., 12 => .., _ => .. }` on any of the 12 primitive integer types compares the
     mathematical value with the literals (all of 1..=12 are representable in every one of the types).
   * `isize`/`usize` are 64 bit wide (the harness platform); nothing below depends on it except [ity_lo]/[ity_hi]. *)
From JV Require Import Sem Gen.
From Coq Require Import Ascii.
Open Scope Z_scope.

(* ---------------------------------------------------------------- strings as code points *)
Fixpoint codes (s : string) : list Z :=
  match s with
  | EmptyString => []
  | String a r => Z.of_N (N_of_ascii a) :: codes r
  end.

(* u8::to_ascii_lowercase lifted to code points: only 'A'..='Z' change *)
Definition ascii_lower (c : Z) : Z := if (65 <=? c) && (c <=? 90) then c + 32 else c.

Fixpoint eq_ignore_ascii_case (a b : list Z) : bool :=
  match a, b with
  | [], [] => true
  | x :: a', y :: b' => (ascii_lower x =? ascii_lower y) && eq_ignore_ascii_case a' b'
  | _, _ => false
  end.

(* ---------------------------------------------------------------- Display *)
(* `{}` (alt = false) prints name(), `{:#}` (alt = true) prints short_name() *)
Definition month_display (alt : bool) (m : Month) : M (list Z) :=
  if alt then s <- Month_short_name m;; Ret (codes s)
  else s <- Month_name m;; Ret (codes s).

Definition weekday_display (alt : bool) (w : Weekday) : M (list Z) :=
  if alt then s <- Weekday_short_name w;; Ret (codes s)
  else s <- Weekday_name w;; Ret (codes s).

(* ---------------------------------------------------------------- FromStr (the Rust if-chains, in order) *)
Definition eqi (s : list Z) (lit : string) : bool := eq_ignore_ascii_case s (codes lit).
Arguments eqi s lit%string.

Definition month_from_str (s : list Z) : option Month :=
  if eqi s "january" || eqi s "jan" then Some Month_January
  else if eqi s "february" || eqi s "feb" then Some Month_February
  else if eqi s "march" || eqi s "mar" then Some Month_March
  else if eqi s "april" || eqi s "apr" then Some Month_April
  else if eqi s "may" then Some Month_May
  else if eqi s "june" || eqi s "jun" then Some Month_June
  else if eqi s "july" || eqi s "jul" then Some Month_July
  else if eqi s "august" || eqi s "aug" then Some Month_August
  else if eqi s "september" || eqi s "sep" then Some Month_September
  else if eqi s "october" || eqi s "oct" then Some Month_October
  else if eqi s "november" || eqi s "nov" then Some Month_November
  else if eqi s "december" || eqi s "dec" then Some Month_December
  else None.

Definition weekday_from_str (s : list Z) : option Weekday :=
  if eqi s "sunday" || eqi s "sun" then Some Weekday_Sunday
  else if eqi s "monday" || eqi s "mon" then Some Weekday_Monday
  else if eqi s "tuesday" || eqi s "tue" then Some Weekday_Tuesday
  else if eqi s "wednesday" || eqi s "wed" then Some Weekday_Wednesday
  else if eqi s "thursday" || eqi s "thu" then Some Weekday_Thursday
  else if eqi s "friday" || eqi s "fri" then Some Weekday_Friday
  else if eqi s "saturday" || eqi s "sat" then Some Weekday_Saturday
  else None.

(* ---------------------------------------------------------------- TryFrom<iN / uN> *)
(* The 12 source types and their ranges. *)
Inductive IntTy := Ty_i8 | Ty_i16 | Ty_i32 | Ty_i64 | Ty_i128 | Ty_isize
                 | Ty_u8 | Ty_u16 | Ty_u32 | Ty_u64 | Ty_u128 | Ty_usize.
Definition ity_lo (t : IntTy) : Z :=
  match t with
  | Ty_i8 => -128 | Ty_i16 => -32768 | Ty_i32 => i32_min | Ty_i64 => i64_min
  | Ty_i128 => -170141183460469231731687303715884105728 | Ty_isize => i64_min
  | _ => 0
  end.
Definition ity_hi (t : IntTy) : Z :=
  match t with
  | Ty_i8 => 127 | Ty_i16 => 32767 | Ty_i32 => i32_max | Ty_i64 => i64_max
  | Ty_i128 => 170141183460469231731687303715884105727 | Ty_isize => i64_max
  | Ty_u8 => 255 | Ty_u16 => 65535 | Ty_u32 => u32_max | Ty_u64 => 18446744073709551615
  | Ty_u128 => 340282366920938463463374607431768211455 | Ty_usize => 18446744073709551615
  end.

Definition in_rangeb (lo hi v : Z) : bool := (lo <=? v) && (v <=? hi).

(* `Month::try_from(value : T)` where T has range lo..=hi.  A value outside lo..=hi is not a T: the model
   answers None for it (never exercised by the Rust side; the driver prints BADARG before calling). *)
Definition month_try_from (lo hi : Z) (v : Z) : option Month :=
  if in_rangeb lo hi v then
    match v with
    | 1 => Some Month_January
    | 2 => Some Month_February
    | 3 => Some Month_March
    | 4 => Some Month_April
    | 5 => Some Month_May
    | 6 => Some Month_June
    | 7 => Some Month_July
    | 8 => Some Month_August
    | 9 => Some Month_September
    | 10 => Some Month_October
    | 11 => Some Month_November
    | 12 => Some Month_December
    | _ => None
    end
  else None.

(* `Jdnum::try_from(value).ok().and_then(Weekday::try_from_const)`; Jdnum = i32 *)
Definition jdnum_try_from (v : Z) : option Z := chko i32_min i32_max v.

Definition weekday_try_from (lo hi : Z) (v : Z) : M (option Weekday) :=
  if in_rangeb lo hi v then
    match jdnum_try_from v with
    | Some j => Weekday_try_from_const j
    | None => Ret None
    end
  else Ret None.

Definition month_try_from_ty (t : IntTy) (v : Z) : option Month := month_try_from (ity_lo t) (ity_hi t) v.
Definition weekday_try_from_ty (t : IntTy) (v : Z) : M (option Weekday) := weekday_try_from (ity_lo t) (ity_hi t) v.
