(* Hand/Lexopt.v — executable model of the argument lexer used by the `julian` command:
   crate `lexopt` 0.3.1 (Cargo.lock), src/lib.rs, UNIX code path only (`#[cfg(unix)]`):
     `Parser::next`            -> [next] ([next_fresh], [next_shorts], [next_finished])
     `Parser::value`           -> [value]
     `Parser::optional_value`  -> [optional_value] (= first component of `raw_optional_value`)
     `Parser::format_last_option`, `Parser::set_long`, `first_codepoint`
     `Arg::unexpected`         -> [arg_unexpected]
     `ValueExt::string`        -> [os_string]
   plus the std pieces they rely on: UTF-8 validation/decoding ([utf8_step], [from_utf8], [from_utf8_lossy]).
   An OS argument (`OsString`) is a `list Z` of bytes 0..255; a Rust `String`/`&str`/`char` is a list of /
   a Unicode scalar value.  `Parser::from_env()` = [parser_new] applied to argv WITHOUT the program name
   (the program name only feeds `bin_name`, which nothing here reads).  No proofs here (Proofs/LexoptProofs.v).

   TRUSTED TRANSCRIPTIONS OF std / lexopt BEHAVIOUR (assumed, not verified)
   * `std::env::args_os()` yields the argv of the process, the program name first; on Unix
     `OsString::into_vec` / `from_vec` / `as_bytes` are the identity on the bytes; `OsString == "--"` compares bytes.
   * `core::str::from_utf8` (library/core/src/str/validations.rs, `run_utf8_validation`): bytes are consumed
     left to right; a lead byte < 0x80 is one scalar; lead 0xC2..=0xDF needs 1 continuation byte (0x80..=0xBF);
     lead 0xE0..=0xEF needs 2, the first restricted to (E0: A0..BF, E1..EC: 80..BF, ED: 80..9F, EE..EF: 80..BF);
     lead 0xF0..=0xF4 needs 3, the first restricted to (F0: 90..BF, F1..F3: 80..BF, F4: 80..8F); every other
     lead byte is invalid.  `Utf8Error::valid_up_to` is the offset of the first scalar that fails;
     `error_len()` is `None` when the input ends inside a so-far-acceptable sequence, else `Some(k)` with
     k = 1 for a bad lead byte or bad second byte, 2 for a bad third byte, 3 for a bad fourth byte.
     The decoded scalar is the usual UTF-8 value of the sequence.
   * `String::from_utf8_lossy` replaces each maximal invalid part (exactly the `error_len` bytes above, or the
     unfinished tail) by U+FFFD and keeps the valid parts.
   * `OsString::into_string` succeeds iff `from_utf8` of the bytes succeeds, then returns the decoded text.
   * `char::len_utf8` = 1, 2, 3, 4 for scalars below 0x80, 0x800, 0x10000, else.
   * `Vec::drain(..pos)` removes the first `pos` bytes; `&arg[pos..]` with pos <= len is `skipn pos`; it panics
     for pos > len ([slice_from]).
   * `core::mem::replace(&mut self.state, State::None)` returns the old state and stores `State::None`.
   * Error messages (the `Display` of `lexopt::Error`) are not modelled; the error VALUES are. *)
From JV Require Import Sem.
Open Scope Z_scope.

(* ---------------------------------------------------------------- UTF-8 (core::str::validations) *)
Definition is_cont (b : Z) : bool := (128 <=? b) && (b <=? 191).
Definition in_rng (lo hi b : Z) : bool := (lo <=? b) && (b <=? hi).

Inductive Utf8Step :=
| U_End                               (* empty input *)
| U_Char (cp : Z) (len : nat)         (* a well-formed scalar value occupying [len] bytes *)
| U_Invalid (error_len : option nat). (* ill-formed: error_len as reported by Utf8Error *)

Definition utf8_width (b : Z) : Z :=
  if b <? 128 then 1 else if in_rng 194 223 b then 2 else if in_rng 224 239 b then 3 else if in_rng 240 244 b then 4 else 0.

Definition utf8_step (bs : list Z) : Utf8Step :=
  match bs with
  | [] => U_End
  | b0 :: r0 =>
    match utf8_width b0 with
    | 1 => U_Char b0 1
    | 2 =>
      match r0 with
      | [] => U_Invalid None
      | b1 :: _ => if is_cont b1 then U_Char ((b0 - 192) * 64 + (b1 - 128)) 2 else U_Invalid (Some 1%nat)
      end
    | 3 =>
      match r0 with
      | [] => U_Invalid None
      | b1 :: r1 =>
        if ((b0 =? 224) && in_rng 160 191 b1) || (in_rng 225 236 b0 && in_rng 128 191 b1)
           || ((b0 =? 237) && in_rng 128 159 b1) || (in_rng 238 239 b0 && in_rng 128 191 b1)
        then match r1 with
             | [] => U_Invalid None
             | b2 :: _ => if is_cont b2 then U_Char ((b0 - 224) * 4096 + (b1 - 128) * 64 + (b2 - 128)) 3
                          else U_Invalid (Some 2%nat)
             end
        else U_Invalid (Some 1%nat)
      end
    | 4 =>
      match r0 with
      | [] => U_Invalid None
      | b1 :: r1 =>
        if ((b0 =? 240) && in_rng 144 191 b1) || (in_rng 241 243 b0 && in_rng 128 191 b1)
           || ((b0 =? 244) && in_rng 128 143 b1)
        then match r1 with
             | [] => U_Invalid None
             | b2 :: r2 =>
               if is_cont b2 then
                 match r2 with
                 | [] => U_Invalid None
                 | b3 :: _ => if is_cont b3
                              then U_Char ((b0 - 240) * 262144 + (b1 - 128) * 4096 + (b2 - 128) * 64 + (b3 - 128)) 4
                              else U_Invalid (Some 3%nat)
                 end
               else U_Invalid (Some 2%nat)
             end
        else U_Invalid (Some 1%nat)
      end
    | _ => U_Invalid (Some 1%nat)
    end
  end.

(* `str::from_utf8(bytes).ok()` decoded to scalar values; fuel = number of bytes suffices *)
Fixpoint from_utf8_fuel (fuel : nat) (bs : list Z) : option (list Z) :=
  match utf8_step bs with
  | U_End => Some []
  | U_Invalid _ => None
  | U_Char cp len =>
    match fuel with
    | O => None
    | S f => match from_utf8_fuel f (skipn len bs) with Some r => Some (cp :: r) | None => None end
    end
  end.
Definition from_utf8 (bs : list Z) : option (list Z) := from_utf8_fuel (List.length bs) bs.

Definition REPLACEMENT : Z := 65533.

(* `String::from_utf8_lossy(bytes).into_owned()` *)
Fixpoint from_utf8_lossy_fuel (fuel : nat) (bs : list Z) : list Z :=
  match utf8_step bs with
  | U_End => []
  | U_Invalid None => [REPLACEMENT]
  | U_Invalid (Some n) =>
    match fuel with O => [REPLACEMENT] | S f => REPLACEMENT :: from_utf8_lossy_fuel f (skipn n bs) end
  | U_Char cp len =>
    match fuel with O => [cp] | S f => cp :: from_utf8_lossy_fuel f (skipn len bs) end
  end.
Definition from_utf8_lossy (bs : list Z) : list Z := from_utf8_lossy_fuel (List.length bs) bs.

(* `OsString::into_string()` : Ok(text) / Err(the same OsString) *)
Definition into_string (v : list Z) : Result (list Z) (list Z) :=
  match from_utf8 v with Some s => Ok s | None => Err v end.

Definition len_utf8 (cp : Z) : nat :=
  if cp <? 128 then 1%nat else if cp <? 2048 then 2%nat else if cp <? 65536 then 3%nat else 4%nat.

(* `first_codepoint(bytes)`: Ok(None) / Ok(Some ch) / Err(utf8 error with this error_len) *)
Definition first_codepoint (bytes : list Z) : Result (option Z) (option nat) :=
  match utf8_step (firstn 4 bytes) with
  | U_End => Ok None
  | U_Char cp _ => Ok (Some cp)
  | U_Invalid el => Err el
  end.

(* ---------------------------------------------------------------- the parser *)
Inductive State :=
| St_None
| St_PendingValue (v : list Z)              (* bytes left over from --option=value *)
| St_Shorts (arg : list Z) (pos : nat)      (* in the middle of -abc : whole argument (bytes), byte position *)
| St_FinishedOpts.

Inductive LastOption := LO_None | LO_Short (ch : Z) | LO_Long (opt : list Z) (* text, INCLUDING the two dashes *).

Record Parser := mkParser { p_source : list (list Z); p_state : State; p_last : LastOption }.

Inductive Arg :=
| A_Short (ch : Z)
| A_Long (name : list Z)      (* text WITHOUT the two dashes *)
| A_Value (v : list Z).       (* bytes *)

(* `lexopt::Error`; PE = the payload type of ParsingFailed (a boxed error in Rust) *)
Inductive Error (PE : Type) :=
| E_MissingValue (option : option (list Z))
| E_UnexpectedOption (opt : list Z)
| E_UnexpectedArgument (v : list Z)
| E_UnexpectedValue (opt : list Z) (v : list Z)
| E_ParsingFailed (value : list Z) (e : PE)
| E_NonUnicodeValue (v : list Z).
Arguments E_MissingValue {PE}.
Arguments E_UnexpectedOption {PE}.
Arguments E_UnexpectedArgument {PE}.
Arguments E_UnexpectedValue {PE}.
Arguments E_ParsingFailed {PE}.
Arguments E_NonUnicodeValue {PE}.

Definition parser_new (args : list (list Z)) : Parser := mkParser args St_None LO_None.

Definition DASH : Z := 45.
Definition EQ : Z := 61.

Definition format_last_option (l : LastOption) : option (list Z) :=
  match l with
  | LO_None => None
  | LO_Short ch => Some [DASH; ch]
  | LO_Long opt => Some opt
  end.

(* `&arg[pos..]` : panics when pos > len *)
Definition slice_from (pos : nat) (arg : list Z) : M (list Z) :=
  if (pos <=? List.length arg)%nat then Ret (skipn pos arg) else Panic.

(* `raw_optional_value` restricted to its first component, i.e. `optional_value`; returns the new parser *)
Definition optional_value (p : Parser) : M (Parser * option (list Z)) :=
  let p0 := mkParser (p_source p) St_None (p_last p) in      (* replace(&mut self.state, State::None) *)
  match p_state p with
  | St_PendingValue v => Ret (p0, Some v)
  | St_Shorts arg pos =>
    if (List.length arg <=? pos)%nat then Ret (p0, None)
    else
      (* arg[pos] is in bounds here *)
      let pos' := match nth_error arg pos with
                  | Some b => if b =? EQ then S pos else pos
                  | None => pos
                  end in
      v <- slice_from pos' arg;;                              (* arg.drain(..pos) *)
      Ret (p0, Some v)
  | St_FinishedOpts => Ret (mkParser (p_source p) St_FinishedOpts (p_last p), None)
  | St_None => Ret (p0, None)
  end.

(* `Parser::value` *)
Definition value {PE} (p : Parser) : M (Parser * Result (list Z) (Error PE)) :=
  r <- optional_value p;;
  let '(p1, ov) := r in
  match ov with
  | Some v => Ret (p1, Ok v)
  | None =>
    match p_source p1 with
    | v :: rest => Ret (mkParser rest (p_state p1) (p_last p1), Ok v)
    | [] => Ret (p1, Err (E_MissingValue (format_last_option (p_last p1))))
    end
  end.

Definition NextResult (PE : Type) : Type := M (Parser * Result (option Arg) (Error PE)).

(* state FinishedOpts: `Ok(self.source.next().map(Arg::Value))` *)
Definition next_finished {PE} (src : list (list Z)) (last : LastOption) : NextResult PE :=
  match src with
  | [] => Ret (mkParser [] St_FinishedOpts last, Ok None)
  | v :: rest => Ret (mkParser rest St_FinishedOpts last, Ok (Some (A_Value v)))
  end.

Definition starts_with_dashdash (arg : list Z) : bool :=
  match arg with a :: b :: _ => (a =? DASH) && (b =? DASH) | _ => false end.

(* `arg.iter().position(|&b| b == b'=')` *)
Fixpoint position_eq (arg : list Z) : option nat :=
  match arg with
  | [] => None
  | b :: r => if b =? EQ then Some O else match position_eq r with Some n => Some (S n) | None => None end
  end.

Definition bytes_eqb (a b : list Z) : bool :=
  (fix go (a b : list Z) : bool :=
     match a, b with
     | [], [] => true
     | x :: a', y :: b' => (x =? y) && go a' b'
     | _, _ => false
     end) a b.

(* the Shorts arm of `next`; [fallthrough] = the code after the first `match self.state` (state now None) *)
Definition next_shorts {PE} (src : list (list Z)) (last : LastOption) (arg : list Z) (pos : nat)
           (fallthrough : unit -> NextResult PE) : NextResult PE :=
  rest <- slice_from pos arg;;
  match first_codepoint rest with
  | Ok None => fallthrough tt                                   (* self.state = State::None; continue below *)
  | Ok (Some ch) =>
    if (ch =? EQ) && (1 <? pos)%nat then
      (* Err(UnexpectedValue { option: format_last_option().unwrap(), value: optional_value().unwrap() }) *)
      match format_last_option last with
      | None => Panic
      | Some opt =>
        r <- optional_value (mkParser src (St_Shorts arg pos) last);;
        let '(p1, ov) := r in
        match ov with
        | None => Panic
        | Some v => Ret (p1, Err (E_UnexpectedValue opt v))
        end
      end
    else
      Ret (mkParser src (St_Shorts arg (pos + len_utf8 ch)) (LO_Short ch), Ok (Some (A_Short ch)))
  | Err el =>
    let pos' := match el with Some n => (pos + n)%nat | None => List.length arg end in
    Ret (mkParser src (St_Shorts arg pos') (LO_Short REPLACEMENT), Ok (Some (A_Short REPLACEMENT)))
  end.

(* the part of `next` after the first `match self.state` (state is None): take the next argument *)
Fixpoint next_fresh {PE} (src : list (list Z)) (last : LastOption) : NextResult PE :=
  match src with
  | [] => Ret (mkParser [] St_None last, Ok None)
  | arg :: rest =>
    if bytes_eqb arg [DASH; DASH] then
      next_finished rest last                                    (* state = FinishedOpts; return self.next() *)
    else if starts_with_dashdash arg then
      let '(name_bytes, st) :=
        match position_eq arg with
        | Some ind => (firstn ind arg, St_PendingValue (skipn (S ind) arg))
        | None => (arg, St_None)
        end in
      let option := match from_utf8 name_bytes with
                    | Some text => text
                    | None => from_utf8_lossy name_bytes
                    end in
      (* set_long: last_option = Long(option); Arg::Long(&option[2..]) *)
      Ret (mkParser rest st (LO_Long option), Ok (Some (A_Long (skipn 2 option))))
    else if (1 <? List.length arg)%nat && (match arg with b :: _ => b =? DASH | [] => false end) then
      (* state = Shorts(arg, 1); return self.next() *)
      next_shorts rest last arg 1 (fun _ => next_fresh rest last)
    else
      Ret (mkParser rest St_None last, Ok (Some (A_Value arg)))
  end.

(* `Parser::next` *)
Definition next {PE} (p : Parser) : NextResult PE :=
  match p_state p with
  | St_PendingValue v =>
    (* format_last_option().expect("Should only have pending value after long option") *)
    match format_last_option (p_last p) with
    | None => Panic
    | Some opt => Ret (mkParser (p_source p) St_None (p_last p), Err (E_UnexpectedValue opt v))
    end
  | St_Shorts arg pos =>
    next_shorts (p_source p) (p_last p) arg pos (fun _ => next_fresh (p_source p) (p_last p))
  | St_FinishedOpts => next_finished (p_source p) (p_last p)
  | St_None => next_fresh (p_source p) (p_last p)
  end.

(* `Arg::unexpected` *)
Definition arg_unexpected {PE} (a : Arg) : Error PE :=
  match a with
  | A_Short ch => E_UnexpectedOption [DASH; ch]
  | A_Long name => E_UnexpectedOption (DASH :: DASH :: name)
  | A_Value v => E_UnexpectedArgument v
  end.

(* `ValueExt::string` *)
Definition os_string {PE} (v : list Z) : Result (list Z) (Error PE) :=
  match into_string v with
  | Ok s => Ok s
  | Err raw => Err (E_NonUnicodeValue raw)
  end.
