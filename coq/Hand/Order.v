(* Hand/Order.v — executable models of the comparison / equality / hash glue (trait impls, not `const fn`):
     inner::Calendar : hand-written Ord, PartialEq (= cmp is Equal), PartialOrd (= Some(cmp)), Hash   (inner.rs)
     Calendar        : derived Hash, Eq, Ord, PartialEq, PartialOrd of the newtype (delegate to field .0)
     Date            : hand-written Ord (compares the tuples (jdn, calendar)), PartialOrd (= Some(cmp)),
                       derived PartialEq / Eq / Hash (field-wise)
     Month           : derived PartialEq / Hash of a field-less enum (discriminant, type isize)

   TRUSTED BASE (std / compiler behaviour transcribed, not verified; checked against the macro-expanded source
   /verif/build/expanded.rs):
   * `core::cmp::Ordering` is modelled by Coq's `comparison` (Less = Lt, Equal = Eq, Greater = Gt);
     `i32::cmp` is `Z.compare`; `Ord for (A, B)` is lexicographic: first components, then second.
   * derived `PartialEq` of a struct is the conjunction of the field comparisons with `==` of each field type
     (rustc emits the conjuncts in an order of its own choosing — cheap scalar fields first; all comparisons
     here are pure and total, so the order does not matter; the model uses declaration order).
     derived `PartialEq` of a field-less enum compares discriminants.
   * A hash is modelled as the list of `Hasher::write_*` calls it performs: [hstream = list (htag * Z)].
       i32::hash  -> write_i32,  u32::hash -> write_u32,  isize::hash -> write_isize, explicit write_u8.
     derived `Hash` of a struct hashes the fields in declaration order; of a field-less enum it hashes
     `discriminant_value(self)` (an isize for `Month`, values 1..12 = Gen.Month_discr).
     Two values with the same stream have the same hash with every Hasher; the correspondence driver assumes
     conversely that `DefaultHasher` (SipHash-1-3) does not collide on the test inputs (hasheq = streams equal).
   No proofs in this file. *)
From JV Require Import Sem Gen.
Open Scope Z_scope.

(* ------------------------------------------------------------------ inner::Calendar / Calendar *)
Definition inner_cal_cmp (a b : inner_Calendar) : comparison :=
  match a, b with
  | inner_Calendar_Julian, inner_Calendar_Julian => Eq
  | inner_Calendar_Julian, _ => Lt
  | inner_Calendar_Reforming _ _, inner_Calendar_Julian => Gt
  | inner_Calendar_Reforming r1 _, inner_Calendar_Reforming r2 _ => r1 ?= r2
  | inner_Calendar_Reforming _ _, inner_Calendar_Gregorian => Lt
  | inner_Calendar_Gregorian, inner_Calendar_Gregorian => Eq
  | inner_Calendar_Gregorian, _ => Gt
  end.

Definition cmp_is_eq (c : comparison) : bool := match c with Eq => true | _ => false end.

Definition inner_cal_eq (a b : inner_Calendar) : bool := cmp_is_eq (inner_cal_cmp a b).
Definition inner_cal_partial_cmp (a b : inner_Calendar) : option comparison := Some (inner_cal_cmp a b).

Inductive htag : Set := W_u8 | W_u32 | W_i32 | W_isize.
Definition hstream : Set := list (htag * Z).

Definition inner_cal_hash (c : inner_Calendar) : hstream :=
  match c with
  | inner_Calendar_Julian => [(W_u8, 1)]
  | inner_Calendar_Gregorian => [(W_u8, 2)]
  | inner_Calendar_Reforming r _ => [(W_u8, 3); (W_i32, r)]
  end.

(* the derived impls of the newtype `Calendar(inner::Calendar)` *)
Definition cal_cmp (a b : Calendar) : comparison := inner_cal_cmp (Calendar_f_0 a) (Calendar_f_0 b).
Definition cal_eq (a b : Calendar) : bool := inner_cal_eq (Calendar_f_0 a) (Calendar_f_0 b).
Definition cal_partial_cmp (a b : Calendar) : option comparison :=
  inner_cal_partial_cmp (Calendar_f_0 a) (Calendar_f_0 b).
Definition cal_hash (c : Calendar) : hstream := inner_cal_hash (Calendar_f_0 c).

(* ------------------------------------------------------------------ Month *)
Definition month_eqb (a b : Month) : bool := Month_discr a =? Month_discr b.
Definition month_hash (m : Month) : hstream := [(W_isize, Month_discr m)].

(* ------------------------------------------------------------------ Date *)
(* (self.julian_day_number(), self.calendar()).cmp(&(other.julian_day_number(), other.calendar())) *)
Definition date_cmp (a b : Date) : comparison :=
  match Date_f_jdn a ?= Date_f_jdn b with
  | Eq => cal_cmp (Date_f_calendar a) (Date_f_calendar b)
  | c => c
  end.
Definition date_partial_cmp (a b : Date) : option comparison := Some (date_cmp a b).

(* derived PartialEq: calendar, year, ordinal, month, day, day_ordinal, jdn *)
Definition date_eq (a b : Date) : bool :=
  cal_eq (Date_f_calendar a) (Date_f_calendar b)
  && (Date_f_year a =? Date_f_year b)
  && (Date_f_ordinal a =? Date_f_ordinal b)
  && month_eqb (Date_f_month a) (Date_f_month b)
  && (Date_f_day a =? Date_f_day b)
  && (Date_f_day_ordinal a =? Date_f_day_ordinal b)
  && (Date_f_jdn a =? Date_f_jdn b).

Definition date_hash (d : Date) : hstream :=
  cal_hash (Date_f_calendar d)
  ++ [(W_i32, Date_f_year d); (W_u32, Date_f_ordinal d)]
  ++ month_hash (Date_f_month d)
  ++ [(W_u32, Date_f_day d); (W_u32, Date_f_day_ordinal d); (W_i32, Date_f_jdn d)].

(* ------------------------------------------------------------------ decidable equality of streams (driver) *)
Definition htag_code (t : htag) : Z := match t with W_u8 => 0 | W_u32 => 1 | W_i32 => 2 | W_isize => 3 end.
Fixpoint hstream_eqb (a b : hstream) : bool :=
  match a, b with
  | [], [] => true
  | (t1, v1) :: a', (t2, v2) :: b' => (htag_code t1 =? htag_code t2) && (v1 =? v2) && hstream_eqb a' b'
  | _, _ => false
  end.
