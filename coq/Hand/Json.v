(* Hand/Json.v — (1) executable models of the JSON printing of the `julian` command
   (crates/julian-cli/src/main.rs): `json_start` -> [json_start], `date2json` -> [date2json];
   (2) a declarative grammar of JSON texts (RFC 8259) over Unicode code points: [json_text], against which
   Proofs/JsonProofs.v proves the printed document well formed.  Strings are `list Z` of code points.
   No proofs here.

   TRUSTED TRANSCRIPTIONS OF std BEHAVIOUR (assumed, not verified)
   * `write!(s, "{}", n)` for n : i32 / u32 appends '-' (if n < 0) followed by the shortest decimal
     representation of |n| ([show_int], built on Text.show_dec).
   * `write!(s, "{:8}", "")` / `{:12}` appends 8 / 12 spaces (padding of the empty string to the width);
     `writeln!` appends the formatted text and then '\n'; `{{` / `}}` print one brace; writing to a `String`
     never fails (so the `?` and the callers' `.expect("formatting a String should not fail")` never fire).
   * `write!(s, "{}", when)` / `{:#}` for `when : Date` append Text.show_date / Text.show_date_alt.
   * `cal == Calendar::JULIAN` / `== Calendar::GREGORIAN` go through `inner::Calendar::cmp`, which answers Equal
     exactly for (Julian, Julian) and (Gregorian, Gregorian) among the pairs with a proleptic right-hand side. *)
From JV Require Import Sem Gen.
From JV Require Import Hand.Text.
Open Scope Z_scope.

(* ---------------------------------------------------------------- integer Display *)
Definition show_int (z : Z) : list Z := if z <? 0 then 45 :: show_dec (- z) else show_dec z.

Definition NL : list Z := [10].
Definition QUOTE : list Z := [34].
Definition spaces (n : nat) : list Z := repeat 32 n.

Definition calendar_type_name (cal : Calendar) : list Z :=
  match Calendar_f_0 cal with
  | inner_Calendar_Julian => codes "julian"
  | inner_Calendar_Gregorian => codes "gregorian"
  | inner_Calendar_Reforming _ _ => codes "reforming"
  end.

(* fn json_start(cal: Calendar) -> Result<String, fmt::Error> *)
Definition json_start (cal : Calendar) : M (list Z) :=
  reform <- Calendar_reformation cal;;
  Ret (codes "{" ++ NL
       ++ codes "    ""calendar"": {" ++ NL
       ++ spaces 8 ++ codes """type"": """ ++ calendar_type_name cal ++ QUOTE
       ++ match reform with
          | Some r => codes "," ++ NL ++ spaces 8 ++ codes """reformation"": " ++ show_int r
          | None => []
          end
       ++ NL
       ++ codes "    }," ++ NL
       ++ codes "    ""dates"": [").

(* one `writeln!(&mut s, "{:12}\"key\": {},", "", value)` *)
Definition json_field (key : string) (val : list Z) : list Z :=
  spaces 12 ++ QUOTE ++ codes key ++ codes """: " ++ val.

(* fn date2json(when: Date) -> Result<String, fmt::Error> *)
Definition date2json (when : Date) : M (list Z) :=
  jdn <- Date_julian_day_number when;;
  year <- Date_year when;;
  month <- Date_month when;;
  mnum <- Month_number month;;
  day <- Date_day when;;
  ordinal <- Date_ordinal when;;
  disp <- show_date when;;
  odisp <- show_date_alt when;;
  cal <- Date_calendar when;;
  reforming <- Calendar_is_reforming cal;;
  tail <- (if reforming then
             isj <- Date_is_julian when;;
             Ret (codes "," ++ NL ++ json_field "old_style" (if isj then codes "true" else codes "false"))
           else Ret []);;
  Ret (spaces 8 ++ codes "{" ++ NL
       ++ json_field "julian_day_number" (show_int jdn) ++ codes "," ++ NL
       ++ json_field "year" (show_int year) ++ codes "," ++ NL
       ++ json_field "month" (show_int mnum) ++ codes "," ++ NL
       ++ json_field "day" (show_int day) ++ codes "," ++ NL
       ++ json_field "ordinal" (show_int ordinal) ++ codes "," ++ NL
       ++ json_field "display" (QUOTE ++ disp ++ QUOTE) ++ codes "," ++ NL
       ++ json_field "ordinal_display" (QUOTE ++ odisp ++ QUOTE)
       ++ tail
       ++ NL
       ++ spaces 8 ++ codes "}").

(* ================================================================ JSON grammar (RFC 8259) *)
(* Values.  Numbers without fraction and exponent carry their integer value; other numbers their lexeme. *)
Inductive jvalue :=
| JNull
| JBool (b : bool)
| JNumber (z : Z)
| JNumberLex (lexeme : list Z)
| JStr (s : list Z)
| JArr (l : list jvalue)
| JObj (members : list (list Z * jvalue)).

(* ws = *( %x20 / %x09 / %x0A / %x0D ) *)
Definition is_ws_char (c : Z) : Prop := c = 32 \/ c = 9 \/ c = 10 \/ c = 13.
Definition ws (s : list Z) : Prop := Forall is_ws_char s.

Definition is_digit_char (c : Z) : Prop := 48 <= c <= 57.
Definition dec_value (ds : list Z) : Z := fold_left (fun a c => a * 10 + (c - 48)) ds 0.

(* int = zero / ( digit1-9 *DIGIT ) *)
Inductive json_int_digits : list Z -> Prop :=
| jid_zero : json_int_digits [48]
| jid_nonzero d ds : 49 <= d <= 57 -> Forall is_digit_char ds -> json_int_digits (d :: ds).

(* frac = "." 1*DIGIT ;  exp = ("e"/"E") ["-"/"+"] 1*DIGIT *)
Inductive json_frac : list Z -> Prop :=
| jf_none : json_frac []
| jf_some d ds : Forall is_digit_char (d :: ds) -> json_frac (46 :: d :: ds).
Inductive json_exp : list Z -> Prop :=
| jx_none : json_exp []
| jx_some e sign d ds : e = 101 \/ e = 69 -> sign = [] \/ sign = [45] \/ sign = [43] ->
                        Forall is_digit_char (d :: ds) -> json_exp (e :: sign ++ d :: ds).

(* number = [ minus ] int [ frac ] [ exp ] *)
Inductive json_number : list Z -> jvalue -> Prop :=
| jn_int (neg : bool) ds :
    json_int_digits ds ->
    json_number ((if neg then [45] else []) ++ ds) (JNumber (if neg then - dec_value ds else dec_value ds))
| jn_other (neg : bool) ds fr ex :
    json_int_digits ds -> json_frac fr -> json_exp ex -> fr ++ ex <> [] ->
    json_number ((if neg then [45] else []) ++ ds ++ fr ++ ex)
                (JNumberLex ((if neg then [45] else []) ++ ds ++ fr ++ ex)).

(* unescaped = %x20-21 / %x23-5B / %x5D-10FFFF *)
Definition is_unescaped (c : Z) : Prop := (32 <= c <= 33) \/ (35 <= c <= 91) \/ (93 <= c <= 1114111).

(* the two-character escapes: backslash followed by one of: quotation mark, backslash, slash, b, f, n, r, t *)
Definition simple_escape (e c : Z) : Prop :=
  (e = 34 /\ c = 34) \/ (e = 92 /\ c = 92) \/ (e = 47 /\ c = 47) \/ (e = 98 /\ c = 8) \/
  (e = 102 /\ c = 12) \/ (e = 110 /\ c = 10) \/ (e = 114 /\ c = 13) \/ (e = 116 /\ c = 9).

Definition hex_digit (c v : Z) : Prop :=
  (48 <= c <= 57 /\ v = c - 48) \/ (65 <= c <= 70 /\ v = c - 55) \/ (97 <= c <= 102 /\ v = c - 87).
Definition hex4 (h1 h2 h3 h4 v : Z) : Prop :=
  exists v1 v2 v3 v4, hex_digit h1 v1 /\ hex_digit h2 v2 /\ hex_digit h3 v3 /\ hex_digit h4 v4 /\
                      v = ((v1 * 16 + v2) * 16 + v3) * 16 + v4.

(* the characters between the quotation marks, and the text they denote.  \uXXXX escapes denote their code
   point when it is not a surrogate; a high surrogate escape must be followed by a low surrogate escape (the
   pair denotes the supplementary code point).  Lone surrogate escapes are NOT accepted: the grammar is RFC 8259
   minus those, hence every text accepted here is an RFC 8259 JSON text. *)
Inductive json_chars : list Z -> list Z -> Prop :=
| jc_nil : json_chars [] []
| jc_plain c t d : is_unescaped c -> json_chars t d -> json_chars (c :: t) (c :: d)
| jc_esc e c t d : simple_escape e c -> json_chars t d -> json_chars (92 :: e :: t) (c :: d)
| jc_u h1 h2 h3 h4 v t d :
    hex4 h1 h2 h3 h4 v -> ~ (55296 <= v <= 57343) -> json_chars t d ->
    json_chars (92 :: 117 :: h1 :: h2 :: h3 :: h4 :: t) (v :: d)
| jc_u_pair h1 h2 h3 h4 l1 l2 l3 l4 hi lo t d :
    hex4 h1 h2 h3 h4 hi -> 55296 <= hi <= 56319 -> hex4 l1 l2 l3 l4 lo -> 56320 <= lo <= 57343 ->
    json_chars t d ->
    json_chars (92 :: 117 :: h1 :: h2 :: h3 :: h4 :: 92 :: 117 :: l1 :: l2 :: l3 :: l4 :: t)
               (65536 + (hi - 55296) * 1024 + (lo - 56320) :: d).

(* string = quotation-mark *char quotation-mark *)
Inductive json_string : list Z -> list Z -> Prop :=
| js_intro t d : json_chars t d -> json_string (34 :: t ++ [34]) d.

(* value / array / object.  [json_elements] and [json_members] are the NON-EMPTY comma separated lists
   (each item surrounded by optional whitespace). *)
Inductive json_value : list Z -> jvalue -> Prop :=
| jv_null : json_value (codes "null") JNull
| jv_true : json_value (codes "true") (JBool true)
| jv_false : json_value (codes "false") (JBool false)
| jv_number s v : json_number s v -> json_value s v
| jv_string s d : json_string s d -> json_value s (JStr d)
| jv_array_empty w : ws w -> json_value (91 :: w ++ [93]) (JArr [])
| jv_array s vs : json_elements s vs -> json_value (91 :: s ++ [93]) (JArr vs)
| jv_object_empty w : ws w -> json_value (123 :: w ++ [125]) (JObj [])
| jv_object s ms : json_members s ms -> json_value (123 :: s ++ [125]) (JObj ms)
with json_elements : list Z -> list jvalue -> Prop :=
| je_one w1 s v w2 : ws w1 -> json_value s v -> ws w2 -> json_elements (w1 ++ s ++ w2) [v]
| je_cons w1 s v w2 rest vs :
    ws w1 -> json_value s v -> ws w2 -> json_elements rest vs ->
    json_elements (w1 ++ s ++ w2 ++ 44 :: rest) (v :: vs)
with json_members : list Z -> list (list Z * jvalue) -> Prop :=
| jm_one w1 k kd w2 w3 s v w4 :
    ws w1 -> json_string k kd -> ws w2 -> ws w3 -> json_value s v -> ws w4 ->
    json_members (w1 ++ k ++ w2 ++ 58 :: w3 ++ s ++ w4) [(kd, v)]
| jm_cons w1 k kd w2 w3 s v w4 rest ms :
    ws w1 -> json_string k kd -> ws w2 -> ws w3 -> json_value s v -> ws w4 -> json_members rest ms ->
    json_members (w1 ++ k ++ w2 ++ 58 :: w3 ++ s ++ w4 ++ 44 :: rest) ((kd, v) :: ms).

(* JSON-text = ws value ws *)
Definition json_text (s : list Z) (v : jvalue) : Prop :=
  exists w1 t w2, s = w1 ++ t ++ w2 /\ ws w1 /\ json_value t v /\ ws w2.
