(* Hand/Iter.v — executable models of the iterators of crates/julian/src/iter.rs (not `const fn`, so not
   translated): Days, Dates, MonthIter (double-ended, exact-size, fused; built on
   core::ops::RangeInclusive<u32> / <u16>) and Later, Earlier, AndLater, AndEarlier (built on
   Date::succ / Date::pred).  Every call of a `const fn` of the crate goes to Gen.v.

   TRUSTED BASE (std behaviour transcribed here, not verified; source read:
   library/core/src/iter/range.rs, library/core/src/ops/range.rs, library/core/src/iter/traits/exact_size.rs
   of the rust-src component, rustc 1.97-nightly; identical in the 1.95 stable used to build the harness as far
   as the differential run can tell):

   * `RangeInclusive<T>` is { start, end, exhausted } (Sem.RangeInclusive; `a..=b` has exhausted = false).
       is_empty()        = exhausted || !(start <= end)
       next()            = spec_next():  if is_empty() { return None }
                           if start < end { n = forward_unchecked(start, 1); Some(replace(&mut start, n)) }
                           else { exhausted = true; Some(start) }
       next_back()       = spec_next_back(): if is_empty() { return None }
                           if start < end { n = backward_unchecked(end, 1); Some(replace(&mut end, n)) }
                           else { exhausted = true; Some(end) }
       size_hint()       = if is_empty() { (0, Some(0)) } else
                           { hint = steps_between(start, end);
                             (hint.0.saturating_add(1), hint.1.and_then(|s| s.checked_add(1))) }
       steps_between (unsigned T narrower than usize) = if start <= end { (end-start, Some(end-start)) } else { (0, None) }
     `forward_unchecked` / `backward_unchecked` are UB on overflow; the model turns an out-of-range result
     into Panic (parameter [hi] = T::MAX) and IterProofs shows it never happens.
   * usize is 64 bits ([usize_max]); u32 and u16 are "narrower than usize".
   * `ExactSizeIterator::len` is NOT overridden by Days/Dates/MonthIter (core has no
     `ExactSizeIterator for RangeInclusive<u32>`); the default is
       let (lo, up) = self.size_hint(); assert_eq!(up, Some(lo)); lo        (panics when they differ)
   * `FusedIterator` has no methods.  `Option::and_then`, `?` on Option: the usual meaning.
   * `u32::from(u16)` is the identity on values; `TryFrom<u32> for Month` (macro `impl_month_try_from` in
     lib.rs, not const) maps 1..=12 to the months, anything else to Err; `.expect(..)` panics on Err.
   * `Dates::new` (a `const fn` with `while` loops, skipped by the translator) is modelled with recursion on
     explicit fuel = month length (each loop runs at most `len` times); running out of fuel gives Panic.
     `start += 1` / `end -= 1` are u32 arithmetic with overflow checks (Sem.u32_add / u32_sub).
   No proofs in this file. *)
From JV Require Import Sem Gen.
Open Scope Z_scope.

(* ------------------------------------------------------------------ RangeInclusive<uN> *)
Definition usize_max : Z := 18446744073709551615.
Definition u16_max : Z := 65535.

Definition ri_is_empty (r : RangeInclusive) : bool :=
  ri_exhausted r || negb (ri_start r <=? ri_end r).

(* [hi] = MAX of the element type *)
Definition ri_next (hi : Z) (r : RangeInclusive) : M (option Z * RangeInclusive) :=
  if ri_is_empty r then Ret (None, r)
  else if ri_start r <? ri_end r
  then n <- chk 0 hi (ri_start r + 1);;
       Ret (Some (ri_start r), mkRange n (ri_end r) (ri_exhausted r))
  else Ret (Some (ri_start r), mkRange (ri_start r) (ri_end r) true).

Definition ri_next_back (hi : Z) (r : RangeInclusive) : M (option Z * RangeInclusive) :=
  if ri_is_empty r then Ret (None, r)
  else if ri_start r <? ri_end r
  then n <- chk 0 hi (ri_end r - 1);;
       Ret (Some (ri_end r), mkRange (ri_start r) n (ri_exhausted r))
  else Ret (Some (ri_end r), mkRange (ri_start r) (ri_end r) true).

Definition usize_saturating_add (a b : Z) : Z := if a + b <=? usize_max then a + b else usize_max.
Definition usize_checked_add (a b : Z) : option Z := if a + b <=? usize_max then Some (a + b) else None.

Definition ri_steps_between (s e : Z) : Z * option Z :=
  if s <=? e then (e - s, Some (e - s)) else (0, None).

Definition ri_size_hint (r : RangeInclusive) : Z * option Z :=
  if ri_is_empty r then (0, Some 0)
  else let hint := ri_steps_between (ri_start r) (ri_end r) in
       (usize_saturating_add (fst hint) 1,
        match snd hint with Some s => usize_checked_add s 1 | None => None end).

(* ExactSizeIterator::len (default method) on top of a size_hint *)
Definition exact_len (h : Z * option Z) : M Z :=
  match snd h with
  | Some up => if up =? fst h then Ret (fst h) else Panic
  | None => Panic
  end.

Definition ri_len (r : RangeInclusive) : M Z := exact_len (ri_size_hint r).

(* the shape `g(self.inner.next()?)` shared by Days, Dates and MonthIter *)
Definition mapri_step {A} (step : RangeInclusive -> M (option Z * RangeInclusive)) (g : Z -> M (option A))
    (r : RangeInclusive) : M (option A * RangeInclusive) :=
  p <- step r;;
  match fst p with
  | None => Ret (None, snd p)
  | Some k => d <- g k;; Ret (d, snd p)
  end.

(* ------------------------------------------------------------------ Days *)
Definition days_next (st : Days) : M (option Z * Days) :=
  p <- mapri_step (ri_next u32_max) (MonthShape_nth_day (Days_f_month_shape st)) (Days_f_inner st);;
  Ret (fst p, mkDays (Days_f_month_shape st) (snd p)).
Definition days_next_back (st : Days) : M (option Z * Days) :=
  p <- mapri_step (ri_next_back u32_max) (MonthShape_nth_day (Days_f_month_shape st)) (Days_f_inner st);;
  Ret (fst p, mkDays (Days_f_month_shape st) (snd p)).
Definition days_size_hint (st : Days) : Z * option Z := ri_size_hint (Days_f_inner st).
Definition days_len (st : Days) : M Z := exact_len (days_size_hint st).

(* ------------------------------------------------------------------ Dates *)
Definition opt_is_none {A} (o : option A) : bool := match o with None => true | Some _ => false end.

(* while start <= end && month_shape.nth_date(start).is_none() { start += 1; } *)
Fixpoint dates_trim_front (fuel : nat) (s : MonthShape) (start end_ : Z) : M Z :=
  c <- (if start <=? end_ then d <- MonthShape_nth_date s start;; Ret (opt_is_none d) else Ret false);;
  if c then
    match fuel with
    | O => Panic
    | S f => start' <- u32_add start 1;; dates_trim_front f s start' end_
    end
  else Ret start.

(* while start <= end && month_shape.nth_date(end).is_none() { end -= 1; } *)
Fixpoint dates_trim_back (fuel : nat) (s : MonthShape) (start end_ : Z) : M Z :=
  c <- (if start <=? end_ then d <- MonthShape_nth_date s end_;; Ret (opt_is_none d) else Ret false);;
  if c then
    match fuel with
    | O => Panic
    | S f => end' <- u32_sub end_ 1;; dates_trim_back f s start end'
    end
  else Ret end_.

Definition dates_new (s : MonthShape) : M Dates :=
  n <- MonthShape_len s;;
  start <- dates_trim_front (Z.to_nat n) s 1 n;;
  end_ <- dates_trim_back (Z.to_nat n) s start n;;
  Ret (mkDates s (mkRange start end_ false)).

Definition dates_next (st : Dates) : M (option Date * Dates) :=
  p <- mapri_step (ri_next u32_max) (MonthShape_nth_date (Dates_f_month_shape st)) (Dates_f_inner st);;
  Ret (fst p, mkDates (Dates_f_month_shape st) (snd p)).
Definition dates_next_back (st : Dates) : M (option Date * Dates) :=
  p <- mapri_step (ri_next_back u32_max) (MonthShape_nth_date (Dates_f_month_shape st)) (Dates_f_inner st);;
  Ret (fst p, mkDates (Dates_f_month_shape st) (snd p)).
Definition dates_size_hint (st : Dates) : Z * option Z := ri_size_hint (Dates_f_inner st).
Definition dates_len (st : Dates) : M Z := exact_len (dates_size_hint st).

(* ------------------------------------------------------------------ MonthIter *)
(* TryFrom<u32> for Month *)
Definition iter_month_of_u32 (v : Z) : option Month :=
  if v =? 1 then Some Month_January else if v =? 2 then Some Month_February
  else if v =? 3 then Some Month_March else if v =? 4 then Some Month_April
  else if v =? 5 then Some Month_May else if v =? 6 then Some Month_June
  else if v =? 7 then Some Month_July else if v =? 8 then Some Month_August
  else if v =? 9 then Some Month_September else if v =? 10 then Some Month_October
  else if v =? 11 then Some Month_November else if v =? 12 then Some Month_December
  else None.

(* Some(u32::from(k).try_into().expect(..)) *)
Definition monthiter_item (k : Z) : M (option Month) :=
  match iter_month_of_u32 k with Some m => Ret (Some m) | None => Panic end.

Definition monthiter_next (st : MonthIter) : M (option Month * MonthIter) :=
  p <- mapri_step (ri_next u16_max) monthiter_item (MonthIter_f_0 st);;
  Ret (fst p, mkMonthIter (snd p)).
Definition monthiter_next_back (st : MonthIter) : M (option Month * MonthIter) :=
  p <- mapri_step (ri_next_back u16_max) monthiter_item (MonthIter_f_0 st);;
  Ret (fst p, mkMonthIter (snd p)).
Definition monthiter_size_hint (st : MonthIter) : Z * option Z := ri_size_hint (MonthIter_f_0 st).
Definition monthiter_len (st : MonthIter) : M Z := exact_len (monthiter_size_hint st).

(* ------------------------------------------------------------------ Later / Earlier / AndLater / AndEarlier *)
(* self.date = self.date.and_then(|d| d.succ()); self.date *)
Definition later_next (st : Later) : M (option Date * Later) :=
  match Later_f_date st with
  | None => Ret (None, mkLater None)
  | Some d => r <- Date_succ d;; Ret (r, mkLater r)
  end.
Definition earlier_next (st : Earlier) : M (option Date * Earlier) :=
  match Earlier_f_date st with
  | None => Ret (None, mkEarlier None)
  | Some d => r <- Date_pred d;; Ret (r, mkEarlier r)
  end.
(* let date = self.date?; self.date = date.succ(); Some(date) *)
Definition and_later_next (st : AndLater) : M (option Date * AndLater) :=
  match AndLater_f_date st with
  | None => Ret (None, st)
  | Some d => r <- Date_succ d;; Ret (Some d, mkAndLater r)
  end.
Definition and_earlier_next (st : AndEarlier) : M (option Date * AndEarlier) :=
  match AndEarlier_f_date st with
  | None => Ret (None, st)
  | Some d => r <- Date_pred d;; Ret (Some d, mkAndEarlier r)
  end.

(* ------------------------------------------------------------------ drivers: sequences of calls *)
Inductive itop : Set := OpNext | OpNextBack | OpLen.
Inductive itout (A : Type) : Type :=
| OutFront (o : option A) | OutBack (o : option A) | OutLen (n : Z).
Arguments OutFront {A} o.
Arguments OutBack {A} o.
Arguments OutLen {A} n.

(* the results of calling the given methods one after the other on one iterator value *)
Fixpoint iter_run {S A} (next back : S -> M (option A * S)) (len : S -> M Z)
    (ops : list itop) (st : S) : M (list (itout A)) :=
  match ops with
  | [] => Ret []
  | OpNext :: ops' => p <- next st;; r <- iter_run next back len ops' (snd p);; Ret (OutFront (fst p) :: r)
  | OpNextBack :: ops' => p <- back st;; r <- iter_run next back len ops' (snd p);; Ret (OutBack (fst p) :: r)
  | OpLen :: ops' => n <- len st;; r <- iter_run next back len ops' st;; Ret (OutLen n :: r)
  end.

Definition days_run (ops : list itop) (s : MonthShape) : M (list (itout Z)) :=
  st <- MonthShape_days s;; iter_run days_next days_next_back days_len ops st.
Definition dates_run (ops : list itop) (s : MonthShape) : M (list (itout Date)) :=
  st <- dates_new s;; iter_run dates_next dates_next_back dates_len ops st.
Definition months_run (ops : list itop) : M (list (itout Month)) :=
  st <- MonthIter_new;; iter_run monthiter_next monthiter_next_back monthiter_len ops st.

(* the first n results of `next()` *)
Fixpoint iter_take {S A} (next : S -> M (option A * S)) (n : nat) (st : S) : M (list (option A)) :=
  match n with
  | O => Ret []
  | S n' => p <- next st;; r <- iter_take next n' (snd p);; Ret (fst p :: r)
  end.

Definition later_take (n : nat) (d : Date) : M (list (option Date)) :=
  st <- Date_later d;; iter_take later_next n st.
Definition earlier_take (n : nat) (d : Date) : M (list (option Date)) :=
  st <- Date_earlier d;; iter_take earlier_next n st.
Definition and_later_take (n : nat) (d : Date) : M (list (option Date)) :=
  st <- Date_and_later d;; iter_take and_later_next n st.
Definition and_earlier_take (n : nat) (d : Date) : M (list (option Date)) :=
  st <- Date_and_earlier d;; iter_take and_earlier_next n st.
