(* Hand/Sys.v — executable models of `system2jdn` and `Calendar::at_system_time` (lib.rs, feature "std";
   not `const fn`).  They end in Gen.unix2jdn / Gen.Calendar_at_jdn.

   A `SystemTime` t is modelled RELATIVE TO `UNIX_EPOCH` as (before : bool, secs : Z, nanos : Z) with
   0 <= secs < 2^64 and 0 <= nanos < 10^9, meaning  t = UNIX_EPOCH - (secs + nanos/10^9) s  when before = true
   and  t = UNIX_EPOCH + (secs + nanos/10^9) s  otherwise.  (before = true, secs = 0, nanos = 0) is the epoch.

   TRUSTED BASE (std behaviour transcribed, not verified; source read: library/std/src/time.rs and
   library/std/src/sys/pal/unix/time.rs of rust-src):
   * `t.duration_since(UNIX_EPOCH)` is `Ok(d)` with d = t - UNIX_EPOCH when t >= UNIX_EPOCH and
     `Err(e)` with `e.duration()` = UNIX_EPOCH - t (> 0) otherwise; the differences are exact
     (`Timespec::sub_timespec` computes exact (secs, nanos) differences).  Hence [sys_duration_since].
   * `Duration::as_secs` : u64 whole seconds; `Duration::subsec_nanos` : u32 in 0 .. 10^9 - 1.
   * `i64::try_from(u64)` is Ok(v) iff v <= i64::MAX; `Result::map`, `map_err`, `?`: the usual meaning.
   * `-i - 1` / `-i` on i64 are arithmetic with overflow checks (Sem.i64_neg, i64_sub; SysProofs shows no panic).
   * [sys_time_repr] (used only by the correspondence driver to print UNREP like the harness does): on unix,
     SystemTime is Timespec { tv_sec : i64, tv_nsec : 0 .. 10^9-1 } and UNIX_EPOCH = (0, 0);
       checked_add(d) = { s = tv_sec.checked_add_unsigned(d.secs)?; n = d.nanos + tv_nsec;
                          if n >= 10^9 { n -= 10^9; s = s.checked_add(1)? }; Some }
       checked_sub(d) = { s = tv_sec.checked_sub_unsigned(d.secs)?; n = tv_nsec - d.nanos;
                          if n < 0 { n += 10^9; s = s.checked_sub(1)? }; Some }
     and the harness first normalises nanos >= 10^9 into the seconds (u64 checked_add, None -> UNREP).
   No proofs in this file. *)
From JV Require Import Sem Gen.
Open Scope Z_scope.

Definition u64_max : Z := 18446744073709551615.
Definition nanos_per_sec : Z := 1000000000.

Definition i64_try_from_u64 (v : Z) : option Z := if v <=? i64_max then Some v else None.

(* t.duration_since(UNIX_EPOCH): Ok (secs, nanos) / Err (secs, nanos) *)
Definition sys_duration_since (before : bool) (secs nanos : Z) : Result (Z * Z) (Z * Z) :=
  if before && negb ((secs =? 0) && (nanos =? 0)) then Err (secs, nanos) else Ok (secs, nanos).

Definition system2jdn_model (before : bool) (secs nanos : Z) : M (Result (Z * Z) ArithmeticError) :=
  ts <- match sys_duration_since before secs nanos with
        | Ok (s, _) => Ret (i64_try_from_u64 s)
        | Err (s, n) =>
          match i64_try_from_u64 s with
          | Some i => if n >? 0 then a <- i64_neg i;; b <- i64_sub a 1;; Ret (Some b)
                      else a <- i64_neg i;; Ret (Some a)
          | None => Ret None
          end
        end;;
  match ts with
  | Some t => unix2jdn t
  | None => Ret (Err mkArithmeticError)
  end.

Definition at_system_time_model (self : Calendar) (before : bool) (secs nanos : Z)
    : M (Result (Date * Z) ArithmeticError) :=
  r <- system2jdn_model before secs nanos;;
  match r with
  | Ok (jdn, s) => d <- Calendar_at_jdn self jdn;; Ret (Ok (d, s))
  | Err e => Ret (Err e)
  end.

(* harness-side construction `UNIX_EPOCH.checked_add/checked_sub(Duration::new(secs, nanos))` on unix:
   Some (secs', nanos') normalised if the SystemTime exists, None (UNREP) otherwise *)
Definition sys_time_repr (before : bool) (secs nanos : Z) : option (Z * Z) :=
  let secs' := secs + nanos / nanos_per_sec in
  let nanos' := nanos mod nanos_per_sec in
  if secs' <=? u64_max then
    if before then
      (* tv_sec = 0 - secs' (checked, i64), minus one more if nanos' > 0 *)
      let s := - secs' - (if nanos' >? 0 then 1 else 0) in
      if (i64_min <=? - secs') && (i64_min <=? s) then Some (secs', nanos') else None
    else
      if secs' <=? i64_max then Some (secs', nanos') else None
  else None.
