(* Hand/Text.v — executable models of the text glue of `Date` (not `const fn`, hence hand-modelled):
     `impl fmt::Display for Date`           (lib.rs)      -> [show_date], [show_date_alt]
     `Calendar::parse_date`                 (lib.rs)      -> [parse_date]
     `inner::DateParser`, `inner::scan`     (inner.rs)    -> [dp_parse_int], [dp_parse_uint], [dp_scan_char],
                                                             [dp_parse_day_in_year], [scan_st], [scan]
     `ParseDateError`                       (errors.rs)   -> [ParseDateError]
   Strings are `list Z` of Unicode scalar values.  The constructors called at the end are the GENERATED
   `Calendar_at_ymd` / `Calendar_at_ordinal_date` of Gen.v.  No proofs here (see Proofs/TextProofs.v).

   TRUSTED TRANSCRIPTIONS OF std BEHAVIOUR (assumed, not verified)
   * Formatting: `write!(f, "{:0W}", n)` for an unsigned `n` (and for a non-negative i32) appends the shortest
     decimal representation of `n`, left-padded with '0' to at least W characters; the flags of the OUTER
     formatter `f` (width, fill, ...) do not influence the nested `write!` calls; only `f.alternate()` is read.
     `i32::unsigned_abs` = absolute value as u32 (total, also for i32::MIN).
   * `<i32 as FromStr>::from_str` / `<u32 as FromStr>::from_str` = `from_str_radix(s, 10)` of core::num:
       - "" -> Empty;  exactly "+" or "-" -> InvalidDigit (for both types);
       - a leading '+' is dropped; a leading '-' is dropped (and the number built negatively) ONLY for the
         signed type; for u32 the '-' stays and is then rejected as an invalid digit;
       - the remaining bytes are processed left to right with `result = result.checked_mul(10)` then
         `checked_add(digit)` (`checked_sub` for negative); for each byte the digit test comes first
         (non-digit -> InvalidDigit), then the multiplication overflow test, then the addition overflow test
         (-> PosOverflow / NegOverflow).  The first failing byte decides.  (The `can_not_overflow` fast path for
         short inputs computes the same value.)  A non-ASCII scalar value contributes only bytes >= 0x80, none of
         which is a digit, so treating it as one invalid item is exact.
   * `char::is_ascii_digit` = U+0030..=U+0039.  `str::strip_prefix(ch)` removes a first scalar value equal to
     `ch`.  `str::chars().next()` = first scalar value.  `char_indices().find(..)` / `split_at` split the string
     in front of the first scalar value rejected by the predicate (whole string if none); the predicate is
     called on each scalar value in order, once, up to and including the first rejected one.
   * `core::mem::replace(&mut first, false)` returns the old flag and clears it; in
     `(replace(&mut first,false) && (c=='-'||c=='+')) || c.is_ascii_digit()` it is evaluated on every call. *)
From JV Require Import Sem Gen.
From JV Require Export Hand.Names.
Open Scope Z_scope.

(* ---------------------------------------------------------------- decimal rendering *)
(* least significant digit first; [fuel] >= number of decimal digits of n *)
Fixpoint digits_rev (fuel : nat) (n : Z) : list Z :=
  match fuel with
  | O => []
  | S f => if n <? 10 then [48 + n] else (48 + n mod 10) :: digits_rev f (n / 10)
  end.

(* shortest decimal representation of n >= 0 ("0" for 0) *)
Definition show_dec (n : Z) : list Z := rev (digits_rev (S (Z.to_nat (Z.log2 n))) n).

(* `{:0width}` of a non-negative integer *)
Definition show_u (width : nat) (n : Z) : list Z :=
  let ds := show_dec n in repeat 48 (width - List.length ds) ++ ds.

Definition show_date_gen (alt : bool) (d : Date) : M (list Z) :=
  year <- Date_year d;;
  let head := if year <? 0 then [45] ++ show_u 4 (Z.abs year) ++ [45] else show_u 4 year ++ [45] in
  if alt then
    o <- Date_ordinal d;;
    Ret (head ++ show_u 3 o)
  else
    m <- Date_month d;;
    n <- Month_number m;;
    dd <- Date_day d;;
    Ret (head ++ show_u 2 n ++ [45] ++ show_u 2 dd).

Definition show_date (d : Date) : M (list Z) := show_date_gen false d.      (* `{}`   *)
Definition show_date_alt (d : Date) : M (list Z) := show_date_gen true d.   (* `{:#}` *)

(* ---------------------------------------------------------------- str::parse::<i32>, str::parse::<u32> *)
Inductive IntErrorKind := IEK_Empty | IEK_InvalidDigit | IEK_PosOverflow | IEK_NegOverflow.

Definition is_digit (c : Z) : bool := (48 <=? c) && (c <=? 57).

(* the digit loop of from_str_radix for a type with range lo..=hi; [neg] = building a negative number *)
Fixpoint parse_digits (neg : bool) (lo hi : Z) (acc : Z) (s : list Z) : Result Z IntErrorKind :=
  match s with
  | [] => Ok acc
  | c :: r =>
    let ovf := if neg then IEK_NegOverflow else IEK_PosOverflow in
    if is_digit c then
      match chko lo hi (acc * 10) with
      | None => Err ovf
      | Some m =>
        match chko lo hi (if neg then m - (c - 48) else m + (c - 48)) with
        | None => Err ovf
        | Some a => parse_digits neg lo hi a r
        end
      end
    else Err IEK_InvalidDigit
  end.

Definition from_str_radix10 (signed : bool) (lo hi : Z) (s : list Z) : Result Z IntErrorKind :=
  match s with
  | [] => Err IEK_Empty
  | [c] => if (c =? 43) || (c =? 45) then Err IEK_InvalidDigit else parse_digits false lo hi 0 s
  | c :: r =>
    if c =? 43 then parse_digits false lo hi 0 r
    else if (c =? 45) && signed then parse_digits true lo hi 0 r
    else parse_digits false lo hi 0 s
  end.

Definition parse_i32 (s : list Z) : Result Z IntErrorKind := from_str_radix10 true i32_min i32_max s.
Definition parse_u32 (s : list Z) : Result Z IntErrorKind := from_str_radix10 false 0 u32_max s.

(* ---------------------------------------------------------------- ParseDateError *)
Inductive ParseDateError :=
| PDE_InvalidDate (e : DateError)
| PDE_InvalidMonth (v : Z)
| PDE_Trailing
| PDE_InvalidIntStart (got : Z)
| PDE_InvalidUIntStart (got : Z)
| PDE_EmptyInt
| PDE_UnexpectedChar (expected got : Z)
| PDE_UnexpectedEnd (expected : Z)
| PDE_ParseInt (k : IntErrorKind).

(* ---------------------------------------------------------------- inner::scan *)
(* `scan(s, predicate)` with an FnMut predicate: the closure state is threaded explicitly *)
Fixpoint scan_st {S : Type} (p : S -> Z -> bool * S) (st : S) (s : list Z) : list Z * list Z :=
  match s with
  | [] => ([], [])
  | c :: r =>
    let '(ok, st') := p st c in
    if ok then let '(a, b) := scan_st p st' r in (c :: a, b) else ([], s)
  end.

Definition scan (p : Z -> bool) (s : list Z) : list Z * list Z :=
  scan_st (fun (_ : unit) c => (p c, tt)) tt s.

(* the closure of parse_int: state = the `first` flag *)
Definition int_pred (first : bool) (c : Z) : bool * bool :=
  ((first && ((c =? 45) || (c =? 43))) || is_digit c, false).

(* ---------------------------------------------------------------- inner::DateParser (state = remaining text) *)
Definition PR (T : Type) := Result (T * list Z) ParseDateError.

Definition dp_parse_int (data : list Z) : PR Z :=
  match scan_st int_pred true data with
  | ([], _) =>
    match data with
    | got :: _ => Err (PDE_InvalidIntStart got)
    | [] => Err PDE_EmptyInt
    end
  | (numstr, rest) =>
    match parse_i32 numstr with
    | Ok n => Ok (n, rest)
    | Err k => Err (PDE_ParseInt k)
    end
  end.

Definition dp_parse_uint (data : list Z) : PR Z :=
  match scan is_digit data with
  | ([], _) =>
    match data with
    | got :: _ => Err (PDE_InvalidUIntStart got)
    | [] => Err PDE_EmptyInt
    end
  | (numstr, rest) =>
    match parse_u32 numstr with
    | Ok n => Ok (n, rest)
    | Err k => Err (PDE_ParseInt k)
    end
  end.

Definition dp_scan_char (ch : Z) (data : list Z) : PR unit :=
  match data with
  | c :: r => if c =? ch then Ok (tt, r) else Err (PDE_UnexpectedChar ch c)
  | [] => Err (PDE_UnexpectedEnd ch)
  end.

Definition dp_parse_day_in_year (data : list Z) : PR inner_DayInYear :=
  match dp_parse_uint data with
  | Err e => Err e
  | Ok (field1, data) =>
    match data with
    | [] => Ok (inner_DayInYear_Ordinal field1, data)
    | _ :: _ =>
      match month_try_from 0 u32_max field1 with
      | None => Err (PDE_InvalidMonth field1)
      | Some month =>
        match dp_scan_char 45 data with
        | Err e => Err e
        | Ok (_, data) =>
          match dp_parse_uint data with
          | Err e => Err e
          | Ok (day, data) => Ok (inner_DayInYear_Date month day, data)
          end
        end
      end
    end
  end.

(* ---------------------------------------------------------------- Calendar::parse_date *)
(* everything before the constructor call: year, '-', day-in-year, end of input *)
Definition parse_fields (s : list Z) : Result (Z * inner_DayInYear) ParseDateError :=
  match dp_parse_int s with
  | Err e => Err e
  | Ok (year, data) =>
    match dp_scan_char 45 data with
    | Err e => Err e
    | Ok (_, data) =>
      match dp_parse_day_in_year data with
      | Err e => Err e
      | Ok (diny, data) =>
        match data with
        | _ :: _ => Err PDE_Trailing
        | [] => Ok (year, diny)
        end
      end
    end
  end.

(* `Ok(self.at_..(..)?)` : DateError converts into ParseDateError::InvalidDate *)
Definition lift_date_result (r : Result Date DateError) : Result Date ParseDateError :=
  match r with
  | Ok d => Ok d
  | Err e => Err (PDE_InvalidDate e)
  end.

Definition construct_date (c : Calendar) (year : Z) (diny : inner_DayInYear) : M (Result Date ParseDateError) :=
  match diny with
  | inner_DayInYear_Ordinal ordinal =>
    r <- Calendar_at_ordinal_date c year ordinal;; Ret (lift_date_result r)
  | inner_DayInYear_Date month day =>
    r <- Calendar_at_ymd c year month day;; Ret (lift_date_result r)
  end.

Definition parse_date (c : Calendar) (s : list Z) : M (Result Date ParseDateError) :=
  match parse_fields s with
  | Err e => Ret (Err e)
  | Ok (year, diny) => construct_date c year diny
  end.
