(* Hand/Cli.v — executable model of the `julian` command, crates/julian-cli/src/main.rs (julian-cli 0.6.2):
     `Command::from_parser`   -> [from_parser] ([fp_loop], [classify])
     `Command::run`           -> [command_run] ([help_lines], [version_line], [countries_lines])
     `Options::run`           -> [options_run] ([run_args], [json_finish])
     `Options::parse_arg`     -> [parse_arg]
     `Options::date_to_jdn` / `jdn_to_date` / `fmt_date` -> [date_to_jdn] / [jdn_to_date] / [fmt_date]
     `parse_reformation`, `national_reformations` -> [parse_reformation], [national_reformations]
     `main`                   -> [cli_result] / [cli_main]
   The argument vector is a `list (list Z)` of byte strings WITHOUT the program name; the lexer is
   Hand/Lexopt.v, the JSON printers are Hand/Json.v, the date text is Hand/Text.v, and every library call is the
   GENERATED function of Gen.v.  Inputs that the Rust reads from its environment are parameters:
     [version] = env!("CARGO_PKG_VERSION") (text), [now] = the system time as whole seconds since the Unix
     epoch, rounded towards negative infinity (what `system2jdn` hands to `unix2jdn`),
     [alpha] = `char::is_alphabetic` on NON-ASCII scalar values (see [is_alphabetic]).
   No proofs here (Proofs/CliProofs.v).

   TRUSTED TRANSCRIPTIONS OF std BEHAVIOUR (assumed, not verified)
   * `fn main() -> Result<(), lexopt::Error>`: `Ok(())` = exit status 0; `Err(e)` = "Error: {e:?}" on standard
     error and exit status 1; a panic = exit status 101.  `println!("{ln}")` writes the text and '\n' to stdout
     (a failing write, e.g. a closed pipe, is outside the model).  `Options::run` returns all lines before any
     is printed, so an `Err` prints nothing.
   * `env!("CARGO_PKG_NAME")` is the PACKAGE name "julian-cli" (Cargo.toml), not the binary name.
   * `Calendar::now()` = `at_system_time(SystemTime::now())` = `system2jdn(t)` then `at_jdn`; `system2jdn` turns
     the time into signed whole seconds [now] (ArithmeticError when they do not fit i64) and calls `unix2jdn`;
     hence `now()` = `at_unix_time(now)` of Gen.v whenever [now] fits i64 ([calendar_now]).
   * `char::is_alphabetic`: for c < 0x80 exactly 'A'..='Z' | 'a'..='z'; above, a Unicode table that is NOT
     modelled: the oracle [alpha].  Proofs/CliProofs.v shows the outcome does not depend on [alpha].
   * `str::to_ascii_uppercase` maps 'a'..='z' to upper case and leaves every other scalar value alone.
   * `BTreeMap::from([...])` holds the pairs sorted by key (`str` order = lexicographic by bytes, equal to
     lexicographic by code point), a later duplicate key replacing an earlier one; iteration is in key order;
     `get` finds the entry with an equal key ([btree_from], [bt_get]).
   * `s.match_indices('-').any(|(i, _)| i > 0)`: some '-' occurs at a byte offset > 0, i.e. after the first
     character.
   * `format!("{country:<14}")` pads with spaces on the right to 14 characters (never truncates);
     `String::from_iter(['-', c])` is the two-character string; `Vec::push`, `String::push`, `push_str` append.
   * `output.get_mut(1..(length - 1))` is `Some` for length > 2; `last_mut()` is the last element if any.
   * `Option::get_or_insert(v)` stores v only when the option is `None`. *)
From JV Require Import Sem Gen.
From JV Require Import Hand.Text Hand.Lexopt Hand.Json.
Open Scope Z_scope.

(* ---------------------------------------------------------------- types *)
Record Options := mkOptions { o_calendar : Calendar; o_json : bool; o_ordinal : bool; o_quiet : bool; o_style : bool }.

Definition default_options : Options := mkOptions Calendar_GREGORIAN false false false false.

Inductive Command :=
| Cmd_Run (o : Options) (args : list (list Z))     (* args: decoded text *)
| Cmd_Countries
| Cmd_Help
| Cmd_Version.

Inductive ReformationError := RE_CountryCode | RE_Jdn | RE_Reforming (e : ReformingError).
Inductive CliParseError :=
| PE_Reformation (e : ReformationError)
| PE_Date (e : ParseDateError)
| PE_Int (k : IntErrorKind).
Definition CliError := Error CliParseError.

Inductive Argument := Arg_Date (d : Date) | Arg_Jdn (jdn : Z).

Definition list_eqb (a b : list Z) : bool := bytes_eqb a b.

(* ---------------------------------------------------------------- national_reformations *)
(* the array literal, in SOURCE order: (code, (country, reformation)) *)
Definition national_reformations_src : list (string * (string * Z)) :=
  [ ("AL", ("Albania", ncal_ALBANIA));
    ("AT", ("Austria", ncal_AUSTRIA));
    ("AU", ("Australia", ncal_AUSTRALIA));
    ("BE", ("Belgium", ncal_BELGIUM));
    ("BG", ("Bulgaria", ncal_BULGARIA));
    ("CA", ("Canada", ncal_CANADA));
    ("CH", ("Switzerland", ncal_SWITZERLAND));
    ("CN", ("China", ncal_CHINA));
    ("CZ", ("Czech Republic", ncal_CZECH_REPUBLIC));
    ("DE", ("Germany", ncal_GERMANY));
    ("DK", ("Denmark", ncal_DENMARK));
    ("ES", ("Spain", ncal_SPAIN));
    ("FI", ("Finland", ncal_FINLAND));
    ("FR", ("France", ncal_FRANCE));
    ("GB", ("United Kingdom", ncal_UNITED_KINGDOM));
    ("GR", ("Greece", ncal_GREECE));
    ("HU", ("Hungary", ncal_HUNGARY));
    ("IS", ("Iceland", ncal_ICELAND));
    ("IT", ("Italy", ncal_ITALY));
    ("JP", ("Japan", ncal_JAPAN));
    ("LI", ("Lithuania", ncal_LITHUANIA));
    ("LU", ("Luxembourg", ncal_LUXEMBOURG));
    ("LV", ("Latvia", ncal_LATVIA));
    ("NL", ("Netherlands", ncal_NETHERLANDS));
    ("NO", ("Norway", ncal_NORWAY));
    ("PL", ("Poland", ncal_POLAND));
    ("PT", ("Portugal", ncal_PORTUGAL));
    ("RO", ("Romania", ncal_ROMANIA));
    ("RU", ("Russia", ncal_RUSSIA));
    ("SI", ("Slovnia", ncal_SLOVENIA));
    ("SE", ("Sweden", ncal_SWEDEN));
    ("TR", ("Turkey", ncal_TURKEY));
    ("US", ("United States", ncal_UNITED_STATES));
    ("YU", ("Yugoslavia", ncal_YUGOSLAVIA)) ]%string.

(* `Ord for str`: Lt / Eq / Gt as -1 / 0 / 1 *)
Fixpoint str_cmp (a b : list Z) : Z :=
  match a, b with
  | [], [] => 0
  | [], _ :: _ => -1
  | _ :: _, [] => 1
  | x :: a', y :: b' => if x <? y then -1 else if y <? x then 1 else str_cmp a' b'
  end.

Definition BTree := list (list Z * (list Z * Z)).     (* sorted by key, keys distinct *)

Fixpoint bt_insert (k : list Z) (v : list Z * Z) (t : BTree) : BTree :=
  match t with
  | [] => [(k, v)]
  | (k', v') :: r =>
    match str_cmp k k' with
    | 0 => (k, v) :: r
    | -1 => (k, v) :: t
    | _ => (k', v') :: bt_insert k v r
    end
  end.

Definition btree_from (l : list (string * (string * Z))) : BTree :=
  fold_left (fun t e => bt_insert (codes (fst e)) (codes (fst (snd e)), snd (snd e)) t) l [].

Fixpoint bt_get (k : list Z) (t : BTree) : option (list Z * Z) :=
  match t with
  | [] => None
  | (k', v) :: r => if list_eqb k k' then Some v else bt_get k r
  end.

Definition national_reformations : BTree := btree_from national_reformations_src.

(* ---------------------------------------------------------------- parse_reformation *)
Definition is_ascii_letter (c : Z) : bool := ((65 <=? c) && (c <=? 90)) || ((97 <=? c) && (c <=? 122)).
Definition is_alphabetic (alpha : Z -> bool) (c : Z) : bool := if c <? 128 then is_ascii_letter c else alpha c.
Definition ascii_upper (c : Z) : Z := if (97 <=? c) && (c <=? 122) then c - 32 else c.

Definition parse_reformation (alpha : Z -> bool) (s : list Z) : M (Result Calendar ReformationError) :=
  let reformation :=
    if forallb (is_alphabetic alpha) s then
      match bt_get (map ascii_upper s) national_reformations with
      | Some entry => Ok (snd entry)
      | None => Err RE_CountryCode
      end
    else
      match parse_i32 s with
      | Ok n => Ok n
      | Err _ => Err RE_Jdn
      end in
  match reformation with
  | Err e => Ret (Err e)
  | Ok r =>
    c <- Calendar_reforming r;;
    match c with
    | Ok cal => Ret (Ok cal)
    | Err e => Ret (Err (RE_Reforming e))
    end
  end.

(* ---------------------------------------------------------------- Command::from_parser *)
Inductive ArgKind :=
| K_Countries | K_Help | K_Version | K_Julian | K_Json | K_Ordinal | K_Quiet | K_Reformation | K_Style
| K_Digit (c : Z)
| K_Value (v : list Z)
| K_Unexpected.

Definition long_is (name : list Z) (lit : string) : bool := list_eqb name (codes lit).
Arguments long_is name lit%string.
Definition is_ascii_digit (c : Z) : bool := (48 <=? c) && (c <=? 57).

(* the arms of `match arg`, in source order *)
Definition classify (a : Arg) : ArgKind :=
  match a with
  | A_Short ch =>
    if ch =? 99 then K_Countries            (* 'c' *)
    else if ch =? 104 then K_Help           (* 'h' *)
    else if ch =? 86 then K_Version         (* 'V' *)
    else if ch =? 106 then K_Julian         (* 'j' *)
    else if ch =? 74 then K_Json            (* 'J' *)
    else if ch =? 111 then K_Ordinal        (* 'o' *)
    else if ch =? 113 then K_Quiet          (* 'q' *)
    else if ch =? 114 then K_Reformation    (* 'r' *)
    else if ch =? 115 then K_Style          (* 's' *)
    else if is_ascii_digit ch then K_Digit ch
    else K_Unexpected
  | A_Long name =>
    if long_is name "countries" then K_Countries
    else if long_is name "help" then K_Help
    else if long_is name "version" then K_Version
    else if long_is name "julian" then K_Julian
    else if long_is name "json" then K_Json
    else if long_is name "ordinal" then K_Ordinal
    else if long_is name "quiet" then K_Quiet
    else if long_is name "reformation" then K_Reformation
    else if long_is name "style" then K_Style
    else K_Unexpected
  | A_Value v => K_Value v
  end.

Definition set_calendar (o : Options) (c : Calendar) := mkOptions c (o_json o) (o_ordinal o) (o_quiet o) (o_style o).
Definition set_json (o : Options) := mkOptions (o_calendar o) true (o_ordinal o) (o_quiet o) (o_style o).
Definition set_ordinal (o : Options) := mkOptions (o_calendar o) (o_json o) true (o_quiet o) (o_style o).
Definition set_quiet (o : Options) := mkOptions (o_calendar o) (o_json o) (o_ordinal o) true (o_style o).
Definition set_style (o : Options) := mkOptions (o_calendar o) (o_json o) (o_ordinal o) (o_quiet o) true.

Definition get_or_insert (o : option (list Z)) (v : list Z) : option (list Z) :=
  match o with Some _ => o | None => Some v end.

(* the `while let Some(arg) = parser.next()?` loop.  Every iteration consumes input (see [parser_fuel]);
   running out of fuel is reported as Panic, and Proofs/CliProofs.v shows that it never happens. *)
Fixpoint fp_loop (alpha : Z -> bool) (fuel : nat) (p : Parser) (opts : Options) (args : list (list Z))
         (non_unicode : option (list Z)) : M (Result Command CliError) :=
  match fuel with
  | O => Panic
  | S f =>
    r <- next p;;
    let '(p, res) := r in
    match res with
    | Err e => Ret (Err e)
    | Ok None =>
      match non_unicode with
      | Some v => Ret (Err (E_NonUnicodeValue v))
      | None => Ret (Ok (Cmd_Run opts args))
      end
    | Ok (Some arg) =>
      match classify arg with
      | K_Countries => Ret (Ok Cmd_Countries)
      | K_Help => Ret (Ok Cmd_Help)
      | K_Version => Ret (Ok Cmd_Version)
      | K_Julian => fp_loop alpha f p (set_calendar opts Calendar_JULIAN) args non_unicode
      | K_Json => fp_loop alpha f p (set_json opts) args non_unicode
      | K_Ordinal => fp_loop alpha f p (set_ordinal opts) args non_unicode
      | K_Quiet => fp_loop alpha f p (set_quiet opts) args non_unicode
      | K_Style => fp_loop alpha f p (set_style opts) args non_unicode
      | K_Reformation =>
        rv <- value p;;
        let '(p, v) := rv in
        match v with
        | Err e => Ret (Err e)
        | Ok raw =>
          match os_string raw with
          | Err e => Ret (Err e)
          | Ok optarg =>
            pr <- parse_reformation alpha optarg;;
            match pr with
            | Ok cal => fp_loop alpha f p (set_calendar opts cal) args non_unicode
            | Err e => Ret (Err (E_ParsingFailed optarg (PE_Reformation e)))
            end
          end
        end
      | K_Digit c =>
        ov <- optional_value p;;
        let '(p, v) := ov in
        let s := [DASH; c] in
        match v with
        | Some raw =>
          match into_string raw with
          | Ok t => fp_loop alpha f p opts (args ++ [s ++ t]) non_unicode
          | Err raw => fp_loop alpha f p opts (args ++ [s]) (get_or_insert non_unicode raw)
          end
        | None => fp_loop alpha f p opts (args ++ [s]) non_unicode
        end
      | K_Value val =>
        match into_string val with
        | Ok t => fp_loop alpha f p opts (args ++ [t]) non_unicode
        | Err raw => fp_loop alpha f p opts args (get_or_insert non_unicode raw)
        end
      | K_Unexpected => Ret (Err (arg_unexpected arg))
      end
    end
  end.

(* enough iterations: one per remaining byte and argument, plus the final `None` *)
Definition parser_fuel (p : Parser) : nat :=
  S (fold_right (fun a n => S (List.length a + n)) O (p_source p)
     + match p_state p with St_Shorts arg _ => List.length arg | _ => O end)%nat.

Definition from_parser (alpha : Z -> bool) (p : Parser) : M (Result Command CliError) :=
  fp_loop alpha (parser_fuel p) p default_options [] None.

(* ---------------------------------------------------------------- Options::fmt_date & co. *)
(* appends to [s] *)
Definition fmt_date (o : Options) (s : list Z) (when : Date) : M (list Z) :=
  if o_ordinal o then
    t <- show_date_alt when;; Ret (s ++ t)
  else
    t <- show_date when;;
    let s := s ++ t in
    cal <- Date_calendar when;;
    reforming <- Calendar_is_reforming cal;;
    if o_style o && reforming then
      isj <- Date_is_julian when;;
      if isj then Ret (s ++ codes " O.S.") else Ret (s ++ codes " N.S.")
    else Ret s.

Definition date_to_jdn (o : Options) (when : Date) : M (list Z) :=
  if o_json o then date2json when
  else
    jdn <- Date_julian_day_number when;;
    s <- (if negb (o_quiet o) then
            s <- fmt_date o [] when;; Ret (s ++ codes " = JDN ")
          else Ret []);;
    Ret (s ++ show_int jdn).

Definition jdn_to_date (o : Options) (jdn : Z) : M (list Z) :=
  when <- Calendar_at_jdn (o_calendar o) jdn;;
  if o_json o then date2json when
  else
    let s := if negb (o_quiet o) then codes "JDN " ++ show_int jdn ++ codes " = " else [] in
    fmt_date o s when.

Definition has_inner_dash (s : list Z) : bool := existsb (fun c => c =? DASH) (tl s).

Definition parse_arg (o : Options) (s : list Z) : M (Result Argument CliError) :=
  if has_inner_dash s then
    r <- parse_date (o_calendar o) s;;
    match r with
    | Ok d => Ret (Ok (Arg_Date d))
    | Err e => Ret (Err (E_ParsingFailed s (PE_Date e)))
    end
  else
    match parse_i32 s with
    | Ok jdn => Ret (Ok (Arg_Jdn jdn))
    | Err k => Ret (Err (E_ParsingFailed s (PE_Int k)))
    end.

(* ---------------------------------------------------------------- Options::run *)
Definition calendar_now (c : Calendar) (now : Z) : M (Result (Date * Z) ArithmeticError) :=
  if (i64_min <=? now) && (now <=? i64_max) then Calendar_at_unix_time c now
  else Ret (Err mkArithmeticError).

(* the `for arg in args` loop; [output] is the vector built so far *)
Fixpoint run_args (o : Options) (args : list (list Z)) (output : list (list Z)) : M (Result (list (list Z)) CliError) :=
  match args with
  | [] => Ret (Ok output)
  | a :: rest =>
    pa <- parse_arg o a;;
    match pa with
    | Err e => Ret (Err e)
    | Ok (Arg_Date when) => s <- date_to_jdn o when;; run_args o rest (output ++ [s])
    | Ok (Arg_Jdn jdn) => s <- jdn_to_date o jdn;; run_args o rest (output ++ [s])
    end
  end.

(* `for obj in output.get_mut(lo..hi) { obj.push(',') }` *)
Fixpoint push_range (i lo hi : nat) (suffix : list Z) (l : list (list Z)) : list (list Z) :=
  match l with
  | [] => []
  | s :: r => (if (lo <=? i)%nat && (i <? hi)%nat then s ++ suffix else s) :: push_range (S i) lo hi suffix r
  end.

(* `if let Some(obj) = output.last_mut() { obj.push_str(..) }` *)
Fixpoint push_last (suffix : list Z) (l : list (list Z)) : list (list Z) :=
  match l with
  | [] => []
  | [s] => [s ++ suffix]
  | s :: r => s :: push_last suffix r
  end.

Definition json_finish (output : list (list Z)) : list (list Z) :=
  let length := List.length output in
  let output := if (2 <? length)%nat then push_range 0 1 (length - 1) (codes ",") output else output in
  push_last (NL ++ codes "    ]" ++ NL ++ codes "}") output.

Definition options_run (o : Options) (now : Z) (args : list (list Z)) : M (Result (list (list Z)) CliError) :=
  output <- (if o_json o then s <- json_start (o_calendar o);; Ret [s] else Ret []);;
  body <- (match args with
           | [] =>
             r <- calendar_now (o_calendar o) now;;
             match r with
             | Err _ => Panic                        (* .expect("JDN for system time should fit in i32") *)
             | Ok (d, _) => s <- date_to_jdn o d;; Ret (Ok (output ++ [s]))
             end
           | _ :: _ => run_args o args output
           end);;
  match body with
  | Err e => Ret (Err e)
  | Ok output => Ret (Ok (if o_json o then json_finish output else output))
  end.

(* ---------------------------------------------------------------- Command::run *)
Definition help_lines : list (list Z) := map codes [
    "Usage: julian [<options>] [<date> ...]";
    "";
    "Convert Julian day numbers to & from calendar dates";
    "";
    "Options:";
    "  -c, --countries   List the country codes accepted by the --reformation option";
    "";
    "  -j, --julian      Read & write dates in the Julian calendar instead of the";
    "                    Gregorian";
    "";
    "  -J, --json        Output JSON";
    "";
    "  -o, --ordinal     Output calendar dates in the form ""YYYY-JJJ"", where the";
    "                    part after the hyphen is the day of the year from 001 to";
    "                    366 (the ordinal date)";
    "";
    "  -q, --quiet       Do not print the input value before each output value.  Do";
    "                    not print ""JDN"" before Julian day numbers.";
    "";
    "  -r <jdn>, --reformation <jdn>";
    "                    Read & write dates using a reforming calendar in which the";
    "                    Gregorian calendar is first observed on the date with the";
    "                    given Julian day number";
    "";
    "                    A two-letter country code may be given in place of a JDN in";
    "                    order to use the calendar reformation as it was observed in";
    "                    that country.";
    "";
    "  -s, --style       Mark dates in reforming calendars as ""O.S."" (Old Style) or";
    "                    ""N.S."" (New Style)";
    "";
    "  -h, --help        Display this help message and exit";
    "  -V, --version     Show the program version and exit" ]%string.

Definition PKG_NAME : list Z := codes "julian-cli".
Definition version_line (version : list Z) : list Z := PKG_NAME ++ codes " " ++ version.

Definition pad_right (width : nat) (s : list Z) : list Z := s ++ repeat 32 (width - List.length s).

Definition country_line (code country : list Z) (reform : Z) : M (list Z) :=
  rc <- Calendar_reforming reform;;
  match rc with
  | Err _ => Panic                       (* .expect("ncal reformation date should be valid reformation date") *)
  | Ok cal =>
    lj <- Calendar_last_julian_date cal;;
    match lj with
    | None => Panic                      (* .expect("reforming calendar should have last Julian date") *)
    | Some last_julian =>
      fg <- Calendar_first_gregorian_date cal;;
      match fg with
      | None => Panic                    (* .expect("reforming calendar should have first Gregorian date") *)
      | Some first_gregorian =>
        ljs <- show_date last_julian;;
        fgs <- show_date first_gregorian;;
        Ret (code ++ codes "    " ++ pad_right 14 country ++ codes "  JDN " ++ show_int reform ++ codes "  "
             ++ ljs ++ codes "   " ++ fgs)
      end
    end
  end.

Fixpoint countries_rows (t : BTree) : M (list (list Z)) :=
  match t with
  | [] => Ret []
  | (code, (country, reform)) :: r =>
    l <- country_line code country reform;;
    ls <- countries_rows r;;
    Ret (l :: ls)
  end.

Definition countries_lines : M (list (list Z)) :=
  rows <- countries_rows national_reformations;;
  Ret (codes "Code  Country         Reformation  Last Julian  First Gregorian" :: rows).

Definition command_run (version : list Z) (now : Z) (cmd : Command) : M (Result (list (list Z)) CliError) :=
  match cmd with
  | Cmd_Run opts args => options_run opts now args
  | Cmd_Countries => ls <- countries_lines;; Ret (Ok ls)
  | Cmd_Help => Ret (Ok help_lines)
  | Cmd_Version => Ret (Ok [version_line version])
  end.

(* ---------------------------------------------------------------- main *)
(* Ok(lines): exit status 0 after printing each element followed by '\n';
   Err(e):   exit status 1, nothing on stdout, the error on stderr *)
Definition cli_result (alpha : Z -> bool) (version : list Z) (now : Z) (argv : list (list Z))
  : M (Result (list (list Z)) CliError) :=
  r <- from_parser alpha (parser_new argv);;
  match r with
  | Err e => Ret (Err e)
  | Ok cmd => command_run version now cmd
  end.

Inductive Outcome := Exit0 (lines : list (list Z)) | ExitErr.

Definition cli_main (alpha : Z -> bool) (version : list Z) (now : Z) (argv : list (list Z)) : M Outcome :=
  r <- cli_result alpha version now argv;;
  match r with
  | Ok lines => Ret (Exit0 lines)
  | Err _ => Ret ExitErr
  end.

(* the bytes written to standard output *)
Definition stdout_of (lines : list (list Z)) : list Z := flat_map (fun l => l ++ [10]) lines.

(* entry point used by the correspondence driver: the oracle is irrelevant (CliProofs.alpha_irrelevant) *)
Definition cli_main_exec (version : list Z) (now : Z) (argv : list (list Z)) : M Outcome :=
  cli_main (fun _ => false) version now argv.
