(* Extraction of the generated model (Gen.v), the hand models and the executable spec to OCaml.
   ExtrOcamlBasic only; Z, positive, ascii, string stay the extracted inductives. *)
From JV Require Import Sem Gen Spec SpecX.
From JV.Hand Require Import Iter Order Sys.
From JV.Hand Require Import Names Text.
From JV.Hand Require Import Lexopt Json Cli.
From JV.Hand Require Import Interop.
Require Extraction.
Require Import ExtrOcamlBasic.
Extraction Language OCaml.
Extraction "jv.ml"
  Z.add Z.mul Z.sub Z.opp Z.of_nat Z.div Z.modulo Z.eqb Z.ltb Z.leb Pos.succ
  Calendar_JULIAN Calendar_GREGORIAN Calendar_REFORM1582 Calendar_reforming
  Calendar_at_jdn Calendar_at_ymd Calendar_at_ordinal_date Calendar_year_kind Calendar_year_length
  Calendar_month_shape Calendar_at_unix_time Calendar_is_proleptic Calendar_is_reforming Calendar_reformation
  Calendar_last_julian_date Calendar_first_gregorian_date
  MonthShape_len MonthShape_contains MonthShape_first_day MonthShape_last_day MonthShape_day_ordinal
  MonthShape_nth_day MonthShape_nth_date MonthShape_gap MonthShape_kind MonthShape_year MonthShape_month MonthShape_calendar
  MonthShape_days Days_new
  Date_succ Date_pred Date_convert_to Date_is_julian Date_is_gregorian Date_weekday Date_ordinal0 Date_day_ordinal0
  Date_calendar Date_year Date_month Date_day Date_ordinal Date_day_ordinal Date_julian_day_number
  Date_later Date_earlier Date_and_later Date_and_earlier
  unix2jdn jdn2unix Weekday_for_jdn Weekday_number Weekday_number0 Weekday_name Weekday_short_name Weekday_pred Weekday_succ
  Month_number Month_number0 Month_name Month_short_name Month_pred Month_succ MonthIter_new
  (* Hand/Iter.v *) days_run dates_run months_run later_take earlier_take and_later_take and_earlier_take later_next earlier_next and_later_next Z.to_nat
  (* Hand/Order.v *) cal_cmp cal_eq cal_partial_cmp cal_hash date_cmp date_eq date_partial_cmp date_hash hstream_eqb
  (* Hand/Sys.v *) system2jdn_model at_system_time_model sys_time_repr
  (* Hand/Names.v *) codes month_display weekday_display month_from_str weekday_from_str month_try_from_ty weekday_try_from_ty ity_lo ity_hi
  (* Hand/Text.v *) show_date show_date_alt parse_i32 parse_u32 parse_fields parse_date
  (* Hand/Cli.v (+ Lexopt.v, Json.v): the julian command *) cli_main_exec stdout_of
  (* Hand/Interop.v *) via_foreign to_foreign from_foreign chrono_ymin chrono_ymax time_ymin time_ymax
  (* Spec.v / SpecX.v: the executable specification (oracle) *)
  cal_of date_of at_ymd_spec at_ordinal_date_spec year_count year_kind_of ykind_gen month_shape_spec shape_of month_count
  sh_len sh_in sh_nth sh_ord sh_first sh_last sh_natural sh_gap is_old lbl jlabel glabel ordinal_of day_ordinal_of
  natural_len incalb month_days msum jdn_of_ordinal
  month_names_spec weekday_names_spec enum_q_spec ykind_flags
  YearKind_is_leap YearKind_is_common YearKind_is_reform YearKind_is_skipped.
