(* C04 — Day-of-year and day-of-month ordinals are gap-free counts. *)
From JV Require Import Sem Gen Spec SpecX.
From JV.Proofs Require Import SpecFacts Cal Core AtJdn Boundary SpecSets Year SuccPred.
Require JV.Proofs.Glue_C04_core.
Open Scope Z_scope.

(* OrdinalIs c j o: there is a j0 <= j such that the earlier dates of the same year are exactly the days
   j0 .. j-1, and o = j - j0 + 1 — i.e. o is one plus the number of earlier dates of the calendar in the
   same year (Spec.v).  DayOrdinalIs: the same within the month. *)
Theorem C04_ordinals_count : forall c j, ValidCal c -> in_i32 j ->
  exists d, Calendar_at_jdn (cal_of c) j = Ret d /\ OrdinalIs c j (Date_f_ordinal d) /\ DayOrdinalIs c j (Date_f_day_ordinal d).
Proof. exact JV.Proofs.Glue_C04_core.C04_ordinals_count_lemma. Qed.
Print Assumptions C04_ordinals_count.

Theorem C04_zero_based : forall c j, ValidCal c -> in_i32 j ->
  exists d, Calendar_at_jdn (cal_of c) j = Ret d /\
    Date_ordinal0 d = Ret (Date_f_ordinal d - 1) /\ Date_day_ordinal0 d = Ret (Date_f_day_ordinal d - 1) /\
    Date_ordinal d = Ret (Date_f_ordinal d) /\ Date_day_ordinal d = Ret (Date_f_day_ordinal d).
Proof. exact JV.Proofs.Glue_C04_core.C04_zero_based_lemma. Qed.
Print Assumptions C04_zero_based.

(* the last date of a year has the year's length as its ordinal *)
Theorem C04_last_day_is_length : forall c j, ValidCal c -> in_i32 j -> l_year (lbl c (j + 1)) <> l_year (lbl c j) ->
  exists d, Calendar_at_jdn (cal_of c) j = Ret d /\ Calendar_year_length (cal_of c) (Date_f_year d) = Ret (Date_f_ordinal d).
Proof. exact JV.Proofs.Glue_C04_core.C04_last_day_is_length_lemma. Qed.
Print Assumptions C04_last_day_is_length.

(* non-vacuity: 1582-10-15 is the 278th date of its year and the 5th of its month in the 1582 calendar *)
Example C04_ex : ordinal_of (CR 2299161) 2299161 = 278 /\ day_ordinal_of (CR 2299161) 2299161 = 5 /\ lbl (CR 2299161) 2299161 = (1582, 10, 15).
Proof. repeat split; vm_compute; reflexivity. Qed.
