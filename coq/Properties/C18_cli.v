(* C18 — "For any list of arguments, each integer argument is answered with that day's date and each date argument
   with its day number, in argument order, in the calendar selected by the last -j/-r option wherever options
   appear on the command line, formatted per -o, -q and -s exactly as documented (O.S./N.S. marks only for
   reforming calendars and never with -o).  Feeding a printed date back to the command under the same options
   returns the original day number, and with no arguments the command reports the current UTC date."

   Model: Hand/Cli.v; vocabulary ([Tok], [render_all], [arg_line], [style_mark], ...) in Proofs/CliProofs.v. *)
From JV Require Import Sem Gen.
From JV Require Import Hand.Text Hand.Lexopt Hand.Json Hand.Cli.
From JV Require Import Proofs.TextProofs Proofs.LexoptProofs Proofs.CliProofs.
Require JV.Proofs.CliCore.
Open Scope Z_scope.

(* Two command lines (without `--`: no token is "--") made of the same option tokens in the same order and the
   same positional-like tokens in the same order, interleaved in any way, are parsed to the same command and give
   the same outcome.  Option tokens: flag clusters, long flags, `-r v` / `--reformation v` pairs, information
   options; positional-like tokens: anything else the lexer hands out as a value, including "-digits...". *)
Theorem C18_option_position_irrelevant :
  forall alpha version now toks1 toks2,
    Forall wf_tok toks1 -> Forall wf_tok toks2 ->
    filter is_opt_tok toks1 = filter is_opt_tok toks2 ->
    filter is_pos_tok toks1 = filter is_pos_tok toks2 ->
    from_parser alpha (parser_new (render_all toks1)) = from_parser alpha (parser_new (render_all toks2)) /\
    cli_main alpha version now (render_all toks1) = cli_main alpha version now (render_all toks2).
Proof. exact option_position_irrelevant. Qed.
Print Assumptions C18_option_position_irrelevant.

(* What such a command line amounts to: the options' effect (in order) and the positional texts (in order). *)
Theorem C18_command_line :
  forall alpha toks,
    Forall wf_tok toks -> no_info toks ->
    from_parser alpha (parser_new (render_all toks)) =
    (r <- opts_effect alpha toks default_options;;
     match r with
     | Err e => Ret (Err e)
     | Ok o' => fp_finish o' (pos_texts toks) (pos_nu toks)
     end)
    /\ forall v, neg_number v -> pos_collect v = ([v], None).
Proof. exact command_line_of_tokens. Qed.
Print Assumptions C18_command_line.

(* The calendar in force is the one of the LAST -j / -r (None: the default, Gregorian for [default_options]). *)
Theorem C18_last_calendar_option :
  forall alpha toks o o',
    opts_effect alpha toks o = Ret (Ok o') ->
    match last_calendar_tok toks with
    | None => o_calendar o' = o_calendar o
    | Some (T_Refo _ v) => exists s, @os_string CliParseError v = Ok s /\ parse_reformation alpha s = Ret (Ok (o_calendar o'))
    | Some _ => o_calendar o' = Calendar_JULIAN
    end.
Proof. exact opts_effect_calendar. Qed.
Print Assumptions C18_last_calendar_option.

(* -J -o -q -s are on iff they occur somewhere among the option tokens *)
Theorem C18_flags_anywhere :
  forall alpha toks o o',
    opts_effect alpha toks o = Ret (Ok o') ->
    o_json o' = (o_json o || has_flag F_J toks) /\ o_ordinal o' = (o_ordinal o || has_flag F_o toks) /\
    o_quiet o' = (o_quiet o || has_flag F_q toks) /\ o_style o' = (o_style o || has_flag F_s toks).
Proof. exact opts_effect_flags. Qed.
Print Assumptions C18_flags_anywhere.

(* One line per argument, in argument order; the run succeeds iff every argument converts. *)
Theorem C18_line_per_argument :
  forall o now args lines,
    o_json o = false -> args <> [] ->
    (options_run o now args = Ret (Ok lines) <-> Forall2 (fun a l => arg_line o a = Ret (Ok l)) args lines).
Proof. exact options_run_text_args. Qed.
Print Assumptions C18_line_per_argument.

(* the line of an argument: integers go through at_jdn, texts with a '-' after position 0 through parse_date *)
Theorem C18_integer_argument :
  forall o a j, has_inner_dash a = false -> parse_i32 a = Ok j -> arg_line o a = (s <- jdn_to_date o j;; Ret (Ok s)).
Proof. exact arg_line_number. Qed.
Theorem C18_date_argument :
  forall o a d, has_inner_dash a = true -> parse_date (o_calendar o) a = Ret (Ok d) ->
                arg_line o a = (s <- date_to_jdn o d;; Ret (Ok s)).
Proof. exact arg_line_date. Qed.
Theorem C18_bad_integer_argument :
  forall o a k, has_inner_dash a = false -> parse_i32 a = Err k -> arg_line o a = Ret (Err (E_ParsingFailed a (PE_Int k))).
Proof. exact arg_line_bad_number. Qed.
Theorem C18_bad_date_argument :
  forall o a e, has_inner_dash a = true -> parse_date (o_calendar o) a = Ret (Err e) ->
                arg_line o a = Ret (Err (E_ParsingFailed a (PE_Date e))).
Proof. exact arg_line_bad_date. Qed.
Print Assumptions C18_integer_argument.
Print Assumptions C18_bad_integer_argument.
Print Assumptions C18_bad_date_argument.
Print Assumptions C18_date_argument.

(* the two text formats: "JDN j = <date><mark>" (just "<date><mark>" with -q) and "<date><mark> = JDN j" (just "j") *)
Theorem C18_format_integer :
  forall o jdn, o_json o = false ->
    jdn_to_date o jdn =
    (d <- Calendar_at_jdn (o_calendar o) jdn;; t <- date_text o d;;
     Ret ((if o_quiet o then [] else codes "JDN " ++ show_int jdn ++ codes " = ") ++ t ++ style_mark o d)).
Proof. exact jdn_to_date_text. Qed.
Theorem C18_format_date :
  forall o d, o_json o = false ->
    date_to_jdn o d =
    (if o_quiet o then Ret (show_int (Date_f_jdn d))
     else t <- date_text o d;; Ret (t ++ style_mark o d ++ codes " = JDN " ++ show_int (Date_f_jdn d))).
Proof. exact date_to_jdn_text. Qed.
Print Assumptions C18_format_integer.
Print Assumptions C18_format_date.

(* O.S./N.S.: present iff -s, not -o, and the date's calendar is reforming; O.S. iff before the reformation. *)
Theorem C18_style_marks :
  forall o d,
    (style_mark o d <> [] <->
       o_style o = true /\ o_ordinal o = false /\ exists r g, Calendar_f_0 (Date_f_calendar d) = inner_Calendar_Reforming r g) /\
    (forall r g, Calendar_f_0 (Date_f_calendar d) = inner_Calendar_Reforming r g -> o_style o = true -> o_ordinal o = false ->
       (Date_f_jdn d < r -> style_mark o d = codes " O.S.") /\ (r <= Date_f_jdn d -> style_mark o d = codes " N.S.")).
Proof. exact style_mark_cases. Qed.
Print Assumptions C18_style_marks.
Theorem C18_fmt_date :
  forall o s d, fmt_date o s d = (t <- date_text o d;; Ret (s ++ t ++ style_mark o d)).
Proof. exact fmt_date_spec. Qed.
Print Assumptions C18_fmt_date.

(* Round trip.  For a day number j whose date d is canonical (library facts, hypothesis [canonical_date]): the
   argument "j" prints  [JDN j = ] t [mark]  where t is the date text (YYYY-MM-DD, or YYYY-JJJ with -o), and the
   argument t — the printed date WITHOUT the " O.S."/" N.S." mark and without the "JDN j = " prefix — prints j
   ( "t[mark] = JDN j" without -q ) under the same options.  The marked text does NOT round trip: it is rejected
   (trailing characters), see C18_ex_marked_text_rejected. *)
Theorem C18_roundtrip :
  forall o j d t,
    o_json o = false ->
    Calendar_at_jdn (o_calendar o) j = Ret d -> canonical_date (o_calendar o) j d -> date_text o d = Ret t ->
    in_i32 j ->
    arg_line o (show_int j) = Ret (Ok (jdn_prefix o j ++ t ++ style_mark o d)) /\
    arg_line o t = Ret (Ok (if o_quiet o then show_int j else t ++ style_mark o d ++ codes " = JDN " ++ show_int j)).
Proof. exact roundtrip_text. Qed.
Print Assumptions C18_roundtrip.

(* no arguments: the date of the current time (UTC day of [now]) *)
Theorem C18_no_arguments :
  forall o now, o_json o = false ->
    options_run o now [] = (d <- now_date o now;; s <- date_to_jdn o d;; Ret (Ok [s])).
Proof. exact options_run_text_now. Qed.
Print Assumptions C18_no_arguments.

(* ---------------------------------------------------------------- non-vacuity (vm_compute on the model) *)
Definition ex_now : Z := 1790000000.
Definition ex_version : list Z := codes "0.6.2".

(* options before, between and after the arguments *)
Example C18_ex_positions :
  cli_main_exec ex_version ex_now [codes "-r"; codes "gb"; codes "-s"; codes "1752-09-02"; codes "2361222"] =
  Ret (Exit0 [codes "1752-09-02 O.S. = JDN 2361221"; codes "JDN 2361222 = 1752-09-14 N.S."])
  /\ cli_main_exec ex_version ex_now [codes "1752-09-02"; codes "-r"; codes "gb"; codes "2361222"; codes "-s"] =
     cli_main_exec ex_version ex_now [codes "-r"; codes "gb"; codes "-s"; codes "1752-09-02"; codes "2361222"].
Proof. split; vm_compute; reflexivity. Qed.
Example C18_ex_positions_tokens :
  let t1 := [T_Refo false (codes "gb"); T_Flags [F_s]; T_Pos (codes "1752-09-02"); T_Pos (codes "2361222")] in
  let t2 := [T_Pos (codes "1752-09-02"); T_Refo false (codes "gb"); T_Pos (codes "2361222"); T_Flags [F_s]] in
  filter is_opt_tok t1 = filter is_opt_tok t2 /\ filter is_pos_tok t1 = filter is_pos_tok t2 /\
  Forall wf_tok t1 /\ Forall wf_tok t2 /\
  render_all t2 = [codes "1752-09-02"; codes "-r"; codes "gb"; codes "2361222"; codes "-s"].
Proof.
  cbv zeta. split; [|split]; try reflexivity. split; [|split]; try reflexivity;
    repeat constructor; try discriminate; left; cbn; unfold DASH; lia.
Qed.
(* the last calendar option wins *)
Example C18_ex_last_calendar :
  cli_main_exec ex_version ex_now [codes "-j"; codes "2361222"; codes "-r"; codes "gb"; codes "--julian"] =
  Ret (Exit0 [codes "JDN 2361222 = 1752-09-03"]).
Proof. vm_compute. reflexivity. Qed.
(* -o suppresses the marks; -q drops the echo *)
Example C18_ex_ordinal_quiet :
  cli_main_exec ex_version ex_now [codes "-sor"; codes "gb"; codes "2361222"; codes "-q"] = Ret (Exit0 [codes "1752-247"]).
Proof. vm_compute. reflexivity. Qed.
(* round trip: 2361221 -> "1752-09-02 O.S."; the unmarked text comes back to 2361221, the marked one is rejected *)
Example C18_ex_roundtrip :
  cli_main_exec ex_version ex_now [codes "-qsr"; codes "gb"; codes "2361221"] = Ret (Exit0 [codes "1752-09-02 O.S."]) /\
  cli_main_exec ex_version ex_now [codes "-qsr"; codes "gb"; codes "1752-09-02"] = Ret (Exit0 [codes "2361221"]).
Proof. split; vm_compute; reflexivity. Qed.
Example C18_ex_marked_text_rejected :
  cli_main_exec ex_version ex_now [codes "-qsr"; codes "gb"; codes "1752-09-02 O.S."] = Ret ExitErr.
Proof. vm_compute. reflexivity. Qed.
(* the round-trip hypothesis is satisfiable: the date of JDN 2361221 in the GB calendar is canonical *)
Example C18_ex_canonical :
  exists c d, Calendar_reforming 2361222 = Ret (Ok c) /\ Calendar_at_jdn c 2361221 = Ret d /\ canonical_date c 2361221 d.
Proof.
  eexists _, _. split; [vm_compute; reflexivity|]. split; [vm_compute; reflexivity|].
  unfold canonical_date. repeat split; try (vm_compute; congruence). 
Qed.

(* ---- C18_roundtrip with [canonical_date] discharged by the core development (Proofs/CliCore.v, from C01's round
   trip): for every calendar the command can construct, every option set without -J and EVERY 32-bit day number *)
Theorem C18_roundtrip_closed :
  forall o j, reachable_cal (o_calendar o) -> o_json o = false -> in_i32 j ->
  exists d t, Calendar_at_jdn (o_calendar o) j = Ret d /\ date_text o d = Ret t /\
    arg_line o (show_int j) = Ret (Ok (jdn_prefix o j ++ t ++ style_mark o d)) /\
    arg_line o t = Ret (Ok (if o_quiet o then show_int j else t ++ style_mark o d ++ codes " = JDN " ++ show_int j)).
Proof. exact JV.Proofs.CliCore.roundtrip_text_closed. Qed.
Print Assumptions C18_roundtrip_closed.
