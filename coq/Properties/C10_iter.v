(* C10 (iterator part) — Later / Earlier / AndLater / AndEarlier yield the iterates of succ / pred and are fused.
   Models: Hand/Iter.v; proofs: Proofs/IterProofs.v.
   [valid] is any invariant of dates preserved by the step and [f] what the step computes on valid dates
   (both discharged by the core development: succ/pred of a canonical date).
   [oiter f n o] = f applied n times to o, stopping at None. *)
From JV Require Import Sem Gen Spec SpecX.
From JV.Hand Require Import Iter.
From JV.Proofs Require Import IterProofs IterCore.
Import List ListNotations.
Require JV.Proofs.Glue_C10_iter.
Open Scope Z_scope.

Theorem C10_later : forall (valid : Date -> Prop) (f : Date -> option Date),
  (forall d, valid d -> Date_succ d = Ret (f d)) ->
  (forall d d', valid d -> f d = Some d' -> valid d') ->
  forall d n, valid d ->
  later_take n d = Ret (map (fun i => oiter f (S i) (Some d)) (seq 0 n)).
Proof. exact later_spec. Qed.
Print Assumptions C10_later.

Theorem C10_and_later : forall (valid : Date -> Prop) (f : Date -> option Date),
  (forall d, valid d -> Date_succ d = Ret (f d)) ->
  (forall d d', valid d -> f d = Some d' -> valid d') ->
  forall d n, valid d ->
  and_later_take n d = Ret (map (fun i => oiter f i (Some d)) (seq 0 n)).
Proof. exact and_later_spec. Qed.
Print Assumptions C10_and_later.

Theorem C10_earlier : forall (valid : Date -> Prop) (f : Date -> option Date),
  (forall d, valid d -> Date_pred d = Ret (f d)) ->
  (forall d d', valid d -> f d = Some d' -> valid d') ->
  forall d n, valid d ->
  earlier_take n d = Ret (map (fun i => oiter f (S i) (Some d)) (seq 0 n)).
Proof. exact earlier_spec. Qed.
Print Assumptions C10_earlier.

Theorem C10_and_earlier : forall (valid : Date -> Prop) (f : Date -> option Date),
  (forall d, valid d -> Date_pred d = Ret (f d)) ->
  (forall d d', valid d -> f d = Some d' -> valid d') ->
  forall d n, valid d ->
  and_earlier_take n d = Ret (map (fun i => oiter f i (Some d)) (seq 0 n)).
Proof. exact and_earlier_spec. Qed.
Print Assumptions C10_and_earlier.

(* fused: after the first None every later item is None *)
Theorem C10_fused : forall (f : Date -> option Date) i j o,
  oiter f i o = None -> (i <= j)%nat -> oiter f j o = None.
Proof. exact oiter_fused. Qed.
Print Assumptions C10_fused.

(* and at the level of the iterator state: a None state answers None and stays None *)
Theorem C10_state_fused :
  later_next (mkLater None) = Ret (None, mkLater None) /\
  earlier_next (mkEarlier None) = Ret (None, mkEarlier None) /\
  and_later_next (mkAndLater None) = Ret (None, mkAndLater None) /\
  and_earlier_next (mkAndEarlier None) = Ret (None, mkAndEarlier None).
Proof. exact (conj later_state_fused (conj earlier_state_fused (conj and_later_state_fused and_earlier_state_fused))). Qed.
Print Assumptions C10_state_fused.

(* the hypotheses are satisfiable by real dates: the last three days of the supported range *)
Example C10_later_nonvacuous :
  (forall d, ex_valid d -> Date_succ d = Ret (ex_succ d)) /\
  (forall d d', ex_valid d -> ex_succ d = Some d' -> ex_valid d') /\
  ex_valid (ex_last 2).
Proof. exact ex_later_hyps. Qed.
Example C10_later_run_example :
  later_take 4 (ex_last 2) = Ret [Some (ex_last 1); Some (ex_last 0); None; None] /\
  and_later_take 4 (ex_last 2) = Ret [Some (ex_last 2); Some (ex_last 1); Some (ex_last 0); None].
Proof. exact ex_later_run. Qed.
Example C10_earlier_nonvacuous :
  (forall d, ex_valid_e d -> Date_pred d = Ret (ex_pred d)) /\
  (forall d d', ex_valid_e d -> ex_pred d = Some d' -> ex_valid_e d') /\
  ex_valid_e (ex_first 1) /\
  earlier_take 3 (ex_first 1) = Ret [Some (ex_first 0); None; None].
Proof. exact ex_earlier_hyps. Qed.

(* The same four statements with the hypotheses discharged by the core development (succ_ok / pred_ok): for EVERY
   calendar a user can hold, EVERY 32-bit start day and EVERY number n of items taken, the i-th item is the
   calendar's date for day j+1+i (later), j+i (and_later), j-1-i (earlier), j-i (and_earlier) as long as that is a
   32-bit day number, and None from then on.  [date_of c j] is the value Calendar::at_jdn returns (C01);
   [day_or_none c j] = Some (date_of c j) if -2^31 <= j < 2^31, None otherwise. *)
Theorem C10_iterators_all : forall c j n, ValidCal c -> in_i32 j ->
  later_take n (date_of c j) = Ret (map (fun i => day_or_none c (j + 1 + Z.of_nat i)) (seq 0 n)) /\
  and_later_take n (date_of c j) = Ret (map (fun i => day_or_none c (j + Z.of_nat i)) (seq 0 n)) /\
  earlier_take n (date_of c j) = Ret (map (fun i => day_or_none c (j - 1 - Z.of_nat i)) (seq 0 n)) /\
  and_earlier_take n (date_of c j) = Ret (map (fun i => day_or_none c (j - Z.of_nat i)) (seq 0 n)).
Proof. exact JV.Proofs.Glue_C10_iter.C10_iterators_all_lemma. Qed.
Print Assumptions C10_iterators_all.

(* across the 1582 gap: 4 October is followed by 15 October; and the end of the range *)
Example C10_iterators_all_ex :
  (exists l, later_take 2 (date_of (CR 2299161) 2299159) = Ret l /\ map (option_map Date_f_day) l = [Some 4; Some 15]) /\
  day_or_none CG 2147483648 = None /\ day_or_none CJ (-2147483649) = None.
Proof. split; [eexists; split; vm_compute; reflexivity|split; reflexivity]. Qed.
