(* C10 — Stepping forward or backward moves exactly one day and stops only at the limits (succ / pred).
   The open-ended iterators are in C10_iter.v (their hypotheses are discharged in C10_later.v). *)
From JV Require Import Sem Gen Spec SpecX.
From JV.Proofs Require Import SpecFacts Cal Core AtJdn SuccPred.
Open Scope Z_scope.

Theorem C10_succ : forall c j, ValidCal c -> in_i32 j ->
  exists d, Calendar_at_jdn (cal_of c) j = Ret d /\
    ((j < i32_max /\ exists d', Calendar_at_jdn (cal_of c) (j + 1) = Ret d' /\ Date_succ d = Ret (Some d')) \/
     (j = i32_max /\ Date_succ d = Ret None)).
Proof.
  intros c j V Hj. exists (date_of c j). split; [apply at_jdn_ok; assumption|]. rewrite succ_ok by assumption.
  destruct (Z.ltb_spec j i32_max); [left; split; [assumption|]; exists (date_of c (j + 1)); split; [apply at_jdn_ok; [assumption|range]|reflexivity]|right; split; [range|reflexivity]].
Qed.
Print Assumptions C10_succ.
Theorem C10_pred : forall c j, ValidCal c -> in_i32 j ->
  exists d, Calendar_at_jdn (cal_of c) j = Ret d /\
    ((i32_min < j /\ exists d', Calendar_at_jdn (cal_of c) (j - 1) = Ret d' /\ Date_pred d = Ret (Some d')) \/
     (j = i32_min /\ Date_pred d = Ret None)).
Proof.
  intros c j V Hj. exists (date_of c j). split; [apply at_jdn_ok; assumption|]. rewrite pred_ok by assumption.
  destruct (Z.ltb_spec i32_min j); [left; split; [assumption|]; exists (date_of c (j - 1)); split; [apply at_jdn_ok; [assumption|range]|reflexivity]|right; split; [range|reflexivity]].
Qed.
Print Assumptions C10_pred.

(* non-vacuity: across the 1582 gap, across a skipped year, and at the upper limit *)
Example C10_ex :
  (exists d d', Calendar_at_jdn (cal_of (CR 2299161)) 2299160 = Ret d /\ Date_succ d = Ret (Some d') /\ (Date_f_year d', Date_f_month d', Date_f_day d') = (1582, Month_October, 15)) /\
  (exists d d', Calendar_at_jdn (cal_of (CR 19582149)) 19582148 = Ret d /\ Date_succ d = Ret (Some d') /\ (Date_f_year d, Date_f_year d') = (48900, 48902)) /\
  (exists d, Calendar_at_jdn Calendar_GREGORIAN 2147483647 = Ret d /\ Date_succ d = Ret None).
Proof. repeat split; repeat eexists; vm_compute; reflexivity. Qed.
