(* C10 — Stepping forward or backward moves exactly one day and stops only at the limits (succ / pred).
   The open-ended iterators are in C10_iter.v (their hypotheses are discharged in C10_later.v). *)
From JV Require Import Sem Gen Spec SpecX.
From JV.Proofs Require Import SpecFacts Cal Core AtJdn SuccPred.
Require JV.Proofs.Glue_C10_core.
Open Scope Z_scope.

Theorem C10_succ : forall c j, ValidCal c -> in_i32 j ->
  exists d, Calendar_at_jdn (cal_of c) j = Ret d /\
    ((j < i32_max /\ exists d', Calendar_at_jdn (cal_of c) (j + 1) = Ret d' /\ Date_succ d = Ret (Some d')) \/
     (j = i32_max /\ Date_succ d = Ret None)).
Proof. exact JV.Proofs.Glue_C10_core.C10_succ_lemma. Qed.
Print Assumptions C10_succ.
Theorem C10_pred : forall c j, ValidCal c -> in_i32 j ->
  exists d, Calendar_at_jdn (cal_of c) j = Ret d /\
    ((i32_min < j /\ exists d', Calendar_at_jdn (cal_of c) (j - 1) = Ret d' /\ Date_pred d = Ret (Some d')) \/
     (j = i32_min /\ Date_pred d = Ret None)).
Proof. exact JV.Proofs.Glue_C10_core.C10_pred_lemma. Qed.
Print Assumptions C10_pred.

(* non-vacuity: across the 1582 gap, across a skipped year, and at the upper limit *)
Definition succ_label (k : Calendar) (j : Z) : option (Z * Month * Z * Z) :=
  match Calendar_at_jdn k j with
  | Ret d => match Date_succ d with Ret (Some d') => Some (Date_f_year d', Date_f_month d', Date_f_day d', Date_f_jdn d') | _ => None end
  | Panic => None
  end.
Example C10_ex1 : succ_label (cal_of (CR 2299161)) 2299160 = Some (1582, Month_October, 15, 2299161).
Proof. vm_compute. reflexivity. Qed.
Example C10_ex2 : succ_label (cal_of (CR 19582149)) 19582148 = Some (48902, Month_January, 1, 19582149).
Proof. vm_compute. reflexivity. Qed.
Example C10_ex3 : succ_label Calendar_GREGORIAN 2147483647 = None.
Proof. vm_compute. reflexivity. Qed.
Example C10_ex4 : succ_label Calendar_GREGORIAN 2147483646 = Some (5874898, Month_June, 3, 2147483647).
Proof. vm_compute. reflexivity. Qed.
