(* C08 — Year length and year kind describe the actual set of days in the year. *)
From JV Require Import Sem Gen Spec SpecX.
From JV.Proofs Require Import SpecFacts Cal Core Year SpecSets.
Import ListNotations.
Require JV.Proofs.Enums JV.Proofs.YearMeaning.
Require JV.Proofs.Glue_C08_core.
Open Scope Z_scope.

(* CountIs P n (Spec.v): the set {j | P j} has exactly n elements (it is empty and n = 0, or it is an interval of n days) *)
Theorem C08_length_is_count : forall c y, ValidCal c -> in_i32 y ->
  Calendar_year_length (cal_of c) y = Ret (year_count c y) /\ CountIs (InYear c y) (year_count c y).
Proof. exact JV.Proofs.Glue_C08_core.C08_length_is_count_lemma. Qed.
Print Assumptions C08_length_is_count.

(* ... and equals the sum of the lengths of its months (an absent month counts 0) *)
Theorem C08_length_is_month_sum : forall c y, ValidCal c -> in_i32 y ->
  fold_right Z.add 0 (map (month_count c y) [1;2;3;4;5;6;7;8;9;10;11;12]) = year_count c y /\
  forall m, (month_count c y (Month_discr m) = 0 /\ Calendar_month_shape (cal_of c) y m = Ret None) \/
            (exists s, Calendar_month_shape (cal_of c) y m = Ret (Some s) /\ MonthShape_len s = Ret (month_count c y (Month_discr m))).
Proof. exact JV.Proofs.Glue_C08_core.C08_length_is_month_sum_lemma. Qed.
Print Assumptions C08_length_is_month_sum.

(* the kind: year_kind_of (Spec.v) is the property's text —
     Skipped iff no date falls in the year;
     Common/Leap iff all dates are on one side of the reformation and the year has its full Julian
       (resp. Gregorian) length, Leap according to that side's rule;
     otherwise ReformLeap iff February 29 of that year is a date of the calendar, else ReformCommon *)
Theorem C08_kind_classified : forall c y, ValidCal c -> in_i32 y ->
  Calendar_year_kind (cal_of c) y = Ret (ykind_gen (year_kind_of c y)).
Proof. exact year_kind_ok. Qed.
Print Assumptions C08_kind_classified.
Theorem C08_skipped_iff_empty : forall c y, year_kind_of c y = KSkipped <-> year_count c y = 0.
Proof. exact year_kind_skipped_iff. Qed.
Print Assumptions C08_skipped_iff_empty.
Theorem C08_feb29_meaning : forall c y, ValidCal c -> (incalb c y 2 29 = true <-> InCal c y 2 29).
Proof. exact JV.Proofs.Glue_C08_core.C08_feb29_meaning_lemma. Qed.
Print Assumptions C08_feb29_meaning.

(* non-vacuity: the two calendars on which the unrepaired code was wrong (defects D1, D2), and a skipped year *)
Example C08_ex :
  year_count (CR 2299664) 1584 = 356 /\ year_kind_of (CR 1830693) 300 = KReformLeap /\
  year_kind_of (CR 19582149) 48901 = KSkipped /\ year_kind_of (CR 2299161) 1582 = KReformCommon /\ year_count (CR 2299161) 1582 = 355.
Proof. repeat split; vm_compute; reflexivity. Qed.

(* the four predicates on the year kind say what their names say *)
Theorem C08_kind_predicates : forall k,
  YearKind_is_leap k = Ret (match k with YearKind_Leap | YearKind_ReformLeap => true | _ => false end) /\
  YearKind_is_common k = Ret (match k with YearKind_Common | YearKind_ReformCommon => true | _ => false end) /\
  YearKind_is_reform k = Ret (match k with YearKind_ReformCommon | YearKind_ReformLeap => true | _ => false end) /\
  YearKind_is_skipped k = Ret (match k with YearKind_Skipped => true | _ => false end).
Proof. exact JV.Proofs.Enums.year_kind_predicates. Qed.
Print Assumptions C08_kind_predicates.
Theorem C08_kind_flags : forall k,
  (a <- YearKind_is_leap k;; b <- YearKind_is_common k;; c <- YearKind_is_reform k;; d <- YearKind_is_skipped k;; Ret (a, b, c, d))
  = Ret (ykind_flags k).
Proof. exact JV.Proofs.Enums.year_kind_flags_ok. Qed.
Print Assumptions C08_kind_flags.

(* The classification in the property's own words.  [is_old c j]: day j is before the reformation (always for the
   Julian calendar, never for the Gregorian).  old_days / new_days count the year's dates on either side;
   AllOld / AllNew: every date of the year lies before / from the reformation. *)
Theorem C08_days_on_each_side : forall c y, ValidCal c ->
  CountIs (fun j => InYear c y j /\ is_old c j = true) (old_days c y) /\
  CountIs (fun j => InYear c y j /\ is_old c j = false) (new_days c y).
Proof. exact JV.Proofs.YearMeaning.old_new_days_count. Qed.
Print Assumptions C08_days_on_each_side.
Theorem C08_kind_meaning : forall c y, ValidCal c ->
  let n := year_count c y in
  let k := year_kind_of c y in
  (k = KSkipped <-> n = 0) /\
  ((k = KCommon \/ k = KLeap) <->
     0 < n /\ ((JV.Proofs.YearMeaning.AllOld c y /\ n = ylen (jleap y)) \/ (JV.Proofs.YearMeaning.AllNew c y /\ n = ylen (gleap y)))) /\
  (k = KLeap -> n = 366 /\ ((JV.Proofs.YearMeaning.AllOld c y /\ jleap y = true) \/ (JV.Proofs.YearMeaning.AllNew c y /\ gleap y = true))) /\
  (k = KCommon -> n = 365 /\ ((JV.Proofs.YearMeaning.AllOld c y /\ jleap y = false) \/ (JV.Proofs.YearMeaning.AllNew c y /\ gleap y = false))) /\
  (k = KReformLeap -> 0 < n /\ InCal c y 2 29) /\
  (k = KReformCommon -> 0 < n /\ ~ InCal c y 2 29).
Proof. exact JV.Proofs.YearMeaning.year_kind_meaning. Qed.
Print Assumptions C08_kind_meaning.
