(* C09 — Month shapes describe exactly the days that exist in the month. *)
From JV Require Import Sem Gen Spec SpecX.
From JV.Proofs Require Import SpecFacts Cal Core SpecSets.
Require JV.Proofs.NthDate.
Require JV.Proofs.Glue_C09_core.
Open Scope Z_scope.

(* For every calendar, year and month: either no date falls in the month and the shape is absent, or the
   shape s is present and ShapeDescribes c y m s (Core.v) holds: length = number of dates in the month; membership =
   existence of the date; first/last day; nth_day = the k-th existing day (strictly increasing, onto), with
   day_ordinal its inverse; gap = exactly the natural days 1..natural_len that do not exist (contiguous, absent
   iff none is missing); kind = position of that range (head / tail / middle). *)
Theorem C09_shape_describes_days : forall c y m, ValidCal c -> in_i32 y ->
  (month_count c y (Month_discr m) = 0 /\ Calendar_month_shape (cal_of c) y m = Ret None) \/
  (0 < month_count c y (Month_discr m) /\ exists s, Calendar_month_shape (cal_of c) y m = Ret (Some s) /\ ShapeDescribes c y (Month_discr m) s).
Proof. exact month_shape_described. Qed.
Print Assumptions C09_shape_describes_days.

Theorem C09_none_iff_empty : forall c y m, ValidCal c -> in_i32 y ->
  (Calendar_month_shape (cal_of c) y m = Ret None <-> forall d, ~ InCal c y (Month_discr m) d).
Proof. exact JV.Proofs.Glue_C09_core.C09_none_iff_empty_lemma. Qed.
Print Assumptions C09_none_iff_empty.

(* meaning of the spec-level ingredients *)
Theorem C09_month_count_meaning : forall c y m, ValidCal c -> 1 <= m <= 12 -> CountIs (InMonth c y m) (month_count c y m).
Proof. exact month_count_is. Qed.
Print Assumptions C09_month_count_meaning.
Theorem C09_exists_meaning : forall c y m d, ValidCal c -> (incalb c y m d = true <-> InCal c y m d).
Proof. exact incal_iff. Qed.
Print Assumptions C09_exists_meaning.

(* non-vacuity: October 1582 (gapped), and the February that was mis-shaped before the repair (defect D3) *)
Example C09_ex :
  shape_of (CR 2299161) 1582 10 = inner_MonthShape_Gapped 5 14 31 /\ month_count (CR 2299161) 1582 10 = 21 /\
  shape_of (CR 2342397) 1701 2 = inner_MonthShape_Tailless 17 28 /\ month_count (CR 3145930) 3901 2 = 0 /\
  shape_of (CR 2342397) 1701 3 = inner_MonthShape_Normal 31 /\ shape_of (CR 2299240) 1583 1 = inner_MonthShape_Headless 2 31.
Proof. repeat split; vm_compute; reflexivity. Qed.

(* nth_date: the k-th existing day of the month as a Date of the calendar — the date of day number
   [month_base c y m + k - 1], whose label is (y, m, k-th existing day) — when that day number is a 32-bit number;
   None otherwise (only in the months that straddle the ends of the supported range) and outside 1..len.
   [day_or_none c j] = Some (the value at_jdn returns for j) if -2^31 <= j < 2^31, None otherwise. *)
Theorem C09_nth_date : forall c y m s k, ValidCal c -> in_i32 y -> in_u32 k -> Calendar_month_shape (cal_of c) y m = Ret (Some s) ->
  MonthShape_nth_date s k =
    Ret (if (1 <=? k) && (k <=? month_count c y (Month_discr m)) then JV.Proofs.NthDate.day_or_none c (JV.Proofs.NthDate.month_base c y m + k - 1) else None) /\
  (1 <= k <= month_count c y (Month_discr m) ->
     lbl c (JV.Proofs.NthDate.month_base c y m + k - 1) = (y, Month_discr m, sh_nth (shape_of c y (Month_discr m)) k)).
Proof. exact JV.Proofs.NthDate.nth_date_all. Qed.
Print Assumptions C09_nth_date.
