(* C14 (system part) — system2jdn floors the instant to whole seconds and then is unix2jdn; it errs exactly when
   the whole seconds do not fit i64 (or unix2jdn errs) and never panics.
   Models: Hand/Sys.v; proofs: Proofs/SysProofs.v.  A SystemTime is UNIX_EPOCH -/+ (secs + nanos/10^9) s. *)
From JV Require Import Sem Gen.
From JV.Hand Require Import Sys.
From JV.Proofs Require Import SysProofs.
Open Scope Z_scope.

Theorem C14_system_floor : forall before secs nanos,
  0 <= secs -> 0 <= nanos < nanos_per_sec ->
  (secs <= i64_max -> system2jdn_model before secs nanos = unix2jdn (sys_floor before secs nanos)) /\
  (i64_max < secs -> system2jdn_model before secs nanos = Ret (Err mkArithmeticError)) /\
  (exists r, system2jdn_model before secs nanos = Ret r).
Proof. exact system_floor. Qed.
Print Assumptions C14_system_floor.

(* [sys_floor] is the floor of the rational instant: t * 10^9 <= +-(secs * 10^9 + nanos) < (t + 1) * 10^9 *)
Theorem C14_floor_is_floor : forall (before : bool) (secs nanos : Z), 0 <= nanos < nanos_per_sec ->
  let x := (if before then -1 else 1) * (secs * nanos_per_sec + nanos) in
  sys_floor before secs nanos * nanos_per_sec <= x < (sys_floor before secs nanos + 1) * nanos_per_sec.
Proof. exact sys_floor_is_floor. Qed.
Print Assumptions C14_floor_is_floor.

Theorem C14_at_system_time : forall c before secs nanos,
  0 <= secs <= i64_max -> 0 <= nanos < nanos_per_sec ->
  at_system_time_model c before secs nanos = Calendar_at_unix_time c (sys_floor before secs nanos).
Proof. exact at_system_time_unix. Qed.
Print Assumptions C14_at_system_time.

Example C14_system_examples :
  system2jdn_model true 0 1 = Ret (Ok (2440587, 86399)) /\
  system2jdn_model true 0 0 = Ret (Ok (2440588, 0)) /\
  system2jdn_model true 86400 0 = Ret (Ok (2440587, 0)) /\
  system2jdn_model false 1682906621 999999999 = Ret (Ok (2460066, 7421)) /\
  system2jdn_model false 9223372036854775808 0 = Ret (Err mkArithmeticError) /\
  system2jdn_model true 9223372036854775807 1 = Ret (Err mkArithmeticError).
Proof. exact ex_system2jdn. Qed.
