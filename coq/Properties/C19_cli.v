(* C19 — "For any argument vector whatsoever the command terminates either with exit status 0 after printing one
   result per argument (or the requested help, version or country listing), or with a non-zero status and an
   error message on standard error having printed no results; it never aborts with a panic.  Negative integers
   are taken as day numbers rather than mistaken for options, and -h, -V and -c are honoured no matter which
   (even invalid) date or number arguments accompany them."

   Model: Hand/Cli.v ([cli_main], over Hand/Lexopt.v); correspondence with the real binary: driver/cli_corr.py.
   Hypotheses left to the core development: [LibTotal] (the library constructors the command calls do not panic
   on the calendars it can build) — see Proofs/CliProofs.v. *)
From JV Require Import Sem Gen.
From JV Require Import Hand.Text Hand.Lexopt Hand.Json Hand.Cli.
From JV Require Import Proofs.LexoptProofs Proofs.CliProofs.
Require JV.Proofs.CliCore.
Open Scope Z_scope.

(* No panic, for ANY argument vector (arbitrary bytes), any version text, any oracle for non-ASCII letters:
   the model returns an outcome.  (Termination is by construction: the loop has fuel [parser_fuel]; running out of
   fuel is a Panic in the model, so this theorem also says the fuel always suffices.) *)
Theorem C19_total :
  forall (alpha : Z -> bool) (version : list Z) (now : Z) (argv : list (list Z)),
    LibTotal -> now_in_range now ->
    exists out, cli_main alpha version now argv = Ret out.
Proof. exact cli_main_total. Qed.
Print Assumptions C19_total.

(* The outcome type itself says: exit 0 with lines, or an error with NOTHING printed.  Moreover the lines are the
   help text, the version line, the country table, or exactly one item per positional argument (one for the
   current date when there is none; one more, the header, in JSON mode). *)
Theorem C19_all_or_none :
  forall alpha version now argv out,
    cli_main alpha version now argv = Ret out ->
    out = ExitErr \/
    exists lines, out = Exit0 lines /\
      ((from_parser alpha (parser_new argv) = Ret (Ok Cmd_Help) /\ lines = help_lines) \/
       (from_parser alpha (parser_new argv) = Ret (Ok Cmd_Version) /\ lines = [version_line version]) \/
       (from_parser alpha (parser_new argv) = Ret (Ok Cmd_Countries) /\ countries_lines = Ret lines) \/
       (exists o args, from_parser alpha (parser_new argv) = Ret (Ok (Cmd_Run o args)) /\
                       options_run o now args = Ret (Ok lines) /\
                       List.length lines = ((if o_json o then 1 else 0) + Nat.max 1 (List.length args))%nat)).
Proof. exact cli_main_all_or_none. Qed.
Print Assumptions C19_all_or_none.

(* An error of one argument suppresses every line: the run returns that error. *)
Theorem C19_error_prints_nothing :
  forall o args out e,
    run_args o args out = Ret (Err e) ->
    exists pre a post ls, args = pre ++ a :: post /\
                          Forall2 (fun a l => arg_line o a = Ret (Ok l)) pre ls /\ arg_line o a = Ret (Err e).
Proof. exact run_args_err. Qed.
Print Assumptions C19_error_prints_nothing.

(* "-" followed by digits, met while options are still being read (parser state None, anywhere on the command
   line), is pushed on the positional arguments with exactly its text, and the loop goes on. *)
Theorem C19_negative_numbers :
  forall alpha v rest last o a n,
    neg_number v ->
    exists last', fp_run alpha (mkParser (v :: rest) St_None last) o a n =
                  fp_run alpha (mkParser rest St_None last') o (a ++ [v]) n.
Proof. exact negative_number_collected. Qed.
Print Assumptions C19_negative_numbers.

(* the same at the level of whole command lines made of tokens ([Tok], Proofs/CliProofs.v) *)
Theorem C19_negative_numbers_tokens :
  forall alpha toks,
    Forall wf_tok toks -> no_info toks ->
    from_parser alpha (parser_new (render_all toks)) =
    (r <- opts_effect alpha toks default_options;;
     match r with
     | Err e => Ret (Err e)
     | Ok o' => fp_finish o' (pos_texts toks) (pos_nu toks)
     end)
    /\ forall v, neg_number v -> pos_collect v = ([v], None).
Proof. exact command_line_of_tokens. Qed.
Print Assumptions C19_negative_numbers_tokens.

(* The first information option wins, whatever precedes it among: flag tokens (single, clustered or long),
   `-r v` / `--reformation v` pairs with a valid value, and positional-like tokens of ANY content (numbers, dates,
   invalid ones, non-UTF-8 bytes, "-digits...") — and whatever follows it. *)
Theorem C19_info_options_win :
  forall alpha version now pre i long post,
    Forall wf_tok (pre ++ T_Info i long :: post) -> no_info pre -> Forall (refo_valid alpha) pre ->
    from_parser alpha (parser_new (render_all (pre ++ T_Info i long :: post))) = Ret (Ok (info_cmd i)) /\
    exists lines,
      cli_main alpha version now (render_all (pre ++ T_Info i long :: post)) = Ret (Exit0 lines) /\
      match i with
      | I_h => lines = help_lines
      | I_V => lines = [version_line version]
      | I_c => countries_lines = Ret lines
      end.
Proof. exact info_options_win. Qed.
Print Assumptions C19_info_options_win.

(* ---------------------------------------------------------------- non-vacuity (vm_compute on the model) *)
Definition ex_now : Z := 1790000000.
Definition ex_version : list Z := codes "0.6.2".

(* a non-UTF-8 argument, an invalid date and a flag before -h: help *)
Example C19_ex_info :
  cli_main_exec ex_version ex_now [[255]; codes "2023-13-99"; codes "-q"; codes "-h"; codes "junk"] = Ret (Exit0 help_lines).
Proof. vm_compute. reflexivity. Qed.
(* it is an instance of the theorem's token language *)
Example C19_ex_info_tokens :
  render_all ([T_Pos [255]; T_Pos (codes "2023-13-99"); T_Flags [F_q]] ++ T_Info I_h false :: [T_Pos (codes "junk")])
  = [[255]; codes "2023-13-99"; codes "-q"; codes "-h"; codes "junk"]
  /\ Forall wf_tok ([T_Pos [255]; T_Pos (codes "2023-13-99"); T_Flags [F_q]] ++ T_Info I_h false :: [T_Pos (codes "junk")]).
Proof.
  split; [reflexivity|]. repeat constructor; try discriminate; left; cbn; unfold DASH; lia.
Qed.
(* negative numbers *)
Example C19_ex_negative :
  cli_main_exec ex_version ex_now [codes "-q"; codes "-123"; codes "-1"] =
  Ret (Exit0 [codes "-4713-07-24"; codes "-4713-11-23"]).
Proof. vm_compute. reflexivity. Qed.
Example C19_ex_neg_number : neg_number (codes "-123").
Proof. exists 49, [50; 51]. repeat split; repeat constructor. Qed.
(* an error prints nothing, even after good arguments *)
Example C19_ex_error : cli_main_exec ex_version ex_now [codes "2460055"; codes "2023-02-30"] = Ret ExitErr.
Proof. vm_compute. reflexivity. Qed.
Example C19_ex_ok : cli_main_exec ex_version ex_now [codes "2460055"; codes "2023-02-28"] =
  Ret (Exit0 [codes "JDN 2460055 = 2023-04-20"; codes "2023-02-28 = JDN 2460004"]).
Proof. vm_compute. reflexivity. Qed.
(* the hypothesis on the clock is satisfiable, and the clock is used when there is no argument *)
Example C19_ex_now : now_in_range ex_now /\ cli_main_exec ex_version ex_now [] = Ret (Exit0 [codes "2026-09-21 = JDN 2461305"]).
Proof. split; [unfold now_in_range, ex_now; lia | vm_compute; reflexivity]. Qed.

(* ---- C19_total with [LibTotal] discharged by the core development (Proofs/CliCore.v: lib_total — reforming, at_jdn,
   at_ymd and at_ordinal_date never panic on any calendar the command can construct): no panic for ANY argument
   vector.  The one remaining premise is environmental: the system clock lies in the supported range. *)
Theorem C19_total_closed :
  forall (alpha : Z -> bool) (version : list Z) (now : Z) (argv : list (list Z)),
    now_in_range now -> exists out, cli_main alpha version now argv = Ret out.
Proof. exact JV.Proofs.CliCore.cli_main_total_closed. Qed.
Print Assumptions C19_total_closed.
