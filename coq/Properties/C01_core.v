(* C01 — JDN -> date -> JDN round trip is exact in every calendar.
   Statements only; proofs are in Proofs/.  [cal_of c] for [ValidCal c] ranges over exactly the calendar
   values obtainable through the public API (C01_configurations). *)
From JV Require Import Sem Gen Spec SpecX.
From JV.Proofs Require Import Cal Core.
Open Scope Z_scope.

Theorem C01_at_jdn_total_roundtrip : forall c j, ValidCal c -> in_i32 j ->
  exists d, Calendar_at_jdn (cal_of c) j = Ret d /\ Date_f_jdn d = j /\
    Calendar_at_ymd (cal_of c) (Date_f_year d) (Date_f_month d) (Date_f_day d) = Ret (Ok d) /\
    Calendar_at_ordinal_date (cal_of c) (Date_f_year d) (Date_f_ordinal d) = Ret (Ok d).
Proof. exact roundtrip. Qed.
Print Assumptions C01_at_jdn_total_roundtrip.

Theorem C01_ymd_injective : forall c j1 j2 d1 d2, ValidCal c -> in_i32 j1 -> in_i32 j2 ->
  Calendar_at_jdn (cal_of c) j1 = Ret d1 -> Calendar_at_jdn (cal_of c) j2 = Ret d2 ->
  Date_f_year d1 = Date_f_year d2 -> Date_f_month d1 = Date_f_month d2 -> Date_f_day d1 = Date_f_day d2 -> j1 = j2.
Proof. exact ymd_injective. Qed.
Print Assumptions C01_ymd_injective.

(* the calendars quantified over are exactly JULIAN, GREGORIAN and the results of Calendar::reforming *)
Theorem C01_configurations : forall k, WfCal k <->
  (k = Calendar_JULIAN \/ k = Calendar_GREGORIAN \/ exists r, in_i32 r /\ Calendar_reforming r = Ret (Ok k)).
Proof. exact configurations. Qed.
Print Assumptions C01_configurations.

(* non-vacuity: the calendar and day on which the unrepaired code panicked (defect D1) *)
Example C01_ex : ValidCal (CR 2299664) /\ in_i32 2299969 /\
  exists d, Calendar_at_jdn (cal_of (CR 2299664)) 2299969 = Ret d /\ (Date_f_year d, Date_f_month d, Date_f_day d) = (1584, Month_December, 31).
Proof. split; [cbv; intuition discriminate|]. split; [cbv; intuition discriminate|]. eexists. split; vm_compute; reflexivity. Qed.
