(* C07 — Date construction accepts exactly the dates that exist, with the right error. *)
From JV Require Import Sem Gen Spec SpecX.
From JV.Proofs Require Import SpecFacts Cal Core AtYmd SpecSets SpecInv.
Require JV.Proofs.Glue_C07_core.
Open Scope Z_scope.

(* at_ymd, for every calendar, every year in i32, every month, every day in u32 (Core.at_ymd_class):
     no date of the calendar in the month            -> SkippedDate            (every request into a removed month)
     the date exists (incalb)                        -> Ok date, or Arithmetic if its day number is not 32-bit
     1 <= day <= natural length of the month         -> SkippedDate            (takes precedence over out-of-range)
     otherwise                                       -> DayOutOfRange with the first and last existing day *)
Theorem C07_at_ymd_classified : forall c y m d, ValidCal c -> in_i32 y -> in_u32 d ->
  Calendar_at_ymd (cal_of c) y m d = Ret (at_ymd_class c y m d).
Proof. exact at_ymd_classified. Qed.
Print Assumptions C07_at_ymd_classified.

(* what the ingredients mean *)
Theorem C07_exists_meaning : forall c y m d, ValidCal c -> (incalb c y m d = true <-> InCal c y m d).
Proof. exact incal_iff. Qed.
Print Assumptions C07_exists_meaning.
Theorem C07_empty_month_meaning : forall c y m, ValidCal c -> 1 <= m <= 12 -> (month_count c y m = 0 <-> forall d, ~ InCal c y m d).
Proof. exact month_empty_iff. Qed.
Print Assumptions C07_empty_month_meaning.
Theorem C07_day_number_meaning : forall c y m d, ValidCal c -> incalb c y m d = true -> lbl c (jdn_of_ymd c y m d) = (y, m, d).
Proof. exact jdn_of_ymd_label. Qed.
Print Assumptions C07_day_number_meaning.
Theorem C07_result_is_the_calendars_date : forall c v, date_result c v = if in_i32b v then Ok (date_of c v) else Err DateError_Arithmetic.
Proof. exact JV.Proofs.Glue_C07_core.C07_result_is_the_calendars_date_lemma. Qed.
Print Assumptions C07_result_is_the_calendars_date.

(* at_ordinal_date: Ok iff 1 <= ordinal <= number of dates in the year (and the day number fits),
   OrdinalOutOfRange carrying the year's true length otherwise *)
Theorem C07_at_ordinal_classified : forall c y o, ValidCal c -> in_i32 y -> in_u32 o ->
  Calendar_at_ordinal_date (cal_of c) y o = Ret (at_ordinal_date_spec c y o).
Proof. exact at_ordinal_date_ok. Qed.
Print Assumptions C07_at_ordinal_classified.
Theorem C07_year_count_meaning : forall c y, ValidCal c -> CountIs (InYear c y) (year_count c y).
Proof. exact year_count_is. Qed.
Print Assumptions C07_year_count_meaning.
Theorem C07_ordinal_day_meaning : forall c y o, ValidCal c -> 1 <= o <= year_count c y ->
  l_year (lbl c (jdn_of_ordinal c y o)) = y /\ ordinal_of c (jdn_of_ordinal c y o) = o.
Proof. exact ordinal_inv. Qed.
Print Assumptions C07_ordinal_day_meaning.

(* non-vacuity: the four outcomes in the calendar whose February was mis-shaped before the repair (defect D3) *)
Example C07_ex :
  at_ymd_class (CR 2342397) 1701 Month_February 29 = Err (DateError_DayOutOfRange 1701 Month_February 29 1 17) /\
  at_ymd_class (CR 2342397) 1701 Month_February 20 = Err (DateError_SkippedDate 1701 Month_February 20) /\
  (exists d, at_ymd_class (CR 2342397) 1701 Month_February 17 = Ok d) /\
  at_ymd_class (CR 19582149) 48901 Month_June 1 = Err (DateError_SkippedDate 48901 Month_June 1) /\
  at_ymd_class CG 5874898 Month_June 4 = Err DateError_Arithmetic.
Proof. repeat split; try eexists; vm_compute; reflexivity. Qed.
