(* C11 — order / equality / hash of Calendar and Date.  Models: Hand/Order.v; proofs: Proofs/OrderProofs.v.
   [cmp_laws cmp] = reflexive, antisymmetric (cmp b a = CompOpp (cmp a b)), transitive, Eq is a congruence;
   with the three-valued result type this is a total (pre)order whose equivalence is "cmp = Eq". *)
From JV Require Import Sem Gen.
From JV.Hand Require Import Order.
From JV.Proofs Require Import OrderProofs.
Import List ListNotations.
Open Scope Z_scope.

Theorem C11_cal_total_order :
  (forall a, cal_cmp a a = Eq) /\
  (forall a b, cal_cmp b a = CompOpp (cal_cmp a b)) /\
  (forall a b c, cal_cmp a b = Lt -> cal_cmp b c = Lt -> cal_cmp a c = Lt) /\
  (forall a b c, cal_cmp a b = Eq -> cal_cmp a c = cal_cmp b c).
Proof. exact cal_cmp_laws. Qed.
Print Assumptions C11_cal_total_order.

Theorem C11_cal_total : forall a b, cal_cmp a b = Lt \/ cal_cmp a b = Eq \/ cal_cmp b a = Lt.
Proof. exact (cmp_total cal_cmp cal_cmp_laws). Qed.
Print Assumptions C11_cal_total.

(* the order is the lexicographic order of the key Julian -> (0,0), Reforming r -> (1,r), Gregorian -> (2,0) *)
Theorem C11_cal_key : forall a b, cal_cmp a b = lex_cmp Z.compare Z.compare (cal_key a) (cal_key b).
Proof. exact cal_cmp_key. Qed.
Print Assumptions C11_cal_key.

Theorem C11_cal_eq_cmp : forall a b, cal_eq a b = true <-> cal_cmp a b = Eq.
Proof. exact cal_eq_iff_cmp. Qed.
Print Assumptions C11_cal_eq_cmp.

Theorem C11_cal_partial_cmp : forall a b, cal_partial_cmp a b = Some (cal_cmp a b).
Proof. exact cal_partial_cmp_some. Qed.
Print Assumptions C11_cal_partial_cmp.

Theorem C11_cal_eq_hash : forall a b, cal_eq a b = true -> cal_hash a = cal_hash b.
Proof. exact cal_eq_hash. Qed.
Print Assumptions C11_cal_eq_hash.

Theorem C11_cal_order_doc :
  (forall r g, cal_cmp Calendar_JULIAN (mkCalendar (inner_Calendar_Reforming r g)) = Lt) /\
  (forall r g, cal_cmp (mkCalendar (inner_Calendar_Reforming r g)) Calendar_GREGORIAN = Lt) /\
  cal_cmp Calendar_JULIAN Calendar_GREGORIAN = Lt /\
  (forall r g r' g', cal_cmp (mkCalendar (inner_Calendar_Reforming r g)) (mkCalendar (inner_Calendar_Reforming r' g'))
                     = (r ?= r')).
Proof. exact cal_order_doc. Qed.
Print Assumptions C11_cal_order_doc.

Theorem C11_date_total_order :
  (forall a, date_cmp a a = Eq) /\
  (forall a b, date_cmp b a = CompOpp (date_cmp a b)) /\
  (forall a b c, date_cmp a b = Lt -> date_cmp b c = Lt -> date_cmp a c = Lt) /\
  (forall a b c, date_cmp a b = Eq -> date_cmp a c = date_cmp b c).
Proof. exact date_cmp_laws. Qed.
Print Assumptions C11_date_total_order.

Theorem C11_date_total : forall a b, date_cmp a b = Lt \/ date_cmp a b = Eq \/ date_cmp b a = Lt.
Proof. exact (cmp_total date_cmp date_cmp_laws). Qed.
Print Assumptions C11_date_total.

Theorem C11_date_cmp_eq : forall a b,
  date_cmp a b = Eq <-> Date_f_jdn a = Date_f_jdn b /\ cal_eq (Date_f_calendar a) (Date_f_calendar b) = true.
Proof. exact date_cmp_eq_iff. Qed.
Print Assumptions C11_date_cmp_eq.

(* k1 == k2 -> hash(k1) == hash(k2), and == implies cmp = Equal, unconditionally *)
Theorem C11_date_eq_hash : forall a b, date_eq a b = true -> date_hash a = date_hash b.
Proof. exact date_eq_hash. Qed.
Print Assumptions C11_date_eq_hash.
Theorem C11_date_eq_cmp : forall a b, date_eq a b = true -> date_cmp a b = Eq.
Proof. exact date_eq_cmp. Qed.
Print Assumptions C11_date_eq_cmp.

(* Eq / Ord coherence of Date.  Hypotheses for the core development to discharge: both dates are the canonical
   date of their (calendar, day number), and calendars that compare equal carry the same gap record. *)
Theorem C11_date_coherent : forall a b,
  Calendar_at_jdn (Date_f_calendar a) (Date_f_jdn a) = Ret a ->
  Calendar_at_jdn (Date_f_calendar b) (Date_f_jdn b) = Ret b ->
  (cal_eq (Date_f_calendar a) (Date_f_calendar b) = true -> cal_gap (Date_f_calendar a) = cal_gap (Date_f_calendar b)) ->
  (date_eq a b = true <-> date_cmp a b = Eq).
Proof. exact date_coherent. Qed.
Print Assumptions C11_date_coherent.

Theorem C11_date_cmp_hash : forall a b,
  Calendar_at_jdn (Date_f_calendar a) (Date_f_jdn a) = Ret a ->
  Calendar_at_jdn (Date_f_calendar b) (Date_f_jdn b) = Ret b ->
  (cal_eq (Date_f_calendar a) (Date_f_calendar b) = true -> cal_gap (Date_f_calendar a) = cal_gap (Date_f_calendar b)) ->
  date_cmp a b = Eq -> date_hash a = date_hash b.
Proof. exact date_cmp_hash. Qed.
Print Assumptions C11_date_cmp_hash.

Example C11_cal_examples :
  cal_cmp Calendar_JULIAN Calendar_REFORM1582 = Lt /\ cal_cmp Calendar_REFORM1582 Calendar_GREGORIAN = Lt /\
  cal_cmp Calendar_REFORM1582 ex_cal_badgap = Eq /\ cal_eq Calendar_REFORM1582 ex_cal_badgap = true /\
  cal_hash Calendar_REFORM1582 = cal_hash ex_cal_badgap /\ Calendar_REFORM1582 <> ex_cal_badgap /\
  cal_hash Calendar_REFORM1582 = [(W_u8, 3); (W_i32, 2299161)].
Proof. exact ex_cal_order. Qed.
Example C11_date_coherent_nonvacuous :
  Calendar_at_jdn (Date_f_calendar ex_d1) (Date_f_jdn ex_d1) = Ret ex_d1 /\
  Calendar_at_jdn (Date_f_calendar ex_d2) (Date_f_jdn ex_d2) = Ret ex_d2 /\
  date_eq ex_d1 ex_d1 = true /\ date_cmp ex_d1 ex_d1 = Eq /\
  date_eq ex_d1 ex_d2 = false /\ date_cmp ex_d1 ex_d2 = Lt.
Proof. exact ex_date_coherent_hyps. Qed.
Example C11_date_coherent_needs_hyps :
  let bogus := mkDate Calendar_REFORM1582 1 1 Month_January 1 1 2299161 in
  date_cmp ex_d1 bogus = Eq /\ date_eq ex_d1 bogus = false.
Proof. exact ex_date_noncanonical. Qed.
