(* Properties/C15_names.v — Month / Weekday names and numbers (models: Hand/Names.v; proofs: Proofs/NamesProofs.v).
   Vocabulary (defined in Proofs/NamesProofs.v):
     same_up_to_ascii_case s t := Forall2 (fun a b => ascii_lower a = ascii_lower b) s t
     names_roundtrip_statement, names_only_statement, numbers_statement are spelled out below. *)
From JV Require Import Sem Gen Hand.Names Proofs.NamesProofs.
Open Scope Z_scope.

(* Every month / weekday x: the generated getters give a name n and a short name sn, Display prints them, and
   from_str of ANY re-casing of n or of sn gives x back. *)
Theorem C15_names_roundtrip :
  (forall m, exists n sn,
      Month_name m = Ret n /\ Month_short_name m = Ret sn /\
      month_display false m = Ret (codes n) /\ month_display true m = Ret (codes sn) /\
      forall s, same_up_to_ascii_case s (codes n) \/ same_up_to_ascii_case s (codes sn) -> month_from_str s = Some m) /\
  (forall w, exists n sn,
      Weekday_name w = Ret n /\ Weekday_short_name w = Ret sn /\
      weekday_display false w = Ret (codes n) /\ weekday_display true w = Ret (codes sn) /\
      forall s, same_up_to_ascii_case s (codes n) \/ same_up_to_ascii_case s (codes sn) -> weekday_from_str s = Some w).
Proof. exact names_roundtrip. Qed.
Print Assumptions C15_names_roundtrip.

(* Nothing else is accepted: for ALL code point lists s. *)
Theorem C15_names_only :
  (forall s m, month_from_str s = Some m ->
     exists n sn, Month_name m = Ret n /\ Month_short_name m = Ret sn /\
       (same_up_to_ascii_case s (codes n) \/ same_up_to_ascii_case s (codes sn))) /\
  (forall s w, weekday_from_str s = Some w ->
     exists n sn, Weekday_name w = Ret n /\ Weekday_short_name w = Ret sn /\
       (same_up_to_ascii_case s (codes n) \/ same_up_to_ascii_case s (codes sn))).
Proof. exact names_only. Qed.
Print Assumptions C15_names_only.

(* TryFrom<T> for every integer type T with range lo..=hi (in particular the 12 Rust types):
   the conversion succeeds with x exactly when the value is x's number; the Weekday path never panics. *)
Theorem C15_numbers :
  (forall lo hi v m, lo <= v <= hi -> (month_try_from lo hi v = Some m <-> Month_number m = Ret v)) /\
  (forall lo hi v w, lo <= v <= hi -> (weekday_try_from lo hi v = Ret (Some w) <-> Weekday_number w = Ret v)) /\
  (forall lo hi v, weekday_try_from lo hi v <> Panic) /\
  (forall t v m, ity_lo t <= v <= ity_hi t -> (month_try_from_ty t v = Some m <-> Month_number m = Ret v)) /\
  (forall t v w, ity_lo t <= v <= ity_hi t -> (weekday_try_from_ty t v = Ret (Some w) <-> Weekday_number w = Ret v)).
Proof. exact numbers. Qed.
Print Assumptions C15_numbers.
