(* C16 — chrono / time interoperability is exact in range and fails cleanly outside.
   PARTIAL by nature: the theorems are about julian's side of the glue (hand model Hand/Interop.v, which calls
   Gen.v), under the contracts of the foreign crates stated at the top of that file (a foreign date is a valid
   proleptic-Gregorian triple with ymin <= year <= ymax; its constructor accepts exactly those; its day count is
   that date's Julian day number minus a constant).  Those contracts are checked exhaustively against the real
   crates (every NaiveDate, every time::Date; `jharness sweep chrono|time`), not proved. *)
From JV Require Import Sem Gen Spec SpecX.
From JV.Hand Require Import Interop.
From JV.Proofs Require Import SpecFacts Cal Core Canon InteropProofs.
Require JV.Proofs.Glue_C16_interop.
Open Scope Z_scope.

(* foreign -> julian: never reaches an `expect`; the proleptic-Gregorian date with the same year/month/day,
   whose day number is that label's Julian day number (= Rata Die + 1721425 = time's Julian day) *)
Theorem C16_from_foreign : forall ymin ymax f, RangeOk ymin ymax -> f_valid ymin ymax f = true ->
  let '(y, m, d) := f in
  from_foreign f = Ret (date_of CG (jdn_g y m d)) /\ lbl CG (jdn_g y m d) = (y, m, d).
Proof. exact from_foreign_ok. Qed.
Print Assumptions C16_from_foreign.
Theorem C16_day_count : forall y m d, valid_md (gleap y) m d ->
  jdn_g y m d - 1721425 = 365 * (y - 1) + (y - 1) / 4 - (y - 1) / 100 + (y - 1) / 400 + cum (gleap y) m + d.
Proof. exact JV.Proofs.Glue_C16_interop.C16_day_count_lemma. Qed.
Print Assumptions C16_day_count.

(* julian -> foreign, from a date of ANY calendar: the foreign date of the same day if in range, an error
   (None), never a panic, otherwise *)
Theorem C16_to_foreign : forall ymin ymax u8 c j, ValidCal c -> in_i32 j ->
  to_foreign ymin ymax u8 (date_of c j) = Ret (let '(y, m, d) := glabel j in f_mk ymin ymax y m d).
Proof. exact to_foreign_ok. Qed.
Print Assumptions C16_to_foreign.
Theorem C16_roundtrip : forall ymin ymax u8 f, RangeOk ymin ymax -> f_valid ymin ymax f = true ->
  exists d, from_foreign f = Ret d /\ to_foreign ymin ymax u8 d = Ret (Some f).
Proof. exact foreign_roundtrip. Qed.
Print Assumptions C16_roundtrip.
Theorem C16_ranges_fit : RangeOk chrono_ymin chrono_ymax /\ RangeOk time_ymin time_ymax.
Proof. exact JV.Proofs.Glue_C16_interop.C16_ranges_fit_lemma. Qed.
Print Assumptions C16_ranges_fit.

Example C16_ex :
  to_foreign chrono_ymin chrono_ymax false (date_of CJ 2460066) = Ret (Some (2023, 5, 1)) /\
  to_foreign time_ymin time_ymax true (date_of (CR 2299161) 2299160) = Ret (Some (1582, 10, 14)) /\
  to_foreign time_ymin time_ymax true (date_of CG 2147483647) = Ret None /\
  from_foreign (-262143, 1, 1) = Ret (date_of CG (jdn_g (-262143) 1 1)).
Proof. repeat split; vm_compute; reflexivity. Qed.
