(* Properties/C13_text.v — Display for Date and Calendar::parse_date (models: Hand/Text.v; proofs: Proofs/TextProofs.v).

   Vocabulary (Part 0 of Proofs/TextProofs.v; texts are lists of code points):
     is_digits s            every element of s is in '0'..'9'
     digits_value s         the number s denotes read as a decimal numeral (dval_from 0 s)
     padded_decimal w n s   s is a non-empty digit string of value n, at least w long, and no digit string of value n
                            that is at least w long is shorter  (= "n in decimal, zero-padded to w digits")
     Sign = SgNone | SgPlus | SgMinus;  sign_codes = "" | "+" | "-";  signed_value SgMinus ds = - digits_value ds
     sign_of y              SgMinus if y < 0, else SgNone
     Grammar s y diny       s = sign? ds1 "-" ds2            and y = signed value of ds1 in i32, diny = Ordinal (value ds2 in u32)
                         or s = sign? ds1 "-" ds2 "-" ds3    and y as before, value ds2 = number of month m,
                                                                 diny = Date m (value ds3 in u32);  all ds_i non-empty digit strings
     in_grammar s           exists y diny, Grammar s y diny
     syntactic e            e is any ParseDateError except InvalidDate
     syntax_error r         r = Ret (Err e) with syntactic e
     semantic_answer r      r = Ret (Ok d) or r = Ret (Err (PDE_InvalidDate e))
     construct_date c y (Ordinal o) = at_ordinal_date c y o ; construct_date c y (Date m d) = at_ymd c y m d,
                            with DateError e turned into PDE_InvalidDate e   (Hand/Text.v) *)
From JV Require Import Sem Gen Hand.Names Hand.Text Proofs.TextProofs Proofs.TextErrors.
Require JV.Spec JV.SpecX JV.Proofs.TextCore.
Open Scope Z_scope.

(* (a) what `{}` and `{:#}` print *)
Theorem C13_display_shape :
  (forall d,
     show_date d = Ret (sign_codes (sign_of (Date_f_year d)) ++ show_u 4 (Z.abs (Date_f_year d)) ++ [45] ++
                        show_u 2 (Month_discr (Date_f_month d)) ++ [45] ++ show_u 2 (Date_f_day d)) /\
     show_date_alt d = Ret (sign_codes (sign_of (Date_f_year d)) ++ show_u 4 (Z.abs (Date_f_year d)) ++ [45] ++
                            show_u 3 (Date_f_ordinal d))) /\
  (forall w n, 0 <= n -> padded_decimal w n (show_u w n)) /\
  (forall w n s t, padded_decimal w n s -> padded_decimal w n t -> s = t).
Proof. exact display_shape. Qed.
Print Assumptions C13_display_shape.

(* (b) parsing the rendered text feeds exactly (year, month, day) / (year, ordinal) back into the constructor,
       in ANY calendar c (in particular the date's own) *)
Theorem C13_roundtrip :
  (forall c d txt,
     in_i32 (Date_f_year d) -> in_u32 (Date_f_day d) -> show_date d = Ret txt ->
     parse_date c txt =
     (r <- Calendar_at_ymd c (Date_f_year d) (Date_f_month d) (Date_f_day d);; Ret (lift_date_result r))) /\
  (forall c d txt,
     in_i32 (Date_f_year d) -> in_u32 (Date_f_ordinal d) -> show_date_alt d = Ret txt ->
     parse_date c txt =
     (r <- Calendar_at_ordinal_date c (Date_f_year d) (Date_f_ordinal d);; Ret (lift_date_result r))) /\
  (forall d, exists txt alt, show_date d = Ret txt /\ show_date_alt d = Ret alt).
Proof. exact roundtrip. Qed.
Print Assumptions C13_roundtrip.

(* (b') with "the constructor returns d itself" (core theorems, proved elsewhere) as explicit hypothesis *)
Theorem C13_roundtrip_canonical :
  (forall d txt,
     in_i32 (Date_f_year d) -> in_u32 (Date_f_day d) ->
     Calendar_at_ymd (Date_f_calendar d) (Date_f_year d) (Date_f_month d) (Date_f_day d) = Ret (Ok d) ->
     show_date d = Ret txt -> parse_date (Date_f_calendar d) txt = Ret (Ok d)) /\
  (forall d txt,
     in_i32 (Date_f_year d) -> in_u32 (Date_f_ordinal d) ->
     Calendar_at_ordinal_date (Date_f_calendar d) (Date_f_year d) (Date_f_ordinal d) = Ret (Ok d) ->
     show_date_alt d = Ret txt -> parse_date (Date_f_calendar d) txt = Ret (Ok d)).
Proof. exact roundtrip_canonical. Qed.
Print Assumptions C13_roundtrip_canonical.

(* (c) the accepted language, for every calendar c and EVERY list s *)
Theorem C13_grammar : forall c s,
  (forall y diny, Grammar s y diny -> parse_date c s = construct_date c y diny) /\
  (forall y1 d1 y2 d2, Grammar s y1 d1 -> Grammar s y2 d2 -> y1 = y2 /\ d1 = d2) /\
  (in_grammar s <-> ~ syntax_error (parse_date c s)) /\
  (~ in_grammar s -> syntax_error (parse_date c s)) /\
  ((forall y m d, in_i32 y -> in_u32 d -> Calendar_at_ymd c y m d <> Panic) ->
   (forall y o, in_i32 y -> in_u32 o -> Calendar_at_ordinal_date c y o <> Panic) ->
   (in_grammar s <-> semantic_answer (parse_date c s))).
Proof. exact grammar_thm. Qed.
Print Assumptions C13_grammar.

(* the syntactic phase as a function, exactly the grammar *)
Theorem C13_grammar_fields : forall s y diny, parse_fields s = Ok (y, diny) <-> Grammar s y diny.
Proof. exact parse_fields_iff. Qed.
Print Assumptions C13_grammar_fields.

(* (d) parse_date panics only if a constructor does (on in-range arguments) *)
Theorem C13_total : forall c s,
  (forall y m d, in_i32 y -> in_u32 d -> Calendar_at_ymd c y m d <> Panic) ->
  (forall y o, in_i32 y -> in_u32 o -> Calendar_at_ordinal_date c y o <> Panic) ->
  parse_date c s <> Panic.
Proof. exact total. Qed.
Print Assumptions C13_total.

(* (c') WHICH syntactic error: [Rejects s e] (Proofs/TextErrors.v) describes declaratively, field by field and left to
   right, the texts outside the grammar together with the error each of them gets (EmptyInt, InvalidIntStart c,
   ParseInt InvalidDigit for a lone sign, ParseInt Pos/NegOverflow, UnexpectedEnd '-', UnexpectedChar '-' c,
   InvalidUIntStart c, InvalidMonth v, Trailing).  The model reports e exactly for those texts. *)
Theorem C13_error_classification : forall c s e,
  syntactic e -> (parse_date c s = Ret (Err e) <-> Rejects s e).
Proof. exact parse_date_rejects. Qed.
Print Assumptions C13_error_classification.

(* ---- the same with the hypotheses about the constructors discharged by the core development, for EVERY calendar a
   user can hold (Proofs/TextCore.v): every date prints and parses back in both forms; parsing never panics on any
   string; it gives a semantic answer (a date or an invalid-date error) exactly on the grammar *)
Theorem C13_roundtrip_all : forall c j, JV.Spec.ValidCal c -> in_i32 j ->
  exists t1 t2, show_date (JV.SpecX.date_of c j) = Ret t1 /\ show_date_alt (JV.SpecX.date_of c j) = Ret t2 /\
    parse_date (JV.SpecX.cal_of c) t1 = Ret (Ok (JV.SpecX.date_of c j)) /\ parse_date (JV.SpecX.cal_of c) t2 = Ret (Ok (JV.SpecX.date_of c j)).
Proof. exact JV.Proofs.TextCore.text_roundtrip_all. Qed.
Print Assumptions C13_roundtrip_all.
Theorem C13_total_all : forall c s, JV.Spec.ValidCal c -> parse_date (JV.SpecX.cal_of c) s <> Panic.
Proof. exact JV.Proofs.TextCore.parse_total_all. Qed.
Print Assumptions C13_total_all.
Theorem C13_grammar_all : forall c s, JV.Spec.ValidCal c -> (in_grammar s <-> semantic_answer (parse_date (JV.SpecX.cal_of c) s)).
Proof. exact JV.Proofs.TextCore.grammar_all. Qed.
Print Assumptions C13_grammar_all.
