(* C05 — No library call panics or overflows, whatever the arguments.
   [Total m] = the call returns (never Panic, i.e. no panic!/unreachable!/failed debug_assert!/arithmetic
   overflow in a build with overflow checks and debug assertions ON).  One conjunct per public const fn,
   for every argument value of its Rust types and every receiver a user can hold (calendars from the public
   constructors, canonical dates (C06), month shapes returned by month_shape).  The non-const public
   functions are covered on their hand models: parse_date (C13_total), Month/Weekday FromStr/TryFrom
   (C15_numbers), iterators (C17 theorems), system2jdn (C14_system_floor); bin/check compares this list with the
   pub items of the expanded crate on every run. *)
From JV Require Import Sem Gen Spec SpecX.
From JV.Proofs Require Import SpecFacts Cal Core Canon Total.
Open Scope Z_scope.

Theorem C05_total_calendar : forall c, ValidCal c ->
  (forall j, in_i32 j -> Total (Calendar_at_jdn (cal_of c) j)) /\
  (forall y o, in_i32 y -> in_u32 o -> Total (Calendar_at_ordinal_date (cal_of c) y o)) /\
  (forall t, in_i64 t -> Total (Calendar_at_unix_time (cal_of c) t)) /\
  (forall y m d, in_i32 y -> in_u32 d -> Total (Calendar_at_ymd (cal_of c) y m d)) /\
  Total (Calendar_first_gregorian_date (cal_of c)) /\ Total (Calendar_last_julian_date (cal_of c)) /\
  Total (Calendar_is_proleptic (cal_of c)) /\ Total (Calendar_is_reforming (cal_of c)) /\ Total (Calendar_reformation (cal_of c)) /\
  (forall y m, in_i32 y -> Total (Calendar_month_shape (cal_of c) y m)) /\
  (forall y, in_i32 y -> Total (Calendar_year_kind (cal_of c) y)) /\ (forall y, in_i32 y -> Total (Calendar_year_length (cal_of c) y)).
Proof. exact total_calendar. Qed.
Print Assumptions C05_total_calendar.

Theorem C05_total_free :
  (forall r, in_i32 r -> Total (Calendar_reforming r)) /\ (forall t, in_i64 t -> Total (unix2jdn t)) /\ (forall j, in_i32 j -> Total (jdn2unix j)) /\
  (forall j, in_i32 j -> Total (Weekday_for_jdn j)) /\ Total MonthIter_new.
Proof. exact total_free. Qed.
Print Assumptions C05_total_free.

Theorem C05_total_date : forall d, Canonical d ->
  Total (Date_and_earlier d) /\ Total (Date_and_later d) /\ Total (Date_earlier d) /\ Total (Date_later d) /\
  Total (Date_calendar d) /\ Total (Date_day d) /\ Total (Date_day_ordinal d) /\ Total (Date_day_ordinal0 d) /\
  Total (Date_is_gregorian d) /\ Total (Date_is_julian d) /\ Total (Date_julian_day_number d) /\ Total (Date_month d) /\
  Total (Date_ordinal d) /\ Total (Date_ordinal0 d) /\ Total (Date_pred d) /\ Total (Date_succ d) /\ Total (Date_weekday d) /\ Total (Date_year d) /\
  (forall c', ValidCal c' -> Total (Date_convert_to d (cal_of c'))).
Proof. exact total_date. Qed.
Print Assumptions C05_total_date.

Theorem C05_total_month_shape : forall s, UserShape s ->
  Total (MonthShape_calendar s) /\ Total (MonthShape_year s) /\ Total (MonthShape_month s) /\ Total (MonthShape_len s) /\
  Total (MonthShape_first_day s) /\ Total (MonthShape_last_day s) /\ Total (MonthShape_gap s) /\ Total (MonthShape_kind s) /\ Total (MonthShape_days s) /\
  (forall d, in_u32 d -> Total (MonthShape_contains s d)) /\ (forall d, in_u32 d -> Total (MonthShape_day_ordinal s d)) /\
  (forall k, in_u32 k -> Total (MonthShape_nth_day s k)) /\ (forall k, in_u32 k -> Total (MonthShape_nth_date s k)).
Proof. exact total_month_shape. Qed.
Print Assumptions C05_total_month_shape.

Theorem C05_total_enums :
  (forall m, Total (Month_name m) /\ Total (Month_short_name m) /\ Total (Month_number m) /\ Total (Month_number0 m) /\ Total (Month_pred m) /\ Total (Month_succ m)) /\
  (forall w, Total (Weekday_name w) /\ Total (Weekday_short_name w) /\ Total (Weekday_number w) /\ Total (Weekday_number0 w) /\ Total (Weekday_pred w) /\ Total (Weekday_succ w)) /\
  (forall k, Total (YearKind_is_common k) /\ Total (YearKind_is_leap k) /\ Total (YearKind_is_reform k) /\ Total (YearKind_is_skipped k)).
Proof. exact total_enums. Qed.
Print Assumptions C05_total_enums.

(* non-vacuity: the calls that panicked or overflowed before the repairs (defects D1, D4, D5) now return *)
Example C05_ex :
  (exists d, Calendar_at_jdn (cal_of (CR 2299664)) 2299969 = Ret d) /\
  (exists s, Calendar_month_shape Calendar_REFORM1582 1582 Month_October = Ret (Some s) /\ MonthShape_nth_day s 4294967295 = Ret None) /\
  (exists s, Calendar_month_shape Calendar_GREGORIAN 5874898 Month_June = Ret (Some s) /\ MonthShape_nth_date s 4 = Ret None).
Proof. repeat split; repeat eexists; vm_compute; reflexivity. Qed.
