(* C06 — Every date the API hands out is the calendar's canonical date for its JDN. *)
From JV Require Import Sem Gen Spec SpecX.
From JV.Hand Require Import Names Text Order Iter Sys Interop.
From JV.Proofs Require Import SpecFacts Cal Core CoreOrder Canon AtJdn InteropProofs IterCore Canon2.
Import ListNotations.
Require JV.Proofs.Glue_C06_core.
Open Scope Z_scope.

(* Canonical d: d is, field for field, the value Calendar::at_jdn returns for d's own calendar and day number *)
Theorem C06_canonical_meaning : forall d, Canonical d ->
  WfCal (Date_f_calendar d) /\ in_i32 (Date_f_jdn d) /\ Calendar_at_jdn (Date_f_calendar d) (Date_f_jdn d) = Ret d.
Proof. exact JV.Proofs.Glue_C06_core.C06_canonical_meaning_lemma. Qed.
Print Assumptions C06_canonical_meaning.

(* producers *)
Theorem C06_producers_canonical : forall c, ValidCal c ->
  (forall j, in_i32 j -> exists d, Calendar_at_jdn (cal_of c) j = Ret d /\ Canonical d) /\
  (forall y m d, in_i32 y -> in_u32 d -> exists r, Calendar_at_ymd (cal_of c) y m d = Ret r /\ forall x, r = Ok x -> Canonical x /\ Date_f_calendar x = cal_of c) /\
  (forall y o, in_i32 y -> in_u32 o -> exists r, Calendar_at_ordinal_date (cal_of c) y o = Ret r /\ forall x, r = Ok x -> Canonical x /\ Date_f_calendar x = cal_of c) /\
  (forall t, in_i64 t -> exists r, Calendar_at_unix_time (cal_of c) t = Ret r /\ forall x s, r = Ok (x, s) -> Canonical x) /\
  (exists a b, Calendar_last_julian_date (cal_of c) = Ret a /\ Calendar_first_gregorian_date (cal_of c) = Ret b /\
     (forall x, a = Some x -> Canonical x) /\ (forall x, b = Some x -> Canonical x)) /\
  (forall y m k s, in_i32 y -> in_u32 k -> Calendar_month_shape (cal_of c) y m = Ret (Some s) ->
     exists r, MonthShape_nth_date s k = Ret r /\ forall x, r = Some x -> Canonical x /\ Date_f_calendar x = cal_of c) /\
  (forall s, exists r, parse_date (cal_of c) s = Ret r /\ forall x, r = Ok x -> Canonical x /\ Date_f_calendar x = cal_of c).
Proof. exact JV.Proofs.Glue_C06_core.C06_producers_canonical_lemma. Qed.
Print Assumptions C06_producers_canonical.

(* steps *)
Theorem C06_steps_preserve : forall d, Canonical d ->
  (exists a b, Date_succ d = Ret a /\ Date_pred d = Ret b /\
     (forall x, a = Some x -> Canonical x /\ Date_f_calendar x = Date_f_calendar d /\ Date_f_jdn x = Date_f_jdn d + 1) /\
     (forall x, b = Some x -> Canonical x /\ Date_f_calendar x = Date_f_calendar d /\ Date_f_jdn x = Date_f_jdn d - 1)) /\
  (forall c', ValidCal c' -> exists x, Date_convert_to d (cal_of c') = Ret x /\ Canonical x /\ Date_f_jdn x = Date_f_jdn d /\ Date_f_calendar x = cal_of c') /\
  (exists t1 t2, show_date d = Ret t1 /\ show_date_alt d = Ret t2 /\
     parse_date (Date_f_calendar d) t1 = Ret (Ok d) /\ parse_date (Date_f_calendar d) t2 = Ret (Ok d)).
Proof. exact JV.Proofs.Glue_C06_core.C06_steps_preserve_lemma. Qed.
Print Assumptions C06_steps_preserve.

(* every finite history of operations (succ, pred, convert_to, month nth_date, rebuild from y/m/d, rebuild
   from y/ordinal, print and re-parse in either form) from a canonical date ends in a canonical date; no bound on
   the length *)
Theorem C06_histories : forall ops d, Canonical d -> Forall hop_ok ops -> exists d', hrun d ops = Ret d' /\ Canonical d'.
Proof. exact histories_canonical. Qed.
Print Assumptions C06_histories.

(* consequently: two dates of one calendar are equal exactly when their day numbers are; ==, cmp and hash agree *)
Theorem C06_eq_iff_jdn : forall c j j', ValidCal c -> in_i32 j -> in_i32 j' -> (date_of c j = date_of c j' <-> j = j').
Proof. exact JV.Proofs.Glue_C06_core.C06_eq_iff_jdn_lemma. Qed.
Print Assumptions C06_eq_iff_jdn.
Theorem C06_cmp_eq_hash : forall c c' j j', ValidCal c -> ValidCal c' -> in_i32 j -> in_i32 j' ->
  (date_eq (date_of c j) (date_of c' j') = true <-> date_cmp (date_of c j) (date_of c' j') = Eq) /\
  (date_cmp (date_of c j) (date_of c' j') = Eq -> date_hash (date_of c j) = date_hash (date_of c' j')) /\
  (date_cmp (date_of c j) (date_of c' j') = Eq <-> date_of c j = date_of c' j') /\
  (date_cmp (date_of c j) (date_of c' j') = Eq <-> (j = j' /\ cal_of c = cal_of c')).
Proof. exact date_coherent_canonical. Qed.
Print Assumptions C06_cmp_eq_hash.

(* non-vacuity: a history across the 1582 gap and back, through text and another calendar *)
Example C06_ex : exists d d', Calendar_at_jdn (cal_of (CR 2299161)) 2299160 = Ret d /\
  hrun d [HSucc; HText; HConvert CJ; HPred; HConvert (CR 2299161); HOrd; HNth 5; HTextAlt] = Ret d' /\ Date_f_jdn d' = 2299161 /\ Date_f_day d' = 15.
Proof. eexists _, _. split; [vm_compute; reflexivity|]. split; [vm_compute; reflexivity|split; reflexivity]. Qed.

(* ---- the producers and steps that are not const fn (hand models): system time, chrono / time, iterator items *)
Theorem C06_other_producers : forall c, ValidCal c ->
  (forall before secs nanos, 0 <= secs -> 0 <= nanos < nanos_per_sec ->
     exists r, at_system_time_model (cal_of c) before secs nanos = Ret r /\ forall x s, r = Ok (x, s) -> Canonical x) /\
  (forall ymin ymax f, RangeOk ymin ymax -> f_valid ymin ymax f = true ->
     exists d, from_foreign f = Ret d /\ Canonical d /\ Date_f_calendar d = cal_of CG) /\
  (forall j x, day_or_none c j = Some x -> Canonical x /\ Date_f_jdn x = j /\ Date_f_calendar x = cal_of c) /\
  (forall y m, 0 < month_count c y (Month_discr m) -> Forall (fun x => Canonical x /\ Date_f_calendar x = cal_of c) (dates_list c y m)).
Proof. exact JV.Proofs.Glue_C06_core.C06_other_producers_lemma. Qed.
Print Assumptions C06_other_producers.

(* histories over the enlarged operation set: everything of C06_histories, plus a trip through chrono::NaiveDate or
   time::Date and back (absent when out of the foreign range), plus taking the n-th item of later() / and_later()
   / earlier() / and_earlier() started at the current date; any length *)
Theorem C06_histories_all : forall ops d, Canonical d -> Forall xop_ok ops -> exists d', xrun d ops = Ret d' /\ Canonical d'.
Proof. exact xhistories_canonical. Qed.
Print Assumptions C06_histories_all.

Example C06_all_ex : exists d d', Calendar_at_jdn (cal_of (CR 2299161)) 2299160 = Ret d /\
  xrun d [XLater 0; XBase HText; XChrono; XEarlier 1; XBase (HConvert CJ); XTime; XAndLater 3] = Ret d' /\
  Date_f_jdn d' = 2299162 /\ Date_f_calendar d' = cal_of CG.
Proof. eexists _, _. split; [vm_compute; reflexivity|]. split; [vm_compute; reflexivity|split; reflexivity]. Qed.
