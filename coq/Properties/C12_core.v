(* C12 — Reforming calendars exist for exactly the documented reformation days. *)
From JV Require Import Sem Gen Spec SpecX.
From JV.Proofs Require Import SpecFacts Cal Core Reform Boundary.
Require JV.Proofs.Glue_C12_core.
Open Scope Z_scope.

(* reforming_spec (Reform.v): InvalidReformation below 1830692, Arithmetic above 2147439588, otherwise
   Ok of the calendar value described from the specification — for every one of the 2^32 candidate days *)
Theorem C12_accepts_exactly : forall r, in_i32 r -> Calendar_reforming r = Ret (reforming_spec r).
Proof. exact reforming_ok. Qed.
Print Assumptions C12_accepts_exactly.
Theorem C12_spec_meaning : forall r,
  (r < 1830692 -> reforming_spec r = Err ReformingError_InvalidReformation) /\
  (2147439588 < r -> reforming_spec r = Err ReformingError_Arithmetic) /\
  (ValidR r -> reforming_spec r = Ok (cal_of (CR r))).
Proof. exact JV.Proofs.Glue_C12_core.C12_spec_meaning_lemma. Qed.
Print Assumptions C12_spec_meaning.

Theorem C12_observers : forall c,
  Calendar_reformation (cal_of c) = Ret (match c with CR r => Some r | _ => None end) /\
  Calendar_is_reforming (cal_of c) = Ret (match c with CR _ => true | _ => false end) /\
  Calendar_is_proleptic (cal_of c) = Ret (match c with CR _ => false | _ => true end).
Proof. exact observers_ok. Qed.
Print Assumptions C12_observers.

(* the built-in 1582 calendar is, as a record (private gap included), the one constructed for day 2299161 *)
Theorem C12_reform1582_literal : Calendar_reforming REFORM1582_JDN = Ret (Ok Calendar_REFORM1582) /\ Calendar_REFORM1582 = cal_of (CR 2299161).
Proof. exact JV.Proofs.Glue_C12_core.C12_reform1582_literal_lemma. Qed.
Print Assumptions C12_reform1582_literal.

(* every per-country constant is an accepted reformation day *)
Theorem C12_ncal_valid :
  Forall ValidR [ncal_ALBANIA; ncal_AUSTRIA; ncal_AUSTRALIA; ncal_BELGIUM; ncal_BULGARIA; ncal_CANADA; ncal_SWITZERLAND; ncal_CHINA;
    ncal_CZECH_REPUBLIC; ncal_GERMANY; ncal_DENMARK; ncal_SPAIN; ncal_FINLAND; ncal_FRANCE; ncal_UNITED_KINGDOM; ncal_GREECE;
    ncal_HUNGARY; ncal_ICELAND; ncal_ITALY; ncal_JAPAN; ncal_LITHUANIA; ncal_LUXEMBOURG; ncal_LATVIA; ncal_NETHERLANDS; ncal_NORWAY;
    ncal_POLAND; ncal_PORTUGAL; ncal_ROMANIA; ncal_RUSSIA; ncal_SLOVENIA; ncal_SWEDEN; ncal_TURKEY; ncal_UNITED_STATES; ncal_YUGOSLAVIA].
Proof. exact JV.Proofs.Glue_C12_core.C12_ncal_valid_lemma. Qed.
Print Assumptions C12_ncal_valid.

(* months are wholly skipped only from 3145930 on, whole years only from 19582149 on (and they are, there) *)
Theorem C12_month_skip_threshold : forall r y m, 1 <= m <= 12 -> month_count (CR r) y m = 0 -> 3145930 <= r.
Proof. exact month_skip_threshold. Qed.
Print Assumptions C12_month_skip_threshold.
Theorem C12_year_skip_threshold : forall r y, year_count (CR r) y = 0 -> 19582149 <= r.
Proof. exact year_skip_threshold. Qed.
Print Assumptions C12_year_skip_threshold.
Example C12_thresholds_attained : month_count (CR 3145930) 3901 2 = 0 /\ year_count (CR 19582149) 48901 = 0 /\ ValidR 3145930 /\ ValidR 19582149.
Proof. repeat split; vm_compute; try reflexivity; discriminate. Qed.
Example C12_ends : reforming_spec 1830691 = Err ReformingError_InvalidReformation /\ (exists k, reforming_spec 1830692 = Ok k) /\
  (exists k, reforming_spec 2147439588 = Ok k) /\ reforming_spec 2147439589 = Err ReformingError_Arithmetic /\
  reforming_spec (-2147483643) = Err ReformingError_InvalidReformation.
Proof. repeat split; try eexists; reflexivity. Qed.
