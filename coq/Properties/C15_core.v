(* C15 — Weekdays follow the seven-day cycle anchored to known days (names and numbers are in C15_names.v). *)
From JV Require Import Sem Gen Spec SpecX.
From JV.Proofs Require Import SpecFacts Cal Core Inner Boundary AtJdn.
Open Scope Z_scope.

Theorem C15_cycle : forall j, in_i32 j ->
  exists w, Weekday_for_jdn j = Ret w /\ Weekday_discr w = j mod 7 + 1 /\ Weekday_number w = Ret (j mod 7 + 1).
Proof.
  intros j H. exists (weekday_of_number (j mod 7 + 1)). split; [apply for_jdn_ok; exact H|].
  assert (1 <= j mod 7 + 1 <= 7) by (pose proof (Z.mod_pos_bound j 7 ltac:(lia)); lia).
  split; [apply weekday_number_of; assumption|unfold Weekday_number; rewrite weekday_number_of by assumption; reflexivity].
Qed.
Print Assumptions C15_cycle.
(* Monday exactly when j = 0 (mod 7); one weekday later per day *)
Theorem C15_monday_and_successor : forall j, in_i32 j -> in_i32 (j + 1) ->
  exists w w', Weekday_for_jdn j = Ret w /\ Weekday_for_jdn (j + 1) = Ret w' /\
    (w = Weekday_Monday <-> j mod 7 = 0) /\ Weekday_discr w' = Weekday_discr w mod 7 + 1.
Proof.
  intros j H H'. exists (weekday_of_number (j mod 7 + 1)), (weekday_of_number ((j + 1) mod 7 + 1)).
  split; [apply for_jdn_ok; exact H|]. split; [apply for_jdn_ok; exact H'|].
  pose proof (Z.mod_pos_bound j 7 ltac:(lia)). pose proof (Z.mod_pos_bound (j + 1) 7 ltac:(lia)).
  rewrite !weekday_number_of by lia. split.
  - split; intros X.
    + apply (f_equal Weekday_discr) in X. rewrite weekday_number_of in X by lia. cbn in X. lia.
    + replace (j mod 7 + 1) with 1 by lia. reflexivity.
  - assert ((j + 1) mod 7 = (j mod 7 + 1) mod 7) by (rewrite Z.add_mod_idemp_l by lia; reflexivity). lia.
Qed.
Print Assumptions C15_monday_and_successor.
Theorem C15_anchor : Weekday_for_jdn 2460066 = Ret Weekday_Monday /\ Weekday_for_jdn 0 = Ret Weekday_Monday /\ Weekday_for_jdn (-1) = Ret Weekday_Sunday.
Proof. repeat split; vm_compute; reflexivity. Qed.
Print Assumptions C15_anchor.
(* a date's weekday depends only on its day number, never on the calendar *)
Theorem C15_calendar_independent : forall c c' j, ValidCal c -> ValidCal c' -> in_i32 j ->
  exists d d', Calendar_at_jdn (cal_of c) j = Ret d /\ Calendar_at_jdn (cal_of c') j = Ret d' /\ Date_weekday d = Date_weekday d' /\ Date_weekday d = Weekday_for_jdn j.
Proof.
  intros c c' j V V' H. exists (date_of c j), (date_of c' j). split; [apply at_jdn_ok; assumption|]. split; [apply at_jdn_ok; assumption|].
  rewrite !weekday_ok by exact H. rewrite for_jdn_ok by exact H. split; reflexivity.
Qed.
Print Assumptions C15_calendar_independent.
