(* C15 — Weekdays follow the seven-day cycle anchored to known days (names and numbers are in C15_names.v). *)
From JV Require Import Sem Gen Spec SpecX.
From JV.Proofs Require Import SpecFacts Cal Core Inner Boundary AtJdn.
Require JV.Proofs.Enums.
Require JV.Proofs.Glue_C15_core.
Open Scope Z_scope.

Theorem C15_cycle : forall j, in_i32 j ->
  exists w, Weekday_for_jdn j = Ret w /\ Weekday_discr w = j mod 7 + 1 /\ Weekday_number w = Ret (j mod 7 + 1).
Proof. exact JV.Proofs.Glue_C15_core.C15_cycle_lemma. Qed.
Print Assumptions C15_cycle.
(* Monday exactly when j = 0 (mod 7); one weekday later per day *)
Theorem C15_monday_and_successor : forall j, in_i32 j -> in_i32 (j + 1) ->
  exists w w', Weekday_for_jdn j = Ret w /\ Weekday_for_jdn (j + 1) = Ret w' /\
    (w = Weekday_Monday <-> j mod 7 = 0) /\ Weekday_discr w' = Weekday_discr w mod 7 + 1.
Proof. exact JV.Proofs.Glue_C15_core.C15_monday_and_successor_lemma. Qed.
Print Assumptions C15_monday_and_successor.
Theorem C15_anchor : Weekday_for_jdn 2460066 = Ret Weekday_Monday /\ Weekday_for_jdn 0 = Ret Weekday_Monday /\ Weekday_for_jdn (-1) = Ret Weekday_Sunday.
Proof. exact JV.Proofs.Glue_C15_core.C15_anchor_lemma. Qed.
Print Assumptions C15_anchor.
(* a date's weekday depends only on its day number, never on the calendar *)
Theorem C15_calendar_independent : forall c c' j, ValidCal c -> ValidCal c' -> in_i32 j ->
  exists d d', Calendar_at_jdn (cal_of c) j = Ret d /\ Calendar_at_jdn (cal_of c') j = Ret d' /\ Date_weekday d = Date_weekday d' /\ Date_weekday d = Weekday_for_jdn j.
Proof. exact JV.Proofs.Glue_C15_core.C15_calendar_independent_lemma. Qed.
Print Assumptions C15_calendar_independent.

(* numbers, successors and predecessors of the two enums: Monday = 1 ... Sunday = 7, January = 1 ... December = 12;
   number0 is one less; succ / pred move by one and are absent exactly at the ends; the number determines the value *)
Theorem C15_enum_numbers :
  (forall w, List.In w JV.Proofs.Enums.all_weekdays) /\ (forall m, List.In m JV.Proofs.Enums.all_months_list) /\
  JV.Proofs.Enums.mapM_numbers Weekday_number JV.Proofs.Enums.all_weekdays = Ret (1 :: 2 :: 3 :: 4 :: 5 :: 6 :: 7 :: nil) /\
  JV.Proofs.Enums.mapM_numbers Month_number JV.Proofs.Enums.all_months_list = Ret (1 :: 2 :: 3 :: 4 :: 5 :: 6 :: 7 :: 8 :: 9 :: 10 :: 11 :: 12 :: nil).
Proof. exact JV.Proofs.Enums.enum_numbers. Qed.
Print Assumptions C15_enum_numbers.
Theorem C15_weekday_steps : forall w,
  Weekday_number w = Ret (Weekday_discr w) /\ 1 <= Weekday_discr w <= 7 /\
  Weekday_number0 w = Ret (Weekday_discr w - 1) /\
  Weekday_succ w = Ret (if Weekday_discr w =? 7 then None else Some (weekday_of_number (Weekday_discr w + 1))) /\
  Weekday_pred w = Ret (if Weekday_discr w =? 1 then None else Some (weekday_of_number (Weekday_discr w - 1))) /\
  weekday_of_number (Weekday_discr w) = w.
Proof. exact JV.Proofs.Enums.weekday_steps. Qed.
Print Assumptions C15_weekday_steps.
Theorem C15_month_steps : forall m,
  Month_number m = Ret (Month_discr m) /\ 1 <= Month_discr m <= 12 /\
  Month_number0 m = Ret (Month_discr m - 1) /\
  Month_succ m = Ret (if Month_discr m =? 12 then None else Some (month_of_Z (Month_discr m + 1))) /\
  Month_pred m = Ret (if Month_discr m =? 1 then None else Some (month_of_Z (Month_discr m - 1))) /\
  month_of_Z (Month_discr m) = m.
Proof. exact JV.Proofs.Enums.month_steps. Qed.
Print Assumptions C15_month_steps.
(* every observer of a month / weekday value against the specification's tables (names, abbreviations, numbers,
   neighbours): SpecX.month_names_spec, weekday_names_spec, enum_q_spec *)
Theorem C15_month_table : forall m,
  (a <- Month_name m;; b <- Month_short_name m;; n <- Month_number m;; n0 <- Month_number0 m;;
   p <- Month_pred m;; p' <- JV.Proofs.Enums.omapM Month_number p;; s <- Month_succ m;; s' <- JV.Proofs.Enums.omapM Month_number s;; Ret (Some (a, b, n, n0, p', s')))
  = Ret (enum_q_spec month_names_spec (Month_discr m)).
Proof. exact JV.Proofs.Enums.month_q_ok. Qed.
Print Assumptions C15_month_table.
Theorem C15_weekday_table : forall w,
  (a <- Weekday_name w;; b <- Weekday_short_name w;; n <- Weekday_number w;; n0 <- Weekday_number0 w;;
   p <- Weekday_pred w;; p' <- JV.Proofs.Enums.omapM Weekday_number p;; s <- Weekday_succ w;; s' <- JV.Proofs.Enums.omapM Weekday_number s;; Ret (Some (a, b, n, n0, p', s')))
  = Ret (enum_q_spec weekday_names_spec (Weekday_discr w)).
Proof. exact JV.Proofs.Enums.weekday_q_ok. Qed.
Print Assumptions C15_weekday_table.
