(* C14 — Unix timestamps map to the right day and second (the system-clock part is in C14_sys.v). *)
From JV Require Import Sem Gen Spec SpecX.
From JV.Proofs Require Import SpecFacts Cal Core Inner Boundary.
Require JV.Proofs.Glue_C14_core.
Open Scope Z_scope.
Ltac Zify.zify_post_hook ::= Z.to_euclidean_division_equations.

Theorem C14_unix2jdn : forall t, in_i64 t ->
  unix2jdn t = Ret (if in_i32b (t / 86400 + 2440588) then Ok (t / 86400 + 2440588, t mod 86400) else Err mkArithmeticError).
Proof. exact unix2jdn_ok. Qed.
Print Assumptions C14_unix2jdn.
(* the day number fits in 32 bits exactly for the documented range of timestamps *)
Theorem C14_range : forall t, in_i32b (t / 86400 + 2440588) = true <-> -185753453990400 <= t <= 185331720383999.
Proof. exact JV.Proofs.Glue_C14_core.C14_range_lemma. Qed.
Print Assumptions C14_range.
Theorem C14_jdn2unix_midnight : forall j, in_i32 j ->
  jdn2unix j = Ret ((j - 2440588) * 86400) /\ unix2jdn ((j - 2440588) * 86400) = Ret (Ok (j, 0)).
Proof. exact JV.Proofs.Glue_C14_core.C14_jdn2unix_midnight_lemma. Qed.
Print Assumptions C14_jdn2unix_midnight.
Theorem C14_at_unix_time : forall c t, ValidCal c -> in_i64 t ->
  Calendar_at_unix_time (cal_of c) t =
  Ret (if in_i32b (t / 86400 + 2440588) then Ok (date_of c (t / 86400 + 2440588), t mod 86400) else Err mkArithmeticError) /\
  (in_i32 (t / 86400 + 2440588) -> Calendar_at_jdn (cal_of c) (t / 86400 + 2440588) = Ret (date_of c (t / 86400 + 2440588))).
Proof. exact JV.Proofs.Glue_C14_core.C14_at_unix_time_lemma. Qed.
Print Assumptions C14_at_unix_time.
Example C14_ex : unix2jdn 1682906621 = Ret (Ok (2460066, 7421)) /\ unix2jdn (-1) = Ret (Ok (2440587, 86399)) /\
  unix2jdn 185331720384000 = Ret (Err mkArithmeticError) /\ unix2jdn (-185753453990401) = Ret (Err mkArithmeticError).
Proof. repeat split; vm_compute; reflexivity. Qed.
