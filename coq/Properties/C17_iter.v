(* C17 — iterators Days / Dates / MonthIter are double-ended, exact-size and fused, for operation sequences of
   ANY length.  Models: Hand/Iter.v; proofs: Proofs/IterProofs.v.
   Vocabulary (IterProofs): [ri_abs r] = the integers a RangeInclusive still has to yield; [ri_wf hi r] = its
   bounds are values of the element type while items remain; [deque_run ops L] = the outputs of the reference
   double-ended queue over the item list L; [deque_ok L outs] = partition / exact len / fused (see there). *)
From JV Require Import Sem Gen Spec SpecX.
From JV.Hand Require Import Iter.
From JV.Proofs Require Import IterProofs IterCore.
Import List ListNotations.
Open Scope Z_scope.

(* core::ops::RangeInclusive<uN> (N < 64) refines a deque of start..=end; no overflow, also at uN::MAX *)
Theorem C17_range_refines_deque : forall hi r, ri_wf hi r ->
  (exists r', ri_next hi r = Ret (hd_error (ri_abs r), r') /\ ri_abs r' = tl (ri_abs r) /\ ri_wf hi r') /\
  (exists r', ri_next_back hi r = Ret (last_opt (ri_abs r), r') /\ ri_abs r' = removelast (ri_abs r) /\ ri_wf hi r') /\
  (hi < usize_max -> ri_len r = Ret (Z.of_nat (length (ri_abs r)))) /\
  (ri_abs r = [] -> ri_next hi r = Ret (None, r) /\ ri_next_back hi r = Ret (None, r)).
Proof. exact range_refines_deque. Qed.
Print Assumptions C17_range_refines_deque.

Example C17_range_refines_deque_nonvacuous :
  ri_wf u32_max (mkRange 4294967295 4294967295 false) /\
  ri_next u32_max (mkRange 4294967295 4294967295 false) = Ret (Some 4294967295, mkRange 4294967295 4294967295 true) /\
  ri_next u32_max (mkRange 4294967295 4294967295 true) = Ret (None, mkRange 4294967295 4294967295 true) /\
  ri_next_back u32_max (mkRange 0 0 false) = Ret (Some 0, mkRange 0 0 true) /\
  ri_len (mkRange 0 4294967295 false) = Ret 4294967296.
Proof. exact ex_range_at_max. Qed.

(* what the reference machine guarantees, for every operation sequence and item list:
   (1) front items ++ untouched middle ++ reverse of back items = L;
   (2) each len answer = |L| - number of items yielded before it;
   (3) a None answer occurs only after all |L| items were yielded, and every later answer is None / 0 *)
Theorem C17_deque_ok : forall (A : Type) (ops : list itop) (L : list A),
  (exists mid, L = fronts (deque_run ops L) ++ mid ++ rev (backs (deque_run ops L))) /\
  (forall pre n post, deque_run ops L = pre ++ OutLen n :: post ->
     n = Z.of_nat (length L) - Z.of_nat (yielded pre)) /\
  (forall pre o post, deque_run ops L = pre ++ o :: post -> out_none o ->
     yielded pre = length L /\ Forall out_empty post).
Proof. exact (@deque_run_ok). Qed.
Print Assumptions C17_deque_ok.

(* Days: for ANY month shape whose days 1..n exist (hypotheses discharged by the core theorems) *)
Theorem C17_days : forall s n,
  MonthShape_len s = Ret n -> n <= u32_max ->
  (forall k, 1 <= k <= n -> exists d, MonthShape_nth_day s k = Ret (Some d)) ->
  exists L, Forall2 (fun k d => MonthShape_nth_day s k = Ret (Some d)) (ri_seq 1 (Z.to_nat n)) L /\
    forall ops, days_run ops s = Ret (deque_run ops L) /\ deque_ok L (deque_run ops L).
Proof. exact days_spec. Qed.
Print Assumptions C17_days.

Example C17_days_nonvacuous :
  Calendar_month_shape Calendar_REFORM1582 1582 Month_October = Ret (Some ex_oct1582) /\
  MonthShape_len ex_oct1582 = Ret 21 /\ 21 <= u32_max /\
  (forall k, 1 <= k <= 21 -> exists d, MonthShape_nth_day ex_oct1582 k = Ret (Some d)).
Proof. exact ex_days_hyps. Qed.
Example C17_days_run_example :
  days_run [OpLen; OpNext; OpNextBack; OpNext; OpNext; OpNext; OpNext; OpLen] ex_oct1582 =
  Ret [OutLen 21; OutFront (Some 1); OutBack (Some 31); OutFront (Some 2); OutFront (Some 3); OutFront (Some 4);
       OutFront (Some 15); OutLen 15].
Proof. exact ex_days_run. Qed.

(* MonthIter: January..December, unconditionally *)
Theorem C17_months : forall ops,
  months_run ops = Ret (deque_run ops all_months) /\ deque_ok all_months (deque_run ops all_months).
Proof. exact months_spec. Qed.
Print Assumptions C17_months.

(* Dates: over the trimmed range.  Hypotheses (discharged by the core theorems): among the day ordinals 1..n of
   the month, exactly those in a..b have a Date (a..b is written (n+1)..n when there is none). *)
Theorem C17_dates : forall s n a b,
  n < u32_max -> 1 <= a -> b <= n -> (a <= b \/ (a = n + 1 /\ b = n)) ->
  (forall k, a <= k <= b -> exists d, MonthShape_nth_date s k = Ret (Some d)) ->
  (forall k, 1 <= k < a \/ b < k <= n -> MonthShape_nth_date s k = Ret None) ->
  MonthShape_len s = Ret n ->
  exists L, Forall2 (fun k d => MonthShape_nth_date s k = Ret (Some d)) (ri_seq a (Z.to_nat (b - a + 1))) L /\
    forall ops, dates_run ops s = Ret (deque_run ops L) /\ deque_ok L (deque_run ops L).
Proof. exact dates_spec_sec. Qed.
Print Assumptions C17_dates.

(* the loops of Dates::new end (no Panic from fuel exhaustion or overflow) with the range a..=b *)
Theorem C17_dates_new : forall s n a b,
  n < u32_max -> 1 <= a -> b <= n -> (a <= b \/ (a = n + 1 /\ b = n)) ->
  (forall k, a <= k <= b -> exists d, MonthShape_nth_date s k = Ret (Some d)) ->
  (forall k, 1 <= k < a \/ b < k <= n -> MonthShape_nth_date s k = Ret None) ->
  MonthShape_len s = Ret n -> dates_new s = Ret (mkDates s (mkRange a b false)).
Proof. exact dates_new_spec. Qed.
Print Assumptions C17_dates_new.

Example C17_dates_nonvacuous :
  Calendar_month_shape Calendar_JULIAN (-5884202) Month_March = Ret (Some ex_first_month) /\
  MonthShape_len ex_first_month = Ret 31 /\ 31 < u32_max /\ 1 <= 16 /\ 31 <= 31 /\ (16 <= 31 \/ (16 = 31 + 1 /\ 31 = 31)) /\
  (forall k, 16 <= k <= 31 -> exists d, MonthShape_nth_date ex_first_month k = Ret (Some d)) /\
  (forall k, 1 <= k < 16 \/ 31 < k <= 31 -> MonthShape_nth_date ex_first_month k = Ret None).
Proof. exact ex_dates_hyps. Qed.

(* ---- the same with the hypotheses discharged by the core development: for EVERY calendar a user can hold, EVERY
   32-bit year and EVERY month whose shape is present, and EVERY operation sequence.
   [days_list c y m]  = the existing days of the month, ascending;
   [dates_list c y m] = the calendar's dates for those days whose day number is a 32-bit number, ascending
                        ([month_base c y m] is the day number of the month's first date). *)
Theorem C17_days_all : forall c y m s, ValidCal c -> in_i32 y -> Calendar_month_shape (cal_of c) y m = Ret (Some s) ->
  forall ops, days_run ops s = Ret (deque_run ops (days_list c y m)) /\ deque_ok (days_list c y m) (deque_run ops (days_list c y m)).
Proof. exact days_all. Qed.
Print Assumptions C17_days_all.

Theorem C17_dates_all : forall c y m s, ValidCal c -> in_i32 y -> Calendar_month_shape (cal_of c) y m = Ret (Some s) ->
  forall ops, dates_run ops s = Ret (deque_run ops (dates_list c y m)) /\ deque_ok (dates_list c y m) (deque_run ops (dates_list c y m)).
Proof. exact dates_all. Qed.
Print Assumptions C17_dates_all.

Theorem C17_dates_new_all : forall c y m s, ValidCal c -> in_i32 y -> Calendar_month_shape (cal_of c) y m = Ret (Some s) ->
  dates_new s = Ret (mkDates s (mkRange (dates_lo c y m) (dates_hi c y m) false)).
Proof. exact dates_new_all. Qed.
Print Assumptions C17_dates_new_all.

Theorem C17_days_list_meaning : forall c y m, ValidCal c -> 0 < month_count c y (Month_discr m) ->
  (forall d, In d (days_list c y m) <-> InCal c y (Month_discr m) d) /\
  (forall i k, nth_error (days_list c y m) i = Some k -> forall i' k', nth_error (days_list c y m) i' = Some k' -> (i < i')%nat -> k < k') /\
  Z.of_nat (length (days_list c y m)) = month_count c y (Month_discr m).
Proof. exact days_list_meaning. Qed.
Print Assumptions C17_days_list_meaning.

Theorem C17_dates_list_meaning : forall c y m, ValidCal c -> 0 < month_count c y (Month_discr m) ->
  forall x, In x (dates_list c y m) <->
    exists k, 1 <= k <= month_count c y (Month_discr m) /\ in_i32 (month_base c y m + k - 1) /\ x = date_of c (month_base c y m + k - 1).
Proof. exact dates_list_meaning. Qed.
Print Assumptions C17_dates_list_meaning.

(* October 1582: 21 days, 1..4 then 15..31; the first month of the supported range keeps only its last 16 days *)
Example C17_all_ex :
  days_list (CR 2299161) 1582 Month_October = [1; 2; 3; 4; 15; 16; 17; 18; 19; 20; 21; 22; 23; 24; 25; 26; 27; 28; 29; 30; 31] /\
  map Date_f_day (dates_list CJ (-5884202) Month_March) = [16; 17; 18; 19; 20; 21; 22; 23; 24; 25; 26; 27; 28; 29; 30; 31] /\
  month_base CJ (-5884202) Month_March + 16 - 1 = -2147483648.
Proof. repeat split; vm_compute; reflexivity. Qed.
