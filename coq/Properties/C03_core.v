(* C03 — A reforming calendar is Julian before the reformation, Gregorian from it on. *)
From JV Require Import Sem Gen Spec SpecX.
From JV.Proofs Require Import SpecFacts Cal Core AtJdn Boundary.
Require JV.Proofs.Glue_C03_core.
Open Scope Z_scope.

(* every day below r carries its proleptic-Julian label and is Old Style; every day from r on carries its
   proleptic-Gregorian label and is New Style *)
Theorem C03_julian_before_gregorian_from : forall r j, ValidR r -> in_i32 j ->
  exists d, Calendar_at_jdn (cal_of (CR r)) j = Ret d /\
    (Date_f_year d, Month_discr (Date_f_month d), Date_f_day d) = (if j <? r then jlabel j else glabel j) /\
    Date_is_julian d = Ret (j <? r) /\ Date_is_gregorian d = Ret (negb (j <? r)).
Proof. exact JV.Proofs.Glue_C03_core.C03_julian_before_gregorian_from_lemma. Qed.
Print Assumptions C03_julian_before_gregorian_from.

(* the advertised boundary dates are, as whole records, the dates of day r-1 and day r *)
Theorem C03_boundary_dates : forall r, ValidR r ->
  exists d1 d2, Calendar_at_jdn (cal_of (CR r)) (r - 1) = Ret d1 /\ Calendar_at_jdn (cal_of (CR r)) r = Ret d2 /\
    Calendar_last_julian_date (cal_of (CR r)) = Ret (Some d1) /\ Calendar_first_gregorian_date (cal_of (CR r)) = Ret (Some d2).
Proof. exact JV.Proofs.Glue_C03_core.C03_boundary_dates_lemma. Qed.
Print Assumptions C03_boundary_dates.
Theorem C03_proleptic_have_no_boundary :
  Calendar_last_julian_date Calendar_JULIAN = Ret None /\ Calendar_first_gregorian_date Calendar_JULIAN = Ret None /\
  Calendar_last_julian_date Calendar_GREGORIAN = Ret None /\ Calendar_first_gregorian_date Calendar_GREGORIAN = Ret None.
Proof. exact JV.Proofs.Glue_C03_core.C03_proleptic_have_no_boundary_lemma. Qed.
Print Assumptions C03_proleptic_have_no_boundary.

(* the calendar only ever skips forward *)
Theorem C03_skips_forward : forall r, ValidR r -> lex_lt (jlabel (r - 1)) (glabel r).
Proof. exact JV.Proofs.Glue_C03_core.C03_skips_forward_lemma. Qed.
Print Assumptions C03_skips_forward.

Theorem C03_convert_to : forall c c' j, ValidCal c -> ValidCal c' -> in_i32 j ->
  exists d d', Calendar_at_jdn (cal_of c) j = Ret d /\ Calendar_at_jdn (cal_of c') j = Ret d' /\ Date_convert_to d (cal_of c') = Ret d'.
Proof. exact JV.Proofs.Glue_C03_core.C03_convert_to_lemma. Qed.
Print Assumptions C03_convert_to.

Example C03_ex : ValidR 2299161 /\ jlabel 2299160 = (1582, 10, 4) /\ glabel 2299161 = (1582, 10, 15).
Proof. split; [cbv; intuition discriminate|split; reflexivity]. Qed.
