(* C03 — A reforming calendar is Julian before the reformation, Gregorian from it on. *)
From JV Require Import Sem Gen Spec SpecX.
From JV.Proofs Require Import SpecFacts Cal Core AtJdn Boundary.
Open Scope Z_scope.

(* every day below r carries its proleptic-Julian label and is Old Style; every day from r on carries its
   proleptic-Gregorian label and is New Style *)
Theorem C03_julian_before_gregorian_from : forall r j, ValidR r -> in_i32 j ->
  exists d, Calendar_at_jdn (cal_of (CR r)) j = Ret d /\
    (Date_f_year d, Month_discr (Date_f_month d), Date_f_day d) = (if j <? r then jlabel j else glabel j) /\
    Date_is_julian d = Ret (j <? r) /\ Date_is_gregorian d = Ret (negb (j <? r)).
Proof.
  intros r j V Hj. destruct (at_jdn_label (CR r) j V Hj) as (d & E & L & _).
  exists d. split; [exact E|]. split; [exact L|].
  rewrite (at_jdn_ok (CR r) j V Hj) in E. inversion E; subst d. split; [apply (is_julian_ok (CR r) j)|apply (is_gregorian_ok (CR r) j)].
Qed.
Print Assumptions C03_julian_before_gregorian_from.

(* the advertised boundary dates are, as whole records, the dates of day r-1 and day r *)
Theorem C03_boundary_dates : forall r, ValidR r ->
  exists d1 d2, Calendar_at_jdn (cal_of (CR r)) (r - 1) = Ret d1 /\ Calendar_at_jdn (cal_of (CR r)) r = Ret d2 /\
    Calendar_last_julian_date (cal_of (CR r)) = Ret (Some d1) /\ Calendar_first_gregorian_date (cal_of (CR r)) = Ret (Some d2).
Proof.
  intros r V. exists (date_of (CR r) (r - 1)), (date_of (CR r) r). unfold ValidR in V.
  split; [apply at_jdn_ok; [exact V|range]|]. split; [apply at_jdn_ok; [exact V|range]|].
  split; [exact (last_julian_date_ok (CR r) V)|exact (first_gregorian_date_ok (CR r) V)].
Qed.
Print Assumptions C03_boundary_dates.
Theorem C03_proleptic_have_no_boundary :
  Calendar_last_julian_date Calendar_JULIAN = Ret None /\ Calendar_first_gregorian_date Calendar_JULIAN = Ret None /\
  Calendar_last_julian_date Calendar_GREGORIAN = Ret None /\ Calendar_first_gregorian_date Calendar_GREGORIAN = Ret None.
Proof. repeat split; reflexivity. Qed.
Print Assumptions C03_proleptic_have_no_boundary.

(* the calendar only ever skips forward *)
Theorem C03_skips_forward : forall r, ValidR r -> lex_lt (jlabel (r - 1)) (glabel r).
Proof.
  intros r V. pose proof (skips_forward r V) as L. unfold lbl in L. cbn [is_old] in L.
  replace (r - 1 <? r) with true in L by lia. replace (r <? r) with false in L by lia. exact L.
Qed.
Print Assumptions C03_skips_forward.

Theorem C03_convert_to : forall c c' j, ValidCal c -> ValidCal c' -> in_i32 j ->
  exists d d', Calendar_at_jdn (cal_of c) j = Ret d /\ Calendar_at_jdn (cal_of c') j = Ret d' /\ Date_convert_to d (cal_of c') = Ret d'.
Proof.
  intros c c' j V V' Hj. exists (date_of c j), (date_of c' j).
  split; [apply at_jdn_ok; assumption|]. split; [apply at_jdn_ok; assumption|apply convert_to_ok; assumption].
Qed.
Print Assumptions C03_convert_to.

Example C03_ex : ValidR 2299161 /\ jlabel 2299160 = (1582, 10, 4) /\ glabel 2299161 = (1582, 10, 15).
Proof. split; [cbv; intuition discriminate|split; reflexivity]. Qed.
