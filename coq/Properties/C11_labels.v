(* C11 — Chronological order, label order and comparison operators all agree (core part: labels and
   ordinals increase with the day number; calendars that compare equal are identical; coherence of
   Eq / Ord / Hash on the dates a user can hold).  The order axioms of the two Ord impls are in C11_order.v. *)
From JV Require Import Sem Gen Spec SpecX.
From JV.Hand Require Import Order.
From JV.Proofs Require Import SpecFacts Cal Core CoreOrder SpecSets AtJdn.
Require JV.Proofs.Glue_C11_labels.
Open Scope Z_scope.

Theorem C11_labels_monotone : forall c j j', ValidCal c -> in_i32 j -> in_i32 j' -> j < j' ->
  exists d d', Calendar_at_jdn (cal_of c) j = Ret d /\ Calendar_at_jdn (cal_of c) j' = Ret d' /\
    lex_lt (Date_f_year d, Month_discr (Date_f_month d), Date_f_day d) (Date_f_year d', Month_discr (Date_f_month d'), Date_f_day d').
Proof. exact code_labels_monotone. Qed.
Print Assumptions C11_labels_monotone.
Theorem C11_spec_labels_monotone : forall c j j', ValidCal c -> j < j' -> lex_lt (lbl c j) (lbl c j').
Proof. exact lbl_mono. Qed.
Print Assumptions C11_spec_labels_monotone.
Theorem C11_year_ordinal_monotone : forall c j j', ValidCal c -> in_i32 j -> in_i32 j' -> j < j' ->
  exists d d', Calendar_at_jdn (cal_of c) j = Ret d /\ Calendar_at_jdn (cal_of c) j' = Ret d' /\
    (Date_f_year d < Date_f_year d' \/ (Date_f_year d = Date_f_year d' /\ Date_f_ordinal d < Date_f_ordinal d')).
Proof. exact JV.Proofs.Glue_C11_labels.C11_year_ordinal_monotone_lemma. Qed.
Print Assumptions C11_year_ordinal_monotone.

(* calendars that compare Equal are the same value, private gap record included *)
Theorem C11_calendar_eq_is_identity : forall c c', cal_eq (cal_of c) (cal_of c') = true -> cal_of c = cal_of c'.
Proof. exact cal_eq_identity. Qed.
Print Assumptions C11_calendar_eq_is_identity.

(* for the dates a user can hold: == iff cmp = Equal; Equal implies equal hash streams; Equal iff the two
   values are identical records, iff same day number and same calendar *)
Theorem C11_date_coherent_canonical : forall c c' j j', ValidCal c -> ValidCal c' -> in_i32 j -> in_i32 j' ->
  (date_eq (date_of c j) (date_of c' j') = true <-> date_cmp (date_of c j) (date_of c' j') = Eq) /\
  (date_cmp (date_of c j) (date_of c' j') = Eq -> date_hash (date_of c j) = date_hash (date_of c' j')) /\
  (date_cmp (date_of c j) (date_of c' j') = Eq <-> date_of c j = date_of c' j') /\
  (date_cmp (date_of c j) (date_of c' j') = Eq <-> (j = j' /\ cal_of c = cal_of c')).
Proof. exact date_coherent_canonical. Qed.
Print Assumptions C11_date_coherent_canonical.
