(* C20 — "With -J the command prints a single valid JSON document whose calendar object names the selected
   calendar (with its reformation day when reforming) and whose dates array has one object per argument, in
   order, carrying the day number, year, month, day, day of year and both display strings of the same date the
   text mode would report.  The old_style member is present exactly for reforming calendars and is true exactly
   for days before the reformation."

   JSON grammar (RFC 8259 over code points, minus lone-surrogate escapes): Hand/Json.v [json_text];
   expected value [jdoc] / [jcalendar] / [jdate]: Proofs/JsonProofs.v. *)
From JV Require Import Sem Gen.
From JV Require Import Hand.Text Hand.Lexopt Hand.Json Hand.Cli.
From JV Require Import Proofs.TextProofs Proofs.LexoptProofs Proofs.CliProofs Proofs.JsonProofs.
Require JV.Proofs.CliCore.
Open Scope Z_scope.

(* For every option set with -J, every calendar, and every list of arguments that all convert ([run_dates]: the
   dates [arg_date] of the arguments, or the current date when there is no argument — n = 0, 1, 2, >= 3 are all
   covered), the run succeeds, prints the header plus one object per date, and the bytes written to standard output
   form a JSON text denoting [jdoc calendar dates]:
     {"calendar": {"type": t [, "reformation": r]}, "dates": [ {julian_day_number, year, month, day, ordinal,
       display, ordinal_display [, old_style]}, ... ]}
   [date_ok]: the dates carry the selected calendar and non-negative (u32) day / ordinal fields — facts about
   `at_jdn` / `parse_date` left to the core development. *)
Theorem C20_wellformed :
  forall o now args ds,
    o_json o = true -> run_dates o now args ds -> Forall (date_ok (o_calendar o)) ds ->
    exists lines, options_run o now args = Ret (Ok lines) /\
                  List.length lines = S (List.length ds) /\
                  json_text (stdout_of lines) (jdoc (o_calendar o) ds).
Proof. exact options_run_json. Qed.
Print Assumptions C20_wellformed.

(* "the same date the text mode would report": the date of an argument does not depend on the output mode, and
   both modes print that date *)
Theorem C20_same_date_as_text_mode :
  forall o a,
    arg_line o a =
    (r <- arg_date o a;; match r with Err e => Ret (Err e) | Ok d => s <- line_of_date o a d;; Ret (Ok s) end)
    /\ arg_date o a = arg_date (mkOptions (o_calendar o) false (o_ordinal o) (o_quiet o) (o_style o)) a.
Proof. exact same_date_both_modes. Qed.
Print Assumptions C20_same_date_as_text_mode.

(* old_style: present iff the date's calendar is reforming; true iff the day is before the reformation *)
Theorem C20_old_style :
  forall d,
    jdate d =
    JObj ([ (codes "julian_day_number", JNumber (Date_f_jdn d));
            (codes "year", JNumber (Date_f_year d));
            (codes "month", JNumber (Month_discr (Date_f_month d)));
            (codes "day", JNumber (Date_f_day d));
            (codes "ordinal", JNumber (Date_f_ordinal d));
            (codes "display", JStr (text_of (show_date d)));
            (codes "ordinal_display", JStr (text_of (show_date_alt d))) ]
          ++ match Calendar_f_0 (Date_f_calendar d) with
             | inner_Calendar_Reforming r _ => [(codes "old_style", JBool (Date_f_jdn d <? r))]
             | _ => []
             end).
Proof. exact jdate_old_style. Qed.
Print Assumptions C20_old_style.

(* the calendar object names the selected calendar, with its reformation day when reforming *)
Theorem C20_calendar_object :
  forall c,
    jcalendar c =
    match Calendar_f_0 c with
    | inner_Calendar_Julian => JObj [(codes "type", JStr (codes "julian"))]
    | inner_Calendar_Gregorian => JObj [(codes "type", JStr (codes "gregorian"))]
    | inner_Calendar_Reforming r _ => JObj [(codes "type", JStr (codes "reforming")); (codes "reformation", JNumber r)]
    end.
Proof. exact jcalendar_cases. Qed.
Print Assumptions C20_calendar_object.

(* ---------------------------------------------------------------- non-vacuity *)
Definition ex_cal : Calendar :=
  Eval vm_compute in match Calendar_reforming 2361222 with Ret (Ok c) => c | _ => Calendar_GREGORIAN end.
Definition ex_o : Options := mkOptions ex_cal true false false true.
Definition ex_args : list (list Z) := [codes "2361221"; codes "1752-09-14"; codes "-1"].
Definition ex_dates : list Date :=
  Eval vm_compute in flat_map (fun a => match arg_date ex_o a with Ret (Ok d) => [d] | _ => [] end) ex_args.

Example C20_ex_hypotheses : run_dates ex_o 0 ex_args ex_dates /\ Forall (date_ok (o_calendar ex_o)) ex_dates.
Proof.
  split.
  - cbn [run_dates ex_args]. repeat constructor; vm_compute; reflexivity.
  - repeat constructor; vm_compute; congruence.
Qed.
(* three arguments (the >= 3 path of the comma patching), a reforming calendar: the theorem applies *)
Example C20_ex_document :
  exists lines, options_run ex_o 0 ex_args = Ret (Ok lines) /\ List.length lines = 4%nat /\
                json_text (stdout_of lines) (jdoc ex_cal ex_dates).
Proof. destruct C20_ex_hypotheses as [H1 H2]. exact (C20_wellformed ex_o 0 ex_args ex_dates eq_refl H1 H2). Qed.
(* zero arguments: the current date *)
Example C20_ex_now :
  exists d lines, now_date ex_o 1790000000 = Ret d /\ options_run ex_o 1790000000 [] = Ret (Ok lines) /\
                  json_text (stdout_of lines) (jdoc ex_cal [d]).
Proof.
  assert (E : exists d, now_date ex_o 1790000000 = Ret d /\ date_ok ex_cal d).
  { eexists. split; [vm_compute; reflexivity|]. repeat split; vm_compute; congruence. }
  destruct E as (d & E1 & E2). exists d.
  destruct (C20_wellformed ex_o 1790000000 [] [d] eq_refl) as (lines & H1 & _ & H2).
  - exists d. split; [assumption | reflexivity].
  - constructor; [assumption | constructor].
  - exists lines. repeat split; assumption.
Qed.
(* what the model prints for one argument under -J -r gb (compare the README) *)
Example C20_ex_output :
  cli_main_exec (codes "0.6.2") 0 [codes "-J"; codes "-r"; codes "gb"; codes "2361221"] =
  Ret (Exit0 [ codes "{" ++ NL ++ codes "    ""calendar"": {" ++ NL ++ codes "        ""type"": ""reforming""," ++ NL
               ++ codes "        ""reformation"": 2361222" ++ NL ++ codes "    }," ++ NL ++ codes "    ""dates"": [";
               codes "        {" ++ NL ++ codes "            ""julian_day_number"": 2361221," ++ NL
               ++ codes "            ""year"": 1752," ++ NL ++ codes "            ""month"": 9," ++ NL
               ++ codes "            ""day"": 2," ++ NL ++ codes "            ""ordinal"": 246," ++ NL
               ++ codes "            ""display"": ""1752-09-02""," ++ NL
               ++ codes "            ""ordinal_display"": ""1752-246""," ++ NL
               ++ codes "            ""old_style"": true" ++ NL ++ codes "        }" ++ NL ++ codes "    ]" ++ NL ++ codes "}" ]).
Proof. vm_compute. reflexivity. Qed.

(* ---- C20_wellformed with [date_ok] discharged by the core development (Proofs/CliCore.v): for every calendar the
   command can construct (Gregorian, Julian, or whatever Calendar::reforming accepts) *)
Theorem C20_wellformed_closed :
  forall o now args ds,
    reachable_cal (o_calendar o) -> o_json o = true -> run_dates o now args ds ->
    exists lines, options_run o now args = Ret (Ok lines) /\
                  List.length lines = S (List.length ds) /\
                  json_text (stdout_of lines) (jdoc (o_calendar o) ds).
Proof. exact JV.Proofs.CliCore.options_run_json_closed. Qed.
Print Assumptions C20_wellformed_closed.
