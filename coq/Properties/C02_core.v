(* C02 — Proleptic Julian and Gregorian dates match the astronomical definition. *)
From JV Require Import Sem Gen Spec SpecX.
From JV.Proofs Require Import SpecFacts Cal Core.
Require JV.Proofs.Glue_C02_core.
Open Scope Z_scope.

(* the definition: anchor + next-day recurrence; the closed-form labellings satisfy it ... *)
Theorem C02_julian_is_the_calendar : IsCalendar jleap julian_anchor jlabel.
Proof. exact jlabel_is_calendar. Qed.
Print Assumptions C02_julian_is_the_calendar.
Theorem C02_gregorian_is_the_calendar : IsCalendar gleap gregorian_anchor glabel.
Proof. exact glabel_is_calendar. Qed.
Print Assumptions C02_gregorian_is_the_calendar.
(* ... and it determines the labelling of every day, before and after the anchor *)
Theorem C02_definition_unique : forall leap a f g, IsCalendar leap a f -> IsCalendar leap a g ->
  (forall j, valid_label leap (f j)) -> (forall j, valid_label leap (g j)) -> forall j, f j = g j.
Proof. exact calendar_unique. Qed.
Print Assumptions C02_definition_unique.

(* for every 32-bit day number the code reports exactly that label *)
Theorem C02_julian_labels : forall j, in_i32 j ->
  exists d, Calendar_at_jdn Calendar_JULIAN j = Ret d /\
    (Date_f_year d, Month_discr (Date_f_month d), Date_f_day d) = jlabel j /\ Date_f_jdn d = j /\ Date_f_calendar d = Calendar_JULIAN.
Proof. exact JV.Proofs.Glue_C02_core.C02_julian_labels_lemma. Qed.
Print Assumptions C02_julian_labels.
Theorem C02_gregorian_labels : forall j, in_i32 j ->
  exists d, Calendar_at_jdn Calendar_GREGORIAN j = Ret d /\
    (Date_f_year d, Month_discr (Date_f_month d), Date_f_day d) = glabel j /\ Date_f_jdn d = j /\ Date_f_calendar d = Calendar_GREGORIAN.
Proof. exact JV.Proofs.Glue_C02_core.C02_gregorian_labels_lemma. Qed.
Print Assumptions C02_gregorian_labels.

Theorem C02_leap_rules : forall y, in_i32 y ->
  Calendar_year_kind Calendar_JULIAN y = Ret (if jleap y then YearKind_Leap else YearKind_Common) /\
  Calendar_year_kind Calendar_GREGORIAN y = Ret (if gleap y then YearKind_Leap else YearKind_Common).
Proof. exact year_kind_proleptic. Qed.
Print Assumptions C02_leap_rules.
Theorem C02_leap_rule_meaning : forall y,
  (jleap y = true <-> y mod 4 = 0) /\ (gleap y = true <-> (y mod 4 = 0 /\ (y mod 100 <> 0 \/ y mod 400 = 0))).
Proof. exact JV.Proofs.Glue_C02_core.C02_leap_rule_meaning_lemma. Qed.
Print Assumptions C02_leap_rule_meaning.

(* construction: the right day number when it fits in 32 bits, an arithmetic error otherwise, for every year in i32 *)
Theorem C02_at_ymd_exact_or_arithmetic : forall y m d, in_i32 y -> in_u32 d ->
  Calendar_at_ymd Calendar_JULIAN y m d = Ret (proleptic_at_ymd CJ jleap jdn_j y m d) /\
  Calendar_at_ymd Calendar_GREGORIAN y m d = Ret (proleptic_at_ymd CG gleap jdn_g y m d).
Proof. exact JV.Proofs.Glue_C02_core.C02_at_ymd_exact_or_arithmetic_lemma. Qed.
Print Assumptions C02_at_ymd_exact_or_arithmetic.

(* the day number of a label is the one the definition gives (label of that day is the label) *)
Theorem C02_day_number_of_label : forall y m d,
  (valid_md (jleap y) m d -> jlabel (jdn_j y m d) = (y, m, d)) /\ (valid_md (gleap y) m d -> glabel (jdn_g y m d) = (y, m, d)).
Proof. exact JV.Proofs.Glue_C02_core.C02_day_number_of_label_lemma. Qed.
Print Assumptions C02_day_number_of_label.

(* the documented range ends, and one day beyond each *)
Example C02_documented_range_ends :
  (exists d, Calendar_at_ymd Calendar_JULIAN (-5884202) Month_March 16 = Ret (Ok d) /\ Date_f_jdn d = -2147483648) /\
  Calendar_at_ymd Calendar_JULIAN (-5884202) Month_March 15 = Ret (Err DateError_Arithmetic) /\
  (exists d, Calendar_at_ymd Calendar_JULIAN 5874777 Month_October 17 = Ret (Ok d) /\ Date_f_jdn d = 2147483647) /\
  Calendar_at_ymd Calendar_JULIAN 5874777 Month_October 18 = Ret (Err DateError_Arithmetic) /\
  (exists d, Calendar_at_ymd Calendar_GREGORIAN (-5884323) Month_May 15 = Ret (Ok d) /\ Date_f_jdn d = -2147483648) /\
  Calendar_at_ymd Calendar_GREGORIAN (-5884323) Month_May 14 = Ret (Err DateError_Arithmetic) /\
  (exists d, Calendar_at_ymd Calendar_GREGORIAN 5874898 Month_June 3 = Ret (Ok d) /\ Date_f_jdn d = 2147483647) /\
  Calendar_at_ymd Calendar_GREGORIAN 5874898 Month_June 4 = Ret (Err DateError_Arithmetic).
Proof. repeat split; try (eexists; split); vm_compute; reflexivity. Qed.
Example C02_anchor : jlabel 0 = (-4712, 1, 1) /\ glabel 0 = (-4713, 11, 24) /\ jleap 0 = true /\ jleap (-4) = true /\ gleap (-100) = false /\ gleap (-400) = true.
Proof. repeat split; reflexivity. Qed.
