(* Sem.v — the meaning given to the Rust fragment that rs2coq translates.
   Machine integers are Z with explicit ranges; every arithmetic operator that can panic in a build with
   overflow checks and debug assertions ON returns in the panic monad M.  Casts wrap and never panic.
   No proofs about julian live here; only the semantics and its basic lemmas. *)
From Coq Require Export ZArith Lia ZifyBool Bool List String.
Export ListNotations.
Open Scope Z_scope.

(* ---------------------------------------------------------------- panic monad *)
Inductive M (A : Type) : Type := Ret (a : A) | Panic.
Arguments Ret {A} a.
Arguments Panic {A}.
Definition bind {A B} (m : M A) (f : A -> M B) : M B :=
  match m with Ret a => f a | Panic => Panic end.
Notation "x <- m ;; k" := (bind m (fun x => k))
  (at level 61, m at next level, right associativity).

Inductive Result (T E : Type) : Type := Ok (t : T) | Err (e : E).
Arguments Ok {T E} t.
Arguments Err {T E} e.

(* RangeInclusive<T> of core::ops: start, end, exhausted flag *)
Record RangeInclusive := mkRange { ri_start : Z; ri_end : Z; ri_exhausted : bool }.

(* ---------------------------------------------------------------- ranges *)
Definition i32_min := -2147483648.
Definition i32_max := 2147483647.
Definition u32_max := 4294967295.
Definition i64_min := -9223372036854775808.
Definition i64_max := 9223372036854775807.
Definition in_i32 z := i32_min <= z <= i32_max.
Definition in_u32 z := 0 <= z <= u32_max.
Definition in_i64 z := i64_min <= z <= i64_max.

Definition chk (lo hi z : Z) : M Z := if (lo <=? z) && (z <=? hi) then Ret z else Panic.
Definition chko (lo hi z : Z) : option Z := if (lo <=? z) && (z <=? hi) then Some z else None.

(* division: Rust `/` and `%` truncate (Z.quot / Z.rem); div_euclid/rem_euclid are Euclidean *)
Definition zdiv_euclid a b := if 0 <? b then a / b else - (a / (- b)).
Definition zrem_euclid a b := a mod (Z.abs b).

Definition gen_add lo hi a b := chk lo hi (a + b).
Definition gen_sub lo hi a b := chk lo hi (a - b).
Definition gen_mul lo hi a b := chk lo hi (a * b).
Definition gen_neg lo hi a := chk lo hi (- a).
Definition gen_div lo hi a b := if b =? 0 then Panic else chk lo hi (Z.quot a b).
Definition gen_rem (lo hi a b : Z) :=
  if b =? 0 then Panic else if (a =? lo) && (b =? -1) then Panic else Ret (Z.rem a b).
Definition gen_div_euclid lo hi a b := if b =? 0 then Panic else chk lo hi (zdiv_euclid a b).
Definition gen_rem_euclid (lo hi a b : Z) :=
  if b =? 0 then Panic else if (a =? lo) && (b =? -1) then Panic else Ret (zrem_euclid a b).

Definition i32_add := gen_add i32_min i32_max.
Definition i32_sub := gen_sub i32_min i32_max.
Definition i32_mul := gen_mul i32_min i32_max.
Definition i32_neg := gen_neg i32_min i32_max.
Definition i32_div := gen_div i32_min i32_max.
Definition i32_rem := gen_rem i32_min i32_max.
Definition i32_div_euclid := gen_div_euclid i32_min i32_max.
Definition i32_rem_euclid := gen_rem_euclid i32_min i32_max.
Definition i32_checked_add a b := chko i32_min i32_max (a + b).
Definition i32_checked_sub a b := chko i32_min i32_max (a - b).

Definition u32_add := gen_add 0 u32_max.
Definition u32_sub := gen_sub 0 u32_max.
Definition u32_mul := gen_mul 0 u32_max.
Definition u32_div := gen_div 0 u32_max.
Definition u32_rem := gen_rem (-1) u32_max. (* lo = -1: the MIN / -1 case cannot arise for unsigned *)
Definition u32_div_euclid := gen_div_euclid 0 u32_max.
Definition u32_rem_euclid := gen_rem_euclid (-1) u32_max.
Definition u32_checked_add a b := chko 0 u32_max (a + b).
Definition u32_checked_sub a b := chko 0 u32_max (a - b).

Definition i64_add := gen_add i64_min i64_max.
Definition i64_sub := gen_sub i64_min i64_max.
Definition i64_mul := gen_mul i64_min i64_max.
Definition i64_neg := gen_neg i64_min i64_max.
Definition i64_div := gen_div i64_min i64_max.
Definition i64_rem := gen_rem i64_min i64_max.
Definition i64_div_euclid := gen_div_euclid i64_min i64_max.
Definition i64_rem_euclid := gen_rem_euclid i64_min i64_max.
Definition i64_checked_add a b := chko i64_min i64_max (a + b).
Definition i64_checked_sub a b := chko i64_min i64_max (a - b).

(* `as` casts between integer types: wrap to the target width; never panic *)
Definition to_u32 z := z mod 4294967296.
Definition to_i32 z := (z + 2147483648) mod 4294967296 - 2147483648.
Definition to_i64 z := (z + 9223372036854775808) mod 18446744073709551616 - 9223372036854775808.
Definition to_u16 z := z mod 65536.
Definition to_u8 z := z mod 256.
Definition of_bool (b : bool) : Z := if b then 1 else 0.

(* ---------------------------------------------------------------- basic lemmas *)
Lemma chk_ok lo hi z : lo <= z <= hi -> chk lo hi z = Ret z.
Proof. unfold chk. intros. replace (_ && _) with true by lia. reflexivity. Qed.
Lemma chko_ok lo hi z : lo <= z <= hi -> chko lo hi z = Some z.
Proof. unfold chko. intros. replace (_ && _) with true by lia. reflexivity. Qed.
Lemma chko_none lo hi z : ~ (lo <= z <= hi) -> chko lo hi z = None.
Proof. unfold chko. intros. replace (_ && _) with false by lia. reflexivity. Qed.

Lemma i32_add_ok a b : in_i32 (a + b) -> i32_add a b = Ret (a + b). Proof. apply chk_ok. Qed.
Lemma i32_sub_ok a b : in_i32 (a - b) -> i32_sub a b = Ret (a - b). Proof. apply chk_ok. Qed.
Lemma i32_mul_ok a b : in_i32 (a * b) -> i32_mul a b = Ret (a * b). Proof. apply chk_ok. Qed.
Lemma u32_add_ok a b : in_u32 (a + b) -> u32_add a b = Ret (a + b). Proof. apply chk_ok. Qed.
Lemma u32_sub_ok a b : in_u32 (a - b) -> u32_sub a b = Ret (a - b). Proof. apply chk_ok. Qed.
Lemma u32_mul_ok a b : in_u32 (a * b) -> u32_mul a b = Ret (a * b). Proof. apply chk_ok. Qed.
Lemma i64_add_ok a b : in_i64 (a + b) -> i64_add a b = Ret (a + b). Proof. apply chk_ok. Qed.
Lemma i64_sub_ok a b : in_i64 (a - b) -> i64_sub a b = Ret (a - b). Proof. apply chk_ok. Qed.
Lemma i64_mul_ok a b : in_i64 (a * b) -> i64_mul a b = Ret (a * b). Proof. apply chk_ok. Qed.

Lemma gen_div_euclid_pos lo hi a b : 0 < b -> lo <= a / b <= hi -> gen_div_euclid lo hi a b = Ret (a / b).
Proof. intros. unfold gen_div_euclid, zdiv_euclid. replace (b =? 0) with false by lia.
  replace (0 <? b) with true by lia. now apply chk_ok. Qed.
Lemma gen_rem_euclid_pos lo hi a b : 0 < b -> gen_rem_euclid lo hi a b = Ret (a mod b).
Proof. intros. unfold gen_rem_euclid, zrem_euclid. replace (b =? 0) with false by lia.
  replace (b =? -1) with false by lia. rewrite andb_false_r. now rewrite Z.abs_eq by lia. Qed.
Lemma gen_rem_pos lo hi a b : 0 < b -> gen_rem lo hi a b = Ret (Z.rem a b).
Proof. intros. unfold gen_rem. replace (b =? 0) with false by lia. replace (b =? -1) with false by lia.
  now rewrite andb_false_r. Qed.
Lemma gen_div_pos lo hi a b : 0 < b -> lo <= Z.quot a b <= hi -> gen_div lo hi a b = Ret (Z.quot a b).
Proof. intros. unfold gen_div. replace (b =? 0) with false by lia. now apply chk_ok. Qed.

Lemma i32_div_euclid_pos a b : 0 < b -> in_i32 (a / b) -> i32_div_euclid a b = Ret (a / b).
Proof. apply gen_div_euclid_pos. Qed.
Lemma i32_rem_euclid_pos a b : 0 < b -> i32_rem_euclid a b = Ret (a mod b).
Proof. apply gen_rem_euclid_pos. Qed.
Lemma i32_rem_pos a b : 0 < b -> i32_rem a b = Ret (Z.rem a b).
Proof. apply gen_rem_pos. Qed.
Lemma i32_div_pos a b : 0 < b -> in_i32 (Z.quot a b) -> i32_div a b = Ret (Z.quot a b).
Proof. apply gen_div_pos. Qed.
Lemma i64_div_euclid_pos a b : 0 < b -> in_i64 (a / b) -> i64_div_euclid a b = Ret (a / b).
Proof. apply gen_div_euclid_pos. Qed.
Lemma i64_rem_euclid_pos a b : 0 < b -> i64_rem_euclid a b = Ret (a mod b).
Proof. apply gen_rem_euclid_pos. Qed.

Lemma to_u32_id z : in_u32 z -> to_u32 z = z.
Proof. unfold to_u32, in_u32, u32_max. intros. apply Z.mod_small. lia. Qed.
Lemma to_i32_id z : in_i32 z -> to_i32 z = z.
Proof. unfold to_i32, in_i32, i32_min, i32_max. intros. rewrite Z.mod_small; lia. Qed.
Lemma to_i64_id z : in_i64 z -> to_i64 z = z.
Proof. unfold to_i64, in_i64, i64_min, i64_max. intros. rewrite Z.mod_small; lia. Qed.

Lemma bind_ret {A B} (a : A) (f : A -> M B) : bind (Ret a) f = f a.
Proof. reflexivity. Qed.

(* ---------------------------------------------------------------- tactics *)
(* helper functions that appear in the generated model but not in its committed snapshot are registered here by the
   translator (Hint Unfold … : gen_new); the step tactics call [autounfold with gen_new] to see through them *)
Create HintDb gen_new.
Ltac range := unfold in_i32, in_u32, in_i64, i32_min, i32_max, u32_max, i64_min, i64_max in *; lia.

(* one step of symbolic execution of translated code; side conditions by [range] *)
Ltac mstep1 :=
  first
  [ rewrite i32_add_ok by range | rewrite i32_sub_ok by range | rewrite i32_mul_ok by range
  | rewrite u32_add_ok by range | rewrite u32_sub_ok by range | rewrite u32_mul_ok by range
  | rewrite i64_add_ok by range | rewrite i64_sub_ok by range | rewrite i64_mul_ok by range
  | rewrite i32_div_euclid_pos by range | rewrite i32_rem_euclid_pos by range
  | rewrite i64_div_euclid_pos by range | rewrite i64_rem_euclid_pos by range
  | rewrite i32_rem_pos by range | rewrite i32_div_pos by range
  | rewrite to_u32_id by range | rewrite to_i32_id by range | rewrite to_i64_id by range
  | progress cbn [bind]
  | progress autounfold with gen_new ].
Ltac msteps := repeat mstep1.
