(* Glue_C03_core.v — proofs of the statements of Properties/C03_core.v that need a few steps beyond a library lemma
   (rephrasing only: no induction, no case analysis of the model).  The scripts were moved out of the property file so
   that it contains nothing but statements closed by [exact]. *)
From JV Require Import Sem Gen Spec SpecX.
From JV.Proofs Require Import SpecFacts Cal Core AtJdn Boundary.
Open Scope Z_scope.

Lemma C03_julian_before_gregorian_from_lemma : forall r j, ValidR r -> in_i32 j ->
  exists d, Calendar_at_jdn (cal_of (CR r)) j = Ret d /\
    (Date_f_year d, Month_discr (Date_f_month d), Date_f_day d) = (if j <? r then jlabel j else glabel j) /\
    Date_is_julian d = Ret (j <? r) /\ Date_is_gregorian d = Ret (negb (j <? r)).
Proof.
  intros r j V Hj. destruct (at_jdn_label (CR r) j V Hj) as (d & E & L & _).
  exists d. split; [exact E|]. split; [exact L|].
  rewrite (at_jdn_ok (CR r) j V Hj) in E. inversion E; subst d. split; [apply (is_julian_ok (CR r) j)|apply (is_gregorian_ok (CR r) j)].
Qed.

Lemma C03_boundary_dates_lemma : forall r, ValidR r ->
  exists d1 d2, Calendar_at_jdn (cal_of (CR r)) (r - 1) = Ret d1 /\ Calendar_at_jdn (cal_of (CR r)) r = Ret d2 /\
    Calendar_last_julian_date (cal_of (CR r)) = Ret (Some d1) /\ Calendar_first_gregorian_date (cal_of (CR r)) = Ret (Some d2).
Proof.
  intros r V. exists (date_of (CR r) (r - 1)), (date_of (CR r) r). unfold ValidR in V.
  split; [apply at_jdn_ok; [exact V|range]|]. split; [apply at_jdn_ok; [exact V|range]|].
  split; [exact (last_julian_date_ok (CR r) V)|exact (first_gregorian_date_ok (CR r) V)].
Qed.

Lemma C03_proleptic_have_no_boundary_lemma :
  Calendar_last_julian_date Calendar_JULIAN = Ret None /\ Calendar_first_gregorian_date Calendar_JULIAN = Ret None /\
  Calendar_last_julian_date Calendar_GREGORIAN = Ret None /\ Calendar_first_gregorian_date Calendar_GREGORIAN = Ret None.
Proof. repeat split; reflexivity. Qed.

Lemma C03_skips_forward_lemma : forall r, ValidR r -> lex_lt (jlabel (r - 1)) (glabel r).
Proof.
  intros r V. pose proof (skips_forward r V) as L. unfold lbl in L. cbn [is_old] in L.
  replace (r - 1 <? r) with true in L by lia. replace (r <? r) with false in L by lia. exact L.
Qed.

Lemma C03_convert_to_lemma : forall c c' j, ValidCal c -> ValidCal c' -> in_i32 j ->
  exists d d', Calendar_at_jdn (cal_of c) j = Ret d /\ Calendar_at_jdn (cal_of c') j = Ret d' /\ Date_convert_to d (cal_of c') = Ret d'.
Proof.
  intros c c' j V V' Hj. exists (date_of c j), (date_of c' j).
  split; [apply at_jdn_ok; assumption|]. split; [apply at_jdn_ok; assumption|apply convert_to_ok; assumption].
Qed.

