(* Cmp.v — the two range-comparison helpers of inner.rs and small pattern lemmas. *)
From JV Require Import Sem Gen Spec SpecX.
From JV.Proofs Require Import SpecFacts Cal.
Open Scope Z_scope.
Ltac Zify.zify_post_hook ::= Z.to_euclidean_division_equations.

Definition range_ord (lt_lo eq_lo lt_hi eq_hi : bool) : inner_RangeOrdering :=
  if lt_lo then inner_RangeOrdering_Less
  else if eq_lo then (if lt_hi then inner_RangeOrdering_EqLower else inner_RangeOrdering_EqBoth)
  else if lt_hi then inner_RangeOrdering_Between
  else if eq_hi then inner_RangeOrdering_EqUpper else inner_RangeOrdering_Greater.

Definition range_ord_int (v lo hi : Z) : inner_RangeOrdering :=
  range_ord (v <? lo) (v =? lo) (v <? hi) (v =? hi).

Lemma cmp_int_range_ok v lo hi : lo <= hi -> inner_cmp_int_range v lo hi = Ret (range_ord_int v lo hi).
Proof.
  intros H. unfold inner_cmp_int_range, range_ord_int, range_ord. autounfold with gen_new.
  repeat match goal with |- context[if ?c then _ else _] => destruct c eqn:? end; try reflexivity; exfalso; lia.
Qed.

(* lexicographic comparison of (year, month number) *)
Definition ym_lt (y m y' m' : Z) : bool := (y <? y') || ((y =? y') && (m <? m')).
Definition ym_eq (y m y' m' : Z) : bool := (y =? y') && (m =? m').
Definition range_ord_ym (y m ly lm uy um : Z) : inner_RangeOrdering :=
  range_ord (ym_lt y m ly lm) (ym_eq y m ly lm) (ym_lt y m uy um) (ym_eq y m uy um).

Lemma Month_lt_ok a b : Month_lt a b = Ret (Month_discr a <? Month_discr b). Proof. reflexivity. Qed.
Lemma Month_le_ok a b : Month_le a b = Ret (Month_discr a <=? Month_discr b). Proof. reflexivity. Qed.
Lemma Month_eq_ok a b : Month_eq a b = Ret (Month_discr a =? Month_discr b). Proof. reflexivity. Qed.

Lemma cmp_ym_range_ok y m ly lm uy um :
  ym_lt ly (Month_discr lm) uy (Month_discr um) = true \/ ym_eq ly (Month_discr lm) uy (Month_discr um) = true ->
  inner_cmp_ym_range (y, m) (ly, lm) (uy, um) =
  Ret (range_ord_ym y (Month_discr m) ly (Month_discr lm) uy (Month_discr um)).
Proof.
  intros H. unfold inner_cmp_ym_range, range_ord_ym, range_ord, ym_lt, ym_eq in *.
  rewrite ?Month_lt_ok, ?Month_le_ok, ?Month_eq_ok.
  set (a := Month_discr m) in *. set (b := Month_discr lm) in *. set (c := Month_discr um) in *.
  repeat first [ progress cbn [bind negb]
               | progress autounfold with gen_new
               | rewrite Month_lt_ok | rewrite Month_le_ok | rewrite Month_eq_ok
               | match goal with |- context[if ?c then _ else _] => destruct c eqn:? end ];
    try reflexivity; exfalso; lia.
Qed.

Lemma match_dec31 (m : Month) (d : Z) :
  (match (m, d) with (Month_December, 31) => true | _ => false end) = (Month_discr m =? 12) && (d =? 31).
Proof.
  destruct m; try reflexivity;
    (cbn [Month_discr]; destruct d as [|p|p]; try reflexivity; do 5 (destruct p; try reflexivity)).
Qed.
Lemma match_jan1 (m : Month) (d : Z) :
  (match (m, d) with (Month_January, 1) => true | _ => false end) = (Month_discr m =? 1) && (d =? 1).
Proof.
  destruct m; try reflexivity;
    (cbn [Month_discr]; destruct d as [|p|p]; try reflexivity; destruct p; reflexivity).
Qed.

(* cumulative month table at the February boundary *)
Lemma cum_2 l : cum l 2 = 31. Proof. reflexivity. Qed.
Lemma cum_ge3 (l : bool) m : 3 <= m <= 12 -> 59 + (if l then 1 else 0) <= cum l m /\ cum l m <= 334 + (if l then 1 else 0).
Proof.
  intros H.
  assert (C : forallb (fun m => (59 + (if l then 1 else 0) <=? cum l m) && (cum l m <=? 334 + (if l then 1 else 0))) (zseq 3 10) = true)
    by (destruct l; vm_compute; reflexivity).
  pose proof (range_forall _ _ _ C m ltac:(cbn; lia)) as E. cbv beta in E. lia.
Qed.
Lemma mlen_2 l : mlen l 2 = if l then 29 else 28. Proof. reflexivity. Qed.
Lemma mlen_not2 l m : m <> 2 -> mlen l m = mlen false m.
Proof. intros H. unfold mlen. replace (m =? 2) with false by lia. reflexivity. Qed.
