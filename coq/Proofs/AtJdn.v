(* AtJdn.v — Calendar::at_jdn of every calendar a user can hold returns, for every 32-bit day number,
   the date prescribed by the specification: label, day-of-year and day-of-month ordinals. *)
From JV Require Import Sem Gen Spec SpecX.
From JV.Proofs Require Import SpecFacts GapFacts Cal Cmp Inner Year MonthGeom Shape Month MonthSpec SpecSums Walk SpecOrd Meq.
Import ListNotations.
Open Scope Z_scope.
Ltac Zify.zify_post_hook ::= Z.to_euclidean_division_equations.

(* the walk finds the date's own month and position *)
Lemma ymddo_at c j : ValidCal c ->
  let '(y, m, d) := lbl c j in
  ymddo_spec c y (ordinal_of c j) = Ok (month_of_Z m, d, day_ordinal_of c j) /\ 1 <= ordinal_of c j <= 732.
Proof.
  intros V. pose proof (ord_locate c j V) as OL. unfold OrdLocate in OL.
  destruct (lbl c j) as [[y m] d]. destruct OL as (Mr & B & DO & NTH).
  assert (R : 1 <= ordinal_of c j <= year_count c y).
  { rewrite <- msum_total. pose proof (msum_le c y 1 m ltac:(lia) ltac:(lia) ltac:(lia)). rewrite msum_1 in *.
    pose proof (msum_le c y (m + 1) 13 ltac:(lia) ltac:(lia) ltac:(lia)). lia. }
  split.
  - unfold ymddo_spec. replace ((ordinal_of c j <? 1) || (year_count c y <? ordinal_of c j)) with false by lia.
    rewrite (locate_unique c y m _ Mr B). rewrite DO, NTH. reflexivity.
  - assert (year_count c y <= 732).
    { unfold year_count. pose proof (ylen_bounds (jleap y)). pose proof (ylen_bounds (gleap y)). pose proof (J0_step y). pose proof (G0_step y).
      destruct c; cbn [old_days new_days]; lia. }
    lia.
Qed.

Lemma i32_year_j j : in_i32 j -> in_i32 (jyear j).
Proof. intros H. pose proof (jyear_spec j). unfold J0 in *. range. Qed.
Lemma i32_year_g j : in_i32 j -> in_i32 (gyear j).
Proof. intros H. pose proof (gyear_spec j). unfold G0 in *. range. Qed.

Lemma lbl_year c j : l_year (lbl c j) = if is_old c j then jyear j else gyear j.
Proof.
  unfold lbl. destruct (is_old c j).
  - unfold jlabel. destruct (md_of _ _). reflexivity.
  - unfold glabel. destruct (md_of _ _). reflexivity.
Qed.

(* the tail of at_jdn, once the walk has been characterised: whatever year and ordinal expressions the code arrived at,
   if they are the year and the ordinal of day j, the record built is the specification's *)
Lemma at_jdn_tail c j y o : ValidCal c -> in_i32 j ->
  l_year (lbl c j) = y -> o = ordinal_of c j ->
  match ymddo_spec c y o with
  | Ok (month, day, day_ordinal) => Ret (mkDate (cal_of c) y o month day day_ordinal j)
  | _ => Panic
  end = Ret (date_of c j).
Proof.
  intros V Hj Ey ->. pose proof (ymddo_at c j V) as A. unfold date_of.
  destruct (lbl c j) as [[y' m] d]. cbn [l_year fst] in Ey. subst y'. destruct A as [A R]. rewrite A. reflexivity.
Qed.
Lemma ordinal_bound c j : ValidCal c -> 1 <= ordinal_of c j <= 732.
Proof. intros V. pose proof (ymddo_at c j V) as A. destruct (lbl c j) as [[y m] d]. apply A. Qed.

(* evaluation of at_jdn under the facts of the context, whatever the shape of its text *)
Ltac aj_norm :=
  repeat first
  [ progress cbn [bind andb orb negb Calendar_f_0 inner_ReformGap_f_post_reform inner_ReformGap_f_pre_reform
                  inner_ReformGap_f_ordinal_gap_start inner_ReformGap_f_ordinal_gap inner_Date_f_year inner_Date_f_ordinal]
  | progress cbv zeta
  | progress autounfold with gen_new
  | rewrite Year.gap_ok
  | rewrite jdn2julian_ok by assumption
  | rewrite jdn2gregorian_ok by assumption
  | rewrite u32_sub_ok by range
  | rewrite ordinal2ymddo_ok by (first [ assumption | exact I | range ])
  | progress cmp_simpl ].

Lemma at_jdn_julian j : in_i32 j -> Calendar_at_jdn (cal_of CJ) j = Ret (date_of CJ j).
Proof.
  intros Hj. unfold Calendar_at_jdn. autounfold with gen_new. change (Calendar_f_0 (cal_of CJ)) with inner_Calendar_Julian.
  pose proof (i32_year_j j Hj) as Hy. pose proof (ordinal_bound CJ j I) as OB.
  assert (OE : ordinal_of CJ j = j - J0 (jyear j) + 1) by reflexivity. rewrite OE in OB.
  aj_norm. apply at_jdn_tail; [exact I|exact Hj|rewrite lbl_year; reflexivity|reflexivity].
Qed.
Lemma at_jdn_gregorian j : in_i32 j -> Calendar_at_jdn (cal_of CG) j = Ret (date_of CG j).
Proof.
  intros Hj. unfold Calendar_at_jdn. autounfold with gen_new. change (Calendar_f_0 (cal_of CG)) with inner_Calendar_Gregorian.
  pose proof (i32_year_g j Hj) as Hy. pose proof (ordinal_bound CG j I) as OB.
  assert (OE : ordinal_of CG j = j - G0 (gyear j) + 1) by (unfold ordinal_of; cbn [is_old old_days new_start]; lia). rewrite OE in OB.
  aj_norm. apply at_jdn_tail; [exact I|exact Hj|rewrite lbl_year; reflexivity|rewrite OE; reflexivity].
Qed.

Section Reforming.
  Variables (r py pm pd qy qm qd : Z).
  Hypothesis GI : GapInfo r py pm pd qy qm qd.
  Hypothesis VR : ValidR r.
  Let K := rcal r py pm pd qy qm qd.

  (* the ordinal gap of a same-year reformation is not negative *)
  Lemma same_year_gap : py = qy -> G0 qy <= J0 py.
  Proof.
    intros E. pose proof (gi_fwd _ _ _ _ _ _ _ GI) as F. pose proof (gi_eq _ _ _ _ _ _ _ GI) as Q.
    pose proof (g_qm _ _ _ _ _ _ _ GI) as QM.
    pose proof (cum_after_feb (jleap qy) qm QM). pose proof (cum_after_feb (gleap qy) qm QM).
    unfold jdn_j, jdn_g, after_feb in *. subst py.
    destruct (jleap qy && (3 <=? qm)), (gleap qy && (3 <=? qm)); lia.
  Qed.

  Lemma at_jdn_reforming j : in_i32 j -> Calendar_at_jdn K j = Ret (date_of (CR r) j).
  Proof.
    intros Hj. unfold Calendar_at_jdn. autounfold with gen_new.
    pose proof (r_year_bounds _ _ _ _ _ _ _ GI) as [[A B] [C D]]. pose proof (py_le_qy _ _ _ _ _ _ _ GI) as PQ.
    pose proof (old_days_eq _ _ _ _ _ _ _ GI) as OD.
    assert (EK : K = cal_of (CR r)) by (symmetry; apply cal_of_CR; exact GI).
    change (Calendar_gap K) with (@Ret (option inner_ReformGap) (Some (the_gap r py pm pd qy qm qd))).
    assert (F0 : Calendar_f_0 K = inner_Calendar_Reforming r (the_gap r py pm pd qy qm qd)) by reflexivity.
    rewrite ?F0. clear F0. rewrite EK. unfold the_gap.
    pose proof (ordinal_bound (CR r) j VR) as OB.
    pose proof (i32_year_j j Hj) as HyJ. pose proof (i32_year_g j Hj) as HyG.
    destruct (Z.ltb_spec j r) as [Old|New].
    - pose proof (jyear_spec j) as JS.
      assert (YP : jyear j <= py).
      { destruct (Z.le_gt_cases (jyear j) py) as [L|G]; [exact L|exfalso].
        assert (J0 (py + 1) <= J0 (jyear j)). { destruct (Z.eq_dec (py + 1) (jyear j)) as [<-|]; [lia|]. pose proof (J0_mono (py + 1) (jyear j) ltac:(lia)). lia. }
        lia. }
      assert (OE : ordinal_of (CR r) j = j - J0 (jyear j) + 1) by (unfold ordinal_of; cbn [is_old]; replace (j <? r) with true by lia; reflexivity).
      rewrite OE in OB.
      (* no adjustment: a Julian-side day is never beyond the start of the ordinal gap *)
      assert (NA : jyear j = qy -> py = qy /\ j - J0 (jyear j) + 1 <= r - G0 qy).
      { intros E. assert (py = qy) by lia. pose proof (same_year_gap ltac:(lia)). split; [assumption|]. rewrite E. subst py. lia. }
      destruct (Z.eqb_spec (jyear j) qy) as [E|N]; [destruct (NA E) as [E2 LE]|]; destruct (Z.eqb_spec py qy); try lia;
        aj_norm; (apply at_jdn_tail; [exact VR|exact Hj|rewrite lbl_year; cbn [is_old]; replace (j <? r) with true by lia; reflexivity|rewrite OE; reflexivity]).
    - pose proof (gyear_spec j) as GS.
      assert (YQ : qy <= gyear j).
      { destruct (Z.le_gt_cases qy (gyear j)) as [L|G]; [exact L|exfalso].
        assert (G0 (gyear j + 1) <= G0 qy). { destruct (Z.eq_dec (gyear j + 1) qy) as [<-|]; [lia|]. pose proof (G0_mono (gyear j + 1) qy ltac:(lia)). lia. }
        lia. }
      assert (OrdEq : ordinal_of (CR r) j = if gyear j =? qy then j - G0 qy + 1 - (if py =? qy then J0 py - G0 qy else r - G0 qy) else j - G0 (gyear j) + 1).
      { unfold ordinal_of. cbn [is_old new_start]. replace (j <? r) with false by lia. rewrite OD.
        destruct (Z.eqb_spec (gyear j) qy) as [E|N].
        - rewrite E. destruct (Z.eqb_spec py qy) as [E2|N2].
          + subst py. replace (qy <? qy) with false by lia. rewrite Z.eqb_refl. lia.
          + replace (qy <? py) with false by lia. replace (qy =? py) with false by lia. lia.
        - replace (gyear j <? py) with false by lia. replace (gyear j =? py) with false by lia.
          assert (G0 (qy + 1) <= G0 (gyear j)). { destruct (Z.eq_dec (qy + 1) (gyear j)) as [<-|]; [lia|]. pose proof (G0_mono (qy + 1) (gyear j) ltac:(lia)). lia. }
          lia. }
      pose proof (G0_step qy) as GSt. pose proof (ylen_bounds (gleap qy)).
      aj_norm. remember (gyear j) as g eqn:Hg.
      destruct (Z.eqb_spec g qy) as [E|N]; destruct (Z.eqb_spec py qy) as [E2|N2];
        try (pose proof (same_year_gap E2)); try subst py;
        try (assert (EG : G0 g = G0 qy /\ G0 (g + 1) = G0 (qy + 1)) by (rewrite E; split; reflexivity));
        aj_norm; (apply at_jdn_tail; [exact VR|exact Hj|rewrite lbl_year; cbn [is_old]; replace (j <? r) with false by lia; rewrite <- Hg; reflexivity|rewrite OrdEq; cmp_simpl; try lia; reflexivity]).
  Qed.
End Reforming.

Theorem at_jdn_ok c j : ValidCal c -> in_i32 j -> Calendar_at_jdn (cal_of c) j = Ret (date_of c j).
Proof.
  intros V Hj. destruct c as [| |r].
  - apply at_jdn_julian; exact Hj.
  - apply at_jdn_gregorian; exact Hj.
  - cbn [ValidCal] in V. destruct (gap_info r V) as (py & pm & pd & qy & qm & qd & GI).
    rewrite (cal_of_CR _ _ _ _ _ _ _ GI). apply at_jdn_reforming; assumption.
Qed.
