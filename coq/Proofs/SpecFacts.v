(* SpecFacts.v — theorems about Spec.v only: the closed forms satisfy the astronomical definition
   (anchor + next-day recurrence), that definition determines the labelling uniquely, labels are
   characterised by day-number intervals and increase strictly with the day number. *)
From Coq Require Import ZArith Lia ZifyBool Bool List.
From JV Require Import Spec.
Import ListNotations.
Open Scope Z_scope.
Ltac Zify.zify_post_hook ::= Z.to_euclidean_division_equations.

(* ------------------------------------------------------------------ finite sweeps *)
Lemma zseq_in lo n x : In x (zseq lo n) <-> lo <= x < lo + Z.of_nat n.
Proof.
  revert lo; induction n as [|n IH]; intros lo; cbn [zseq In].
  - lia.
  - rewrite IH. lia.
Qed.
Lemma range_forall (P : Z -> bool) lo n :
  forallb P (zseq lo n) = true -> forall x, lo <= x < lo + Z.of_nat n -> P x = true.
Proof. intros H x Hx. rewrite forallb_forall in H. apply H. apply zseq_in. exact Hx. Qed.

(* ------------------------------------------------------------------ years *)
Lemma J0_step y : J0 (y + 1) = J0 y + ylen (jleap y).
Proof. unfold J0, ylen, jleap. destruct (Z.eqb_spec (y mod 4) 0); lia. Qed.
Lemma G0_step y : G0 (y + 1) = G0 y + ylen (gleap y).
Proof.
  unfold G0, ylen, gleap.
  destruct (Z.eqb_spec (y mod 4) 0), (Z.eqb_spec (y mod 100) 0), (Z.eqb_spec (y mod 400) 0); cbn [negb orb andb]; lia.
Qed.
Lemma ylen_bounds l : 365 <= ylen l <= 366. Proof. destruct l; cbn; lia. Qed.
Lemma J0_mono y y' : y < y' -> J0 y + 365 <= J0 y'. Proof. unfold J0. lia. Qed.
Lemma G0_mono y y' : y < y' -> G0 y + 365 <= G0 y'. Proof. unfold G0. lia. Qed.
Lemma J0_lt y y' : J0 y < J0 y' -> y < y'. Proof. unfold J0. lia. Qed.
Lemma G0_lt y y' : G0 y < G0 y' -> y < y'. Proof. unfold G0. lia. Qed.

Lemma jyear_spec j : J0 (jyear j) <= j < J0 (jyear j + 1).
Proof. unfold jyear, J0. lia. Qed.
Lemma jyear_unique j y : J0 y <= j < J0 (y + 1) -> jyear j = y.
Proof. unfold jyear, J0. lia. Qed.
Lemma g_est_close j : G0 (g_est j - 1) <= j < G0 (g_est j + 2).
Proof. unfold g_est, G0. lia. Qed.
Lemma gyear_spec j : G0 (gyear j) <= j < G0 (gyear j + 1).
Proof.
  pose proof (g_est_close j) as H. unfold gyear. set (y := g_est j) in *.
  replace (y + 2) with (y + 1 + 1) in H by lia. replace (y - 1 + 1) with y by lia.
  destruct (Z.ltb_spec j (G0 y)).
  - replace (y - 1 + 1) with y by lia. lia.
  - destruct (Z.leb_spec (G0 (y + 1)) j); lia.
Qed.
Lemma gyear_unique j y : G0 y <= j < G0 (y + 1) -> gyear j = y.
Proof.
  intros H. pose proof (gyear_spec j) as G. set (z := gyear j) in *.
  destruct (Z.lt_trichotomy z y) as [L|[E|L]]; [|exact E|].
  - pose proof (G0_mono z y L). pose proof (G0_step z). pose proof (ylen_bounds (gleap z)).
    assert (z + 1 <= y) by lia. destruct (Z.eq_dec (z + 1) y) as [E|]; [assert (G0 (z + 1) = G0 y) by (f_equal; lia); lia|].
    pose proof (G0_mono (z + 1) y ltac:(lia)). lia.
  - assert (y + 1 <= z) by lia. destruct (Z.eq_dec (y + 1) z) as [E|]; [assert (G0 (y + 1) = G0 z) by (f_equal; lia); lia|].
    pose proof (G0_mono (y + 1) z ltac:(lia)). lia.
Qed.

(* ------------------------------------------------------------------ months inside a year *)
Definition months : list Z := zseq 1 12.
Lemma month_cases (P : Z -> Prop) : (forall m, In m months -> P m) -> forall m, 1 <= m <= 12 -> P m.
Proof. intros H m Hm. apply H. apply zseq_in. cbn. lia. Qed.

Lemma mlen_bounds l m : 28 <= mlen l m <= 31.
Proof. unfold mlen. destruct (m =? 2), l, ((m =? 4) || (m =? 6) || (m =? 9) || (m =? 11)); lia. Qed.
Lemma cum_1 l : cum l 1 = 0. Proof. reflexivity. Qed.
Lemma cum_succ l m : 1 <= m < 12 -> cum l (m + 1) = cum l m + mlen l m.
Proof.
  intros H.
  assert (C : forallb (fun m => (cum l (m + 1) =? cum l m + mlen l m)) (zseq 1 11) = true)
    by (destruct l; vm_compute; reflexivity).
  pose proof (range_forall _ _ _ C m ltac:(cbn; lia)) as E. cbv beta in E. lia.
Qed.
Lemma cum_12 l : cum l 12 + mlen l 12 = ylen l. Proof. destruct l; reflexivity. Qed.
Lemma cum_bounds l m : 1 <= m <= 12 -> 0 <= cum l m /\ cum l m + mlen l m <= ylen l.
Proof.
  intros H.
  assert (C : forallb (fun m => (0 <=? cum l m) && (cum l m + mlen l m <=? ylen l)) (zseq 1 12) = true)
    by (destruct l; vm_compute; reflexivity).
  pose proof (range_forall _ _ _ C m ltac:(cbn; lia)) as E. cbv beta in E. lia.
Qed.
Lemma cum_mono l m m' : 1 <= m -> m < m' -> m' <= 12 -> cum l m + mlen l m <= cum l m'.
Proof.
  intros H1 H2 H3.
  assert (C : forallb (fun m => forallb (fun m' => implb (m <? m') (cum l m + mlen l m <=? cum l m')) (zseq 1 12)) (zseq 1 12) = true)
    by (destruct l; vm_compute; reflexivity).
  pose proof (range_forall _ _ _ C m ltac:(cbn; lia)) as E. cbv beta in E.
  pose proof (range_forall _ _ _ E m' ltac:(cbn; lia)) as E'. cbv beta in E'.
  replace (m <? m') with true in E' by lia. cbn [implb] in E'. lia.
Qed.

(* md_of inverts (m, d) |-> cum m + d on valid pairs *)
Lemma md_of_valid l o : 1 <= o <= ylen l ->
  let '(m, d) := md_of l o in valid_md l m d /\ o = cum l m + d.
Proof.
  intros H.
  assert (C : forallb (fun o => implb (o <=? ylen l)
                (let '(m, d) := md_of l o in valid_mdb l m d && (o =? cum l m + d))) (zseq 1 366) = true)
    by (destruct l; vm_compute; reflexivity).
  pose proof (range_forall _ _ _ C o ltac:(cbn; destruct l; cbn in H; lia)) as E. cbv beta in E.
  replace (o <=? ylen l) with true in E by lia. cbn [implb] in E.
  destruct (md_of l o) as [m d]. unfold valid_mdb, valid_md in *. lia.
Qed.
Lemma md_of_iff l o m d : 1 <= o <= ylen l ->
  (md_of l o = (m, d) <-> valid_md l m d /\ o = cum l m + d).
Proof.
  intros H. pose proof (md_of_valid l o H) as V. destruct (md_of l o) as [m0 d0]. destruct V as [V E].
  split.
  - intros X; inversion X; subst; auto.
  - intros [V' E']. unfold valid_md in *.
    destruct (Z.lt_trichotomy m0 m) as [L|[->|L]].
    + pose proof (cum_mono l m0 m ltac:(lia) L ltac:(lia)). lia.
    + f_equal. lia.
    + pose proof (cum_mono l m m0 ltac:(lia) L ltac:(lia)). lia.
Qed.

(* ------------------------------------------------------------------ labels *)
Lemma jlabel_iff j y m d : jlabel j = (y, m, d) <-> valid_md (jleap y) m d /\ jdn_j y m d = j.
Proof.
  unfold jlabel, jdn_j. pose proof (jyear_spec j) as S. pose proof (J0_step (jyear j)) as St.
  set (y0 := jyear j) in *.
  assert (Ho : 1 <= j - J0 y0 + 1 <= ylen (jleap y0)) by lia.
  split.
  - destruct (md_of (jleap y0) (j - J0 y0 + 1)) as [m0 d0] eqn:E. intros X; inversion X; subst.
    apply md_of_iff in E; [|exact Ho]. destruct E; split; [assumption|lia].
  - intros [V E].
    assert (y0 = y).
    { apply jyear_unique. pose proof (J0_step y). unfold valid_md in V.
      pose proof (cum_bounds (jleap y) m ltac:(lia)). lia. }
    subst y. destruct (md_of (jleap y0) (j - J0 y0 + 1)) as [m0 d0] eqn:E0.
    assert (E1 : md_of (jleap y0) (j - J0 y0 + 1) = (m, d)) by (apply md_of_iff; [exact Ho|split; [exact V|lia]]).
    rewrite E0 in E1. inversion E1; reflexivity.
Qed.
Lemma glabel_iff j y m d : glabel j = (y, m, d) <-> valid_md (gleap y) m d /\ jdn_g y m d = j.
Proof.
  unfold glabel, jdn_g. pose proof (gyear_spec j) as S. pose proof (G0_step (gyear j)) as St.
  set (y0 := gyear j) in *.
  assert (Ho : 1 <= j - G0 y0 + 1 <= ylen (gleap y0)) by lia.
  split.
  - destruct (md_of (gleap y0) (j - G0 y0 + 1)) as [m0 d0] eqn:E. intros X; inversion X; subst.
    apply md_of_iff in E; [|exact Ho]. destruct E; split; [assumption|lia].
  - intros [V E].
    assert (y0 = y).
    { apply gyear_unique. pose proof (G0_step y). unfold valid_md in V.
      pose proof (cum_bounds (gleap y) m ltac:(lia)). lia. }
    subst y. destruct (md_of (gleap y0) (j - G0 y0 + 1)) as [m0 d0] eqn:E0.
    assert (E1 : md_of (gleap y0) (j - G0 y0 + 1) = (m, d)) by (apply md_of_iff; [exact Ho|split; [exact V|lia]]).
    rewrite E0 in E1. inversion E1; reflexivity.
Qed.

Lemma jlabel_valid j : let '(y, m, d) := jlabel j in valid_md (jleap y) m d /\ jdn_j y m d = j.
Proof. destruct (jlabel j) as [[y m] d] eqn:E. apply jlabel_iff. exact E. Qed.
Lemma glabel_valid j : let '(y, m, d) := glabel j in valid_md (gleap y) m d /\ jdn_g y m d = j.
Proof. destruct (glabel j) as [[y m] d] eqn:E. apply glabel_iff. exact E. Qed.

(* generic: a labelling characterised by day numbers satisfies the recurrence *)
Section Recurrence.
  Variable leap : Z -> bool.
  Variable Y0 : Z -> Z.
  Variable lab : Z -> ymd.
  Hypothesis Y0_step : forall y, Y0 (y + 1) = Y0 y + ylen (leap y).
  Hypothesis lab_iff : forall j y m d, lab j = (y, m, d) <-> valid_md (leap y) m d /\ Y0 y + cum (leap y) m + d - 1 = j.
  Lemma lab_step j : lab (j + 1) = next_date leap (lab j).
  Proof.
    destruct (lab j) as [[y m] d] eqn:E. apply lab_iff in E. destruct E as [[Vm Vd] E].
    unfold next_date.
    destruct (Z.ltb_spec d (mlen (leap y) m)).
    - apply lab_iff. unfold valid_md. lia.
    - destruct (Z.ltb_spec m 12).
      + apply lab_iff. pose proof (cum_succ (leap y) m ltac:(lia)). pose proof (mlen_bounds (leap y) (m + 1)).
        unfold valid_md. lia.
      + apply lab_iff. assert (m = 12) by lia. subst m. pose proof (cum_12 (leap y)). pose proof (Y0_step y).
        pose proof (mlen_bounds (leap (y + 1)) 1). rewrite cum_1. unfold valid_md. lia.
  Qed.
End Recurrence.

Lemma jlabel_step j : jlabel (j + 1) = next_date jleap (jlabel j).
Proof. apply (lab_step jleap J0 jlabel J0_step). intros. apply jlabel_iff. Qed.
Lemma glabel_step j : glabel (j + 1) = next_date gleap (glabel j).
Proof. apply (lab_step gleap G0 glabel G0_step). intros. apply glabel_iff. Qed.

Lemma jlabel_anchor : jlabel 0 = julian_anchor. Proof. reflexivity. Qed.
Lemma glabel_anchor : glabel 0 = gregorian_anchor. Proof. reflexivity. Qed.

Theorem jlabel_is_calendar : IsCalendar jleap julian_anchor jlabel.
Proof. split; [exact jlabel_anchor | exact jlabel_step]. Qed.
Theorem glabel_is_calendar : IsCalendar gleap gregorian_anchor glabel.
Proof. split; [exact glabel_anchor | exact glabel_step]. Qed.

(* next_date is injective on valid labels, so the definition also determines the days before the anchor *)
Definition valid_label (leap : Z -> bool) (l : ymd) : Prop := let '(y, m, d) := l in valid_md (leap y) m d.
Lemma next_date_valid leap l : valid_label leap l -> valid_label leap (next_date leap l).
Proof.
  destruct l as [[y m] d]. unfold valid_label, next_date, valid_md. intros [Hm Hd].
  destruct (Z.ltb_spec d (mlen (leap y) m)); [lia|].
  destruct (Z.ltb_spec m 12).
  - pose proof (mlen_bounds (leap y) (m + 1)). lia.
  - pose proof (mlen_bounds (leap (y + 1)) 1). lia.
Qed.
Lemma next_date_inj leap a b : valid_label leap a -> valid_label leap b ->
  next_date leap a = next_date leap b -> a = b.
Proof.
  destruct a as [[y m] d], b as [[y' m'] d']. unfold valid_label, next_date, valid_md. intros [Hm Hd] [Hm' Hd'].
  destruct (Z.ltb_spec d (mlen (leap y) m)) as [A|A], (Z.ltb_spec d' (mlen (leap y') m')) as [A'|A'];
    destruct (Z.ltb_spec m 12) as [B|B], (Z.ltb_spec m' 12) as [B'|B']; intros X; injection X; intros;
    try lia;
    (assert (y = y') by lia; subst y'; assert (m = m') by lia; subst m'; assert (d = d') by lia; subst d'; reflexivity).
Qed.

Theorem calendar_unique leap a f g :
  IsCalendar leap a f -> IsCalendar leap a g ->
  (forall j, valid_label leap (f j)) -> (forall j, valid_label leap (g j)) ->
  forall j, f j = g j.
Proof.
  intros [F0 Fs] [G0' Gs] Vf Vg j.
  destruct (Z.le_gt_cases 0 j) as [H|H].
  - pattern j. apply natlike_ind; [congruence| |exact H].
    intros x _ IH. unfold Z.succ. rewrite Fs, Gs, IH. reflexivity.
  - assert (forall n, 0 <= n -> f (- n) = g (- n)) as X.
    { intros n Hn. pattern n. apply natlike_ind; [cbn; congruence| |exact Hn].
      intros x Hx IH. apply (next_date_inj leap); [apply Vf|apply Vg|].
      rewrite <- Fs, <- Gs. replace (- Z.succ x + 1) with (- x) by lia. exact IH. }
    replace j with (- (- j)) by lia. apply X. lia.
Qed.

Lemma jlabel_valid_label j : valid_label jleap (jlabel j).
Proof. pose proof (jlabel_valid j). destruct (jlabel j) as [[y m] d]. tauto. Qed.
Lemma glabel_valid_label j : valid_label gleap (glabel j).
Proof. pose proof (glabel_valid j). destruct (glabel j) as [[y m] d]. tauto. Qed.

(* ------------------------------------------------------------------ monotonicity *)
Lemma jdn_lex_gen (leap : Z -> bool) (Y0 : Z -> Z) :
  (forall y, Y0 (y + 1) = Y0 y + ylen (leap y)) -> (forall y y', y < y' -> Y0 y + 365 <= Y0 y') ->
  forall y m d y' m' d', valid_md (leap y) m d -> valid_md (leap y') m' d' ->
  (Y0 y + cum (leap y) m + d - 1 < Y0 y' + cum (leap y') m' + d' - 1 <-> lex_lt (y, m, d) (y', m', d')).
Proof.
  intros St Mo y m d y' m' d' [Vm Vd] [Vm' Vd']. unfold lex_lt, l_year, l_month, l_day. cbn [fst snd].
  pose proof (cum_bounds (leap y) m Vm). pose proof (cum_bounds (leap y') m' Vm').
  pose proof (St y). pose proof (St y').
  destruct (Z.lt_trichotomy y y') as [L|[->|L]].
  - split; [lia|intros _].
    destruct (Z.eq_dec (y + 1) y') as [<-|]; [lia|]. pose proof (Mo (y + 1) y' ltac:(lia)). lia.
  - destruct (Z.lt_trichotomy m m') as [L|[->|L]].
    + pose proof (cum_mono (leap y') m m' ltac:(lia) L ltac:(lia)). lia.
    + lia.
    + pose proof (cum_mono (leap y') m' m ltac:(lia) L ltac:(lia)). lia.
  - split; [|lia]. intros X. exfalso.
    destruct (Z.eq_dec (y' + 1) y) as [<-|]; [lia|]. pose proof (Mo (y' + 1) y ltac:(lia)). lia.
Qed.
Lemma jdn_j_lex y m d y' m' d' : valid_md (jleap y) m d -> valid_md (jleap y') m' d' ->
  (jdn_j y m d < jdn_j y' m' d' <-> lex_lt (y, m, d) (y', m', d')).
Proof. apply (jdn_lex_gen jleap J0 J0_step J0_mono). Qed.
Lemma jdn_g_lex y m d y' m' d' : valid_md (gleap y) m d -> valid_md (gleap y') m' d' ->
  (jdn_g y m d < jdn_g y' m' d' <-> lex_lt (y, m, d) (y', m', d')).
Proof. apply (jdn_lex_gen gleap G0 G0_step G0_mono). Qed.

Lemma jlabel_mono j j' : j < j' -> lex_lt (jlabel j) (jlabel j').
Proof.
  intros H. pose proof (jlabel_valid j) as A. pose proof (jlabel_valid j') as B.
  destruct (jlabel j) as [[y m] d], (jlabel j') as [[y' m'] d']. destruct A as [VA EA], B as [VB EB].
  apply jdn_j_lex; try assumption. lia.
Qed.
Lemma glabel_mono j j' : j < j' -> lex_lt (glabel j) (glabel j').
Proof.
  intros H. pose proof (glabel_valid j) as A. pose proof (glabel_valid j') as B.
  destruct (glabel j) as [[y m] d], (glabel j') as [[y' m'] d']. destruct A as [VA EA], B as [VB EB].
  apply jdn_g_lex; try assumption. lia.
Qed.
Lemma lex_lt_trans a b c : lex_lt a b -> lex_lt b c -> lex_lt a c.
Proof. unfold lex_lt. lia. Qed.
Lemma lex_lt_irrefl a : ~ lex_lt a a.
Proof. unfold lex_lt. lia. Qed.
