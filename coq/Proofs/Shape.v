(* Shape.v — the MonthShape methods (as translated) against closed forms on the private shape value,
   for every well-formed shape and every u32 argument; plus the enumeration structure
   (the k-th existing day is strictly increasing in k and onto the set of existing days). *)
From JV Require Import Sem Gen Spec SpecX.
From JV.Proofs Require Import SpecFacts.
Open Scope Z_scope.
Ltac Zify.zify_post_hook ::= Z.to_euclidean_division_equations.
(* the k-th existing day, 1 <= k <= sh_len *)
(* position of an existing day *)
(* natural length and the removed range *)
(* the error classification of a day request *)

(* ------------------------------------------------------------------ enumeration structure *)
Ltac shcbn := cbn [WfShape sh_len sh_in sh_nth sh_ord sh_first sh_last sh_natural sh_gap] in *.
Lemma sh_len_pos s : WfShape s -> 1 <= sh_len s <= 31.
Proof. destruct s as [mx|mn mx|mx nat|gs ge mx]; shcbn; lia. Qed.
Lemma sh_nth_in s k : WfShape s -> 1 <= k <= sh_len s -> sh_in s (sh_nth s k) = true.
Proof. destruct s as [mx|mn mx|mx nat|gs ge mx]; shcbn; intros; try lia. destruct (Z.ltb_spec k gs); lia. Qed.
Lemma sh_nth_mono s k k' : WfShape s -> 1 <= k -> k < k' -> sh_nth s k < sh_nth s k'.
Proof. destruct s as [mx|mn mx|mx nat|gs ge mx]; shcbn; intros; try lia. destruct (Z.ltb_spec k gs), (Z.ltb_spec k' gs); lia. Qed.
Lemma sh_ord_range s d : WfShape s -> sh_in s d = true -> 1 <= sh_ord s d <= sh_len s.
Proof. destruct s as [mx|mn mx|mx nat|gs ge mx]; shcbn; intros; try lia. destruct (Z.ltb_spec d gs); lia. Qed.
Lemma sh_nth_ord s d : WfShape s -> sh_in s d = true -> sh_nth s (sh_ord s d) = d.
Proof.
  destruct s as [mx|mn mx|mx nat|gs ge mx]; shcbn; intros; try lia.
  destruct (Z.ltb_spec d gs) as [A|A].
  - replace (d <? gs) with true by lia. reflexivity.
  - replace (d - (ge - gs + 1) <? gs) with false by lia. lia.
Qed.
Lemma sh_ord_nth s k : WfShape s -> 1 <= k <= sh_len s -> sh_ord s (sh_nth s k) = k.
Proof.
  destruct s as [mx|mn mx|mx nat|gs ge mx]; shcbn; intros; try lia.
  destruct (Z.ltb_spec k gs) as [A|A].
  - replace (k <? gs) with true by lia. reflexivity.
  - replace (k + (ge - gs + 1) <? gs) with false by lia. lia.
Qed.
Lemma sh_first_nth s : WfShape s -> sh_nth s 1 = sh_first s.
Proof. destruct s as [mx|mn mx|mx nat|gs ge mx]; shcbn; intros; try lia. replace (1 <? gs) with true by lia. reflexivity. Qed.
Lemma sh_last_nth s : WfShape s -> sh_nth s (sh_len s) = sh_last s.
Proof. destruct s as [mx|mn mx|mx nat|gs ge mx]; shcbn; intros; try lia. replace (_ <? gs) with false by lia. lia. Qed.
Lemma sh_in_natural s d : WfShape s -> sh_in s d = true -> 1 <= d <= sh_natural s.
Proof. destruct s as [mx|mn mx|mx nat|gs ge mx]; shcbn; lia. Qed.
(* the gap is exactly the set of natural days that do not exist, and it is a contiguous non-empty range *)
Lemma sh_gap_spec s : WfShape s ->
  match sh_gap s with
  | None => forall d, sh_in s d = true <-> 1 <= d <= sh_natural s
  | Some (a, b) => a <= b /\ forall d, (a <= d <= b <-> (1 <= d <= sh_natural s /\ sh_in s d = false))
  end.
Proof. destruct s as [mx|mn mx|mx nat|gs ge mx]; shcbn; intros; try split; intros; lia. Qed.

(* ------------------------------------------------------------------ the translated methods *)
Ltac ifd := match goal with |- context[if ?c then _ else _] => destruct c eqn:? end.
Ltac shape_solve := repeat first [mstep1 | ifd | progress cbn [orb andb negb]]; try reflexivity; try (f_equal; f_equal; range); try range; try (exfalso; range).

Section Methods.
  Variables (c : Calendar) (y : Z) (m : Month) (s : inner_MonthShape).
  Hypothesis W : WfShape s.
  Let ms := mkMonthShape c y m s.

  Lemma len_ok : MonthShape_len ms = Ret (sh_len s).
  Proof. unfold MonthShape_len, ms. cbn [MonthShape_f_inner]. destruct s as [mx|mn mx|mx nat|gs ge mx]; shcbn; shape_solve. Qed.

  Lemma contains_ok d : MonthShape_contains ms d = Ret (sh_in s d).
  Proof.
    unfold MonthShape_contains, ms. cbn [MonthShape_f_inner].
    destruct s as [mx|mn mx|mx nat|gs ge mx]; first [reflexivity | autounfold with gen_new; shcbn; shape_solve; exfalso; lia].
  Qed.

  Lemma first_day_ok : MonthShape_first_day ms = Ret (sh_first s).
  Proof. unfold MonthShape_first_day, ms. cbn [MonthShape_f_inner]. destruct s as [mx|mn mx|mx nat|gs ge mx]; reflexivity. Qed.
  Lemma last_day_ok : MonthShape_last_day ms = Ret (sh_last s).
  Proof. unfold MonthShape_last_day, ms. cbn [MonthShape_f_inner]. destruct s as [mx|mn mx|mx nat|gs ge mx]; reflexivity. Qed.

  Lemma nth_day_ok k : in_u32 k ->
    MonthShape_nth_day ms k = Ret (if (1 <=? k) && (k <=? sh_len s) then Some (sh_nth s k) else None).
  Proof.
    intros K. unfold MonthShape_nth_day, ms. cbn [MonthShape_f_inner]. cbv zeta.
    destruct s as [mx|mn mx|mx nat|gs ge mx]; shcbn; shape_solve.
  Qed.

  Lemma day_ordinal_err_ok d : in_u32 d -> MonthShape_day_ordinal_err ms d = Ret (sh_day_err y m s d).
  Proof.
    intros D. unfold MonthShape_day_ordinal_err, sh_day_err, ms. cbn [MonthShape_f_inner MonthShape_f_year MonthShape_f_month]. cbv zeta.
    destruct s as [mx|mn mx|mx nat|gs ge mx]; shcbn; shape_solve.
  Qed.

  Lemma day_ordinal_ok d : in_u32 d ->
    MonthShape_day_ordinal ms d = Ret (if sh_in s d then Some (sh_ord s d) else None).
  Proof.
    intros D. unfold MonthShape_day_ordinal. rewrite day_ordinal_err_ok by exact D. cbn [bind]. unfold sh_day_err.
    destruct (sh_in s d); [reflexivity|]. destruct ((1 <=? d) && (d <=? sh_natural s)); reflexivity.
  Qed.

  Lemma gap_ok : MonthShape_gap ms = Ret (match sh_gap s with None => None | Some (a, b) => Some (mkRange a b false) end).
  Proof. unfold MonthShape_gap, ms. cbn [MonthShape_f_inner]. destruct s as [mx|mn mx|mx nat|gs ge mx]; shcbn; shape_solve. Qed.

  Lemma kind_ok : MonthShape_kind ms = Ret (match s with
      | inner_MonthShape_Normal _ => MonthKind_Normal | inner_MonthShape_Headless _ _ => MonthKind_Headless
      | inner_MonthShape_Tailless _ _ => MonthKind_Tailless | inner_MonthShape_Gapped _ _ _ => MonthKind_Gapped end).
  Proof. unfold MonthShape_kind, ms. cbn [MonthShape_f_inner]. destruct s as [mx|mn mx|mx nat|gs ge mx]; reflexivity. Qed.
End Methods.
