(* Year.v — year_kind and year_length of every calendar a user can hold, against the
   set-based closed forms of Spec.v (year_count = number of dates in the year). *)
From JV Require Import Sem Gen Spec SpecX.
From JV.Proofs Require Import SpecFacts GapFacts Cal Cmp Inner.
Open Scope Z_scope.
Ltac Zify.zify_post_hook ::= Z.to_euclidean_division_equations.

Lemma gap_ok c : Calendar_gap (cal_of c) = Ret (match c with CR r => Some (gap_of r) | _ => None end).
Proof. destruct c; reflexivity. Qed.

Lemma ylen_eq l : ylen l = if l then 366 else 365. Proof. reflexivity. Qed.

Section Reforming.
  Variables (r py pm pd qy qm qd : Z).
  Hypothesis GI : GapInfo r py pm pd qy qm qd.

  Definition the_gap : inner_ReformGap :=
    mkinner_ReformGap
      (mkinner_Date py (r - J0 py) (month_of_Z pm) pd)
      (mkinner_Date qy (if py =? qy then r - J0 py + 1 else 1) (month_of_Z qm) qd)
      (gap_kind py pm qy qm)
      (if py =? qy then r - G0 qy else 0)
      (if py =? qy then J0 py - G0 qy else r - G0 qy).

  Lemma gap_of_eq : gap_of r = the_gap.
  Proof.
    unfold gap_of, the_gap. rewrite (gi_pre _ _ _ _ _ _ _ GI), (gi_post _ _ _ _ _ _ _ GI).
    f_equal; [f_equal; lia | f_equal; destruct (py =? qy); lia | destruct (py =? qy); lia | destruct (py =? qy); lia].
  Qed.

  Lemma pm_range : 1 <= pm <= 12. Proof. destruct (gi_vp _ _ _ _ _ _ _ GI); assumption. Qed.
  Lemma qm_range : 1 <= qm <= 12. Proof. destruct (gi_vq _ _ _ _ _ _ _ GI); assumption. Qed.

  (* where r sits inside the Julian year py and the Gregorian year qy *)
  Lemma r_in_py : J0 py + cum (jleap py) pm + pd = r /\ 0 <= cum (jleap py) pm /\ 1 <= pd <= mlen (jleap py) pm
                  /\ cum (jleap py) pm + mlen (jleap py) pm <= ylen (jleap py).
  Proof.
    pose proof (gi_ep _ _ _ _ _ _ _ GI) as E. pose proof (gi_vp _ _ _ _ _ _ _ GI) as [Vm Vd].
    pose proof (cum_bounds (jleap py) pm Vm). unfold jdn_j in E. lia.
  Qed.
  Lemma r_in_qy : G0 qy + cum (gleap qy) qm + qd - 1 = r /\ 0 <= cum (gleap qy) qm /\ 1 <= qd <= mlen (gleap qy) qm
                  /\ cum (gleap qy) qm + mlen (gleap qy) qm <= ylen (gleap qy).
  Proof.
    pose proof (gi_eq _ _ _ _ _ _ _ GI) as E. pose proof (gi_vq _ _ _ _ _ _ _ GI) as [Vm Vd].
    pose proof (cum_bounds (gleap qy) qm Vm). unfold jdn_g in E. lia.
  Qed.
  Lemma py_le_qy : py <= qy.
  Proof. pose proof (gi_lex _ _ _ _ _ _ _ GI) as L. unfold lex_lt, l_year in L. cbn [fst snd] in L. lia. Qed.
  Lemma r_year_bounds : J0 py < r <= J0 (py + 1) /\ G0 qy <= r < G0 (qy + 1).
  Proof.
    pose proof r_in_py. pose proof r_in_qy. pose proof (J0_step py). pose proof (G0_step qy). lia.
  Qed.

  Lemma old_days_eq y :
    old_days (CR r) y = if y <? py then ylen (jleap y) else if y =? py then r - J0 py else 0.
  Proof.
    pose proof r_year_bounds as [[A B] _]. cbn [old_days]. pose proof (J0_step y) as S.
    destruct (Z.ltb_spec y py).
    - pose proof (J0_mono y py ltac:(lia)). pose proof (ylen_bounds (jleap y)).
      assert (J0 (y + 1) <= J0 py). { destruct (Z.eq_dec (y + 1) py) as [<-|]; [lia|]. pose proof (J0_mono (y + 1) py ltac:(lia)). lia. }
      lia.
    - destruct (Z.eqb_spec y py) as [->|N]; [lia|].
      assert (J0 (py + 1) <= J0 y). { destruct (Z.eq_dec (py + 1) y) as [<-|]; [lia|]. pose proof (J0_mono (py + 1) y ltac:(lia)). lia. }
      lia.
  Qed.
  Lemma new_days_eq y :
    new_days (CR r) y = if y <? qy then 0 else if y =? qy then G0 (qy + 1) - r else ylen (gleap y).
  Proof.
    pose proof r_year_bounds as [_ [A B]]. cbn [new_days]. pose proof (G0_step y) as S.
    destruct (Z.ltb_spec y qy).
    - assert (G0 (y + 1) <= G0 qy). { destruct (Z.eq_dec (y + 1) qy) as [<-|]; [lia|]. pose proof (G0_mono (y + 1) qy ltac:(lia)). lia. }
      lia.
    - destruct (Z.eqb_spec y qy) as [->|N]; [lia|].
      assert (G0 (qy + 1) <= G0 y). { destruct (Z.eq_dec (qy + 1) y) as [<-|]; [lia|]. pose proof (G0_mono (qy + 1) y ltac:(lia)). lia. }
      pose proof (ylen_bounds (gleap y)). lia.
  Qed.

  (* is February 29 of year y a date of the calendar? *)
  Lemma feb29_old y :
    (29 <=? old_mdays (CR r) y 2) = jleap y && ((y <? py) || ((y =? py) && ((3 <=? pm) || ((pm =? 2) && (pd =? 29))))).
  Proof.
    cbn [old_mdays]. unfold jdn_j. rewrite cum_2, mlen_2.
    pose proof r_in_py as (EP & CP & DP & BP). pose proof pm_range as PM.
    pose proof (J0_step y) as SY. pose proof (J0_step py) as SP.
    pose proof (ylen_bounds (jleap y)). pose proof (ylen_bounds (jleap py)).
    pose proof (mlen_bounds (jleap py) pm).
    destruct (Z.lt_trichotomy y py) as [L1|[E1|L1]].
    - assert (J0 (y + 1) <= J0 py). { destruct (Z.eq_dec (y + 1) py) as [<-|]; [lia|]. pose proof (J0_mono (y + 1) py ltac:(lia)). lia. }
      destruct (jleap y); lia.
    - subst y.
      assert (FP : (pm = 1 /\ cum (jleap py) pm = 0) \/ (pm = 2 /\ cum (jleap py) pm = 31 /\ mlen (jleap py) pm = (if jleap py then 29 else 28)) \/ (3 <= pm /\ 59 <= cum (jleap py) pm)).
      { destruct (Z.eq_dec pm 1) as [->|]; [left; split; reflexivity|]. destruct (Z.eq_dec pm 2) as [->|]; [right; left; repeat split; reflexivity|].
        right; right. pose proof (cum_ge3 (jleap py) pm ltac:(lia)). destruct (jleap py); lia. }
      destruct (jleap py); lia.
    - assert (J0 (py + 1) <= J0 y). { destruct (Z.eq_dec (py + 1) y) as [<-|]; [lia|]. pose proof (J0_mono (py + 1) y ltac:(lia)). lia. }
      destruct (jleap y); lia.
  Qed.
  Lemma feb29_new y :
    (new_mfirst (CR r) y 2 <=? 29) && (29 <=? mlen (gleap y) 2) = gleap y && ((qy <? y) || ((y =? qy) && (qm <=? 2))).
  Proof.
    cbn [new_mfirst]. unfold jdn_g. rewrite cum_2, mlen_2.
    pose proof r_in_qy as (EQ & CQ & DQ & BQ). pose proof qm_range as QM.
    pose proof (G0_step y) as SY. pose proof (G0_step qy) as SQ.
    pose proof (ylen_bounds (gleap y)). pose proof (ylen_bounds (gleap qy)).
    pose proof (mlen_bounds (gleap qy) qm).
    destruct (Z.lt_trichotomy y qy) as [L1|[E1|L1]].
    - assert (G0 (y + 1) <= G0 qy). { destruct (Z.eq_dec (y + 1) qy) as [<-|]; [lia|]. pose proof (G0_mono (y + 1) qy ltac:(lia)). lia. }
      destruct (gleap y); lia.
    - subst y.
      assert (FQ : (qm = 1 /\ cum (gleap qy) qm = 0) \/ (qm = 2 /\ cum (gleap qy) qm = 31 /\ mlen (gleap qy) qm = (if gleap qy then 29 else 28)) \/ (3 <= qm /\ 59 + (if gleap qy then 1 else 0) <= cum (gleap qy) qm)).
      { destruct (Z.eq_dec qm 1) as [->|]; [left; split; reflexivity|]. destruct (Z.eq_dec qm 2) as [->|]; [right; left; repeat split; reflexivity|].
        right; right. pose proof (cum_ge3 (gleap qy) qm ltac:(lia)). lia. }
      destruct (gleap qy); lia.
    - assert (G0 (qy + 1) <= G0 y). { destruct (Z.eq_dec (qy + 1) y) as [<-|]; [lia|]. pose proof (G0_mono (qy + 1) y ltac:(lia)). lia. }
      destruct (gleap y); lia.
  Qed.
  Lemma incal_feb29 y :
    incalb (CR r) y 2 29 =
    (jleap y && ((y <? py) || ((y =? py) && ((3 <=? pm) || ((pm =? 2) && (pd =? 29))))))
    || (gleap y && ((qy <? y) || ((y =? qy) && (qm <=? 2)))).
  Proof.
    unfold incalb. rewrite feb29_old. change (1 <=? 2) with true. change (2 <=? 12) with true. change (1 <=? 29) with true.
    cbn [andb negb]. rewrite andb_true_r. rewrite feb29_new. reflexivity.
  Qed.

  Ltac cmp_simpl :=
    repeat match goal with
    | |- context[?a <? ?b] => first [replace (a <? b) with true by lia | replace (a <? b) with false by lia]
    | |- context[?a =? ?b] => first [replace (a =? b) with true by lia | replace (a =? b) with false by lia]
    | |- context[?a <=? ?b] => first [replace (a <=? b) with true by lia | replace (a <=? b) with false by lia]
    end.
  Ltac ysolve :=
    repeat first [ progress cbn [bind andb orb negb ykind_gen Month_discr]
                 | progress autounfold with gen_new
                 | rewrite Month_eq_ok | rewrite Month_lt_ok | rewrite Month_le_ok
                 | rewrite Month_discr_of_Z by assumption
                 | rewrite is_julian_leap_year_ok | rewrite is_gregorian_leap_year_ok
                 | progress cmp_simpl
                 | match goal with |- context[if ?c then _ else _] => destruct c eqn:? end ];
    try reflexivity; exfalso; lia.

  Definition rcal : Calendar := mkCalendar (inner_Calendar_Reforming r the_gap).

  Lemma year_kind_reforming y : in_i32 y ->
    Calendar_year_kind rcal y = Ret (ykind_gen (year_kind_of (CR r) y)).
  Proof.
    intros Hy. unfold Calendar_year_kind, rcal. cbn [Calendar_f_0]. unfold inner_ReformGap_cmp_year, the_gap.
    cbn [inner_ReformGap_f_pre_reform inner_ReformGap_f_post_reform inner_Date_f_year inner_Date_f_month inner_Date_f_day].
    rewrite cmp_int_range_ok by apply py_le_qy. cbn [bind].
    rewrite ?match_dec31, ?match_jan1, ?Month_lt_ok, ?Month_le_ok, ?Month_eq_ok, ?is_julian_leap_year_ok, ?is_gregorian_leap_year_ok.
    pose proof pm_range as PM. pose proof qm_range as QM.
    rewrite !Month_discr_of_Z by assumption. cbn [Month_discr].
    unfold year_kind_of, year_count. rewrite old_days_eq, new_days_eq, incal_feb29.
    pose proof r_in_py as (EP & CP & DP & BP). pose proof r_in_qy as (EQ & CQ & DQ & BQ).
    pose proof r_year_bounds as [[A B] [C D]]. pose proof py_le_qy.
    pose proof (J0_step py). pose proof (G0_step qy).
    pose proof (ylen_bounds (jleap y)). pose proof (ylen_bounds (gleap y)).
    (* Dec 31 / Jan 1 boundary characterisations *)
    assert (D31 : ((pm =? 12) && (pd =? 31)) = (r =? J0 (py + 1))).
    { pose proof (cum_12 (jleap py)). destruct (Z.eq_dec pm 12) as [->|N].
      - change (mlen (jleap py) 12) with 31 in *. lia.
      - pose proof (cum_mono (jleap py) pm 12 ltac:(lia) ltac:(lia) ltac:(lia)). change (mlen (jleap py) 12) with 31 in *. lia. }
    assert (J1 : ((qm =? 1) && (qd =? 1)) = (r =? G0 qy)).
    { destruct (Z.eq_dec qm 1) as [->|N]; [rewrite cum_1 in *; lia|].
      pose proof (cum_mono (gleap qy) 1 qm ltac:(lia) ltac:(lia) ltac:(lia)). rewrite cum_1 in *. pose proof (mlen_bounds (gleap qy) 1). lia. }
    rewrite ?D31, ?J1. unfold range_ord_int, range_ord. rewrite !ylen_eq in *.
    pose proof (gleap_jleap y) as GJ.
    destruct (Z.ltb_spec y py) as [L1|L1]; cbn [bind].
    - (* strictly Julian year *)
      replace (y <? qy) with true by lia. destruct (jleap y) eqn:JL; destruct (gleap y) eqn:GL; ysolve.
    - destruct (Z.eqb_spec y py) as [E1|N1].
      + subst y. destruct (Z.ltb_spec py qy) as [L2|L2]; cbn [bind].
        * (* EqLower *)
          destruct (jleap py) eqn:JL; destruct (gleap py) eqn:GL;
          ysolve.
        * (* EqBoth *)
          assert (py = qy) by lia. subst qy.
          destruct (jleap py) eqn:JL; destruct (gleap py) eqn:GL;
          ysolve.
      + destruct (Z.ltb_spec y qy) as [L2|L2]; cbn [bind].
        * (* Between *)
          destruct (jleap y) eqn:JL; destruct (gleap y) eqn:GL; ysolve.
        * destruct (Z.eqb_spec y qy) as [E2|N2]; cbn [bind].
          -- (* EqUpper *) subst y.
             destruct (jleap qy) eqn:JL; destruct (gleap qy) eqn:GL;
             ysolve.
          -- (* Greater *)
             destruct (jleap y) eqn:JL; destruct (gleap y) eqn:GL;
             ysolve.
  Qed.

  Lemma year_length_reforming y : in_i32 y ->
    Calendar_year_length rcal y = Ret (year_count (CR r) y).
  Proof.
    intros Hy. unfold Calendar_year_length. autounfold with gen_new.
    rewrite ?year_kind_reforming by exact Hy.
    change (Calendar_gap rcal) with (@Ret (option inner_ReformGap) (Some the_gap)).
    cbn [bind rcal Calendar_f_0].
    rewrite ?year_kind_reforming by exact Hy. cbn [bind].
    unfold the_gap. cbn [inner_ReformGap_f_pre_reform inner_ReformGap_f_post_reform inner_ReformGap_f_ordinal_gap inner_Date_f_year inner_Date_f_ordinal].
    change (to_u32 COMMON_YEAR_LENGTH) with 365. change (to_u32 LEAP_YEAR_LENGTH) with 366.
    unfold year_kind_of, year_count. rewrite old_days_eq, new_days_eq, incal_feb29.
    pose proof r_year_bounds as [[A B] [C D]]. pose proof py_le_qy.
    pose proof (J0_step py). pose proof (G0_step qy). pose proof (G0_step y) as GS.
    pose proof (ylen_bounds (jleap y)). pose proof (ylen_bounds (gleap y)).
    rewrite !ylen_eq in *.
    destruct (Z.lt_trichotomy y py) as [L1|[E1|L1]]; destruct (Z.lt_trichotomy y qy) as [L2|[E2|L2]];
      try subst y; try subst qy; try (exfalso; lia);
      destruct (jleap _) eqn:JL; destruct (gleap _) eqn:GL;
      repeat first [ progress cbn [bind andb orb negb ykind_gen]
                   | rewrite is_gregorian_leap_year_ok
                   | rewrite GL | rewrite JL
                   | progress cmp_simpl
                   | rewrite u32_sub_ok by range
                   | match goal with |- context[if ?c then _ else _] => destruct c eqn:? end ];
      try reflexivity; try (f_equal; lia); exfalso; lia.
  Qed.
End Reforming.

(* ------------------------------------------------------------------ all calendars *)
Lemma cal_of_CR r py pm pd qy qm qd : GapInfo r py pm pd qy qm qd ->
  cal_of (CR r) = rcal r py pm pd qy qm qd.
Proof. intros GI. unfold cal_of, rcal. rewrite (gap_of_eq _ _ _ _ _ _ _ GI). reflexivity. Qed.

Lemma year_kind_ok c y : ValidCal c -> in_i32 y ->
  Calendar_year_kind (cal_of c) y = Ret (ykind_gen (year_kind_of c y)).
Proof.
  intros V Hy. destruct c as [| |r].
  - unfold Calendar_year_kind. cbn [cal_of Calendar_JULIAN Calendar_f_0]. rewrite is_julian_leap_year_ok. cbn [bind].
    unfold year_kind_of, year_count. cbn [old_days new_days]. pose proof (ylen_bounds (jleap y)).
    replace (ylen (jleap y) + 0 =? 0) with false by lia. change (0 =? 0) with true.
    replace (ylen (jleap y) + 0 =? ylen (jleap y)) with true by lia. cbn [andb]. destruct (jleap y); reflexivity.
  - unfold Calendar_year_kind. cbn [cal_of Calendar_GREGORIAN Calendar_f_0]. rewrite is_gregorian_leap_year_ok. cbn [bind].
    unfold year_kind_of, year_count. cbn [old_days new_days]. pose proof (ylen_bounds (gleap y)). pose proof (ylen_bounds (jleap y)).
    pose proof (gleap_jleap y) as GJ.
    replace (0 + ylen (gleap y) =? 0) with false by lia. replace (ylen (gleap y) =? 0) with false by lia. cbn [andb].
    change (0 =? 0) with true. replace (0 + ylen (gleap y) =? ylen (gleap y)) with true by lia. cbn [andb].
    destruct (gleap y); reflexivity.
  - cbn [ValidCal] in V. destruct (gap_info r V) as (py & pm & pd & qy & qm & qd & GI).
    rewrite (cal_of_CR _ _ _ _ _ _ _ GI). apply year_kind_reforming; assumption.
Qed.

Lemma year_length_ok c y : ValidCal c -> in_i32 y ->
  Calendar_year_length (cal_of c) y = Ret (year_count c y).
Proof.
  intros V Hy. destruct c as [| |r].
  - unfold Calendar_year_length. cbn [cal_of Calendar_JULIAN Calendar_f_0].
    change Calendar_JULIAN with (cal_of CJ). rewrite year_kind_ok by (cbn; auto). cbn [bind].
    unfold year_kind_of, year_count. cbn [old_days new_days]. pose proof (ylen_bounds (jleap y)).
    replace (ylen (jleap y) + 0 =? 0) with false by lia. change (0 =? 0) with true.
    replace (ylen (jleap y) + 0 =? ylen (jleap y)) with true by lia. cbn [andb]. destruct (jleap y); reflexivity.
  - unfold Calendar_year_length. cbn [cal_of Calendar_GREGORIAN Calendar_f_0].
    change Calendar_GREGORIAN with (cal_of CG). rewrite year_kind_ok by (cbn; auto). cbn [bind].
    unfold year_kind_of, year_count. cbn [old_days new_days]. pose proof (ylen_bounds (gleap y)). pose proof (ylen_bounds (jleap y)).
    replace (0 + ylen (gleap y) =? 0) with false by lia. replace (ylen (gleap y) =? 0) with false by lia. cbn [andb].
    change (0 =? 0) with true. replace (0 + ylen (gleap y) =? ylen (gleap y)) with true by lia. cbn [andb].
    destruct (gleap y); reflexivity.
  - cbn [ValidCal] in V. destruct (gap_info r V) as (py & pm & pd & qy & qm & qd & GI).
    rewrite (cal_of_CR _ _ _ _ _ _ _ GI). apply year_length_reforming; assumption.
Qed.
