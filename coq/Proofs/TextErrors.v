(* Proofs/TextErrors.v — complete classification of the syntactic errors of Calendar::parse_date:
   WHICH ParseDateError is reported for WHICH text (first failure, left to right).
   [Rejects s e] is a declarative description; [rejects_iff]: parse_fields s = Err e <-> Rejects s e. *)
From JV Require Import Sem Gen Hand.Names Hand.Text Proofs.NamesProofs Proofs.TextProofs.
Open Scope Z_scope.
Ltac Zify.zify_post_hook ::= Z.to_euclidean_division_equations.
Local Arguments is_digit : simpl never.

(* a well-formed year: optional sign, non-empty digits, value in i32 *)
Definition year_ok (sg : Sign) (ds : list Z) : Prop := ds <> [] /\ is_digits ds /\ in_i32 (signed_value sg ds).
(* a well-formed unsigned field: non-empty digits, value in u32 *)
Definition field_ok (ds : list Z) : Prop := ds <> [] /\ is_digits ds /\ in_u32 (digits_value ds).

(* why `parse_uint` fails on the text t *)
Inductive UintRejects : list Z -> ParseDateError -> Prop :=
| UR_empty : UintRejects [] PDE_EmptyInt
| UR_start c r : is_digit c = false -> UintRejects (c :: r) (PDE_InvalidUIntStart c)
| UR_overflow ds b : ds <> [] -> is_digits ds -> stops b -> ~ in_u32 (digits_value ds) ->
    UintRejects (ds ++ b) (PDE_ParseInt IEK_PosOverflow).

Inductive Rejects : list Z -> ParseDateError -> Prop :=
| R_empty : Rejects [] PDE_EmptyInt
| R_int_start c r : is_digit c = false -> c <> 43 -> c <> 45 -> Rejects (c :: r) (PDE_InvalidIntStart c)
| R_sign_only sg b : sg <> SgNone -> stops b -> Rejects (sign_codes sg ++ b) (PDE_ParseInt IEK_InvalidDigit)
| R_year_overflow sg ds b : ds <> [] -> is_digits ds -> stops b -> ~ in_i32 (signed_value sg ds) ->
    Rejects (sign_codes sg ++ ds ++ b) (PDE_ParseInt (overflow_kind sg))
| R_year_end sg ds : year_ok sg ds -> Rejects (sign_codes sg ++ ds) (PDE_UnexpectedEnd 45)
| R_year_char sg ds c r : year_ok sg ds -> is_digit c = false -> c <> 45 ->
    Rejects (sign_codes sg ++ ds ++ c :: r) (PDE_UnexpectedChar 45 c)
| R_field2 sg ds t e : year_ok sg ds -> UintRejects t e -> Rejects (sign_codes sg ++ ds ++ 45 :: t) e
| R_month sg ds ds2 b : year_ok sg ds -> field_ok ds2 -> b <> [] -> stops b -> ~ 1 <= digits_value ds2 <= 12 ->
    Rejects (sign_codes sg ++ ds ++ 45 :: ds2 ++ b) (PDE_InvalidMonth (digits_value ds2))
| R_month_char sg ds ds2 c r : year_ok sg ds -> field_ok ds2 -> 1 <= digits_value ds2 <= 12 ->
    is_digit c = false -> c <> 45 ->
    Rejects (sign_codes sg ++ ds ++ 45 :: ds2 ++ c :: r) (PDE_UnexpectedChar 45 c)
| R_field3 sg ds ds2 t e : year_ok sg ds -> field_ok ds2 -> 1 <= digits_value ds2 <= 12 -> UintRejects t e ->
    Rejects (sign_codes sg ++ ds ++ 45 :: ds2 ++ 45 :: t) e
| R_trailing sg ds ds2 ds3 b : year_ok sg ds -> field_ok ds2 -> 1 <= digits_value ds2 <= 12 -> field_ok ds3 ->
    b <> [] -> stops b ->
    Rejects (sign_codes sg ++ ds ++ 45 :: ds2 ++ 45 :: ds3 ++ b) PDE_Trailing.

(* ---------------------------------------------------------------- decomposition of arbitrary texts *)
Lemma split_digits s : exists ds b, s = ds ++ b /\ is_digits ds /\ stops b.
Proof.
  destruct (scan is_digit s) as [a b] eqn:E. apply scan_inv in E. destruct E as (-> & Ha & Hb).
  exists a, b. repeat split; assumption.
Qed.

(* ---------------------------------------------------------------- parse_uint *)
Lemma uint_rejects_sound t e : UintRejects t e -> dp_parse_uint t = Err e.
Proof.
  destruct 1 as [| c r Hc | ds b Hne Hd Hb Hr].
  - reflexivity.
  - unfold dp_parse_uint. rewrite scan_cons, Hc. reflexivity.
  - rewrite dp_parse_uint_app by assumption.
    pose proof (dval_nonneg ds Hd). replace (digits_value ds <=? u32_max) with false by (unfold in_u32 in Hr; lia).
    reflexivity.
Qed.

(* every text is either a good field followed by a stop, or a UintRejects *)
Lemma uint_cases t :
  (exists ds b, t = ds ++ b /\ field_ok ds /\ stops b) \/ (exists e, UintRejects t e).
Proof.
  destruct (split_digits t) as (ds & b & -> & Hd & Hb).
  destruct ds as [|c ds].
  - right. destruct b as [|c b]; cbn [app]; eexists; [apply UR_empty | apply UR_start; exact Hb].
  - destruct (Z_le_gt_dec (digits_value (c :: ds)) u32_max) as [Hle | Hgt].
    + left. exists (c :: ds), b. repeat split; try assumption; try discriminate. apply dval_nonneg; assumption.
    + right. eexists. apply UR_overflow; try assumption; try discriminate. unfold in_u32. lia.
Qed.

(* ---------------------------------------------------------------- soundness *)
Lemma year_prefix sg ds b :
  year_ok sg ds -> stops b -> dp_parse_int (sign_codes sg ++ ds ++ b) = Ok (signed_value sg ds, b).
Proof.
  intros (Hne & Hd & Hr) Hb. rewrite dp_parse_int_app by assumption.
  replace ((i32_min <=? signed_value sg ds) && (signed_value sg ds <=? i32_max)) with true by (unfold in_i32 in Hr; lia).
  reflexivity.
Qed.

Lemma field_prefix ds b :
  field_ok ds -> stops b -> dp_parse_uint (ds ++ b) = Ok (digits_value ds, b).
Proof.
  intros (Hne & Hd & Hr) Hb. rewrite dp_parse_uint_app by assumption.
  replace (digits_value ds <=? u32_max) with true by (unfold in_u32 in Hr; lia). reflexivity.
Qed.

Lemma month_some v : in_u32 v -> 1 <= v <= 12 -> exists m, month_try_from 0 u32_max v = Some m.
Proof.
  intros Hr Hv. destruct (month_try_from 0 u32_max v) as [m|] eqn:E; [eexists; reflexivity|].
  apply month_try_from_none in E. exfalso. apply E. split; [exact Hr | exact Hv].
Qed.

Lemma month_none v : ~ 1 <= v <= 12 -> month_try_from 0 u32_max v = None.
Proof. intros Hv. apply month_try_from_none. intros [_ H]. exact (Hv H). Qed.

Lemma stops_nondigit c r : is_digit c = false -> stops (c :: r).
Proof. intros H. exact H. Qed.

Lemma rejects_sound s e : Rejects s e -> parse_fields s = Err e.
Proof.
  destruct 1 as [| c r Hc H43 H45 | sg b Hsg Hb | sg ds b Hne Hd Hb Hr | sg ds Hy | sg ds c r Hy Hc H45
                 | sg ds t e Hy Ht | sg ds ds2 b Hy H2 Hbne Hb Hm | sg ds ds2 c r Hy H2 Hm Hc H45
                 | sg ds ds2 t e Hy H2 Hm Ht | sg ds ds2 ds3 b Hy H2 Hm H3 Hbne Hb ]; unfold parse_fields.
  - reflexivity.
  - unfold dp_parse_int. rewrite scan_int_cons, Hc.
    replace ((c =? 45) || (c =? 43) || false) with false by lia. reflexivity.
  - unfold dp_parse_int. destruct sg; [congruence | |]; cbn [sign_codes app]; rewrite scan_int_cons.
    + change ((43 =? 45) || (43 =? 43) || is_digit 43) with true. cbv iota.
      rewrite <- (app_nil_l b), scan_app by (constructor || assumption). reflexivity.
    + change ((45 =? 45) || (45 =? 43) || is_digit 45) with true. cbv iota.
      rewrite <- (app_nil_l b), scan_app by (constructor || assumption). reflexivity.
  - rewrite dp_parse_int_app by assumption.
    replace ((i32_min <=? signed_value sg ds) && (signed_value sg ds <=? i32_max)) with false by (unfold in_i32 in Hr; lia).
    reflexivity.
  - rewrite <- (app_nil_r ds), year_prefix by (assumption || exact I). reflexivity.
  - rewrite year_prefix by (assumption || apply stops_nondigit; assumption).
    unfold dp_scan_char. replace (c =? 45) with false by lia. reflexivity.
  - rewrite year_prefix by (assumption || apply stops_dash). rewrite dp_scan_char_hit.
    unfold dp_parse_day_in_year. rewrite (uint_rejects_sound _ _ Ht). reflexivity.
  - rewrite year_prefix by (assumption || apply stops_dash). rewrite dp_scan_char_hit.
    unfold dp_parse_day_in_year. rewrite field_prefix by assumption.
    destruct b as [|c b]; [congruence|]. rewrite month_none by assumption. reflexivity.
  - rewrite year_prefix by (assumption || apply stops_dash). rewrite dp_scan_char_hit.
    unfold dp_parse_day_in_year. rewrite field_prefix by (assumption || apply stops_nondigit; assumption).
    destruct (month_some (digits_value ds2)) as (m & ->); [apply H2 | assumption|].
    unfold dp_scan_char. replace (c =? 45) with false by lia. reflexivity.
  - rewrite year_prefix by (assumption || apply stops_dash). rewrite dp_scan_char_hit.
    unfold dp_parse_day_in_year. rewrite field_prefix by (assumption || apply stops_dash).
    destruct (month_some (digits_value ds2)) as (m & ->); [apply H2 | assumption|].
    rewrite dp_scan_char_hit. rewrite (uint_rejects_sound _ _ Ht). reflexivity.
  - rewrite year_prefix by (assumption || apply stops_dash). rewrite dp_scan_char_hit.
    unfold dp_parse_day_in_year. rewrite field_prefix by (assumption || apply stops_dash).
    destruct (month_some (digits_value ds2)) as (m & ->); [apply H2 | assumption|].
    rewrite dp_scan_char_hit. rewrite field_prefix by assumption.
    destruct b as [|c b]; [congruence|]. reflexivity.
Qed.

(* ---------------------------------------------------------------- exhaustiveness *)
Lemma nonempty_stop_cases b :
  stops b -> b = [] \/ (exists r, b = 45 :: r) \/ (exists c r, b = c :: r /\ is_digit c = false /\ c <> 45).
Proof.
  intros Hb. destruct b as [|c r]; [left; reflexivity|]. right.
  destruct (Z.eq_dec c 45) as [-> | Hc]; [left; eexists; reflexivity | right; exists c, r; repeat split; assumption].
Qed.

(* after a well-formed "year-" : either the text is in the grammar or it is rejected *)
Lemma after_year sg ds t :
  year_ok sg ds -> in_grammar (sign_codes sg ++ ds ++ 45 :: t) \/ exists e, Rejects (sign_codes sg ++ ds ++ 45 :: t) e.
Proof.
  intros Hy. pose proof Hy as (Hne & Hd & Hr).
  destruct (uint_cases t) as [(ds2 & b & -> & H2 & Hb) | (e & He)]; [|right; eexists; apply R_field2; eassumption].
  pose proof H2 as (Hne2 & Hd2 & Hr2).
  destruct (nonempty_stop_cases b Hb) as [-> | [(r & ->) | (c & r & -> & Hc & H45)]].
  - left. rewrite app_nil_r. do 2 eexists. apply G_ordinal; assumption.
  - destruct (Z_le_gt_dec 1 (digits_value ds2)) as [H1|H1]; [destruct (Z_le_gt_dec (digits_value ds2) 12) as [H12|H12]|].
    + destruct (month_some (digits_value ds2) Hr2 ltac:(lia)) as (m & Hm).
      apply month_try_from_iff in Hm; [|exact Hr2]. injection Hm as Hm.
      destruct (uint_cases r) as [(ds3 & b3 & -> & H3 & Hb3) | (e & He)];
        [|right; eexists; apply R_field3; try eassumption; lia].
      pose proof H3 as (Hne3 & Hd3 & Hr3).
      destruct b3 as [|c3 b3].
      * left. rewrite app_nil_r. do 2 eexists. apply (G_ymd sg ds ds2 ds3 m); try assumption. symmetry; assumption.
      * right. eexists. apply R_trailing; try assumption; try discriminate. lia.
    + right. eexists. apply R_month; try assumption; try discriminate. lia.
    + right. eexists. apply R_month; try assumption; try discriminate. lia.
  - destruct (Z_le_gt_dec 1 (digits_value ds2)) as [H1|H1]; [destruct (Z_le_gt_dec (digits_value ds2) 12) as [H12|H12]|].
    + right. eexists. apply R_month_char; try assumption. lia.
    + right. eexists. apply R_month; try assumption; try discriminate. lia.
    + right. eexists. apply R_month; try assumption; try discriminate. lia.
Qed.

(* after an optional sign *)
Lemma after_sign sg t :
  (sg = SgNone -> exists c r, t = c :: r /\ is_digit c = true) ->
  in_grammar (sign_codes sg ++ t) \/ exists e, Rejects (sign_codes sg ++ t) e.
Proof.
  intros Hsg. destruct (split_digits t) as (ds & b & -> & Hd & Hb).
  destruct ds as [|c ds].
  - destruct sg.
    + destruct (Hsg eq_refl) as (c & r & Heq & Hc). cbn [app] in Heq. subst b. cbn [stops] in Hb. congruence.
    + right. eexists. apply R_sign_only; [discriminate | assumption].
    + right. eexists. apply R_sign_only; [discriminate | assumption].
  - destruct (Z_le_gt_dec i32_min (signed_value sg (c :: ds))) as [Hlo|Hlo];
      [destruct (Z_le_gt_dec (signed_value sg (c :: ds)) i32_max) as [Hhi|Hhi]|].
    + assert (Hy : year_ok sg (c :: ds)) by (repeat split; try assumption; discriminate).
      destruct (nonempty_stop_cases b Hb) as [-> | [(r & ->) | (c2 & r & -> & Hc & H45)]].
      * right. rewrite app_nil_r. eexists. apply R_year_end. assumption.
      * apply after_year. assumption.
      * right. eexists. apply R_year_char; assumption.
    + right. eexists. apply R_year_overflow; try assumption; try discriminate. unfold in_i32. lia.
    + right. eexists. apply R_year_overflow; try assumption; try discriminate. unfold in_i32. lia.
Qed.

Lemma rejects_exhaustive s : in_grammar s \/ exists e, Rejects s e.
Proof.
  destruct s as [|c r]; [right; eexists; apply R_empty|].
  destruct (is_digit c) eqn:Hc.
  - apply (after_sign SgNone (c :: r)). intros _. exists c, r. split; [reflexivity | assumption].
  - destruct (Z.eq_dec c 43) as [-> | H43]; [apply (after_sign SgPlus r); discriminate|].
    destruct (Z.eq_dec c 45) as [-> | H45]; [apply (after_sign SgMinus r); discriminate|].
    right. eexists. apply R_int_start; assumption.
Qed.

(* ---------------------------------------------------------------- the classification *)
Theorem rejects_iff s e : parse_fields s = Err e <-> Rejects s e.
Proof.
  split; [|apply rejects_sound].
  intros H. destruct (rejects_exhaustive s) as [(y & diny & G) | (e' & R)].
  - apply grammar_parse_fields in G. congruence.
  - pose proof (rejects_sound _ _ R) as H'. rewrite H in H'. injection H' as ->. assumption.
Qed.

Theorem parse_date_rejects c s e : syntactic e -> (parse_date c s = Ret (Err e) <-> Rejects s e).
Proof.
  intros He. rewrite <- rejects_iff. unfold parse_date. split.
  - destruct (parse_fields s) as [[y diny]|e'] eqn:E.
    + intros H. exfalso. apply (construct_date_not_syntax c y diny). exists e. split; assumption.
    + intros [= ->]. reflexivity.
  - intros ->. reflexivity.
Qed.

(* non-vacuity: every constructor of Rejects is inhabited — see the syntax_ex* examples of TextProofs.v, e.g. *)
Example rejects_ex1 : Rejects (codes "2023-13-01") (PDE_InvalidMonth 13).
Proof. apply rejects_iff. reflexivity. Qed.
Example rejects_ex2 : Rejects (codes "2023-04-30 ") PDE_Trailing.
Proof. apply rejects_iff. reflexivity. Qed.
Example rejects_ex3 : Rejects (codes "+-3") (PDE_ParseInt IEK_InvalidDigit).
Proof. apply rejects_iff. reflexivity. Qed.
