(* Proofs/CliProofs.v — proofs about Hand/Cli.v (the julian command).
   Part 1: the option loop (`Command::from_parser`): fuel independence, no panic, token-level semantics.
   Part 2: `Options::run`: one line per argument, style marks, round trip.
   Part 3: the whole command: totality, all-or-nothing, oracle independence. *)
From JV Require Import Sem Gen.
From JV Require Import Hand.Text Hand.Lexopt Hand.Json Hand.Cli.
From JV Require Import Proofs.TextProofs Proofs.LexoptProofs.
Require JV.SpecX JV.Proofs.Inner.
Open Scope Z_scope.
Ltac Zify.zify_post_hook ::= Z.to_euclidean_division_equations.

Definition no_panic {A} (m : M A) : Prop := exists a, m = Ret a.

(* ================================================================ 1. the option loop *)
(* the body of one iteration of [fp_loop], the recursive call abstracted *)
Definition LoopFn := Parser -> Options -> list (list Z) -> option (list Z) -> M (Result Command CliError).

Definition fp_body (alpha : Z -> bool) (rec : LoopFn) (p : Parser) (opts : Options) (args : list (list Z))
           (non_unicode : option (list Z)) : M (Result Command CliError) :=
    r <- next p;;
    let '(p, res) := r in
    match res with
    | Err e => Ret (Err e)
    | Ok None =>
      match non_unicode with
      | Some v => Ret (Err (E_NonUnicodeValue v))
      | None => Ret (Ok (Cmd_Run opts args))
      end
    | Ok (Some arg) =>
      match classify arg with
      | K_Countries => Ret (Ok Cmd_Countries)
      | K_Help => Ret (Ok Cmd_Help)
      | K_Version => Ret (Ok Cmd_Version)
      | K_Julian => rec p (set_calendar opts Calendar_JULIAN) args non_unicode
      | K_Json => rec p (set_json opts) args non_unicode
      | K_Ordinal => rec p (set_ordinal opts) args non_unicode
      | K_Quiet => rec p (set_quiet opts) args non_unicode
      | K_Style => rec p (set_style opts) args non_unicode
      | K_Reformation =>
        rv <- value p;;
        let '(p, v) := rv in
        match v with
        | Err e => Ret (Err e)
        | Ok raw =>
          match os_string raw with
          | Err e => Ret (Err e)
          | Ok optarg =>
            pr <- parse_reformation alpha optarg;;
            match pr with
            | Ok cal => rec p (set_calendar opts cal) args non_unicode
            | Err e => Ret (Err (E_ParsingFailed optarg (PE_Reformation e)))
            end
          end
        end
      | K_Digit c =>
        ov <- optional_value p;;
        let '(p, v) := ov in
        let s := [DASH; c] in
        match v with
        | Some raw =>
          match into_string raw with
          | Ok t => rec p opts (args ++ [s ++ t]) non_unicode
          | Err raw => rec p opts (args ++ [s]) (get_or_insert non_unicode raw)
          end
        | None => rec p opts (args ++ [s]) non_unicode
        end
      | K_Value val =>
        match into_string val with
        | Ok t => rec p opts (args ++ [t]) non_unicode
        | Err raw => rec p opts args (get_or_insert non_unicode raw)
        end
      | K_Unexpected => Ret (Err (arg_unexpected arg))
      end
    end.

Lemma fp_loop_S alpha f p o a n : fp_loop alpha (S f) p o a n = fp_body alpha (fp_loop alpha f) p o a n.
Proof. reflexivity. Qed.

(* one iteration from a well-formed state: it answers, or continues from a smaller well-formed state,
   or panics because parse_reformation did *)
Lemma fp_body_cases alpha p o a n :
  wf_parser p ->
  (exists x, forall rec, fp_body alpha rec p o a n = Ret x) \/
  (exists p' o' a' n', wf_parser p' /\ (pmeasure p' < pmeasure p)%nat /\
                       forall rec, fp_body alpha rec p o a n = rec p' o' a' n') \/
  (exists s, parse_reformation alpha s = Panic /\ forall rec, fp_body alpha rec p o a n = Panic).
Proof.
  intros W. unfold fp_body.
  destruct (@next_spec CliParseError p W) as (p1 & r & E & W1 & M1 & M2). rewrite E. cbn [bind].
  destruct r as [[arg|]|e].
  2:{ left. destruct n; eexists; intros; reflexivity. }
  2:{ left. eexists; intros; reflexivity. }
  assert (Hm : (pmeasure p1 < pmeasure p)%nat) by (apply M2; eexists; reflexivity).
  destruct (classify arg) eqn:Ec.
  1-3: left; eexists; intros; reflexivity.
  1-4: right; left; eexists _, _, _, _; split; [eassumption|]; split; [assumption|]; intros; reflexivity.
  2: right; left; eexists _, _, _, _; split; [eassumption|]; split; [assumption|]; intros; reflexivity.
  - (* -r *)
    destruct (@value_spec CliParseError p1 W1) as (p2 & v & E2 & W2 & M3 & _). rewrite E2. cbn [bind].
    destruct v as [raw|e]; [|left; eexists; intros; reflexivity].
    destruct (os_string raw) as [optarg|e]; [|left; eexists; intros; reflexivity].
    destruct (parse_reformation alpha optarg) as [[cal|e]|] eqn:Epr; cbn [bind].
    + right; left; eexists _, _, _, _; split; [eassumption|]; split; [lia|]; intros; reflexivity.
    + left; eexists; intros; reflexivity.
    + right; right. exists optarg. split; [assumption | intros; reflexivity].
  - (* digit *)
    destruct (optional_value_spec p1 W1) as (p2 & ov & E2 & W2 & _ & _ & M3 & _). rewrite E2. cbn [bind].
    destruct ov as [raw|].
    + destruct (into_string raw).
      * right; left; eexists _, _, _, _; split; [eassumption|]; split; [lia|]; intros; reflexivity.
      * right; left; eexists _, _, _, _; split; [eassumption|]; split; [lia|]; intros; reflexivity.
    + right; left; eexists _, _, _, _; split; [eassumption|]; split; [lia|]; intros; reflexivity.
  - destruct (into_string v).
    + right; left; eexists _, _, _, _; split; [eassumption|]; split; [assumption|]; intros; reflexivity.
    + right; left; eexists _, _, _, _; split; [eassumption|]; split; [assumption|]; intros; reflexivity.
  - left; eexists; intros; reflexivity.
Qed.

(* more fuel than the measure never changes the answer *)
Lemma fp_loop_fuel alpha : forall f1 f2 p o a n,
  wf_parser p -> (pmeasure p < f1)%nat -> (pmeasure p < f2)%nat ->
  fp_loop alpha f1 p o a n = fp_loop alpha f2 p o a n.
Proof.
  induction f1 as [|f1 IH]; intros f2 p o a n W H1 H2; [lia|].
  destruct f2 as [|f2]; [lia|]. rewrite !fp_loop_S.
  destruct (fp_body_cases alpha p o a n W) as [(x & Hx) | [(p' & o' & a' & n' & W' & Hm & Hr) | (s & _ & Hp)]].
  - rewrite !Hx. reflexivity.
  - rewrite !Hr. apply IH; [assumption | lia | lia].
  - rewrite !Hp. reflexivity.
Qed.

(* the loop with exactly enough fuel: a fuel-free view of [fp_loop] *)
Definition fp_run (alpha : Z -> bool) : LoopFn := fun p o a n => fp_loop alpha (S (pmeasure p)) p o a n.

Lemma from_parser_run alpha argv :
  from_parser alpha (parser_new argv) = fp_run alpha (parser_new argv) default_options [] None.
Proof. reflexivity. Qed.

Lemma fp_run_unfold alpha p o a n :
  wf_parser p -> fp_run alpha p o a n = fp_body alpha (fp_run alpha) p o a n.
Proof.
  intros W. unfold fp_run at 1. rewrite fp_loop_S.
  destruct (fp_body_cases alpha p o a n W) as [(x & Hx) | [(p' & o' & a' & n' & W' & Hm & Hr) | (s & _ & Hp)]].
  - rewrite !Hx. reflexivity.
  - rewrite !Hr. unfold fp_run. apply fp_loop_fuel; [assumption | lia | lia].
  - rewrite !Hp. reflexivity.
Qed.

(* the loop reads the parser only through [next] *)
Lemma fp_run_same_next alpha p1 p2 o a n :
  wf_parser p1 -> wf_parser p2 -> @next CliParseError p1 = next p2 -> fp_run alpha p1 o a n = fp_run alpha p2 o a n.
Proof.
  intros W1 W2 H. rewrite !fp_run_unfold by assumption. unfold fp_body. rewrite H. reflexivity.
Qed.

(* a finished cluster behaves like the state None *)
Lemma fp_run_shorts_end alpha src last arg o a n :
  last <> LO_None ->
  fp_run alpha (mkParser src (St_Shorts arg (List.length arg)) last) o a n =
  fp_run alpha (mkParser src St_None last) o a n.
Proof.
  intros Hl. apply fp_run_same_next.
  - unfold wf_parser. cbn [p_state p_last]. split; [lia | intros; assumption].
  - exact I.
  - apply next_shorts_end.
Qed.

(* ---------------------------------------------------------------- vocabulary: the tokens of a command line *)
Inductive Flag := F_j | F_J | F_o | F_q | F_s.
Definition flag_code (f : Flag) : Z :=
  match f with F_j => 106 | F_J => 74 | F_o => 111 | F_q => 113 | F_s => 115 end.
Definition flag_long (f : Flag) : list Z :=
  codes (match f with F_j => "julian" | F_J => "json" | F_o => "ordinal" | F_q => "quiet" | F_s => "style" end).
Definition apply_flag (o : Options) (f : Flag) : Options :=
  match f with
  | F_j => set_calendar o Calendar_JULIAN | F_J => set_json o | F_o => set_ordinal o
  | F_q => set_quiet o | F_s => set_style o
  end.
Inductive Info := I_c | I_h | I_V.
Definition info_code (i : Info) : Z := match i with I_c => 99 | I_h => 104 | I_V => 86 end.
Definition info_long (i : Info) : list Z :=
  codes (match i with I_c => "countries" | I_h => "help" | I_V => "version" end).
Definition info_cmd (i : Info) : Command :=
  match i with I_c => Cmd_Countries | I_h => Cmd_Help | I_V => Cmd_Version end.

(* One "token": one entry of argv, or the two entries of `-r <value>` / `--reformation <value>`. *)
Inductive Tok :=
| T_Flags (fs : list Flag)          (* "-" followed by one or more of j J o q s *)
| T_LongFlag (f : Flag)             (* --julian --json --ordinal --quiet --style *)
| T_Refo (long : bool) (v : list Z) (* -r v | --reformation v ; v is ANY byte string *)
| T_Pos (v : list Z)                (* a positional-like entry, see [positional_like] *)
| T_Info (i : Info) (long : bool).  (* -c -h -V --countries --help --version *)

(* entries that are read as positional arguments while options are still accepted: the empty string, a single
   byte (in particular "-"), anything not starting with '-', and '-' followed by an ASCII digit and anything *)
Definition positional_like (v : list Z) : Prop :=
  plain_value v \/ exists d tl, v = DASH :: d :: tl /\ is_ascii_digit d = true.

Definition wf_tok (t : Tok) : Prop :=
  match t with
  | T_Flags fs => fs <> []
  | T_Pos v => positional_like v
  | _ => True
  end.

Definition render (t : Tok) : list (list Z) :=
  match t with
  | T_Flags fs => [DASH :: map flag_code fs]
  | T_LongFlag f => [DASH :: DASH :: flag_long f]
  | T_Refo false v => [[DASH; 114]; v]
  | T_Refo true v => [DASH :: DASH :: codes "reformation"; v]
  | T_Pos v => [v]
  | T_Info i false => [[DASH; info_code i]]
  | T_Info i true => [DASH :: DASH :: info_long i]
  end.
Definition render_all (toks : list Tok) : list (list Z) := flat_map render toks.

(* what a positional-like entry contributes: the texts pushed on `args` and the non-Unicode value remembered *)
Definition plain_collect (v : list Z) : list (list Z) * option (list Z) :=
  match into_string v with Ok t => ([t], None) | Err raw => ([], Some raw) end.
Definition digit_tail (tl : list Z) : list Z :=
  match tl with b :: tl' => if b =? EQ then tl' else tl | [] => [] end.
Definition pos_collect (v : list Z) : list (list Z) * option (list Z) :=
  match v with
  | b :: d :: tl =>
    if (b =? DASH) && is_ascii_digit d then
      match tl with
      | [] => ([[DASH; d]], None)
      | _ :: _ => match into_string (digit_tail tl) with
                  | Ok t => ([[DASH; d] ++ t], None)
                  | Err raw => ([[DASH; d]], Some raw)
                  end
      end
    else plain_collect v
  | _ => plain_collect v
  end.
Definition nu_merge (n n' : option (list Z)) : option (list Z) := match n with Some _ => n | None => n' end.

Definition fp_finish (o : Options) (a : list (list Z)) (n : option (list Z)) : M (Result Command CliError) :=
  match n with Some v => Ret (Err (E_NonUnicodeValue v)) | None => Ret (Ok (Cmd_Run o a)) end.

(* token-level semantics of the option loop *)
Fixpoint tok_sem (alpha : Z -> bool) (toks : list Tok) (o : Options) (a : list (list Z)) (n : option (list Z))
  : M (Result Command CliError) :=
  match toks with
  | [] => fp_finish o a n
  | T_Flags fs :: r => tok_sem alpha r (fold_left apply_flag fs o) a n
  | T_LongFlag f :: r => tok_sem alpha r (apply_flag o f) a n
  | T_Refo _ v :: r =>
    match os_string v with
    | Err e => Ret (Err e)
    | Ok s =>
      pr <- parse_reformation alpha s;;
      match pr with
      | Ok cal => tok_sem alpha r (set_calendar o cal) a n
      | Err e => Ret (Err (E_ParsingFailed s (PE_Reformation e)))
      end
    end
  | T_Pos v :: r => tok_sem alpha r o (a ++ fst (pos_collect v)) (nu_merge n (snd (pos_collect v)))
  | T_Info i _ :: r => Ret (Ok (info_cmd i))
  end.

(* ---------------------------------------------------------------- per-token behaviour of the loop *)
Lemma forallb_Forall {A} (f : A -> bool) (P : A -> Prop) l :
  (forall x, f x = true -> P x) -> forallb f l = true -> Forall P l.
Proof.
  intros H. induction l as [|x l IH]; cbn [forallb]; intros E; constructor.
  - apply H. apply andb_prop in E. tauto.
  - apply IH. apply andb_prop in E. tauto.
Qed.
Lemma is_ascii_b l : forallb (fun b => b <? 128) l = true -> is_ascii l.
Proof. apply forallb_Forall. intros; lia. Qed.
Lemma no_eq_b l : forallb (fun b => negb (b =? EQ)) l = true -> no_eq l.
Proof. apply forallb_Forall. intros x H. apply negb_true_iff in H. lia. Qed.

Lemma skipn_cons_nth {A} (l : list A) n b tl : skipn n l = b :: tl -> nth_error l n = Some b /\ skipn (S n) l = tl.
Proof.
  revert l. induction n as [|n IH]; intros [|x l] H; try discriminate.
  - cbn in H. injection H as -> ->. split; reflexivity.
  - cbn [skipn] in H. destruct (IH l H). split; assumption.
Qed.

Lemma classify_flag f : classify (A_Short (flag_code f)) =
  match f with F_j => K_Julian | F_J => K_Json | F_o => K_Ordinal | F_q => K_Quiet | F_s => K_Style end.
Proof. destruct f; reflexivity. Qed.

Lemma fp_body_flag alpha (rec : LoopFn) p p' o a n f :
  @next CliParseError p = Ret (p', Ok (Some (A_Short (flag_code f)))) ->
  fp_body alpha rec p o a n = rec p' (apply_flag o f) a n.
Proof. intros E. unfold fp_body. rewrite E. cbn [bind]. rewrite classify_flag. destruct f; reflexivity. Qed.

Lemma fp_run_flag_step alpha src arg pos last o a n f :
  nth_error arg pos = Some (flag_code f) -> ((1 < pos)%nat -> last <> LO_None) ->
  fp_run alpha (mkParser src (St_Shorts arg pos) last) o a n =
  fp_run alpha (mkParser src (St_Shorts arg (S pos)) (LO_Short (flag_code f))) (apply_flag o f) a n.
Proof.
  intros Hn Hl.
  assert (pos < List.length arg)%nat by (apply nth_error_Some; congruence).
  rewrite fp_run_unfold by (unfold wf_parser; cbn [p_state p_last]; split; [lia | assumption]).
  apply fp_body_flag. apply next_shorts_ascii; [assumption | destruct f; cbn; lia | left; destruct f; unfold EQ; cbn; lia].
Qed.

Lemma fp_run_flags_rest alpha src arg a n : forall fs pos last o,
  last <> LO_None -> (pos <= List.length arg)%nat -> skipn pos arg = map flag_code fs ->
  exists last', fp_run alpha (mkParser src (St_Shorts arg pos) last) o a n =
                fp_run alpha (mkParser src St_None last') (fold_left apply_flag fs o) a n.
Proof.
  induction fs as [|f fs IH]; intros pos last o' Hl Hp Hs.
  - assert (pos = List.length arg) as ->.
    { pose proof (skipn_length pos arg) as L. rewrite Hs in L. cbn [map List.length] in L. lia. }
    exists last. cbn [fold_left]. apply fp_run_shorts_end. assumption.
  - cbn [map] in Hs. apply skipn_cons_nth in Hs. destruct Hs as [Hn Hs].
    assert (pos < List.length arg)%nat by (apply nth_error_Some; congruence).
    rewrite (fp_run_flag_step alpha src arg pos last o' a n f Hn) by (intros; assumption).
    destruct (IH (S pos) (LO_Short (flag_code f)) (apply_flag o' f)) as (last' & E); [discriminate | lia | assumption|].
    exists last'. rewrite E. reflexivity.
Qed.

Lemma tok_flags alpha fs rest last o a n :
  fs <> [] ->
  exists last', fp_run alpha (mkParser ((DASH :: map flag_code fs) :: rest) St_None last) o a n =
                fp_run alpha (mkParser rest St_None last') (fold_left apply_flag fs o) a n.
Proof.
  intros Hne. destruct fs as [|f fs]; [congruence|]. cbn [map fold_left].
  rewrite fp_run_unfold by exact I.
  rewrite (fp_body_flag alpha _ _ (mkParser rest (St_Shorts (DASH :: flag_code f :: map flag_code fs) 2) (LO_Short (flag_code f))) o a n f).
  2:{ unfold next. cbn [p_state p_source p_last]. apply next_fresh_short; destruct f; unfold DASH; cbn; lia. }
  apply fp_run_flags_rest; [discriminate | cbn [List.length]; lia | reflexivity].
Qed.

Lemma flag_long_props f : flag_long f <> [] /\ is_ascii (flag_long f) /\ no_eq (flag_long f).
Proof. destruct f; (split; [discriminate|]); (split; [apply is_ascii_b | apply no_eq_b]); reflexivity. Qed.
Lemma info_long_props i : info_long i <> [] /\ is_ascii (info_long i) /\ no_eq (info_long i).
Proof. destruct i; (split; [discriminate|]); (split; [apply is_ascii_b | apply no_eq_b]); reflexivity. Qed.

Lemma tok_long_flag alpha f rest last o a n :
  exists last', fp_run alpha (mkParser ((DASH :: DASH :: flag_long f) :: rest) St_None last) o a n =
                fp_run alpha (mkParser rest St_None last') (apply_flag o f) a n.
Proof.
  destruct (flag_long_props f) as (H1 & H2 & H3).
  eexists. rewrite fp_run_unfold by exact I. unfold fp_body, next. cbn [p_state p_source p_last].
  rewrite next_fresh_long by assumption. cbn [bind]. destruct f; reflexivity.
Qed.

Lemma tok_info alpha i long rest last o a n :
  fp_run alpha (mkParser (render (T_Info i long) ++ rest) St_None last) o a n = Ret (Ok (info_cmd i)).
Proof.
  rewrite fp_run_unfold by exact I. unfold fp_body, next. cbn [p_state p_source p_last].
  destruct long; cbn [render app].
  - destruct (info_long_props i) as (H1 & H2 & H3). rewrite next_fresh_long by assumption. cbn [bind].
    destruct i; reflexivity.
  - rewrite next_fresh_short by (destruct i; unfold DASH; cbn; lia). cbn [bind]. destruct i; reflexivity.
Qed.

Definition refo_continue (alpha : Z -> bool) (v : list Z) (o : Options) (k : Options -> M (Result Command CliError))
  : M (Result Command CliError) :=
  match os_string v with
  | Err e => Ret (Err e)
  | Ok s =>
    pr <- parse_reformation alpha s;;
    match pr with
    | Ok cal => k (set_calendar o cal)
    | Err e => Ret (Err (E_ParsingFailed s (PE_Reformation e)))
    end
  end.

Lemma tok_refo alpha long v rest last o a n :
  exists last', fp_run alpha (mkParser (render (T_Refo long v) ++ rest) St_None last) o a n =
                refo_continue alpha v o (fun o' => fp_run alpha (mkParser rest St_None last') o' a n).
Proof.
  destruct long; eexists; rewrite fp_run_unfold by exact I; unfold fp_body, next; cbn [p_state p_source p_last];
    cbn [render app].
  - rewrite next_fresh_long; [| discriminate | apply is_ascii_b; reflexivity | apply no_eq_b; reflexivity].
    cbn [bind]. change (classify (A_Long (codes "reformation"))) with K_Reformation. cbv iota.
    rewrite value_next_arg. cbn [bind]. unfold refo_continue. destruct (os_string v); reflexivity.
  - rewrite next_fresh_short by (unfold DASH; lia). cbn [bind].
    change (classify (A_Short 114)) with K_Reformation. cbv iota.
    rewrite value_shorts_end by (cbn [List.length]; lia). cbn [bind].
    unfold refo_continue. destruct (os_string v); reflexivity.
Qed.

Lemma classify_digit d : is_ascii_digit d = true -> classify (A_Short d) = K_Digit d.
Proof.
  intros H. unfold classify. pose proof H as H'. unfold is_ascii_digit in H'.
  replace (d =? 99) with false by lia. replace (d =? 104) with false by lia. replace (d =? 86) with false by lia.
  replace (d =? 106) with false by lia. replace (d =? 74) with false by lia. replace (d =? 111) with false by lia.
  replace (d =? 113) with false by lia. replace (d =? 114) with false by lia. replace (d =? 115) with false by lia.
  rewrite H. reflexivity.
Qed.

Lemma tok_pos alpha v rest last o a n :
  positional_like v ->
  exists last', fp_run alpha (mkParser (v :: rest) St_None last) o a n =
                fp_run alpha (mkParser rest St_None last') o (a ++ fst (pos_collect v)) (nu_merge n (snd (pos_collect v))).
Proof.
  intros [Hp | (d & tl & -> & Hd)].
  - exists last. rewrite fp_run_unfold by exact I. unfold fp_body, next. cbn [p_state p_source p_last].
    rewrite next_fresh_value by assumption. cbn [bind classify].
    assert (pos_collect v = plain_collect v) as ->.
    { unfold pos_collect. destruct v as [|b [|d tl]]; try reflexivity.
      unfold plain_value in Hp. replace (b =? DASH) with false by lia. reflexivity. }
    unfold plain_collect. destruct (into_string v); cbn [fst snd].
    + destruct n; reflexivity.
    + rewrite app_nil_r. destruct n; reflexivity.
  - exists (LO_Short d). rewrite fp_run_unfold by exact I. unfold fp_body, next. cbn [p_state p_source p_last].
    assert (d < 128 /\ d <> DASH) as [Hd1 Hd2] by (unfold is_ascii_digit, DASH in *; lia).
    rewrite next_fresh_short by assumption. cbn [bind]. rewrite classify_digit by assumption. cbv iota.
    unfold pos_collect. change (DASH =? DASH) with true. rewrite Hd. cbn [andb].
    destruct tl as [|b tl'].
    + rewrite optional_value_shorts_end by (cbn [List.length]; lia). cbn [bind fst snd].
      destruct n; reflexivity.
    + rewrite (optional_value_shorts_tail _ _ _ 2 b) by reflexivity. cbn [bind skipn digit_tail].
      destruct (b =? EQ).
      * destruct (into_string tl'); cbn [fst snd]; destruct n; reflexivity.
      * destruct (into_string (b :: tl')); cbn [fst snd]; destruct n; reflexivity.
Qed.

(* ---------------------------------------------------------------- the loop computes the token semantics *)
Theorem fp_run_tokens alpha : forall toks last o a n,
  Forall wf_tok toks ->
  fp_run alpha (mkParser (render_all toks) St_None last) o a n = tok_sem alpha toks o a n.
Proof.
  induction toks as [|t toks IH]; intros last o a n W.
  - cbn [render_all flat_map tok_sem]. rewrite fp_run_unfold by exact I. reflexivity.
  - inversion W as [|? ? Wt Wr]; subst. unfold render_all. cbn [flat_map]. fold (render_all toks).
    destruct t as [fs | f | long v | v | i long]; cbn [tok_sem].
    + cbn [render app]. destruct (tok_flags alpha fs (render_all toks) last o a n Wt) as (last' & E).
      rewrite E. apply IH. assumption.
    + cbn [render app]. destruct (tok_long_flag alpha f (render_all toks) last o a n) as (last' & E).
      rewrite E. apply IH. assumption.
    + destruct (tok_refo alpha long v (render_all toks) last o a n) as (last' & E). rewrite E.
      unfold refo_continue. destruct (os_string v); [|reflexivity].
      destruct (parse_reformation alpha t) as [[cal|e]|]; cbn [bind]; [|reflexivity|reflexivity].
      apply IH. assumption.
    + cbn [render app]. destruct (tok_pos alpha v (render_all toks) last o a n Wt) as (last' & E).
      rewrite E. apply IH. assumption.
    + apply tok_info.
Qed.

Theorem from_parser_tokens alpha toks :
  Forall wf_tok toks ->
  from_parser alpha (parser_new (render_all toks)) = tok_sem alpha toks default_options [] None.
Proof. intros. rewrite from_parser_run. apply fp_run_tokens. assumption. Qed.

(* ---------------------------------------------------------------- consequences of the token semantics *)
Definition is_opt_tok (t : Tok) : bool := match t with T_Pos _ => false | _ => true end.
Definition is_pos_tok (t : Tok) : bool := match t with T_Pos _ => true | _ => false end.

(* texts collected from / first non-Unicode value among the positional-like tokens, in order *)
Fixpoint pos_texts (toks : list Tok) : list (list Z) :=
  match toks with
  | [] => []
  | T_Pos v :: r => fst (pos_collect v) ++ pos_texts r
  | _ :: r => pos_texts r
  end.
Fixpoint pos_nu (toks : list Tok) : option (list Z) :=
  match toks with
  | [] => None
  | T_Pos v :: r => nu_merge (snd (pos_collect v)) (pos_nu r)
  | _ :: r => pos_nu r
  end.

Lemma nu_merge_assoc a b c : nu_merge (nu_merge a b) c = nu_merge a (nu_merge b c).
Proof. destruct a; reflexivity. Qed.
Lemma nu_merge_none_r a : nu_merge a None = a.
Proof. destruct a; reflexivity. Qed.

(* positional-like tokens may be moved behind all option tokens *)
Lemma tok_sem_normal alpha : forall toks o a n,
  tok_sem alpha toks o a n = tok_sem alpha (filter is_opt_tok toks) o (a ++ pos_texts toks) (nu_merge n (pos_nu toks)).
Proof.
  induction toks as [|t toks IH]; intros o a n.
  - cbn. rewrite app_nil_r, nu_merge_none_r. reflexivity.
  - destruct t as [fs | f | long v | v | i long]; cbn [filter is_opt_tok tok_sem pos_texts pos_nu].
    + apply IH.
    + apply IH.
    + destruct (os_string v); [|reflexivity]. destruct (parse_reformation alpha t) as [[cal|e]|]; cbn [bind]; try reflexivity.
      apply IH.
    + rewrite IH. rewrite app_assoc, nu_merge_assoc. reflexivity.
    + reflexivity.
Qed.

Lemma pos_texts_filter toks : pos_texts toks = pos_texts (filter is_pos_tok toks).
Proof. induction toks as [|[] toks IH]; cbn [filter is_pos_tok pos_texts]; congruence. Qed.
Lemma pos_nu_filter toks : pos_nu toks = pos_nu (filter is_pos_tok toks).
Proof. induction toks as [|[] toks IH]; cbn [filter is_pos_tok pos_nu]; congruence. Qed.

Theorem from_parser_position_irrelevant alpha toks1 toks2 :
  Forall wf_tok toks1 -> Forall wf_tok toks2 ->
  filter is_opt_tok toks1 = filter is_opt_tok toks2 ->
  filter is_pos_tok toks1 = filter is_pos_tok toks2 ->
  from_parser alpha (parser_new (render_all toks1)) = from_parser alpha (parser_new (render_all toks2)).
Proof.
  intros W1 W2 Ho Hp. rewrite !from_parser_tokens by assumption.
  rewrite (tok_sem_normal alpha toks1), (tok_sem_normal alpha toks2).
  rewrite (pos_texts_filter toks1), (pos_texts_filter toks2), (pos_nu_filter toks1), (pos_nu_filter toks2).
  rewrite Ho, Hp. reflexivity.
Qed.

(* what a whole command line of tokens without information options amounts to *)
Fixpoint opts_effect (alpha : Z -> bool) (toks : list Tok) (o : Options) : M (Result Options CliError) :=
  match toks with
  | [] => Ret (Ok o)
  | T_Flags fs :: r => opts_effect alpha r (fold_left apply_flag fs o)
  | T_LongFlag f :: r => opts_effect alpha r (apply_flag o f)
  | T_Refo _ v :: r =>
    match os_string v with
    | Err e => Ret (Err e)
    | Ok s =>
      pr <- parse_reformation alpha s;;
      match pr with
      | Ok cal => opts_effect alpha r (set_calendar o cal)
      | Err e => Ret (Err (E_ParsingFailed s (PE_Reformation e)))
      end
    end
  | _ :: r => opts_effect alpha r o
  end.

Definition no_info (toks : list Tok) : Prop := Forall (fun t => match t with T_Info _ _ => False | _ => True end) toks.

Lemma tok_sem_split alpha : forall toks o a n,
  no_info toks ->
  tok_sem alpha toks o a n =
  (r <- opts_effect alpha toks o;;
   match r with
   | Err e => Ret (Err e)
   | Ok o' => fp_finish o' (a ++ pos_texts toks) (nu_merge n (pos_nu toks))
   end).
Proof.
  induction toks as [|t toks IH]; intros o a n H.
  - cbn. rewrite app_nil_r, nu_merge_none_r. reflexivity.
  - inversion H as [|? ? Ht Hr]; subst.
    destruct t as [fs | f | long v | v | i long]; cbn [tok_sem opts_effect pos_texts pos_nu].
    + apply IH; assumption.
    + apply IH; assumption.
    + destruct (os_string v); [|reflexivity]. destruct (parse_reformation alpha t) as [[cal|e]|]; cbn [bind]; try reflexivity.
      apply IH; assumption.
    + rewrite IH by assumption. rewrite app_assoc, nu_merge_assoc. reflexivity.
    + contradiction.
Qed.

(* an information option wins over everything before it that is harmless *)
Definition refo_valid (alpha : Z -> bool) (t : Tok) : Prop :=
  match t with
  | T_Refo _ v => exists s cal, @os_string CliParseError v = Ok s /\ parse_reformation alpha s = Ret (Ok cal)
  | _ => True
  end.

Theorem from_parser_info_wins alpha pre i long post :
  Forall wf_tok (pre ++ T_Info i long :: post) -> no_info pre -> Forall (refo_valid alpha) pre ->
  from_parser alpha (parser_new (render_all (pre ++ T_Info i long :: post))) = Ret (Ok (info_cmd i)).
Proof.
  intros W Hn Hv. rewrite from_parser_tokens by assumption. clear W.
  generalize default_options, (@nil (list Z)), (@None (list Z)).
  induction pre as [|t pre IH]; intros o a n; [reflexivity|].
  inversion Hn as [|? ? Hn1 Hn2]; inversion Hv as [|? ? Hv1 Hv2]; subst.
  destruct t as [fs | f | lg v | v | j lg]; cbn [app tok_sem]; try (apply IH; assumption).
  - destruct Hv1 as (s & cal & -> & ->). cbn [bind]. apply IH; assumption.
  - contradiction.
Qed.

(* "-" followed by digits is collected as that very text *)
Definition neg_number (v : list Z) : Prop :=
  exists d ds, v = DASH :: d :: ds /\ is_ascii_digit d = true /\ Forall (fun c => is_ascii_digit c = true) ds.

Lemma neg_number_positional v : neg_number v -> positional_like v.
Proof. intros (d & ds & -> & Hd & _). right. eauto. Qed.

Lemma pos_collect_neg_number v : neg_number v -> pos_collect v = ([v], None).
Proof.
  intros (d & ds & -> & Hd & Hds). unfold pos_collect. change (DASH =? DASH) with true. rewrite Hd. cbn [andb].
  destruct ds as [|b tl]; [reflexivity|].
  inversion Hds as [|? ? Hb Htl]; subst. unfold digit_tail.
  replace (b =? EQ) with false by (unfold is_ascii_digit, EQ in *; lia).
  rewrite into_string_ascii; [reflexivity|].
  eapply Forall_impl; [|exact Hds]. cbn beta. intros c Hc. unfold is_ascii_digit in Hc. lia.
Qed.

Theorem negative_number_collected alpha v rest last o a n :
  neg_number v ->
  exists last', fp_run alpha (mkParser (v :: rest) St_None last) o a n =
                fp_run alpha (mkParser rest St_None last') o (a ++ [v]) n.
Proof.
  intros H. destruct (tok_pos alpha v rest last o a n (neg_number_positional v H)) as (last' & E).
  exists last'. rewrite E, (pos_collect_neg_number v H). cbn [fst snd]. rewrite nu_merge_none_r. reflexivity.
Qed.

(* ================================================================ 2. Options::run *)
(* the line printed for one argument *)
Definition arg_line (o : Options) (a : list Z) : M (Result (list Z) CliError) :=
  pa <- parse_arg o a;;
  match pa with
  | Err e => Ret (Err e)
  | Ok (Arg_Date when) => s <- date_to_jdn o when;; Ret (Ok s)
  | Ok (Arg_Jdn jdn) => s <- jdn_to_date o jdn;; Ret (Ok s)
  end.

Lemma run_args_cons o a r out :
  run_args o (a :: r) out =
  (l <- arg_line o a;; match l with Err e => Ret (Err e) | Ok s => run_args o r (out ++ [s]) end).
Proof.
  cbn [run_args]. unfold arg_line. destruct (parse_arg o a) as [[[d|j]|e]|]; cbn [bind]; try reflexivity.
  - destruct (date_to_jdn o d); reflexivity.
  - destruct (jdn_to_date o j); reflexivity.
Qed.

(* success of the loop = every argument converts; the lines come in argument order *)
Lemma run_args_ok o : forall args out lines,
  run_args o args out = Ret (Ok lines) <->
  exists ls, lines = out ++ ls /\ Forall2 (fun a l => arg_line o a = Ret (Ok l)) args ls.
Proof.
  induction args as [|a r IH]; intros out lines.
  - cbn [run_args]. split.
    + intros H. injection H as <-. exists []. rewrite app_nil_r. split; [reflexivity | constructor].
    + intros (ls & -> & H). inversion H. rewrite app_nil_r. reflexivity.
  - rewrite run_args_cons. split.
    + destruct (arg_line o a) as [[s|e]|] eqn:E; cbn [bind]; try discriminate.
      intros H. apply IH in H. destruct H as (ls & -> & H). exists (s :: ls). rewrite <- app_assoc. split; [reflexivity|].
      constructor; assumption.
    + intros (ls & -> & H). inversion H as [|? l ? ls' Ha Hr]; subst. rewrite Ha. cbn [bind].
      apply IH. exists ls'. rewrite <- app_assoc. split; [reflexivity | assumption].
Qed.

(* the first argument that does not convert aborts the run with its error: nothing is printed *)
Lemma run_args_err o : forall args out e,
  run_args o args out = Ret (Err e) ->
  exists pre a post ls, args = pre ++ a :: post /\ Forall2 (fun a l => arg_line o a = Ret (Ok l)) pre ls /\
                        arg_line o a = Ret (Err e).
Proof.
  induction args as [|a r IH]; intros out e; [discriminate|].
  rewrite run_args_cons. destruct (arg_line o a) as [[s|e']|] eqn:E; cbn [bind]; try discriminate.
  - intros H. apply IH in H. destruct H as (pre & a' & post & ls & -> & H1 & H2).
    exists (a :: pre), a', post, (s :: ls). split; [reflexivity|]. split; [constructor; assumption | assumption].
  - intros H. injection H as ->. exists [], a, r, []. split; [reflexivity|]. split; [constructor | assumption].
Qed.

(* ---- the JSON patching at the end of Options::run *)
(* every element but the last gets a comma *)
Fixpoint commas (l : list (list Z)) : list (list Z) :=
  match l with
  | [] => []
  | [x] => [x]
  | x :: r => (x ++ codes ",") :: commas r
  end.
Definition JSON_CLOSE : list Z := NL ++ codes "    ]" ++ NL ++ codes "}".

Lemma push_range_commas : forall l i, (1 <= i)%nat ->
  push_range i 1 (i + List.length l - 1) (codes ",") l = commas l.
Proof.
  induction l as [|x r IH]; intros i Hi; [reflexivity|].
  cbn [push_range List.length]. destruct r as [|y r'].
  - cbn [List.length]. replace ((1 <=? i)%nat && (i <? i + 1 - 1)%nat) with false; [reflexivity|].
    symmetry. apply andb_false_iff. right. apply Nat.ltb_ge. lia.
  - replace ((1 <=? i)%nat && (i <? i + S (List.length (y :: r')) - 1)%nat) with true.
    2:{ symmetry. apply andb_true_iff. split; [apply Nat.leb_le; lia | apply Nat.ltb_lt; cbn [List.length]; lia]. }
    replace (i + S (List.length (y :: r')) - 1)%nat with (S i + List.length (y :: r') - 1)%nat by lia.
    rewrite IH by lia. reflexivity.
Qed.

Lemma commas_nonempty l : l <> [] -> commas l <> [].
Proof. destruct l as [|x [|y r]]; [congruence | discriminate | discriminate]. Qed.
Lemma commas_length l : List.length (commas l) = List.length l.
Proof. induction l as [|x [|y r] IH]; [reflexivity | reflexivity |]. cbn [commas List.length] in *. rewrite IH. reflexivity. Qed.
Lemma push_last_length s l : List.length (push_last s l) = List.length l.
Proof. induction l as [|x [|y r] IH]; [reflexivity | reflexivity |]. cbn [push_last List.length] in *. rewrite IH. reflexivity. Qed.

Lemma json_finish_shape hdr objs :
  objs <> [] -> json_finish (hdr :: objs) = hdr :: push_last JSON_CLOSE (commas objs).
Proof.
  intros Hne. unfold json_finish. cbn [List.length].
  assert (E : (if (2 <? S (List.length objs))%nat then push_range 0 1 (S (List.length objs) - 1) (codes ",") (hdr :: objs)
               else hdr :: objs) = hdr :: commas objs).
  { destruct (2 <? S (List.length objs))%nat eqn:E2.
    - cbn [push_range]. change ((1 <=? 0)%nat && (0 <? S (List.length objs) - 1)%nat) with false. cbv iota.
      replace (S (List.length objs) - 1)%nat with (1 + List.length objs - 1)%nat by lia.
      rewrite push_range_commas by lia. reflexivity.
    - apply Nat.ltb_ge in E2. destruct objs as [|x [|y r]]; [congruence | reflexivity | cbn [List.length] in E2; lia]. }
  rewrite E. pose proof (commas_nonempty objs Hne). unfold JSON_CLOSE.
  cbn [push_last]. destruct (commas objs); [congruence | reflexivity].
Qed.

Lemma json_finish_length l : List.length (json_finish l) = List.length l.
Proof.
  unfold json_finish. rewrite push_last_length. destruct (2 <? List.length l)%nat; [|reflexivity].
  generalize 0%nat, 1%nat, (List.length l - 1)%nat. induction l as [|x r IH]; intros; [reflexivity|].
  cbn [push_range List.length]. rewrite IH. reflexivity.
Qed.

Lemma Forall2_len {A B} (R : A -> B -> Prop) l1 l2 : Forall2 R l1 l2 -> List.length l1 = List.length l2.
Proof. induction 1; cbn [List.length]; congruence. Qed.

(* ---- Options::run, text mode *)
Theorem options_run_text_args o now args lines :
  o_json o = false -> args <> [] ->
  (options_run o now args = Ret (Ok lines) <-> Forall2 (fun a l => arg_line o a = Ret (Ok l)) args lines).
Proof.
  intros Hj Hne. unfold options_run. rewrite Hj. cbn [bind]. destruct args as [|a r]; [congruence|].
  split.
  - destruct (run_args o (a :: r) []) as [[out|e]|] eqn:E; cbn [bind]; try discriminate.
    intros H. injection H as <-. apply run_args_ok in E. destruct E as (ls & -> & H). exact H.
  - intros H. assert (E : run_args o (a :: r) [] = Ret (Ok lines)) by (apply run_args_ok; exists lines; split; [reflexivity | assumption]).
    rewrite E. reflexivity.
Qed.

Definition now_date (o : Options) (now : Z) : M Date :=
  r <- calendar_now (o_calendar o) now;;
  match r with Err _ => Panic | Ok (d, _) => Ret d end.

Theorem options_run_text_now o now :
  o_json o = false ->
  options_run o now [] = (d <- now_date o now;; s <- date_to_jdn o d;; Ret (Ok [s])).
Proof.
  intros Hj. unfold options_run, now_date. rewrite Hj. cbn [bind].
  destruct (calendar_now (o_calendar o) now) as [[[d secs]|e]|]; cbn [bind]; try reflexivity.
  destruct (date_to_jdn o d); reflexivity.
Qed.

(* the number of printed items: one per argument (one for the current date), plus the JSON header *)
Theorem options_run_length o now args lines :
  options_run o now args = Ret (Ok lines) ->
  List.length lines = ((if o_json o then 1 else 0) + Nat.max 1 (List.length args))%nat.
Proof.
  unfold options_run.
  assert (Hhdr : (exists out0, (if o_json o then s <- json_start (o_calendar o);; Ret [s] else Ret []) = Ret out0 /\
                              List.length out0 = (if o_json o then 1 else 0)%nat) \/
                 (if o_json o then s <- json_start (o_calendar o);; Ret [s] else Ret []) = @Panic (list (list Z))).
  { destruct (o_json o).
    - destruct (json_start (o_calendar o)); cbn [bind]; [left; eexists; split; reflexivity | right; reflexivity].
    - left; eexists; split; reflexivity. }
  destruct Hhdr as [(out0 & -> & Hl) | ->]; [|discriminate]. cbn [bind].
  destruct args as [|a r].
  - destruct (calendar_now (o_calendar o) now) as [[[d secs]|e]|]; cbn [bind]; try discriminate.
    destruct (date_to_jdn o d); cbn [bind]; try discriminate.
    intros H. injection H as <-. destruct (o_json o); [rewrite json_finish_length|]; rewrite app_length; cbn [List.length]; lia.
  - destruct (run_args o (a :: r) out0) as [[out|e]|] eqn:E; cbn [bind]; try discriminate.
    intros H. injection H as <-. apply run_args_ok in E. destruct E as (ls & -> & H).
    apply Forall2_len in H.
    destruct (o_json o); [rewrite json_finish_length|]; rewrite app_length; cbn [List.length] in *; lia.
Qed.

(* ---- fmt_date: the style marks *)
Definition style_mark (o : Options) (d : Date) : list Z :=
  if negb (o_ordinal o) && o_style o then
    match Calendar_f_0 (Date_f_calendar d) with
    | inner_Calendar_Reforming reformation _ => if Date_f_jdn d <? reformation then codes " O.S." else codes " N.S."
    | _ => []
    end
  else [].

Definition date_text (o : Options) (d : Date) : M (list Z) := if o_ordinal o then show_date_alt d else show_date d.

Theorem fmt_date_spec o s d :
  fmt_date o s d = (t <- date_text o d;; Ret (s ++ t ++ style_mark o d)).
Proof.
  unfold fmt_date, date_text, style_mark. destruct (o_ordinal o); cbn [negb andb].
  - destruct (show_date_alt d); cbn [bind]; [rewrite app_nil_r|]; reflexivity.
  - destruct (show_date d) as [t|]; cbn [bind]; [|reflexivity].
    unfold Date_calendar, Calendar_is_reforming, Date_is_julian, Date_julian_day_number. cbn [bind].
    destruct (o_style o); cbn [andb].
    + destruct (Calendar_f_0 (Date_f_calendar d)); cbn [bind andb].
      * rewrite app_nil_r. reflexivity.
      * rewrite app_nil_r. reflexivity.
      * destruct (Date_f_jdn d <? reformation); rewrite <- app_assoc; reflexivity.
    + destruct (Calendar_f_0 (Date_f_calendar d)); cbn [bind andb]; rewrite app_nil_r; reflexivity.
Qed.

(* the mark is present exactly for reforming calendar, -s and not -o; "O.S." exactly before the reformation *)
Theorem style_mark_cases o d :
  (style_mark o d <> [] <->
     o_style o = true /\ o_ordinal o = false /\ exists r g, Calendar_f_0 (Date_f_calendar d) = inner_Calendar_Reforming r g) /\
  (forall r g, Calendar_f_0 (Date_f_calendar d) = inner_Calendar_Reforming r g -> o_style o = true -> o_ordinal o = false ->
     (Date_f_jdn d < r -> style_mark o d = codes " O.S.") /\ (r <= Date_f_jdn d -> style_mark o d = codes " N.S.")).
Proof.
  unfold style_mark. split.
  - destruct (o_ordinal o), (o_style o); cbn [negb andb]; try (split; [congruence | intros (? & ? & ?); congruence]).
    destruct (Calendar_f_0 (Date_f_calendar d)) as [| |r g].
    + split; [congruence | intros (_ & _ & r & g & H); discriminate].
    + split; [congruence | intros (_ & _ & r & g & H); discriminate].
    + split; [intros _; repeat split; eauto | intros _; destruct (_ <? _); discriminate].
  - intros r g -> -> ->. cbn [negb andb]. split; intros H.
    + replace (Date_f_jdn d <? r) with true by lia. reflexivity.
    + replace (Date_f_jdn d <? r) with false by lia. reflexivity.
Qed.

(* the two line formats *)
Theorem jdn_to_date_text o jdn :
  o_json o = false ->
  jdn_to_date o jdn =
  (d <- Calendar_at_jdn (o_calendar o) jdn;; t <- date_text o d;;
   Ret ((if o_quiet o then [] else codes "JDN " ++ show_int jdn ++ codes " = ") ++ t ++ style_mark o d)).
Proof.
  intros Hj. unfold jdn_to_date. rewrite Hj. destruct (Calendar_at_jdn (o_calendar o) jdn) as [d|]; cbn [bind]; [|reflexivity].
  rewrite fmt_date_spec. destruct (o_quiet o); reflexivity.
Qed.

Theorem date_to_jdn_text o d :
  o_json o = false ->
  date_to_jdn o d =
  (if o_quiet o then Ret (show_int (Date_f_jdn d))
   else t <- date_text o d;; Ret (t ++ style_mark o d ++ codes " = JDN " ++ show_int (Date_f_jdn d))).
Proof.
  intros Hj. unfold date_to_jdn. rewrite Hj. unfold Date_julian_day_number. cbn [bind].
  destruct (o_quiet o); cbn [negb]; [reflexivity|].
  rewrite fmt_date_spec. destruct (date_text o d); cbn [bind app]; [|reflexivity].
  rewrite <- !app_assoc. reflexivity.
Qed.

(* which conversion an argument gets *)
Theorem arg_line_number o a j :
  has_inner_dash a = false -> parse_i32 a = Ok j -> arg_line o a = (s <- jdn_to_date o j;; Ret (Ok s)).
Proof. intros H1 H2. unfold arg_line, parse_arg. rewrite H1, H2. reflexivity. Qed.

Theorem arg_line_date o a d :
  has_inner_dash a = true -> parse_date (o_calendar o) a = Ret (Ok d) -> arg_line o a = (s <- date_to_jdn o d;; Ret (Ok s)).
Proof. intros H1 H2. unfold arg_line, parse_arg. rewrite H1, H2. reflexivity. Qed.

Theorem arg_line_bad_number o a k :
  has_inner_dash a = false -> parse_i32 a = Err k -> arg_line o a = Ret (Err (E_ParsingFailed a (PE_Int k))).
Proof. intros H1 H2. unfold arg_line, parse_arg. rewrite H1, H2. reflexivity. Qed.

Theorem arg_line_bad_date o a e :
  has_inner_dash a = true -> parse_date (o_calendar o) a = Ret (Err e) ->
  arg_line o a = Ret (Err (E_ParsingFailed a (PE_Date e))).
Proof. intros H1 H2. unfold arg_line, parse_arg. rewrite H1, H2. reflexivity. Qed.

(* ---- round trip *)
Lemma date_text_total o d : exists t, date_text o d = Ret t.
Proof. unfold date_text. destruct (o_ordinal o); eexists; [apply show_date_alt_text | apply show_date_text]. Qed.

Lemma existsb_app_r {A} (f : A -> bool) l x r : f x = true -> existsb f (l ++ x :: r) = true.
Proof. intros. rewrite existsb_app. cbn [existsb]. rewrite H. rewrite orb_true_r. reflexivity. Qed.

(* the date texts have a '-' after their first character, so they are read back as dates *)
Lemma date_text_inner_dash o d t : date_text o d = Ret t -> has_inner_dash t = true.
Proof.
  unfold date_text, has_inner_dash. intros H.
  assert (exists x xs r, t = (x :: xs) ++ DASH :: r) as (x & xs & r & ->).
  { destruct (o_ordinal o); [rewrite show_date_alt_text in H | rewrite show_date_text in H]; injection H as <-.
    - destruct (sign_of (Date_f_year d)); cbn [sign_codes app].
      + pose proof (show_u_nonempty 4 (Z.abs (Date_f_year d))). destruct (show_u 4 _) as [|x xs]; [congruence|]. eexists _, _, _. reflexivity.
      + exists 43, (show_u 4 (Z.abs (Date_f_year d))). eexists. reflexivity.
      + exists 45, (show_u 4 (Z.abs (Date_f_year d))). eexists. reflexivity.
    - destruct (sign_of (Date_f_year d)); cbn [sign_codes app].
      + pose proof (show_u_nonempty 4 (Z.abs (Date_f_year d))). destruct (show_u 4 _) as [|x xs]; [congruence|]. eexists _, _, _. reflexivity.
      + exists 43, (show_u 4 (Z.abs (Date_f_year d))). eexists. reflexivity.
      + exists 45, (show_u 4 (Z.abs (Date_f_year d))). eexists. reflexivity. }
  cbn [app tl]. apply existsb_app_r. reflexivity.
Qed.

(* the decimal text of an i32 is read back as that day number *)
Lemma show_int_parse j : in_i32 j -> parse_i32 (show_int j) = Ok j /\ has_inner_dash (show_int j) = false.
Proof.
  intros Hr. unfold show_int. destruct (j <? 0) eqn:E.
  - pose proof (show_dec_digits (- j) ltac:(lia)) as Hd. pose proof (show_dec_value (- j) ltac:(lia)) as Hv.
    split.
    + pose proof (parse_i32_signed SgMinus (show_dec (- j)) (show_dec_nonempty _) Hd) as H.
      cbn [sign_codes app signed_value] in H. rewrite Hv in H. replace (- - j) with j in H by lia.
      unfold in_i32 in Hr. replace ((i32_min <=? j) && (j <=? i32_max)) with true in H by lia. exact H.
    + unfold has_inner_dash. cbn [tl]. apply not_true_is_false. intros Hx. apply existsb_exists in Hx.
      destruct Hx as (c & Hc & Hc2). unfold is_digits in Hd. rewrite Forall_forall in Hd. specialize (Hd c Hc).
      apply is_digit_range in Hd. unfold DASH in Hc2. lia.
  - pose proof (show_dec_digits j ltac:(lia)) as Hd. pose proof (show_dec_value j ltac:(lia)) as Hv.
    split.
    + pose proof (parse_i32_signed SgNone (show_dec j) (show_dec_nonempty _) Hd) as H.
      cbn [sign_codes app signed_value] in H. rewrite Hv in H.
      unfold in_i32 in Hr. replace ((i32_min <=? j) && (j <=? i32_max)) with true in H by lia. exact H.
    + unfold has_inner_dash. apply not_true_is_false. intros Hx. apply existsb_exists in Hx.
      destruct Hx as (c & Hc & Hc2). unfold is_digits in Hd. rewrite Forall_forall in Hd.
      assert (In c (show_dec j)) by (destruct (show_dec j); [destruct Hc | right; exact Hc]).
      specialize (Hd c H). apply is_digit_range in Hd. unfold DASH in Hc2. lia.
Qed.

Lemma arg_line_show_int o j : in_i32 j -> arg_line o (show_int j) = (s <- jdn_to_date o j;; Ret (Ok s)).
Proof. intros H. destruct (show_int_parse j H). apply arg_line_number; assumption. Qed.

(* what the core development has to provide about the date [d] that `at_jdn` returns for [j] in calendar [c]:
   its fields are in range, and both constructors give it back from its own fields *)
Definition canonical_date (c : Calendar) (j : Z) (d : Date) : Prop :=
  Date_f_jdn d = j /\ in_i32 (Date_f_year d) /\ in_u32 (Date_f_day d) /\ in_u32 (Date_f_ordinal d) /\
  Calendar_at_ymd c (Date_f_year d) (Date_f_month d) (Date_f_day d) = Ret (Ok d) /\
  Calendar_at_ordinal_date c (Date_f_year d) (Date_f_ordinal d) = Ret (Ok d).

Definition jdn_prefix (o : Options) (j : Z) : list Z :=
  if o_quiet o then [] else codes "JDN " ++ show_int j ++ codes " = ".

(* The round trip holds for the date text WITHOUT the O.S./N.S. mark (with -s on a reforming calendar the
   marked text "YYYY-MM-DD O.S." is one argument that parse_date rejects: see the Example in C18_cli.v). *)
Theorem roundtrip_text o j d t :
  o_json o = false ->
  Calendar_at_jdn (o_calendar o) j = Ret d -> canonical_date (o_calendar o) j d -> date_text o d = Ret t ->
  in_i32 j ->
  arg_line o (show_int j) = Ret (Ok (jdn_prefix o j ++ t ++ style_mark o d)) /\
  arg_line o t = Ret (Ok (if o_quiet o then show_int j else t ++ style_mark o d ++ codes " = JDN " ++ show_int j)).
Proof.
  intros Hj Hd (C1 & C2 & C3 & C4 & C5 & C6) Ht Hr. split.
  - rewrite arg_line_show_int by assumption.
    rewrite jdn_to_date_text by assumption. rewrite Hd. cbn [bind]. rewrite Ht. reflexivity.
  - assert (Hp : parse_date (o_calendar o) t = Ret (Ok d)).
    { destruct roundtrip as (R1 & R2 & _). unfold date_text in Ht. destruct (o_ordinal o).
      - rewrite (R2 _ _ _ C2 C4 Ht), C6. reflexivity.
      - rewrite (R1 _ _ _ C2 C3 Ht), C5. reflexivity. }
    rewrite (arg_line_date o t d (date_text_inner_dash o d t Ht) Hp).
    rewrite date_to_jdn_text by assumption. rewrite C1. destruct (o_quiet o); [reflexivity|].
    rewrite Ht. reflexivity.
Qed.

(* ================================================================ 3. the whole command *)
(* ---- str::parse::<i32> *)
Lemma chko_some lo hi x a : chko lo hi x = Some a -> a = x /\ lo <= x <= hi.
Proof. unfold chko. destruct ((lo <=? x) && (x <=? hi)) eqn:E; [|discriminate]. intros H; injection H as <-. split; [reflexivity | lia]. Qed.

Lemma parse_digits_ok neg lo hi : forall s acc v,
  lo <= acc <= hi -> parse_digits neg lo hi acc s = Ok v -> lo <= v <= hi /\ Forall (fun c => is_digit c = true) s.
Proof.
  induction s as [|c r IH]; intros acc v Ha H; cbn [parse_digits] in H.
  - injection H as <-. split; [assumption | constructor].
  - destruct (is_digit c) eqn:Ed; [|discriminate].
    destruct (chko lo hi (acc * 10)) as [m|] eqn:E1; [|destruct neg; discriminate].
    destruct (chko lo hi (if neg then m - (c - 48) else m + (c - 48))) as [a|] eqn:E2; [|destruct neg; discriminate].
    apply chko_some in E2. destruct E2 as [-> E2]. apply IH in H; [|assumption].
    destruct H. split; [assumption | constructor; assumption].
Qed.

Lemma parse_i32_ok s v : parse_i32 s = Ok v -> in_i32 v /\ Forall (fun c => c < 128) s.
Proof.
  unfold parse_i32, from_str_radix10. intros H.
  assert (R0 : i32_min <= 0 <= i32_max) by (unfold i32_min, i32_max; lia).
  assert (D : forall l, Forall (fun c => is_digit c = true) l -> Forall (fun c => c < 128) l).
  { intros l. apply Forall_impl. intros c Hc. unfold is_digit in Hc. lia. }
  destruct s as [|c [|c2 r]]; [discriminate | |].
  - destruct ((c =? 43) || (c =? 45)); [discriminate|]. apply parse_digits_ok in H; [|assumption]. destruct H. split; [assumption | auto].
  - destruct (c =? 43) eqn:E1.
    { apply parse_digits_ok in H; [|assumption]. destruct H. split; [assumption|]. constructor; [lia | auto]. }
    destruct ((c =? 45) && true) eqn:E2.
    { apply parse_digits_ok in H; [|assumption]. destruct H. split; [assumption|]. constructor; [lia | auto]. }
    apply parse_digits_ok in H; [|assumption]. destruct H. split; [assumption | auto].
Qed.

(* ---- the country table *)
Lemma list_eqb_eq a b : list_eqb a b = true -> a = b.
Proof.
  unfold list_eqb, bytes_eqb. revert b. induction a as [|x a IH]; intros [|y b] H; try discriminate; [reflexivity|].
  apply andb_prop in H. destruct H as [H1 H2]. apply IH in H2. f_equal; [lia | assumption].
Qed.

Lemma bt_get_in k t v : bt_get k t = Some v -> In (k, v) t.
Proof.
  induction t as [|[k' v'] r IH]; [discriminate|]. cbn [bt_get]. destruct (list_eqb k k') eqn:E.
  - intros H. injection H as ->. apply list_eqb_eq in E. subst. left. reflexivity.
  - intros H. right. apply IH. assumption.
Qed.

Lemma table_facts : Forall (fun e => is_ascii (fst e) /\ in_i32 (snd (snd e))) national_reformations.
Proof.
  apply (forallb_Forall (fun e => forallb (fun b => b <? 128) (fst e) && ((i32_min <=? snd (snd e)) && (snd (snd e) <=? i32_max)))).
  - intros e H. apply andb_prop in H. destruct H as [H1 H2]. split; [apply is_ascii_b; assumption | unfold in_i32; lia].
  - vm_compute. reflexivity.
Qed.

Lemma bt_get_table k v : bt_get k national_reformations = Some v -> is_ascii k /\ in_i32 (snd v).
Proof.
  intros H. apply bt_get_in in H. pose proof table_facts as F. rewrite Forall_forall in F. exact (F _ H).
Qed.

(* ---- calendars the command can be working with *)
Definition reachable_cal (c : Calendar) : Prop :=
  c = Calendar_GREGORIAN \/ c = Calendar_JULIAN \/ exists r, in_i32 r /\ Calendar_reforming r = Ret (Ok c).

(* the number handed to Calendar::reforming is an i32 *)
Lemma parse_reformation_spec alpha s :
  (exists e, parse_reformation alpha s = Ret (Err e)) \/
  (exists r, in_i32 r /\
             parse_reformation alpha s =
             (c <- Calendar_reforming r;; match c with Ok cal => Ret (Ok cal) | Err e => Ret (Err (RE_Reforming e)) end)).
Proof.
  unfold parse_reformation. destruct (forallb (is_alphabetic alpha) s).
  - destruct (bt_get (map ascii_upper s) national_reformations) as [entry|] eqn:E.
    + right. exists (snd entry). split; [exact (proj2 (bt_get_table _ _ E)) | reflexivity].
    + left. eexists. reflexivity.
  - destruct (parse_i32 s) as [n|k] eqn:E.
    + right. exists n. split; [exact (proj1 (parse_i32_ok _ _ E)) | reflexivity].
    + left. eexists. reflexivity.
Qed.

Lemma parse_reformation_reachable alpha s c : parse_reformation alpha s = Ret (Ok c) -> reachable_cal c.
Proof.
  intros H. destruct (parse_reformation_spec alpha s) as [(e & E) | (r & Hr & E)]; [congruence|].
  rewrite E in H. destruct (Calendar_reforming r) as [[cal|e]|] eqn:Er; cbn [bind] in H; try discriminate.
  injection H as <-. right; right. exists r. split; assumption.
Qed.

(* ---- the oracle for non-ASCII alphabetic characters does not matter *)
Lemma forallb_ext_in {A} (f g : A -> bool) l : (forall x, In x l -> f x = g x) -> forallb f l = forallb g l.
Proof.
  induction l as [|x l IH]; intros H; [reflexivity|]. cbn [forallb]. rewrite (H x (or_introl eq_refl)).
  rewrite IH; [reflexivity|]. intros y Hy. apply H. right. assumption.
Qed.

Lemma parse_reformation_alpha a1 a2 s :
  parse_reformation a1 s = parse_reformation a2 s \/
  ((exists e, parse_reformation a1 s = Ret (Err e)) /\ (exists e, parse_reformation a2 s = Ret (Err e))).
Proof.
  destruct (forallb (fun c => c <? 128) s) eqn:Ea.
  - left. unfold parse_reformation.
    assert (forallb (is_alphabetic a1) s = forallb (is_alphabetic a2) s) as ->; [|reflexivity].
    apply forallb_ext_in. intros c Hc. rewrite forallb_forall in Ea. specialize (Ea c Hc).
    unfold is_alphabetic. rewrite Ea. reflexivity.
  - right.
    assert (Hn : ~ is_ascii s).
    { intros H. assert (forallb (fun c => c <? 128) s = true); [|congruence].
      apply forallb_forall. intros c Hc. unfold is_ascii in H. rewrite Forall_forall in H. specialize (H c Hc). lia. }
    assert (G : forall a, exists e, parse_reformation a s = Ret (Err e)).
    { intros a. unfold parse_reformation. destruct (forallb (is_alphabetic a) s).
      - destruct (bt_get (map ascii_upper s) national_reformations) as [entry|] eqn:E; [|eexists; reflexivity].
        exfalso. apply Hn. apply bt_get_table in E. destruct E as [E _]. unfold is_ascii in *.
        rewrite Forall_forall in *. intros c Hc. specialize (E (ascii_upper c) (in_map _ _ _ Hc)).
        unfold ascii_upper in E. destruct ((97 <=? c) && (c <=? 122)) eqn:Ec; lia.
      - destruct (parse_i32 s) as [n|k] eqn:E; [|eexists; reflexivity].
        exfalso. apply Hn. exact (proj2 (parse_i32_ok _ _ E)). }
    split; apply G.
Qed.

Definition same_up_to_error {A E} (r1 r2 : M (Result A E)) : Prop :=
  r1 = r2 \/ ((exists e, r1 = Ret (Err e)) /\ (exists e, r2 = Ret (Err e))).

Lemma fp_loop_alpha a1 a2 : forall f p o a n, same_up_to_error (fp_loop a1 f p o a n) (fp_loop a2 f p o a n).
Proof.
  induction f as [|f IH]; intros p o a n; [left; reflexivity|].
  rewrite !fp_loop_S. unfold fp_body. destruct (next p) as [[p1 res]|]; cbn [bind]; [|left; reflexivity].
  destruct res as [[arg|]|e]; [|left; reflexivity|left; reflexivity].
  destruct (classify arg); try (left; reflexivity); try apply IH.
  - destruct (value p1) as [[p2 v]|]; cbn [bind]; [|left; reflexivity].
    destruct v as [raw|e]; [|left; reflexivity]. destruct (os_string raw) as [optarg|e]; [|left; reflexivity].
    destruct (parse_reformation_alpha a1 a2 optarg) as [E | [(e1 & E1) (e2 & E2)]].
    + rewrite E. destruct (parse_reformation a2 optarg) as [[cal|e]|]; cbn [bind]; [apply IH | left; reflexivity | left; reflexivity].
    + rewrite E1, E2. cbn [bind]. right. split; eexists; reflexivity.
  - destruct (optional_value p1) as [[p2 v]|]; cbn [bind]; [|left; reflexivity].
    destruct v as [raw|]; [destruct (into_string raw)|]; apply IH.
  - destruct (into_string v); apply IH.
Qed.

Theorem alpha_irrelevant a1 a2 version now argv : cli_main a1 version now argv = cli_main a2 version now argv.
Proof.
  unfold cli_main, cli_result, from_parser.
  destruct (fp_loop_alpha a1 a2 (parser_fuel (parser_new argv)) (parser_new argv) default_options [] None)
    as [E | [(e1 & E1) (e2 & E2)]].
  - rewrite E. reflexivity.
  - rewrite E1, E2. reflexivity.
Qed.

(* ---- no panic *)
(* what the core development provides: the library functions the command calls never panic on the
   calendars the command can construct *)
Definition LibTotal : Prop :=
  (forall r, in_i32 r -> no_panic (Calendar_reforming r)) /\
  (forall c j, reachable_cal c -> in_i32 j -> no_panic (Calendar_at_jdn c j)) /\
  (forall c y m d, reachable_cal c -> in_i32 y -> in_u32 d -> no_panic (Calendar_at_ymd c y m d)) /\
  (forall c y o, reachable_cal c -> in_i32 y -> in_u32 o -> no_panic (Calendar_at_ordinal_date c y o)).

Lemma parse_reformation_total alpha s : LibTotal -> no_panic (parse_reformation alpha s).
Proof.
  intros (L1 & _). destruct (parse_reformation_spec alpha s) as [(e & E) | (r & Hr & E)]; rewrite E.
  - eexists; reflexivity.
  - destruct (L1 r Hr) as (x & ->). cbn [bind]. destruct x; eexists; reflexivity.
Qed.

Lemma fp_run_total alpha : LibTotal -> forall m p o a n,
  (pmeasure p < m)%nat -> wf_parser p -> no_panic (fp_run alpha p o a n).
Proof.
  intros L. induction m as [|m IH]; intros p o a n Hm W; [lia|].
  rewrite fp_run_unfold by assumption.
  destruct (fp_body_cases alpha p o a n W) as [(x & Hx) | [(p' & o' & a' & n' & W' & Hm' & Hr) | (s & Hs & _)]].
  - rewrite Hx. eexists; reflexivity.
  - rewrite Hr. apply IH; [lia | assumption].
  - destruct (parse_reformation_total alpha s L) as (x & E). congruence.
Qed.

Lemma from_parser_total alpha argv : LibTotal -> no_panic (from_parser alpha (parser_new argv)).
Proof. intros L. rewrite from_parser_run. eapply fp_run_total; [assumption | apply Nat.lt_succ_diag_r | exact I]. Qed.

(* the calendar of a parsed command line is one of the reachable ones *)
Lemma fp_loop_reachable alpha : forall f p o a n o' a',
  reachable_cal (o_calendar o) -> fp_loop alpha f p o a n = Ret (Ok (Cmd_Run o' a')) -> reachable_cal (o_calendar o').
Proof.
  induction f as [|f IH]; intros p o a n o' a' Hc; [discriminate|].
  rewrite fp_loop_S. unfold fp_body. destruct (next p) as [[p1 res]|]; cbn [bind]; [|discriminate].
  destruct res as [[arg|]|e]; [| destruct n; [discriminate|]; intros H; injection H as <- <-; assumption | discriminate].
  destruct (classify arg); try discriminate; try (apply IH; assumption).
  - apply IH. right; left. reflexivity.
  - destruct (value p1) as [[p2 v]|]; cbn [bind]; [|discriminate].
    destruct v as [raw|e]; [|discriminate]. destruct (os_string raw) as [optarg|e]; [|discriminate].
    destruct (parse_reformation alpha optarg) as [[cal|e]|] eqn:E; cbn [bind]; try discriminate.
    apply IH. cbn [set_calendar o_calendar]. eapply parse_reformation_reachable; eassumption.
  - destruct (optional_value p1) as [[p2 v]|]; cbn [bind]; [|discriminate].
    destruct v as [raw|]; [destruct (into_string raw)|]; apply IH; assumption.
  - destruct (into_string v); apply IH; assumption.
Qed.

Lemma from_parser_reachable alpha argv o a :
  from_parser alpha (parser_new argv) = Ret (Ok (Cmd_Run o a)) -> reachable_cal (o_calendar o).
Proof. unfold from_parser. apply fp_loop_reachable. left. reflexivity. Qed.

(* printing never panics *)
Lemma date2json_total d : no_panic (date2json d).
Proof.
  unfold date2json, Date_julian_day_number, Date_year, Date_month, Month_number, Date_day, Date_ordinal, Date_calendar,
    Calendar_is_reforming, Date_is_julian. cbn [bind]. rewrite show_date_text, show_date_alt_text. cbn [bind].
  destruct (Calendar_f_0 (Date_f_calendar d)); cbn [bind]; eexists; reflexivity.
Qed.

Lemma date_to_jdn_total o d : no_panic (date_to_jdn o d).
Proof.
  unfold date_to_jdn. destruct (o_json o); [apply date2json_total|].
  unfold Date_julian_day_number. cbn [bind]. destruct (o_quiet o); cbn [negb bind]; [eexists; reflexivity|].
  rewrite fmt_date_spec. destruct (date_text_total o d) as (t & ->). cbn [bind]. eexists; reflexivity.
Qed.

Lemma jdn_to_date_total o j : LibTotal -> reachable_cal (o_calendar o) -> in_i32 j -> no_panic (jdn_to_date o j).
Proof.
  intros (_ & L2 & _) Hc Hj. unfold jdn_to_date. destruct (L2 _ _ Hc Hj) as (d & ->). cbn [bind].
  destruct (o_json o); [apply date2json_total|].
  rewrite fmt_date_spec. destruct (date_text_total o d) as (t & ->). cbn [bind]. eexists; reflexivity.
Qed.

Lemma arg_line_total o a : LibTotal -> reachable_cal (o_calendar o) -> no_panic (arg_line o a).
Proof.
  intros L Hc. pose proof L as (_ & _ & L3 & L4). unfold arg_line, parse_arg. destruct (has_inner_dash a).
  - assert (Hp : parse_date (o_calendar o) a <> Panic).
    { apply parse_date_total.
      - intros y m d Hy Hd. destruct (L3 _ y m d Hc Hy Hd) as (x & ->). discriminate.
      - intros y od Hy Ho. destruct (L4 _ y od Hc Hy Ho) as (x & ->). discriminate. }
    destruct (parse_date (o_calendar o) a) as [[d|e]|]; [| |congruence]; cbn [bind].
    + destruct (date_to_jdn_total o d) as (s & ->). eexists; reflexivity.
    + eexists; reflexivity.
  - destruct (parse_i32 a) as [j|k] eqn:E; cbn [bind].
    + destruct (jdn_to_date_total o j L Hc (proj1 (parse_i32_ok _ _ E))) as (s & ->). eexists; reflexivity.
    + eexists; reflexivity.
Qed.

Lemma run_args_total o : LibTotal -> reachable_cal (o_calendar o) -> forall args out, no_panic (run_args o args out).
Proof.
  intros L Hc. induction args as [|a r IH]; intros out; [eexists; reflexivity|].
  rewrite run_args_cons. destruct (arg_line_total o a L Hc) as ([s|e] & ->); cbn [bind]; [apply IH | eexists; reflexivity].
Qed.

Lemma json_start_total c : no_panic (json_start c).
Proof. unfold json_start, Calendar_reformation. destruct (Calendar_f_0 c); cbn [bind]; eexists; reflexivity. Qed.

(* the clock: any time whose day number fits i32 *)
Definition now_in_range (now : Z) : Prop := -185753453990400 <= now <= 185331720383999.

Lemma unix2jdn_ok now : now_in_range now -> exists j s, unix2jdn now = Ret (Ok (j, s)) /\ in_i32 j.
Proof.
  unfold now_in_range. intros H. rewrite JV.Proofs.Inner.unix2jdn_ok by (unfold in_i64, i64_min, i64_max; lia).
  assert (F : in_i32 (now / 86400 + 2440588)) by (unfold in_i32, i32_min, i32_max; lia).
  replace (JV.SpecX.in_i32b (now / 86400 + 2440588)) with true by (symmetry; apply JV.Proofs.Inner.in_i32b_iff; exact F).
  eexists _, _. split; [reflexivity|exact F].
Qed.

Lemma now_date_total o now : LibTotal -> reachable_cal (o_calendar o) -> now_in_range now -> no_panic (now_date o now).
Proof.
  intros (_ & L2 & _) Hc Hn. unfold now_date, calendar_now.
  replace ((i64_min <=? now) && (now <=? i64_max)) with true by (unfold now_in_range, i64_min, i64_max in *; lia).
  unfold Calendar_at_unix_time. destruct (unix2jdn_ok now Hn) as (j & s & -> & Hj). cbn [bind].
  destruct (L2 _ _ Hc Hj) as (d & ->). cbn [bind]. eexists; reflexivity.
Qed.

Lemma options_run_total o now args :
  LibTotal -> reachable_cal (o_calendar o) -> now_in_range now -> no_panic (options_run o now args).
Proof.
  intros L Hc Hn. unfold options_run.
  assert (H0 : no_panic (if o_json o then s <- json_start (o_calendar o);; Ret [s] else Ret [])).
  { destruct (o_json o); [|eexists; reflexivity]. destruct (json_start_total (o_calendar o)) as (s & ->). eexists; reflexivity. }
  destruct H0 as (out0 & ->). cbn [bind].
  destruct args as [|a r].
  - pose proof (now_date_total o now L Hc Hn) as (d & Hd). unfold now_date in Hd.
    destruct (calendar_now (o_calendar o) now) as [[[d' secs]|e]|]; cbn [bind] in *; try discriminate.
    destruct (date_to_jdn_total o d') as (s & ->). cbn [bind]. eexists; reflexivity.
  - destruct (run_args_total o L Hc (a :: r) out0) as ([out|e] & ->); cbn [bind]; eexists; reflexivity.
Qed.

Lemma countries_lines_value : exists ls, countries_lines = Ret ls /\ List.length ls = 35%nat.
Proof. eexists. split; [vm_compute; reflexivity | reflexivity]. Qed.

Theorem cli_main_total alpha version now argv :
  LibTotal -> now_in_range now -> no_panic (cli_main alpha version now argv).
Proof.
  intros L Hn. unfold cli_main, cli_result.
  destruct (from_parser_total alpha argv L) as ([cmd|e] & E); rewrite E; cbn [bind]; [|eexists; reflexivity].
  destruct cmd as [o a| | |]; cbn [command_run].
  - destruct (options_run_total o now a L (from_parser_reachable _ _ _ _ E) Hn) as ([ls|e] & ->); eexists; reflexivity.
  - destruct countries_lines_value as (ls & -> & _). eexists; reflexivity.
  - eexists; reflexivity.
  - eexists; reflexivity.
Qed.

(* ---- all or nothing *)
Theorem cli_main_all_or_none alpha version now argv out :
  cli_main alpha version now argv = Ret out ->
  out = ExitErr \/
  exists lines, out = Exit0 lines /\
    ((from_parser alpha (parser_new argv) = Ret (Ok Cmd_Help) /\ lines = help_lines) \/
     (from_parser alpha (parser_new argv) = Ret (Ok Cmd_Version) /\ lines = [version_line version]) \/
     (from_parser alpha (parser_new argv) = Ret (Ok Cmd_Countries) /\ countries_lines = Ret lines) \/
     (exists o args, from_parser alpha (parser_new argv) = Ret (Ok (Cmd_Run o args)) /\
                     options_run o now args = Ret (Ok lines) /\
                     List.length lines = ((if o_json o then 1 else 0) + Nat.max 1 (List.length args))%nat)).
Proof.
  unfold cli_main, cli_result.
  destruct (from_parser alpha (parser_new argv)) as [[cmd|e]|]; cbn [bind]; [| intros H; injection H as <-; left; reflexivity | discriminate].
  destruct cmd as [o a| | |]; cbn [command_run].
  - destruct (options_run o now a) as [[ls|e]|] eqn:E; cbn [bind]; [| intros H; injection H as <-; left; reflexivity | discriminate].
    intros H; injection H as <-. right. exists ls. split; [reflexivity|]. right; right; right.
    exists o, a. split; [reflexivity|]. split; [assumption|]. eapply options_run_length; eassumption.
  - destruct countries_lines as [ls|] eqn:E; cbn [bind]; [|discriminate]. intros H; injection H as <-.
    right. exists ls. split; [reflexivity|]. right; right; left. split; reflexivity.
  - intros H; injection H as <-. right. eexists. split; [reflexivity|]. left. split; reflexivity.
  - intros H; injection H as <-. right. eexists. split; [reflexivity|]. right; left. split; reflexivity.
Qed.

(* ---- the date an argument denotes, independently of the output mode *)
Definition arg_date (o : Options) (a : list Z) : M (Result Date CliError) :=
  pa <- parse_arg o a;;
  match pa with
  | Err e => Ret (Err e)
  | Ok (Arg_Date d) => Ret (Ok d)
  | Ok (Arg_Jdn j) => d <- Calendar_at_jdn (o_calendar o) j;; Ret (Ok d)
  end.

(* how that date is printed: JSON object, or one of the two text forms *)
Definition line_of_date (o : Options) (a : list Z) (d : Date) : M (list Z) :=
  if o_json o then date2json d
  else if has_inner_dash a then date_to_jdn o d
  else match parse_i32 a with
       | Ok j => fmt_date o (if negb (o_quiet o) then codes "JDN " ++ show_int j ++ codes " = " else []) d
       | Err _ => Panic
       end.

(* text mode and JSON mode report the SAME date for an argument: [arg_date] does not look at the mode *)
Theorem arg_line_via_date o a :
  arg_line o a =
  (r <- arg_date o a;; match r with Err e => Ret (Err e) | Ok d => s <- line_of_date o a d;; Ret (Ok s) end).
Proof.
  unfold arg_line, arg_date, line_of_date, parse_arg. destruct (has_inner_dash a) eqn:Hd.
  - destruct (parse_date (o_calendar o) a) as [[d|e]|]; cbn [bind]; try reflexivity.
    unfold date_to_jdn. destruct (o_json o); reflexivity.
  - destruct (parse_i32 a) as [j|k]; cbn [bind]; [|reflexivity].
    unfold jdn_to_date. destruct (Calendar_at_jdn (o_calendar o) j) as [d|]; cbn [bind]; [|reflexivity].
    destruct (o_json o); reflexivity.
Qed.

Lemma arg_date_mode_independent o a :
  arg_date o a = arg_date (mkOptions (o_calendar o) false (o_ordinal o) (o_quiet o) (o_style o)) a.
Proof. reflexivity. Qed.

(* ================================================================ statements used by Properties/C18, C19 *)
Lemma command_line_of_tokens alpha toks :
  Forall wf_tok toks -> no_info toks ->
  from_parser alpha (parser_new (render_all toks)) =
  (r <- opts_effect alpha toks default_options;;
   match r with
   | Err e => Ret (Err e)
   | Ok o' => fp_finish o' (pos_texts toks) (pos_nu toks)
   end)
  /\ forall v, neg_number v -> pos_collect v = ([v], None).
Proof.
  intros W N. split.
  - rewrite from_parser_tokens by assumption. rewrite tok_sem_split by assumption. reflexivity.
  - exact pos_collect_neg_number.
Qed.

Lemma info_options_win alpha version now pre i long post :
  Forall wf_tok (pre ++ T_Info i long :: post) -> no_info pre -> Forall (refo_valid alpha) pre ->
  from_parser alpha (parser_new (render_all (pre ++ T_Info i long :: post))) = Ret (Ok (info_cmd i)) /\
  exists lines,
    cli_main alpha version now (render_all (pre ++ T_Info i long :: post)) = Ret (Exit0 lines) /\
    match i with
    | I_h => lines = help_lines
    | I_V => lines = [version_line version]
    | I_c => countries_lines = Ret lines
    end.
Proof.
  intros W N V.
  pose proof (from_parser_info_wins alpha pre i long post W N V) as H. split; [exact H|].
  unfold cli_main, cli_result. rewrite H. cbn [bind]. destruct i; cbn [info_cmd command_run].
  - destruct countries_lines_value as (ls & E & _). rewrite E. cbn [bind]. exists ls. split; reflexivity.
  - eexists. split; reflexivity.
  - eexists. split; reflexivity.
Qed.

Lemma option_position_irrelevant alpha version now toks1 toks2 :
  Forall wf_tok toks1 -> Forall wf_tok toks2 ->
  filter is_opt_tok toks1 = filter is_opt_tok toks2 ->
  filter is_pos_tok toks1 = filter is_pos_tok toks2 ->
  from_parser alpha (parser_new (render_all toks1)) = from_parser alpha (parser_new (render_all toks2)) /\
  cli_main alpha version now (render_all toks1) = cli_main alpha version now (render_all toks2).
Proof.
  intros W1 W2 Ho Hp. pose proof (from_parser_position_irrelevant alpha toks1 toks2 W1 W2 Ho Hp) as H.
  split; [exact H|]. unfold cli_main, cli_result. rewrite H. reflexivity.
Qed.

(* the calendar in force is the one of the LAST -j / -r among the option tokens *)
Fixpoint last_calendar_tok (toks : list Tok) : option Tok :=
  match toks with
  | [] => None
  | t :: r =>
    match last_calendar_tok r with
    | Some t' => Some t'
    | None =>
      match t with
      | T_Refo _ _ => Some t
      | T_LongFlag F_j => Some t
      | T_Flags fs => if existsb (fun f => match f with F_j => true | _ => false end) fs then Some t else None
      | _ => None
      end
    end
  end.

Lemma apply_flags_calendar fs o :
  o_calendar (fold_left apply_flag fs o) =
  if existsb (fun f => match f with F_j => true | _ => false end) fs then Calendar_JULIAN else o_calendar o.
Proof.
  revert o. induction fs as [|f fs IH]; intros o; [reflexivity|]. cbn [fold_left existsb]. rewrite IH.
  destruct f; cbn [apply_flag set_calendar set_json set_ordinal set_quiet set_style o_calendar orb]; try reflexivity.
  destruct (existsb _ fs); reflexivity.
Qed.

(* the calendar selected by a successful option run *)
Lemma opts_effect_calendar alpha : forall toks o o',
  opts_effect alpha toks o = Ret (Ok o') ->
  match last_calendar_tok toks with
  | None => o_calendar o' = o_calendar o
  | Some (T_Refo _ v) => exists s, @os_string CliParseError v = Ok s /\ parse_reformation alpha s = Ret (Ok (o_calendar o'))
  | Some _ => o_calendar o' = Calendar_JULIAN
  end.
Proof.
  induction toks as [|t toks IH]; intros o o' H.
  - injection H as <-. reflexivity.
  - cbn [last_calendar_tok].
    destruct t as [fs | f | long v | v | i long]; cbn [opts_effect] in H.
    + specialize (IH _ _ H). destruct (last_calendar_tok toks) as [t'|]; [exact IH|].
      rewrite apply_flags_calendar in IH. destruct (existsb _ fs); exact IH.
    + specialize (IH _ _ H). destruct (last_calendar_tok toks) as [t'|]; [exact IH|].
      destruct f; cbn [apply_flag set_calendar set_json set_ordinal set_quiet set_style o_calendar] in IH; exact IH.
    + destruct (os_string v) as [s|e] eqn:Es; [|discriminate].
      destruct (parse_reformation alpha s) as [[cal|e]|] eqn:Ep; cbn [bind] in H; try discriminate.
      specialize (IH _ _ H). destruct (last_calendar_tok toks) as [t'|]; [exact IH|].
      cbn [set_calendar o_calendar] in IH. exists s. split; [assumption | congruence].
    + specialize (IH _ _ H). destruct (last_calendar_tok toks) as [t'|]; exact IH.
    + specialize (IH _ _ H). destruct (last_calendar_tok toks) as [t'|]; exact IH.
Qed.

(* the formatting flags are the disjunction of their occurrences *)
Definition has_flag (g : Flag) (toks : list Tok) : bool :=
  existsb (fun t => match t with
                    | T_Flags fs => existsb (fun f => match f, g with
                                                      | F_J, F_J | F_o, F_o | F_q, F_q | F_s, F_s | F_j, F_j => true
                                                      | _, _ => false end) fs
                    | T_LongFlag f => match f, g with
                                      | F_J, F_J | F_o, F_o | F_q, F_q | F_s, F_s | F_j, F_j => true
                                      | _, _ => false end
                    | _ => false
                    end) toks.

Lemma apply_flags_fields fs o :
  let has g := existsb (fun f => match f, g with
                                 | F_J, F_J | F_o, F_o | F_q, F_q | F_s, F_s | F_j, F_j => true
                                 | _, _ => false end) fs in
  o_json (fold_left apply_flag fs o) = (o_json o || has F_J) /\
  o_ordinal (fold_left apply_flag fs o) = (o_ordinal o || has F_o) /\
  o_quiet (fold_left apply_flag fs o) = (o_quiet o || has F_q) /\
  o_style (fold_left apply_flag fs o) = (o_style o || has F_s).
Proof.
  cbv zeta. revert o. induction fs as [|f fs IH]; intros o.
  - cbn [fold_left existsb]. rewrite !orb_false_r. repeat split.
  - cbn [fold_left existsb]. destruct (IH (apply_flag o f)) as (H1 & H2 & H3 & H4). rewrite H1, H2, H3, H4.
    destruct f; cbn [apply_flag set_calendar set_json set_ordinal set_quiet set_style o_json o_ordinal o_quiet o_style orb];
      rewrite ?orb_true_r, ?orb_false_r; repeat split; try reflexivity;
      destruct (o_json o), (o_ordinal o), (o_quiet o), (o_style o); reflexivity.
Qed.

Lemma opts_effect_flags alpha : forall toks o o',
  opts_effect alpha toks o = Ret (Ok o') ->
  o_json o' = (o_json o || has_flag F_J toks) /\ o_ordinal o' = (o_ordinal o || has_flag F_o toks) /\
  o_quiet o' = (o_quiet o || has_flag F_q toks) /\ o_style o' = (o_style o || has_flag F_s toks).
Proof.
  induction toks as [|t toks IH]; intros o o' H.
  - injection H as <-. unfold has_flag. cbn [existsb]. rewrite !orb_false_r. repeat split.
  - unfold has_flag in *. cbn [existsb].
    destruct t as [fs | f | long v | v | i long]; cbn [opts_effect] in H.
    + destruct (IH _ _ H) as (H1 & H2 & H3 & H4). destruct (apply_flags_fields fs o) as (G1 & G2 & G3 & G4).
      rewrite H1, H2, H3, H4, G1, G2, G3, G4. rewrite !orb_assoc. repeat split.
    + destruct (IH _ _ H) as (H1 & H2 & H3 & H4). rewrite H1, H2, H3, H4.
      destruct f; cbn [apply_flag set_calendar set_json set_ordinal set_quiet set_style o_json o_ordinal o_quiet o_style orb];
        rewrite ?orb_true_r, ?orb_false_r; repeat split; try reflexivity;
        destruct (o_json o), (o_ordinal o), (o_quiet o), (o_style o); reflexivity.
    + destruct (os_string v) as [s|e]; [|discriminate].
      destruct (parse_reformation alpha s) as [[cal|e]|]; cbn [bind] in H; try discriminate.
      destruct (IH _ _ H) as (H1 & H2 & H3 & H4). cbn [set_calendar o_json o_ordinal o_quiet o_style orb] in *.
      repeat split; assumption.
    + destruct (IH _ _ H) as (H1 & H2 & H3 & H4). cbn [orb]. repeat split; assumption.
    + destruct (IH _ _ H) as (H1 & H2 & H3 & H4). cbn [orb]. repeat split; assumption.
Qed.
