(* Glue_C10_iter.v — proofs of the statements of Properties/C10_iter.v that need a few steps beyond a library lemma
   (rephrasing only: no induction, no case analysis of the model).  The scripts were moved out of the property file so
   that it contains nothing but statements closed by [exact]. *)
From JV Require Import Sem Gen Spec SpecX.
From JV.Hand Require Import Iter.
From JV.Proofs Require Import IterProofs IterCore.
Import List ListNotations.
Open Scope Z_scope.

Lemma C10_iterators_all_lemma : forall c j n, ValidCal c -> in_i32 j ->
  later_take n (date_of c j) = Ret (map (fun i => day_or_none c (j + 1 + Z.of_nat i)) (seq 0 n)) /\
  and_later_take n (date_of c j) = Ret (map (fun i => day_or_none c (j + Z.of_nat i)) (seq 0 n)) /\
  earlier_take n (date_of c j) = Ret (map (fun i => day_or_none c (j - 1 - Z.of_nat i)) (seq 0 n)) /\
  and_earlier_take n (date_of c j) = Ret (map (fun i => day_or_none c (j - Z.of_nat i)) (seq 0 n)).
Proof.
  intros c j n V H.
  exact (conj (later_closed c V j n H) (conj (and_later_closed c V j n H) (conj (earlier_closed c V j n H) (and_earlier_closed c V j n H)))).
Qed.

