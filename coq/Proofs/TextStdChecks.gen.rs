use std::num::IntErrorKind;
fn k(e: &IntErrorKind) -> &'static str { match e { IntErrorKind::Empty=>"IEK_Empty", IntErrorKind::InvalidDigit=>"IEK_InvalidDigit", IntErrorKind::PosOverflow=>"IEK_PosOverflow", IntErrorKind::NegOverflow=>"IEK_NegOverflow", _=>"OTHER"} }
fn main() {
    let cases = ["", "+", "-", "0", "-0", "+0", "00", "5", "+5", "-5", "+-5", "-+5", "--5", "++5", "5x", "x5", "5-", "5+", " 5", "5 ",
        "2147483647", "2147483648", "-2147483648", "-2147483649", "+2147483647", "+2147483648", "4294967295", "4294967296", "+4294967295", "+4294967296",
        "-4294967295", "000000000000000000002147483647", "-000000000000000000002147483648", "000000000000000000004294967295",
        "99999999999x", "-99999999999x", "9999999999x9", "x99999999999", "21474836470", "-21474836480", "42949672950", "1234567", "12345678", "-1234567", "-12345678",
        "9999999999", "-9999999999", "2147483650", "4294967300", "429496729x", "214748364x", "-214748364x", "-214748364-", "1-1", "1+1"];
    for (i, c) in cases.iter().enumerate() {
        match c.parse::<i32>() { Ok(v) => println!("Example std_i32_{} : parse_i32 (codes \"{}\") = Ok ({}). Proof. reflexivity. Qed.", i, c, v), Err(e) => println!("Example std_i32_{} : parse_i32 (codes \"{}\") = Err {}. Proof. reflexivity. Qed.", i, c, k(e.kind())) }
        match c.parse::<u32>() { Ok(v) => println!("Example std_u32_{} : parse_u32 (codes \"{}\") = Ok ({}). Proof. reflexivity. Qed.", i, c, v), Err(e) => println!("Example std_u32_{} : parse_u32 (codes \"{}\") = Err {}. Proof. reflexivity. Qed.", i, c, k(e.kind())) }
    }
    // non-ASCII: given as code point lists
    let na: [(&str, &str); 4] = [("٣", "[1635]"), ("5٣", "[53; 1635]"), ("−5", "[8722; 53]"), ("99999999999٣", "[57;57;57;57;57;57;57;57;57;57;57;1635]")];
    for (i, (c, l)) in na.iter().enumerate() {
        match c.parse::<i32>() { Ok(v) => println!("Example std_i32_na{} : parse_i32 {} = Ok ({}). Proof. reflexivity. Qed.", i, l, v), Err(e) => println!("Example std_i32_na{} : parse_i32 {} = Err {}. Proof. reflexivity. Qed.", i, l, k(e.kind())) }
        match c.parse::<u32>() { Ok(v) => println!("Example std_u32_na{} : parse_u32 {} = Ok ({}). Proof. reflexivity. Qed.", i, l, v), Err(e) => println!("Example std_u32_na{} : parse_u32 {} = Err {}. Proof. reflexivity. Qed.", i, l, k(e.kind())) }
    }
    // formatting
    for (w, n) in [(4usize, 0u32), (4, 7), (4, 1234), (4, 12345), (4, 2147483648), (2, 0), (2, 9), (2, 10), (2, 4294967295), (3, 1), (3, 99), (3, 100), (3, 366), (3, 1000)] {
        let s = format!("{:0w$}", n, w = w);
        println!("Example std_fmt_{}_{} : show_u {} {} = codes \"{}\". Proof. reflexivity. Qed.", w, n, w, n, s);
    }
    // eq_ignore_ascii_case
    let pairs = [("MARCH","march"),("March","march"),("marc","march"),("marchh","march"),("ſun","sun"),("Kelvin","kelvin"),("[","{"),("@","`"),("Z","z"),("a","A"),("","")];
    for (i,(a,b)) in pairs.iter().enumerate() {
        println!("Example std_eqi_{} : eq_ignore_ascii_case {} {} = {}. Proof. reflexivity. Qed.", i, cps(a), cps(b), a.eq_ignore_ascii_case(b));
    }
}
fn cps(s: &str) -> String { format!("[{}]", s.chars().map(|c| (c as u32).to_string()).collect::<Vec<_>>().join("; ")) }
