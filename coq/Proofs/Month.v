(* Month.v — Calendar::month_shape of every calendar a user can hold, against the set of days that
   exist in the month (Spec.old_mdays / new_mfirst / new_mdays / natural_len). *)
From JV Require Import Sem Gen Spec SpecX.
From JV.Proofs Require Import SpecFacts GapFacts Cal Cmp Inner Year MonthGeom Shape Meq.
Open Scope Z_scope.
Ltac Zify.zify_post_hook ::= Z.to_euclidean_division_equations.

(* ------------------------------------------------------------------ the shape the specification prescribes *)

(* ------------------------------------------------------------------ structure of the translated function *)
Definition ms_tail (self : Calendar) (year : Z) (month : Month) (length : Z) : M (option MonthShape) :=
  t4 <- Calendar_gap self;;
  match t4 with
  | Some gap =>
    t7 <- inner_ReformGap_cmp_year_month gap year month;;
    match t7 with
    | inner_RangeOrdering_EqLower | inner_RangeOrdering_EqBoth =>
      if (match inner_ReformGap_f_kind gap with inner_GapKind_IntraMonth => true | _ => false end)
      then t10 <- u32_add (inner_Date_f_day (inner_ReformGap_f_pre_reform gap)) 1;;
           t11 <- u32_sub (inner_Date_f_day (inner_ReformGap_f_post_reform gap)) 1;;
           Ret (Some (mkMonthShape self year month (inner_MonthShape_Gapped t10 t11 length)))
      else Ret (Some (mkMonthShape self year month
             (if inner_Date_f_day (inner_ReformGap_f_pre_reform gap) =? length then inner_MonthShape_Normal length
              else inner_MonthShape_Tailless (inner_Date_f_day (inner_ReformGap_f_pre_reform gap)) length)))
    | inner_RangeOrdering_Between => Ret None
    | inner_RangeOrdering_EqUpper =>
      if 1 <? inner_Date_f_day (inner_ReformGap_f_post_reform gap)
      then Ret (Some (mkMonthShape self year month (inner_MonthShape_Headless (inner_Date_f_day (inner_ReformGap_f_post_reform gap)) length)))
      else Ret (Some (mkMonthShape self year month (inner_MonthShape_Normal length)))
    | _ => Ret (Some (mkMonthShape self year month (inner_MonthShape_Normal length)))
    end
  | None => Ret (Some (mkMonthShape self year month (inner_MonthShape_Normal length)))
  end.
Definition feb_len_k (self : Calendar) (year : Z) (k : Z -> M (option MonthShape)) : M (option MonthShape) :=
  t15 <- Calendar_year_kind self year;;
  t16 <- YearKind_is_leap t15;;
  if t16 then k 29
  else t19 <- Calendar_gap self;;
       match t19 with
       | Some gap =>
         t25 <- inner_ReformGap_cmp_year_month gap year Month_February;;
         let jp := fun (v23 : bool) =>
           t24 <- (if v23 then inner_is_julian_leap_year year else Ret false);;
           if t24 then k 29 else k 28 in
         match t25 with inner_RangeOrdering_EqLower => jp true | _ => jp false end
       | None => k 28
       end.
Definition month_base_len (m : Month) : Z :=
  match m with
  | Month_January | Month_March | Month_May | Month_July | Month_August | Month_October | Month_December => 31
  | Month_February => 28
  | _ => 30
  end.
Lemma month_shape_unfold self year month :
  Calendar_month_shape self year month =
  match month with
  | Month_February => feb_len_k self year (ms_tail self year month)
  | _ => ms_tail self year month (month_base_len month)
  end.
Proof.
  destruct month; first [ reflexivity
    | unfold Calendar_month_shape, feb_len_k, ms_tail, month_base_len, Calendar_gap, YearKind_is_leap; timeout 120 meq ].
Qed.

Lemma base_len_mlen l m : Month_discr m <> 2 -> month_base_len m = mlen l (Month_discr m).
Proof. destruct m; cbn [Month_discr]; intros; try reflexivity; lia. Qed.

Lemma ym_lt_P y m y' m' : ym_lt y m y' m' = true <-> ym_ltP y m y' m'.
Proof. unfold ym_lt, ym_ltP. lia. Qed.

Ltac ifd_inner :=
  match goal with
  | |- context[if ?c then _ else _] =>
    lazymatch c with
    | context[if _ then _ else _] => fail
    | context[match _ with _ => _ end] => fail
    | _ => destruct c eqn:?
    end
  end.

(* ------------------------------------------------------------------ reforming calendars *)
Section Reforming.
  Variables (r py pm pd qy qm qd : Z).
  Hypothesis GI : GapInfo r py pm pd qy qm qd.
  Let G := the_gap r py pm pd qy qm qd.
  Let K := rcal r py pm pd qy qm qd.

  Lemma K_gap : Calendar_gap K = Ret (Some G).
  Proof. reflexivity. Qed.

  Lemma cmp_ym_gap y m :
    inner_ReformGap_cmp_year_month G y m = Ret (range_ord_ym y (Month_discr m) py pm qy qm).
  Proof.
    unfold inner_ReformGap_cmp_year_month, G, the_gap.
    cbn [inner_ReformGap_f_pre_reform inner_ReformGap_f_post_reform inner_Date_f_year inner_Date_f_month].
    pose proof (g_pm _ _ _ _ _ _ _ GI) as PM. pose proof (g_qm _ _ _ _ _ _ _ GI) as QM.
    rewrite cmp_ym_range_ok.
    - rewrite !Month_discr_of_Z by assumption. reflexivity.
    - rewrite !Month_discr_of_Z by assumption. pose proof (g_pq _ _ _ _ _ _ _ GI). unfold ym_lt, ym_eq, ym_ltP in *. lia.
  Qed.

  Lemma kind_intra : (match inner_ReformGap_f_kind G with inner_GapKind_IntraMonth => true | _ => false end)
                     = (py =? qy) && (pm =? qm).
  Proof. unfold G, the_gap, gap_kind. cbn [inner_ReformGap_f_kind]. destruct (py =? qy), (pm =? qm), (py + 1 =? qy); reflexivity. Qed.

  Lemma ms_tail_ok y m L : in_i32 y ->
    (range_ord_ym y (Month_discr m) py pm qy qm <> inner_RangeOrdering_Between -> L = natural_len (CR r) y (Month_discr m)) ->
    ms_tail K y m L = Ret (if month_count (CR r) y (Month_discr m) =? 0 then None
                           else Some (mkMonthShape K y m (shape_of (CR r) y (Month_discr m)))).
  Proof.
    intros Hy HL. unfold ms_tail. rewrite K_gap. cbn [bind]. rewrite cmp_ym_gap. cbn [bind]. rewrite kind_intra.
    unfold G, the_gap. cbn [inner_ReformGap_f_pre_reform inner_ReformGap_f_post_reform inner_Date_f_day].
    pose proof (Month_discr_range m) as Mr. set (mz := Month_discr m) in *.
    pose proof (g_pm _ _ _ _ _ _ _ GI) as PM. pose proof (g_qm _ _ _ _ _ _ _ GI) as QM.
    pose proof (g_pq _ _ _ _ _ _ _ GI) as PQ. pose proof (g_rp _ _ _ _ _ _ _ GI) as [_ PD]. pose proof (g_rq _ _ _ _ _ _ _ GI) as [_ QD].
    pose proof (mlen_bounds (jleap y) mz) as MJ. pose proof (mlen_bounds (gleap y) mz) as MG.
    pose proof (mlen_g_le_j y mz) as MGJ.
    unfold month_count, shape_of, shape_from. rewrite (natural_len_eq _ _ _ _ _ _ _ GI) in *.
    unfold range_ord_ym, range_ord in *.
    destruct (ym_lt y mz py pm) eqn:C1.
    { (* Less *)
      apply ym_lt_P in C1. assert (C2 : ym_ltP y mz qy qm) by (unfold ym_ltP in *; lia).
      rewrite (old_less _ _ _ _ _ _ _ GI y mz Mr C1), (new_less _ _ _ _ _ _ _ GI y mz Mr C2).
      rewrite HL by discriminate. replace ((y <? qy) || (y =? qy) && (mz <? qm)) with true by (unfold ym_ltP in *; lia).
      replace (mlen (jleap y) mz + 0 =? 0) with false by lia. change (0 =? 0) with true. rewrite Z.eqb_refl. reflexivity. }
    destruct (ym_eq y mz py pm) eqn:C2.
    { assert (y = py /\ mz = pm) as [Ey Em] by (unfold ym_eq in C2; lia).
      rewrite (old_eq _ _ _ _ _ _ _ GI y mz Mr Ey Em).
      destruct (ym_lt y mz qy qm) eqn:C3.
      - (* EqLower *)
        apply ym_lt_P in C3. rewrite (new_less _ _ _ _ _ _ _ GI y mz Mr C3).
        rewrite HL by discriminate. replace ((y <? qy) || (y =? qy) && (mz <? qm)) with true by (unfold ym_ltP in *; lia).
        replace ((py =? qy) && (pm =? qm)) with false by (unfold ym_ltP in *; lia).
        replace (pd + 0 =? 0) with false by lia. change (0 =? 0) with true. reflexivity.
      - (* EqBoth *)
        assert (y = qy /\ mz = qm) as [Ey' Em'] by (unfold ym_lt, ym_ltP in *; lia).
        destruct (new_eq _ _ _ _ _ _ _ GI y mz Mr Ey' Em') as [NF NM]. rewrite NF, NM.
        rewrite HL by discriminate. replace ((y <? qy) || (y =? qy) && (mz <? qm)) with false by lia.
        replace ((py =? qy) && (pm =? qm)) with true by lia.
        pose proof (g_intra _ _ _ _ _ _ _ GI ltac:(lia) ltac:(lia)).
        assert (qd <= mlen (gleap y) mz) by (subst; lia).
        rewrite u32_add_ok by range. cbn [bind]. rewrite u32_sub_ok by range. cbn [bind].
        replace (pd + (mlen (gleap y) mz - qd + 1) =? 0) with false by lia.
        replace (mlen (gleap y) mz - qd + 1 =? 0) with false by lia.
        replace (pd =? 0) with false by lia. reflexivity. }
    assert (C2' : ym_ltP py pm y mz) by (unfold ym_lt, ym_eq, ym_ltP in *; lia).
    rewrite (old_greater _ _ _ _ _ _ _ GI y mz Mr C2').
    destruct (ym_lt y mz qy qm) eqn:C3.
    { (* Between *)
      apply ym_lt_P in C3. rewrite (new_less _ _ _ _ _ _ _ GI y mz Mr C3). reflexivity. }
    destruct (ym_eq y mz qy qm) eqn:C4.
    { (* EqUpper *)
      assert (y = qy /\ mz = qm) as [Ey' Em'] by (unfold ym_eq in C4; lia).
      destruct (new_eq _ _ _ _ _ _ _ GI y mz Mr Ey' Em') as [NF NM]. rewrite NF, NM.
      rewrite HL by discriminate. replace ((y <? qy) || (y =? qy) && (mz <? qm)) with false by lia.
      assert (qd <= mlen (gleap y) mz) by (subst; lia).
      replace (0 + (mlen (gleap y) mz - qd + 1) =? 0) with false by lia.
      replace (mlen (gleap y) mz - qd + 1 =? 0) with false by lia. change (0 =? 0) with true.
      destruct (Z.ltb_spec 1 qd).
      - replace (qd =? 1) with false by lia. reflexivity.
      - replace (qd =? 1) with true by lia. reflexivity. }
    (* Greater *)
    assert (C4' : ym_ltP qy qm y mz) by (unfold ym_lt, ym_eq, ym_ltP in *; lia).
    destruct (new_greater _ _ _ _ _ _ _ GI y mz Mr C4') as [NF NM]. rewrite NF, NM.
    rewrite HL by discriminate. replace ((y <? qy) || (y =? qy) && (mz <? qm)) with false by (unfold ym_ltP in *; lia).
    replace (0 + mlen (gleap y) mz =? 0) with false by lia. replace (mlen (gleap y) mz =? 0) with false by lia.
    change (0 =? 0) with true. change (1 =? 1) with true. reflexivity.
  Qed.

  Lemma feb_len_ok y k : in_i32 y ->
    exists L, feb_len_k K y k = k L /\
      (range_ord_ym y 2 py pm qy qm <> inner_RangeOrdering_Between -> L = natural_len (CR r) y 2).
  Proof.
    intros Hy. unfold feb_len_k. unfold K at 1. rewrite (year_kind_reforming _ _ _ _ _ _ _ GI) by exact Hy. cbn [bind].
    unfold YearKind_is_leap. cbn [bind]. rewrite K_gap. cbn [bind]. rewrite cmp_ym_gap. cbn [bind Month_discr]. cbv zeta.
    rewrite is_julian_leap_year_ok.
    rewrite (natural_len_eq _ _ _ _ _ _ _ GI). rewrite !mlen_2.
    unfold year_kind_of, year_count.
    rewrite (old_days_eq _ _ _ _ _ _ _ GI), (new_days_eq _ _ _ _ _ _ _ GI), (incal_feb29 _ _ _ _ _ _ _ GI).
    pose proof (r_year_bounds _ _ _ _ _ _ _ GI) as [[A B] [C D]]. pose proof (py_le_qy _ _ _ _ _ _ _ GI).
    pose proof (g_pm _ _ _ _ _ _ _ GI) as PM. pose proof (g_qm _ _ _ _ _ _ _ GI) as QM.
    pose proof (g_pq _ _ _ _ _ _ _ GI) as PQ. pose proof (g_rp _ _ _ _ _ _ _ GI) as [_ PD]. pose proof (g_rq _ _ _ _ _ _ _ GI) as [_ QD].
    pose proof (J0_step py). pose proof (G0_step qy). pose proof (G0_step y) as GS. pose proof (J0_step y) as JS.
    pose proof (gleap_jleap y) as GJ.
    assert (P29 : pm = 2 -> pd = 29 -> jleap py = true).
    { intros -> ->. rewrite mlen_2 in PD. destruct (jleap py); [reflexivity|lia]. }
    assert (Q29 : qm = 2 -> gleap qy = false -> qd <= 28).
    { intros -> E. rewrite mlen_2, E in QD. lia. }
    unfold range_ord_ym, range_ord, ym_lt, ym_eq, ym_ltP in *.
    rewrite !ylen_eq in *.
    destruct (Z.lt_trichotomy y py) as [L1|[E1|L1]]; destruct (Z.lt_trichotomy y qy) as [L2|[E2|L2]];
      try subst y; try subst qy; try (exfalso; lia);
      destruct (jleap _) eqn:JL; destruct (gleap _) eqn:GL; try (specialize (GJ eq_refl); discriminate);
      repeat first [ progress cbn [bind andb orb negb ykind_gen]
                   | rewrite GL | rewrite JL
                   | progress cmp_simpl
                   | ifd_inner ];
      (eexists; split; [reflexivity|]; intros NB; try reflexivity; try (exfalso; apply NB; reflexivity); try (exfalso; lia); lia).
  Qed.

  Lemma month_shape_reforming y m : in_i32 y ->
    Calendar_month_shape K y m =
    Ret (if month_count (CR r) y (Month_discr m) =? 0 then None
         else Some (mkMonthShape K y m (shape_of (CR r) y (Month_discr m)))).
  Proof.
    intros Hy. rewrite month_shape_unfold.
    destruct (Z.eq_dec (Month_discr m) 2) as [E|N].
    - assert (m = Month_February) as -> by (apply Month_discr_inj; exact E).
      destruct (feb_len_ok y (ms_tail K y Month_February) Hy) as (L & EL & HL). rewrite EL.
      apply ms_tail_ok; assumption.
    - transitivity (ms_tail K y m (month_base_len m)); [destruct m; try reflexivity; cbn in N; lia|].
      apply ms_tail_ok; [assumption|]. intros _.
      rewrite (natural_len_eq _ _ _ _ _ _ _ GI). rewrite (base_len_mlen (jleap y) m N).
      rewrite (mlen_not2 (jleap y)), (mlen_not2 (gleap y)) by exact N. destruct ((y <? qy) || (y =? qy) && (Month_discr m <? qm)); reflexivity.
  Qed.
End Reforming.

(* ------------------------------------------------------------------ all calendars *)
Lemma month_shape_proleptic (c : cal) (leap : Z -> bool) y m :
  (c = CJ /\ leap = jleap) \/ (c = CG /\ leap = gleap) -> in_i32 y ->
  Calendar_month_shape (cal_of c) y m =
  Ret (Some (mkMonthShape (cal_of c) y m (inner_MonthShape_Normal (mlen (leap y) (Month_discr m))))).
Proof.
  intros Hc Hy. rewrite month_shape_unfold.
  assert (GapNone : Calendar_gap (cal_of c) = Ret None) by (destruct Hc as [[-> _]|[-> _]]; reflexivity).
  assert (T : forall L, ms_tail (cal_of c) y m L = Ret (Some (mkMonthShape (cal_of c) y m (inner_MonthShape_Normal L)))).
  { intros L. unfold ms_tail. rewrite GapNone. reflexivity. }
  destruct (Z.eq_dec (Month_discr m) 2) as [E|N].
  - assert (m = Month_February) as -> by (apply Month_discr_inj; exact E).
    unfold feb_len_k. rewrite year_kind_ok by (destruct Hc as [[-> _]|[-> _]]; cbn; auto). cbn [bind].
    rewrite GapNone. unfold YearKind_is_leap. cbn [bind Month_discr]. rewrite mlen_2.
    assert (KL : year_kind_of c y = if leap y then KLeap else KCommon).
    { destruct Hc as [[-> ->]|[-> ->]]; unfold year_kind_of, year_count; cbn [old_days new_days].
      - pose proof (ylen_bounds (jleap y)). replace (ylen (jleap y) + 0 =? 0) with false by lia. change (0 =? 0) with true.
        replace (ylen (jleap y) + 0 =? ylen (jleap y)) with true by lia. reflexivity.
      - pose proof (ylen_bounds (gleap y)). pose proof (ylen_bounds (jleap y)). pose proof (gleap_jleap y).
        replace (0 + ylen (gleap y) =? 0) with false by lia. replace (ylen (gleap y) =? 0) with false by lia. cbn [andb].
        change (0 =? 0) with true. replace (0 + ylen (gleap y) =? ylen (gleap y)) with true by lia. reflexivity. }
    rewrite KL. destruct (leap y); cbn [ykind_gen]; rewrite T; reflexivity.
  - transitivity (ms_tail (cal_of c) y m (month_base_len m)); [destruct m; try reflexivity; cbn in N; lia|].
    rewrite T. rewrite (base_len_mlen (leap y) m N). reflexivity.
Qed.

Lemma month_shape_ok c y m : ValidCal c -> in_i32 y ->
  Calendar_month_shape (cal_of c) y m = Ret (month_shape_spec c y m).
Proof.
  intros V Hy. pose proof (Month_discr_range m) as Mr. pose proof (mlen_bounds (jleap y) (Month_discr m)). pose proof (mlen_bounds (gleap y) (Month_discr m)).
  destruct c as [| |r].
  - rewrite (month_shape_proleptic CJ jleap) by auto. unfold month_shape_spec, month_count, shape_of, shape_from.
    cbn [old_mdays new_mdays new_mfirst natural_len]. replace (mlen (jleap y) (Month_discr m) + 0 =? 0) with false by lia.
    change (0 =? 0) with true. rewrite Z.eqb_refl. reflexivity.
  - rewrite (month_shape_proleptic CG gleap) by auto. unfold month_shape_spec, month_count, shape_of, shape_from.
    cbn [old_mdays new_mdays new_mfirst natural_len].
    replace (Z.max 0 (mlen (gleap y) (Month_discr m) - 1 + 1)) with (mlen (gleap y) (Month_discr m)) by lia.
    replace (0 + mlen (gleap y) (Month_discr m) =? 0) with false by lia.
    replace (mlen (gleap y) (Month_discr m) =? 0) with false by lia. change (0 =? 0) with true. change (1 =? 1) with true. reflexivity.
  - cbn [ValidCal] in V. destruct (gap_info r V) as (py & pm & pd & qy & qm & qd & GI).
    unfold month_shape_spec. rewrite (cal_of_CR _ _ _ _ _ _ _ GI). apply month_shape_reforming; assumption.
Qed.
