(* AtYmd.v — get_jdn, at_ordinal_date and at_ymd of every calendar a user can hold, classified
   completely: which requests succeed, with which date, and which error each refused request gets. *)
From JV Require Import Sem Gen Spec SpecX.
From JV.Proofs Require Import SpecFacts GapFacts Cal Cmp Inner Year MonthGeom Shape Month MonthSpec SpecSums Walk SpecOrd SpecInv AtJdn Meq.
Open Scope Z_scope.
Ltac Zify.zify_post_hook ::= Z.to_euclidean_division_equations.

Lemma year_count_le c y : 0 <= year_count c y <= 732 /\ 0 <= old_days c y <= 366 /\ 0 <= new_days c y <= 366.
Proof.
  unfold year_count. pose proof (ylen_bounds (jleap y)). pose proof (ylen_bounds (gleap y)). pose proof (J0_step y). pose proof (G0_step y).
  destruct c; cbn [old_days new_days]; lia.
Qed.

(* get_jdn: the proofs establish the arithmetic facts of each case and then let [gj_norm] evaluate the generated
   function, whatever the order and nesting of its tests: every comparison the facts decide is replaced by its value,
   every call is rewritten by its characterisation. *)
Ltac gj_norm :=
  repeat first
  [ progress cbn [bind andb orb negb Calendar_f_0 inner_ReformGap_f_post_reform inner_ReformGap_f_pre_reform inner_ReformGap_f_ordinal_gap
                  inner_Date_f_year inner_Date_f_ordinal]
  | progress cbv zeta
  | progress autounfold with gen_new
  | rewrite Year.gap_ok
  | progress cmp_simpl
  | rewrite u32_add_ok by range
  | rewrite julian2jdn_ok by (try assumption; lia)
  | rewrite gregorian2jdn_ok by (try assumption; lia) ].
Ltac gj_leaf :=
  unfold jdn_result;
  first [ reflexivity
        | match goal with |- Ret (match chk_jdn ?a with _ => _ end) = Ret (match chk_jdn ?b with _ => _ end) => replace a with b by lia; reflexivity end ].

Lemma get_jdn_julian y o : in_i32 y -> 1 <= o <= year_count CJ y ->
  Calendar_get_jdn (cal_of CJ) y o = Ret (jdn_result (jdn_of_ordinal CJ y o)).
Proof.
  intros Hy Ho. unfold Calendar_get_jdn, jdn_of_ordinal. unfold year_count in Ho. cbn [old_days new_days] in *.
  pose proof (ylen_bounds (jleap y)). change (Calendar_f_0 (cal_of CJ)) with inner_Calendar_Julian. gj_norm. gj_leaf.
Qed.
Lemma get_jdn_gregorian y o : in_i32 y -> 1 <= o <= year_count CG y ->
  Calendar_get_jdn (cal_of CG) y o = Ret (jdn_result (jdn_of_ordinal CG y o)).
Proof.
  intros Hy Ho. unfold Calendar_get_jdn, jdn_of_ordinal. unfold year_count in Ho. cbn [old_days new_days new_start] in *.
  pose proof (ylen_bounds (gleap y)). change (Calendar_f_0 (cal_of CG)) with inner_Calendar_Gregorian. gj_norm. gj_leaf.
Qed.

Section Reforming.
  Variables (r py pm pd qy qm qd : Z).
  Hypothesis GI : GapInfo r py pm pd qy qm qd.
  Hypothesis VR : ValidR r.
  Let K := rcal r py pm pd qy qm qd.

  Lemma get_jdn_reforming y o : in_i32 y -> 1 <= o <= year_count (CR r) y ->
    Calendar_get_jdn K y o = Ret (jdn_result (jdn_of_ordinal (CR r) y o)).
  Proof.
    intros Hy Ho. unfold Calendar_get_jdn.
    change (Calendar_gap K) with (@Ret (option inner_ReformGap) (Some (the_gap r py pm pd qy qm qd))).
    unfold K. cbn [rcal Calendar_f_0]. unfold the_gap.
    pose proof (r_year_bounds _ _ _ _ _ _ _ GI) as [[A B] [C D]]. pose proof (py_le_qy _ _ _ _ _ _ _ GI) as PQ.
    pose proof (old_days_eq _ _ _ _ _ _ _ GI y) as OD. pose proof (new_days_eq _ _ _ _ _ _ _ GI y) as ND.
    pose proof (J0_step py) as JP. pose proof (G0_step qy) as GQ. pose proof (J0_step y) as JS. pose proof (G0_step y) as GS.
    pose proof (ylen_bounds (jleap y)). pose proof (ylen_bounds (gleap y)). pose proof (ylen_bounds (jleap py)). pose proof (ylen_bounds (gleap qy)).
    unfold year_count in Ho. unfold jdn_of_ordinal. cbn [new_start]. rewrite OD. rewrite OD, ND in Ho.
    destruct (Z.lt_trichotomy y qy) as [L|[E|G]].
    - (* before the year of the first Gregorian date: Julian reckoning *)
      assert (YP : y <= py).
      { destruct (Z.le_gt_cases y py); [assumption|exfalso].
        replace (y <? py) with false in Ho by lia. replace (y =? py) with false in Ho by lia. replace (y <? qy) with true in Ho by lia. lia. }
      replace (y <? qy) with true in Ho by lia.
      destruct (Z.ltb_spec y py), (Z.eqb_spec y py); try lia; gj_norm; gj_leaf.
    - subst y. replace (qy <? qy) with false in Ho by lia. replace (qy =? qy) with true in Ho by lia.
      destruct (Z.eqb_spec py qy) as [E2|N2].
      + subst py. replace (qy <? qy) with false in * by lia. replace (qy =? qy) with true in * by lia.
        pose proof (same_year_gap _ _ _ _ _ _ _ GI eq_refl) as SG.
        destruct (Z.leb_spec (r - J0 qy + 1) o) as [New|Old]; gj_norm; gj_leaf.
      + replace (qy <? py) with false in * by lia. replace (qy =? py) with false in * by lia.
        gj_norm; gj_leaf.
    - replace (y <? py) with false in * by lia. replace (y =? py) with false in * by lia.
      replace (y <? qy) with false in Ho by lia. replace (y =? qy) with false in Ho by lia.
      assert (G0 (qy + 1) <= G0 y). { destruct (Z.eq_dec (qy + 1) y) as [<-|]; [lia|]. pose proof (G0_mono (qy + 1) y ltac:(lia)). lia. }
      gj_norm; gj_leaf.
  Qed.
End Reforming.

Lemma get_jdn_ok c y o : ValidCal c -> in_i32 y -> 1 <= o <= year_count c y ->
  Calendar_get_jdn (cal_of c) y o = Ret (jdn_result (jdn_of_ordinal c y o)).
Proof.
  intros V Hy Ho. destruct c as [| |r].
  - apply get_jdn_julian; assumption.
  - apply get_jdn_gregorian; assumption.
  - cbn [ValidCal] in V. destruct (gap_info r V) as (py & pm & pd & qy & qm & qd & GI).
    rewrite (cal_of_CR _ _ _ _ _ _ _ GI). apply get_jdn_reforming; assumption.
Qed.

(* ------------------------------------------------------------------ at_ordinal_date *)

Lemma chk_jdn_some v j : chk_jdn v = Some j -> j = v /\ in_i32 v.
Proof. unfold chk_jdn. destruct (in_i32b v) eqn:E; intros X; inversion X; subst. split; [reflexivity|apply in_i32b_iff; exact E]. Qed.

Lemma at_ordinal_date_ok c y o : ValidCal c -> in_i32 y -> in_u32 o ->
  Calendar_at_ordinal_date (cal_of c) y o = Ret (at_ordinal_date_spec c y o).
Proof.
  intros V Hy Ho. unfold Calendar_at_ordinal_date, at_ordinal_date_spec.
  rewrite ordinal2ymddo_ok by assumption. cbn [bind]. unfold ymddo_spec.
  destruct ((o <? 1) || (year_count c y <? o)) eqn:E; [reflexivity|].
  assert (OR : 1 <= o <= year_count c y) by lia.
  destruct (ordinal_inv c y o V OR) as [LY OO]. set (j := jdn_of_ordinal c y o) in *.
  pose proof (ymddo_at c j V) as A. unfold date_result, date_of.
  destruct (lbl c j) as [[y' m] d] eqn:EL. cbn [l_year fst] in LY. subst y'. destruct A as [A _]. rewrite OO in A.
  unfold ymddo_spec in A. rewrite E in A.
  destruct (locate c y o) as [[m' p]|]; [|discriminate]. injection A as E1 E2 E3. rewrite E1, E2, E3. cbn [bind].
  autounfold with gen_new. cbn [bind]. rewrite get_jdn_ok by assumption. cbn [bind]. fold j. unfold jdn_result.
  destruct (chk_jdn j) as [j'|] eqn:CJ; [|reflexivity].
  apply chk_jdn_some in CJ. destruct CJ as [E' _]. rewrite E'. rewrite EL, OO. reflexivity.
Qed.

(* ------------------------------------------------------------------ at_ymd *)

Lemma at_ymd_ok c y m d : ValidCal c -> in_i32 y -> in_u32 d ->
  Calendar_at_ymd (cal_of c) y m d = Ret (at_ymd_spec c y m d).
Proof.
  intros V Hy Hd. unfold Calendar_at_ymd, Calendar_get_day_ordinal, at_ymd_spec.
  rewrite month_shape_ok by assumption. cbn [bind]. unfold month_shape_spec.
  pose proof (Month_discr_range m) as Mr. set (mz := Month_discr m) in *.
  pose proof (month_count_range c y mz) as MC.
  destruct (Z.eqb_spec (month_count c y mz) 0) as [Z0|NZ]; [reflexivity|].
  assert (Ex : 0 < month_count c y mz) by lia.
  pose proof (shape_of_wf c y mz V Mr Ex) as W.
  rewrite day_ordinal_err_ok by assumption. cbn [bind].
  destruct (sh_day_err y m (shape_of c y mz) d) as [p|e] eqn:SE; [|reflexivity].
  assert (In : sh_in (shape_of c y mz) d = true /\ p = sh_ord (shape_of c y mz) d).
  { unfold sh_day_err in SE. destruct (sh_in (shape_of c y mz) d); [inversion SE; auto|].
    destruct ((1 <=? d) && (d <=? sh_natural (shape_of c y mz))); discriminate. }
  destruct In as [In Ep].
  pose proof (sh_ord_range _ d W In) as PR. rewrite (shape_of_len c y mz V Mr Ex) in PR. rewrite <- Ep in PR.
  pose proof (sh_len_pos _ W) as SL. rewrite (shape_of_len c y mz V Mr Ex) in SL.
  rewrite ymdo2ordinal_ok by (try assumption; lia). cbn [bind]. fold mz.
  pose proof (msum_succ c y mz Mr) as S.
  assert (OR : 1 <= msum c y mz + p <= year_count c y).
  { rewrite <- msum_total. pose proof (msum_le c y 1 mz ltac:(lia) ltac:(lia) ltac:(lia)). rewrite msum_1 in *.
    pose proof (msum_le c y (mz + 1) 13 ltac:(lia) ltac:(lia) ltac:(lia)). lia. }
  autounfold with gen_new. cbn [bind]. rewrite get_jdn_ok by assumption. cbn [bind]. unfold jdn_result, date_result.
  destruct (chk_jdn (jdn_of_ordinal c y (msum c y mz + p))) as [j|] eqn:CJ; [|reflexivity].
  apply chk_jdn_some in CJ. destruct CJ as [-> _].
  destruct (ymd_inv c y mz d p _ V Mr Ex In Ep eq_refl) as (EL & OO & DO).
  unfold date_of. rewrite EL, OO, DO. unfold mz. rewrite month_of_Z_discr. reflexivity.
Qed.
