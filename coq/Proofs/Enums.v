(* Enums.v — the small enum-level functions of the public API: numbers, successors, predecessors of Month and
   Weekday, and the YearKind predicates.  Finite case analyses about the generated definitions. *)
From JV Require Import Sem Gen Spec SpecX.
From JV.Proofs Require Import Inner Cal.
Import List ListNotations.
Open Scope Z_scope.

Definition all_weekdays := [Weekday_Monday; Weekday_Tuesday; Weekday_Wednesday; Weekday_Thursday; Weekday_Friday; Weekday_Saturday; Weekday_Sunday].
Definition all_months_list := [Month_January; Month_February; Month_March; Month_April; Month_May; Month_June; Month_July;
  Month_August; Month_September; Month_October; Month_November; Month_December].

Fixpoint mapM_numbers {A} (f : A -> M Z) (l : list A) : M (list Z) :=
  match l with [] => Ret [] | x :: r => a <- f x;; b <- mapM_numbers f r;; Ret (a :: b) end.

(* Monday = 1 ... Sunday = 7; January = 1 ... December = 12 *)
Lemma enum_numbers :
  (forall w, In w all_weekdays) /\ (forall m, In m all_months_list) /\
  mapM_numbers Weekday_number all_weekdays = Ret [1; 2; 3; 4; 5; 6; 7] /\
  mapM_numbers Month_number all_months_list = Ret [1; 2; 3; 4; 5; 6; 7; 8; 9; 10; 11; 12].
Proof.
  split; [intros w; destruct w; cbn; tauto|]. split; [intros m; destruct m; cbn; tauto|]. split; reflexivity.
Qed.

Lemma weekday_steps w :
  Weekday_number w = Ret (Weekday_discr w) /\ 1 <= Weekday_discr w <= 7 /\
  Weekday_number0 w = Ret (Weekday_discr w - 1) /\
  Weekday_succ w = Ret (if Weekday_discr w =? 7 then None else Some (weekday_of_number (Weekday_discr w + 1))) /\
  Weekday_pred w = Ret (if Weekday_discr w =? 1 then None else Some (weekday_of_number (Weekday_discr w - 1))) /\
  weekday_of_number (Weekday_discr w) = w.
Proof. destruct w; cbn; repeat split; try reflexivity; lia. Qed.

Lemma month_steps m :
  Month_number m = Ret (Month_discr m) /\ 1 <= Month_discr m <= 12 /\
  Month_number0 m = Ret (Month_discr m - 1) /\
  Month_succ m = Ret (if Month_discr m =? 12 then None else Some (month_of_Z (Month_discr m + 1))) /\
  Month_pred m = Ret (if Month_discr m =? 1 then None else Some (month_of_Z (Month_discr m - 1))) /\
  month_of_Z (Month_discr m) = m.
Proof. destruct m; cbn; repeat split; try reflexivity; lia. Qed.

Lemma year_kind_predicates k :
  YearKind_is_leap k = Ret (match k with YearKind_Leap | YearKind_ReformLeap => true | _ => false end) /\
  YearKind_is_common k = Ret (match k with YearKind_Common | YearKind_ReformCommon => true | _ => false end) /\
  YearKind_is_reform k = Ret (match k with YearKind_ReformCommon | YearKind_ReformLeap => true | _ => false end) /\
  YearKind_is_skipped k = Ret (match k with YearKind_Skipped => true | _ => false end).
Proof. destruct k; repeat split; reflexivity. Qed.

(* names, numbers and neighbours against the specification tables of SpecX.v *)
Definition omapM {A} (f : A -> M Z) (o : option A) : M (option Z) :=
  match o with None => Ret None | Some x => n <- f x;; Ret (Some n) end.
Lemma month_q_ok m :
  (a <- Month_name m;; b <- Month_short_name m;; n <- Month_number m;; n0 <- Month_number0 m;;
   p <- Month_pred m;; p' <- omapM Month_number p;; s <- Month_succ m;; s' <- omapM Month_number s;; Ret (Some (a, b, n, n0, p', s')))
  = Ret (enum_q_spec month_names_spec (Month_discr m)).
Proof. destruct m; reflexivity. Qed.
Lemma weekday_q_ok w :
  (a <- Weekday_name w;; b <- Weekday_short_name w;; n <- Weekday_number w;; n0 <- Weekday_number0 w;;
   p <- Weekday_pred w;; p' <- omapM Weekday_number p;; s <- Weekday_succ w;; s' <- omapM Weekday_number s;; Ret (Some (a, b, n, n0, p', s')))
  = Ret (enum_q_spec weekday_names_spec (Weekday_discr w)).
Proof. destruct w; reflexivity. Qed.

Lemma year_kind_flags_ok k :
  (a <- YearKind_is_leap k;; b <- YearKind_is_common k;; c <- YearKind_is_reform k;; d <- YearKind_is_skipped k;; Ret (a, b, c, d))
  = Ret (ykind_flags k).
Proof. destruct k; reflexivity. Qed.
