(* InteropProofs.v — chrono / time interoperability on julian's side (under the contracts stated in Hand/Interop.v). *)
From JV Require Import Sem Gen Spec SpecX.
From JV.Hand Require Import Interop.
From JV.Proofs Require Import SpecFacts GapFacts Cal Cmp Inner AtJdn AtYmd SpecSets SuccPred Boundary Core Canon.
Open Scope Z_scope.
Ltac Zify.zify_post_hook ::= Z.to_euclidean_division_equations.

Lemma f_gleap_eq y : f_gleap y = gleap y. Proof. reflexivity. Qed.
Lemma f_mlen_eq y m : f_mlen y m = mlen (gleap y) m. Proof. reflexivity. Qed.
Lemma month_try_from_ok m : 1 <= m <= 12 -> month_try_from_u32 m = Some (month_of_Z m).
Proof.
  intros H. unfold month_try_from_u32, month_of_Z.
  repeat match goal with |- context[if ?c then _ else _] => destruct c eqn:?; try reflexivity end. lia.
Qed.

Definition RangeOk (ymin ymax : Z) : Prop := -5884322 <= ymin /\ ymax <= 5874897.

Lemma foreign_jdn_fits ymin ymax y m d : RangeOk ymin ymax -> f_valid ymin ymax (y, m, d) = true -> in_i32 (jdn_g y m d) /\ in_i32 y /\ in_u32 d.
Proof.
  unfold RangeOk, f_valid. rewrite f_mlen_eq. intros [A B] V. pose proof (mlen_bounds (gleap y) m). assert (Mr : 1 <= m <= 12) by lia.
  pose proof (cum_bounds (gleap y) m Mr). pose proof (ylen_bounds (gleap y)). unfold jdn_g, G0. split; [|split]; range.
Qed.

(* From<foreign>: never reaches an expect; same year/month/day; Gregorian calendar; day number of that label *)
Theorem from_foreign_ok ymin ymax f : RangeOk ymin ymax -> f_valid ymin ymax f = true ->
  let '(y, m, d) := f in
  from_foreign f = Ret (date_of CG (jdn_g y m d)) /\ lbl CG (jdn_g y m d) = (y, m, d).
Proof.
  intros R V. destruct f as [[y m] d]. destruct (foreign_jdn_fits _ _ _ _ _ R V) as (Fit & Hy & Hd).
  unfold f_valid in V. rewrite f_mlen_eq in V. assert (Mr : 1 <= m <= 12) by lia.
  assert (VL : valid_md (gleap y) m d) by (unfold valid_md; lia).
  assert (L : lbl CG (jdn_g y m d) = (y, m, d)) by (unfold lbl; cbn [is_old]; apply glabel_iff; auto).
  split; [|exact L]. unfold from_foreign. rewrite month_try_from_ok by exact Mr.
  change Calendar_GREGORIAN with (cal_of CG).
  rewrite (at_ymd_proleptic CG gleap jdn_g G0 y (month_of_Z m) d (or_intror (conj eq_refl (conj eq_refl (conj eq_refl eq_refl)))) Hy Hd).
  cbn [bind]. unfold proleptic_at_ymd.
  rewrite Month_discr_of_Z by exact Mr. replace ((1 <=? d) && (d <=? mlen (gleap y) m)) with true by lia.
  replace (in_i32b (jdn_g y m d)) with true by (symmetry; apply in_i32b_iff; exact Fit). reflexivity.
Qed.

(* TryFrom<Date> for the foreign type, from a date of ANY calendar: the foreign date of the same day when its
   year is in the foreign range, None (an error, never a panic) otherwise *)
Theorem to_foreign_ok ymin ymax u8 c j : ValidCal c -> in_i32 j ->
  to_foreign ymin ymax u8 (date_of c j) = Ret (let '(y, m, d) := glabel j in f_mk ymin ymax y m d).
Proof.
  intros V Hj. unfold to_foreign. rewrite is_gregorian_ok. cbn [bind].
  assert (G : (if negb (is_old c j) then Ret (date_of c j) else Date_convert_to (date_of c j) Calendar_GREGORIAN) = Ret (if is_old c j then date_of CG j else date_of c j)).
  { destruct (is_old c j); cbn [negb]; [|reflexivity]. change Calendar_GREGORIAN with (cal_of CG). apply convert_to_ok; [exact I|exact Hj]. }
  rewrite G. cbn [bind]. clear G.
  set (g := if is_old c j then date_of CG j else date_of c j).
  assert (L : (Date_f_year g, Month_discr (Date_f_month g), Date_f_day g) = glabel j).
  { unfold g. destruct (is_old c j) eqn:IO.
    - destruct (SuccPred.date_of_fields CG j) as (_ & Fy & _ & _ & Fm & Fd & _). rewrite Fy, Fm, Fd.
      pose proof (lbl_valid CG j) as [Mr _]. rewrite Month_discr_of_Z by exact Mr. unfold lbl. cbn [is_old]. destruct (glabel j) as [[? ?] ?]. reflexivity.
    - destruct (SuccPred.date_of_fields c j) as (_ & Fy & _ & _ & Fm & Fd & _). rewrite Fy, Fm, Fd.
      pose proof (lbl_valid c j) as [Mr _]. rewrite Month_discr_of_Z by exact Mr. unfold lbl. rewrite IO. destruct (glabel j) as [[? ?] ?]. reflexivity. }
  unfold Date_year, Date_month, Month_number, Date_day. cbn [bind].
  pose proof (glabel_valid j) as GV. destruct (glabel j) as [[y m] d]. destruct GV as [[Vm Vd] _]. pose proof (mlen_bounds (gleap y) m).
  inversion L as [[E1 E2 E3]]. rewrite E1, E2, E3.
  replace (u8 && negb ((0 <=? d) && (d <=? 255))) with false by (destruct u8; cbn; lia). reflexivity.
Qed.

Theorem foreign_roundtrip ymin ymax u8 f : RangeOk ymin ymax -> f_valid ymin ymax f = true ->
  exists d, from_foreign f = Ret d /\ to_foreign ymin ymax u8 d = Ret (Some f).
Proof.
  intros R V. pose proof (from_foreign_ok ymin ymax f R V) as F. destruct f as [[y m] d]. destruct F as [F L].
  exists (date_of CG (jdn_g y m d)). split; [exact F|].
  destruct (foreign_jdn_fits _ _ _ _ _ R V) as (Fit & _). rewrite to_foreign_ok by (try exact I; exact Fit).
  unfold lbl in L. cbn [is_old] in L. rewrite L. unfold f_mk. rewrite V. reflexivity.
Qed.

Lemma chrono_range : RangeOk chrono_ymin chrono_ymax. Proof. unfold RangeOk, chrono_ymin, chrono_ymax. lia. Qed.
Lemma time_range : RangeOk time_ymin time_ymax. Proof. unfold RangeOk, time_ymin, time_ymax. lia. Qed.
