(* Glue_C14_core.v — proofs of the statements of Properties/C14_core.v that need a few steps beyond a library lemma
   (rephrasing only: no induction, no case analysis of the model).  The scripts were moved out of the property file so
   that it contains nothing but statements closed by [exact]. *)
From JV Require Import Sem Gen Spec SpecX.
From JV.Proofs Require Import SpecFacts Cal Core Inner Boundary.
Open Scope Z_scope.
Ltac Zify.zify_post_hook ::= Z.to_euclidean_division_equations.

Lemma C14_range_lemma : forall t, in_i32b (t / 86400 + 2440588) = true <-> -185753453990400 <= t <= 185331720383999.
Proof. intros t. unfold in_i32b, i32_min, i32_max. lia. Qed.

Lemma C14_jdn2unix_midnight_lemma : forall j, in_i32 j ->
  jdn2unix j = Ret ((j - 2440588) * 86400) /\ unix2jdn ((j - 2440588) * 86400) = Ret (Ok (j, 0)).
Proof.
  intros j H. split; [apply jdn2unix_ok; exact H|]. rewrite unix2jdn_ok by range.
  replace ((j - 2440588) * 86400 / 86400 + 2440588) with j by lia. replace ((j - 2440588) * 86400 mod 86400) with 0 by lia.
  replace (in_i32b j) with true; [reflexivity|]. symmetry. apply in_i32b_iff. exact H.
Qed.

Lemma C14_at_unix_time_lemma : forall c t, ValidCal c -> in_i64 t ->
  Calendar_at_unix_time (cal_of c) t =
  Ret (if in_i32b (t / 86400 + 2440588) then Ok (date_of c (t / 86400 + 2440588), t mod 86400) else Err mkArithmeticError) /\
  (in_i32 (t / 86400 + 2440588) -> Calendar_at_jdn (cal_of c) (t / 86400 + 2440588) = Ret (date_of c (t / 86400 + 2440588))).
Proof. intros c t V H. split; [apply at_unix_time_ok; assumption|intros Hj; apply AtJdn.at_jdn_ok; assumption]. Qed.

