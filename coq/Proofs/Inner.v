(* Inner.v — the cycle arithmetic of inner.rs (as translated in Gen.v) against the closed forms of Spec.v. *)
From JV Require Import Sem Gen Spec SpecX.
From JV.Proofs Require Import Meq SpecFacts.
Open Scope Z_scope.
Ltac Zify.zify_post_hook ::= Z.to_euclidean_division_equations.

Ltac consts :=
  unfold inner_JULIAN_LEAP_CYCLE_DAYS, inner_JULIAN_LEAP_CYCLE_YEARS, inner_GREGORIAN_CYCLE_DAYS,
    inner_GREGORIAN_CYCLE_YEARS, LEAP_YEAR_LENGTH, COMMON_YEAR_LENGTH, inner_JDN0_YEAR,
    UNIX_EPOCH_JDN, SECONDS_IN_DAY in *.
Lemma in_i32b_iff z : in_i32b z = true <-> in_i32 z.
Proof. unfold in_i32b, in_i32. lia. Qed.

(* ------------------------------------------------------------------ leap predicates *)
Lemma is_julian_leap_year_ok y : inner_is_julian_leap_year y = Ret (jleap y).
Proof.
  unfold inner_is_julian_leap_year, jleap. consts. rewrite i32_rem_pos by lia. cbn [bind].
  f_equal. lia.
Qed.
Lemma is_gregorian_leap_year_ok y : inner_is_gregorian_leap_year y = Ret (gleap y).
Proof.
  unfold inner_is_gregorian_leap_year, gleap. consts.
  repeat (first [rewrite i32_rem_pos by lia | progress cbn [bind negb]
      | match goal with |- context[if ?c then _ else _] => destruct c eqn:? end]); f_equal; lia.
Qed.

(* ------------------------------------------------------------------ day number -> (year, ordinal) *)
Definition JC0 (y : Z) : Z := 365 * y + (y + 3) / 4.

Lemma decompose_julian_ok days : in_i32 days ->
  exists y o, inner_decompose_julian days = Ret (y, o) /\ JC0 y <= days < JC0 (y + 1) /\ o = days - JC0 y + 1.
Proof.
  intros H. unfold inner_decompose_julian. consts. msteps. cbv zeta.
  destruct (Z.ltb_spec 365 (days mod 1461)); msteps;
    (eexists _, _; split; [reflexivity|]; unfold JC0; lia).
Qed.

Lemma jdn2julian_ok j : in_i32 j -> inner_jdn2julian j = Ret (jyear j, j - J0 (jyear j) + 1).
Proof.
  intros H. unfold inner_jdn2julian. destruct (decompose_julian_ok j H) as (y & o & E & B & O). rewrite E. cbn [bind].
  assert (-5879490 <= y <= 5879489) by (unfold JC0 in *; range).
  consts. rewrite i32_add_ok by range. cbn [bind].
  assert (jyear j = y + -4712) as ->. { apply jyear_unique. unfold J0, JC0 in *. lia. }
  f_equal. f_equal. unfold J0, JC0 in *. lia.
Qed.

Lemma jdn2gregorian_ok j : in_i32 j -> inner_jdn2gregorian j = Ret (gyear j, j - G0 (gyear j) + 1).
Proof.
  intros H. unfold inner_jdn2gregorian. consts.
  destruct (Z.ltb_spec j 0) as [Neg|Pos]; cbv zeta iota beta.
  - (* offset -32104, year_offset -4800 *)
    rewrite i32_sub_ok by range. cbn [bind]. msteps.
    set (jd := j - -32104) in *. set (qp := jd mod 146097) in *.
    unfold i32_checked_sub. rewrite chko_ok by range.
    rewrite i32_div_pos by range. cbn [bind]. rewrite i32_add_ok by range. cbn [bind].
    destruct (decompose_julian_ok (qp + Z.quot (qp - 366) 36524) ltac:(range)) as (y & o & E & B & O). rewrite E. cbn [bind].
    assert (0 <= y <= 399) by (unfold JC0 in *; lia).
    msteps.
    assert (G : gyear j = jd / 146097 * 400 + y + -4800).
    { apply gyear_unique. unfold G0, JC0 in *. subst jd qp. lia. }
    rewrite G. f_equal. f_equal. unfold G0, JC0 in *. subst jd qp. lia.
  - rewrite i32_sub_ok by range. cbn [bind]. msteps.
    set (jd := j - 113993) in *. set (qp := jd mod 146097) in *.
    unfold i32_checked_sub. rewrite chko_ok by range.
    rewrite i32_div_pos by range. cbn [bind]. rewrite i32_add_ok by range. cbn [bind].
    destruct (decompose_julian_ok (qp + Z.quot (qp - 366) 36524) ltac:(range)) as (y & o & E & B & O). rewrite E. cbn [bind].
    assert (0 <= y <= 399) by (unfold JC0 in *; lia).
    msteps.
    assert (G : gyear j = jd / 146097 * 400 + y + -4400).
    { apply gyear_unique. unfold G0, JC0 in *. subst jd qp. lia. }
    rewrite G. f_equal. f_equal. unfold G0, JC0 in *. subst jd qp. lia.
Qed.

(* ------------------------------------------------------------------ (year, ordinal) -> day number *)

Lemma julian2jdn_ok y o : in_i32 y -> 1 <= o <= 366 ->
  inner_julian2jdn y o = Ret (chk_jdn (J0 y + o - 1)).
Proof.
  intros Hy Ho. unfold inner_julian2jdn, chk_jdn. autounfold with gen_new. unfold inner_compose_julian. autounfold with gen_new. consts.
  unfold i32_checked_sub.
  (* the documented range of the proleptic Julian calendar is exactly where the day number fits 32 bits *)
  assert (JD : in_i32b (J0 y + o - 1) =
               negb ((y + 4712 <? -5879490) || (y + 4712 =? -5879490) && (o <? 75) || (y + 4712 =? 5879489) && (290 <? o) || (5879489 <? y + 4712))).
  { unfold in_i32b, J0. destruct ((y + 4712 <? -5879490) || (y + 4712 =? -5879490) && (o <? 75) || (y + 4712 =? 5879489) && (290 <? o) || (5879489 <? y + 4712)) eqn:G; cbn [negb]; range. }
  destruct (in_i32b (J0 y + o - 1)) eqn:Fit.
  - assert (YR : -5879490 <= y + 4712 <= 5879489) by lia.
    rewrite chko_ok by range. cbn [bind negb andb orb].
    unfold in_i32b, J0 in Fit.
    repeat first [ mstep1 | progress cmp_simpl | progress cbn [bind negb andb orb]
                 | match goal with |- context[if ?c then _ else _] => destruct c eqn:? end ];
      first [ f_equal; f_equal; unfold J0; lia | exfalso; lia ].
  - destruct (Z_le_gt_dec (y - -4712) i32_max) as [In|Over].
    + rewrite chko_ok by range.
      repeat first [ progress cbn [bind negb andb orb] | progress cmp_simpl
                   | match goal with |- context[if ?c then _ else _] => destruct c eqn:? end ];
        first [ reflexivity | exfalso; lia ].
    + rewrite chko_none by range. reflexivity.
Qed.

Lemma gregorian2jdn_ok y o : in_i32 y -> 1 <= o <= 366 ->
  inner_gregorian2jdn y o = Ret (chk_jdn (G0 y + o - 1)).
Proof.
  intros Hy Ho. unfold inner_gregorian2jdn, chk_jdn. consts.
  (* the documented range of the proleptic Gregorian calendar is exactly where the day number fits 32 bits *)
  assert (GD : in_i32b (G0 y + o - 1) = negb ((y <? -5884323) || (y =? -5884323) && (o <? 135) || (y =? 5874898) && (154 <? o) || (5874898 <? y))).
  { unfold in_i32b, G0. destruct ((y <? -5884323) || (y =? -5884323) && (o <? 135) || (y =? 5874898) && (154 <? o) || (5874898 <? y)) eqn:G; cbn [negb]; range. }
  destruct (in_i32b (G0 y + o - 1)) eqn:Fit.
  - (* in range: no operation overflows, whatever the order in which the code performs them *)
    assert (YR : -5884323 <= y <= 5874898) by lia.
    autounfold with gen_new. cbn [bind negb andb orb]. cmp_simpl. cbn [bind negb andb orb].
    unfold in_i32b, G0 in Fit.
    repeat first [ mstep1 | progress cmp_simpl | progress cbn [bind negb andb orb]
                 | match goal with |- context[if ?c then _ else _] => destruct c eqn:? end ];
      first [ f_equal; f_equal; unfold G0; lia | exfalso; lia ].
  - autounfold with gen_new.
    repeat first [ progress cbn [bind negb andb orb] | progress cmp_simpl
                 | match goal with |- context[if ?c then _ else _] => destruct c eqn:? end ];
      first [ reflexivity | exfalso; lia ].
Qed.

(* ------------------------------------------------------------------ Unix time, weekdays *)
Lemma unix2jdn_ok t : in_i64 t ->
  unix2jdn t = Ret (if in_i32b (t / 86400 + 2440588) then Ok (t / 86400 + 2440588, t mod 86400) else Err mkArithmeticError).
Proof.
  intros H. unfold unix2jdn, in_i32b. consts. unfold i32_min, i32_max.
  repeat first [ mstep1 | rewrite i64_rem_euclid_pos by lia | progress cbn [bind negb andb orb]
               | match goal with |- context[if ?c then _ else _] => destruct c eqn:? end ];
    first [ reflexivity | exfalso; lia | leaf_eq ].
Qed.

Lemma jdn2unix_ok j : in_i32 j -> jdn2unix j = Ret ((j - 2440588) * 86400).
Proof.
  intros H. unfold jdn2unix. consts. rewrite !to_i64_id by range.
  rewrite i64_sub_ok by range. cbn [bind]. rewrite i64_mul_ok by range. reflexivity.
Qed.

Definition weekday_of_number (n : Z) : Weekday :=
  if n =? 1 then Weekday_Monday else if n =? 2 then Weekday_Tuesday else if n =? 3 then Weekday_Wednesday
  else if n =? 4 then Weekday_Thursday else if n =? 5 then Weekday_Friday else if n =? 6 then Weekday_Saturday
  else Weekday_Sunday.
Lemma for_jdn_ok j : in_i32 j -> Weekday_for_jdn j = Ret (weekday_of_number (j mod 7 + 1)).
Proof.
  intros H. unfold Weekday_for_jdn. rewrite i32_rem_euclid_pos by lia. cbn [bind].
  rewrite i32_add_ok by range. cbn [bind].
  assert (R : 1 <= j mod 7 + 1 <= 7) by lia.
  set (n := j mod 7 + 1) in *.
  assert (C : n = 1 \/ n = 2 \/ n = 3 \/ n = 4 \/ n = 5 \/ n = 6 \/ n = 7) by lia.
  destruct C as [->|[->|[->|[->|[->|[->| ->]]]]]]; reflexivity.
Qed.
Lemma weekday_number_of n : 1 <= n <= 7 -> Weekday_discr (weekday_of_number n) = n.
Proof.
  intros R. assert (C : n = 1 \/ n = 2 \/ n = 3 \/ n = 4 \/ n = 5 \/ n = 6 \/ n = 7) by lia.
  destruct C as [->|[->|[->|[->|[->|[->| ->]]]]]]; reflexivity.
Qed.
