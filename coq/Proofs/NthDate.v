(* NthDate.v — MonthShape::nth_date for every month shape the API returns (no iterator involved): the k-th existing day
   of the month as a Date, or None when its day number is not a 32-bit number. *)
From JV Require Import Sem Gen Spec SpecX.
From JV.Proofs Require Import SpecFacts Inner Cal Shape MonthSpec Month SpecSums SpecOrd SpecInv SpecSets SpecStep AtYmd AtJdn SuccPred.
Import List ListNotations.
Open Scope Z_scope.
Ltac Zify.zify_post_hook ::= Z.to_euclidean_division_equations.

(* the date of day j in calendar c when j is a 32-bit day number, nothing otherwise *)
Definition day_or_none (c : cal) (j : Z) : option Date := if in_i32b j then Some (date_of c j) else None.
Lemma in_i32b_true j : in_i32 j -> in_i32b j = true.
Proof. intros H. apply in_i32b_iff. exact H. Qed.
Lemma in_i32b_false j : ~ in_i32 j -> in_i32b j = false.
Proof. intros H. destruct (in_i32b j) eqn:E; [|reflexivity]. apply in_i32b_iff in E. contradiction. Qed.

(* day number of the date with ordinal o of year y (closed form of jdn_of_ordinal) *)
Lemma jdn_of_ordinal_closed c y o : ValidCal c -> 1 <= o <= year_count c y -> jdn_of_ordinal c y o = ylo c y + o - 1.
Proof.
  intros V H. destruct (ordinal_inv c y o V H) as [LY OO]. set (j := jdn_of_ordinal c y o) in *.
  destruct (ordinal_closed c j V) as [_ O]. rewrite LY in O. lia.
Qed.

Section MonthBase.
  Context (c : cal) (V : ValidCal c) (y : Z) (Hy : in_i32 y) (m : Month).
  Let mz := Month_discr m.
  Let sp := shape_of c y mz.
  Let n := month_count c y mz.
  Hypothesis Ex : 0 < n.
  Let ms := mkMonthShape (cal_of c) y m sp.
  (* day number of the first date of the month *)
  Definition month_base : Z := ylo c y + msum c y mz.

  Let Mr : 1 <= mz <= 12 := Month_discr_range m.
  Let W : WfShape sp := shape_of_wf c y mz V Mr Ex.
  Let Ln : sh_len sp = n := shape_of_len c y mz V Mr Ex.

  Lemma n_small : 1 <= n <= 31.
  Proof. pose proof (sh_len_pos sp W). lia. Qed.

  Lemma month_shape_is : Calendar_month_shape (cal_of c) y m = Ret (Some ms).
  Proof.
    rewrite month_shape_ok by assumption. unfold month_shape_spec. fold mz. fold n.
    destruct (Z.eqb_spec n 0); [lia|reflexivity].
  Qed.

  Lemma nth_day_closed k : in_u32 k ->
    MonthShape_nth_day ms k = Ret (if (1 <=? k) && (k <=? n) then Some (sh_nth sp k) else None).
  Proof. intros K. unfold ms. rewrite nth_day_ok by assumption. rewrite Ln. reflexivity. Qed.

  Lemma nth_date_closed k : in_u32 k ->
    MonthShape_nth_date ms k = Ret (if (1 <=? k) && (k <=? n) then day_or_none c (month_base + k - 1) else None).
  Proof.
    intros K. unfold MonthShape_nth_date. rewrite nth_day_closed by assumption. cbn [bind].
    destruct ((1 <=? k) && (k <=? n)) eqn:In; [|reflexivity].
    assert (KR : 1 <= k <= n) by lia.
    unfold ms. cbn [MonthShape_f_calendar MonthShape_f_year MonthShape_f_month].
    pose proof (sh_nth_in sp k W ltac:(lia)) as X.
    assert (Dr : in_u32 (sh_nth sp k)).
    { pose proof (sh_in_natural _ _ W X). pose proof (shape_of_natural c y mz). destruct (month_facts c y mz V Mr). fold sp in H0. range. }
    rewrite at_ymd_ok by assumption. cbn [bind]. unfold at_ymd_spec. fold mz. fold n. fold sp.
    destruct (Z.eqb_spec n 0); [lia|].
    unfold sh_day_err. rewrite X. rewrite sh_ord_nth by (try assumption; lia).
    pose proof (msum_succ c y mz Mr) as S.
    assert (OR : 1 <= msum c y mz + k <= year_count c y).
    { rewrite <- msum_total. pose proof (msum_le c y 1 mz ltac:(lia) ltac:(lia) ltac:(lia)). rewrite msum_1 in *.
      pose proof (msum_le c y (mz + 1) 13 ltac:(lia) ltac:(lia) ltac:(lia)). fold n in S. lia. }
    rewrite jdn_of_ordinal_closed by assumption.
    unfold date_result, chk_jdn, day_or_none, month_base.
    replace (ylo c y + (msum c y mz + k) - 1) with (ylo c y + msum c y mz + k - 1) by lia.
    destruct (in_i32b (ylo c y + msum c y mz + k - 1)); reflexivity.
  Qed.

End MonthBase.

(* ------------------------------------------------------------------ the statements for any month shape the API returns *)
Lemma month_shape_some c y m s : ValidCal c -> in_i32 y -> Calendar_month_shape (cal_of c) y m = Ret (Some s) ->
  0 < month_count c y (Month_discr m) /\ s = mkMonthShape (cal_of c) y m (shape_of c y (Month_discr m)).
Proof.
  intros V Hy E. rewrite month_shape_ok in E by assumption. unfold month_shape_spec in E.
  pose proof (month_count_range c y (Month_discr m)).
  destruct (Z.eqb_spec (month_count c y (Month_discr m)) 0); [discriminate|]. inversion E. split; [lia|reflexivity].
Qed.

(* nth_date of any month shape the API returns: the date of day (month_base + k - 1), whose label is the k-th
   existing day of that month, when that day number is a 32-bit number; None otherwise and outside 1..len *)
Theorem nth_date_all c y m s k : ValidCal c -> in_i32 y -> in_u32 k -> Calendar_month_shape (cal_of c) y m = Ret (Some s) ->
  MonthShape_nth_date s k =
    Ret (if (1 <=? k) && (k <=? month_count c y (Month_discr m)) then day_or_none c (month_base c y m + k - 1) else None) /\
  (1 <= k <= month_count c y (Month_discr m) ->
     lbl c (month_base c y m + k - 1) = (y, Month_discr m, sh_nth (shape_of c y (Month_discr m)) k)).
Proof.
  intros V Hy Hk E. destruct (month_shape_some c y m s V Hy E) as [Ex ->]. split; [apply nth_date_closed; assumption|].
  intros KR. pose proof (Month_discr_range m) as Mr. set (mz := Month_discr m) in *.
  pose proof (shape_of_wf c y mz V Mr Ex) as W. pose proof (shape_of_len c y mz V Mr Ex) as Ln.
  pose proof (sh_nth_in _ k W ltac:(lia)) as In.
  destruct (ymd_inv c y mz (sh_nth (shape_of c y mz) k) k (jdn_of_ordinal c y (msum c y mz + k)) V Mr Ex In) as (EL & _); [symmetry; apply sh_ord_nth; [exact W|lia]|reflexivity|].
  rewrite jdn_of_ordinal_closed in EL; [|exact V|].
  - unfold month_base. fold mz. replace (ylo c y + msum c y mz + k - 1) with (ylo c y + (msum c y mz + k) - 1) by lia. exact EL.
  - pose proof (msum_succ c y mz Mr) as S. rewrite <- msum_total.
    pose proof (msum_le c y 1 mz ltac:(lia) ltac:(lia) ltac:(lia)). rewrite msum_1 in *.
    pose proof (msum_le c y (mz + 1) 13 ltac:(lia) ltac:(lia) ltac:(lia)). lia.
Qed.

