(* Glue_C12_core.v — proofs of the statements of Properties/C12_core.v that need a few steps beyond a library lemma
   (rephrasing only: no induction, no case analysis of the model).  The scripts were moved out of the property file so
   that it contains nothing but statements closed by [exact]. *)
From JV Require Import Sem Gen Spec SpecX.
From JV.Proofs Require Import SpecFacts Cal Core Reform Boundary.
Open Scope Z_scope.

Lemma C12_spec_meaning_lemma : forall r,
  (r < 1830692 -> reforming_spec r = Err ReformingError_InvalidReformation) /\
  (2147439588 < r -> reforming_spec r = Err ReformingError_Arithmetic) /\
  (ValidR r -> reforming_spec r = Ok (cal_of (CR r))).
Proof.
  intros r. unfold reforming_spec, ValidR. repeat split; intros H.
  - replace (r <? 1830692) with true by lia. reflexivity.
  - replace (r <? 1830692) with false by lia. replace (2147439588 <? r) with true by lia. reflexivity.
  - replace (r <? 1830692) with false by lia. replace (2147439588 <? r) with false by lia. reflexivity.
Qed.

Lemma C12_reform1582_literal_lemma : Calendar_reforming REFORM1582_JDN = Ret (Ok Calendar_REFORM1582) /\ Calendar_REFORM1582 = cal_of (CR 2299161).
Proof. split; vm_compute; reflexivity. Qed.

Lemma C12_ncal_valid_lemma :
  Forall ValidR [ncal_ALBANIA; ncal_AUSTRIA; ncal_AUSTRALIA; ncal_BELGIUM; ncal_BULGARIA; ncal_CANADA; ncal_SWITZERLAND; ncal_CHINA;
    ncal_CZECH_REPUBLIC; ncal_GERMANY; ncal_DENMARK; ncal_SPAIN; ncal_FINLAND; ncal_FRANCE; ncal_UNITED_KINGDOM; ncal_GREECE;
    ncal_HUNGARY; ncal_ICELAND; ncal_ITALY; ncal_JAPAN; ncal_LITHUANIA; ncal_LUXEMBOURG; ncal_LATVIA; ncal_NETHERLANDS; ncal_NORWAY;
    ncal_POLAND; ncal_PORTUGAL; ncal_ROMANIA; ncal_RUSSIA; ncal_SLOVENIA; ncal_SWEDEN; ncal_TURKEY; ncal_UNITED_STATES; ncal_YUGOSLAVIA].
Proof. repeat constructor; cbv; discriminate. Qed.

