(* Canon2.v — the canonical-date invariant (Canon.v) for the producers and steps that live in hand models: system
   time, the chrono / time conversions, and the items of every iterator; and the history theorem over the enlarged
   operation set. *)
From JV Require Import Sem Gen Spec SpecX.
From JV.Hand Require Import Names Text Order Iter Sys Interop.
From JV.Proofs Require Import SpecFacts Inner Cal Core Canon AtJdn SuccPred Boundary SysProofs InteropProofs IterProofs IterCore.
Import List ListNotations.
Open Scope Z_scope.
Ltac Zify.zify_post_hook ::= Z.to_euclidean_division_equations.

(* ------------------------------------------------------------------ system time *)
Lemma canonical_at_system_time c before secs nanos : ValidCal c -> 0 <= secs -> 0 <= nanos < nanos_per_sec ->
  exists r, at_system_time_model (cal_of c) before secs nanos = Ret r /\ (forall x s, r = Ok (x, s) -> Canonical x).
Proof.
  intros V Hs Hn. destruct (Z.le_gt_cases secs i64_max) as [Fit|Over].
  - rewrite at_system_time_unix by (try assumption; lia). apply canonical_at_unix_time; [exact V|].
    unfold sys_floor, in_i64, i64_min, i64_max in *. destruct before; [destruct (nanos >? 0)|]; lia.
  - destruct (system_floor before secs nanos Hs Hn) as (_ & O & _). rewrite at_system_time_spec, (O Over). cbn [bind].
    eexists. split; [reflexivity|]. intros x s X. discriminate.
Qed.

(* ------------------------------------------------------------------ chrono / time *)
Lemma canonical_from_foreign ymin ymax f : RangeOk ymin ymax -> f_valid ymin ymax f = true ->
  exists d, from_foreign f = Ret d /\ Canonical d /\ Date_f_calendar d = cal_of CG.
Proof.
  intros R Vf. pose proof (from_foreign_ok ymin ymax f R Vf) as F. destruct f as [[y m] d]. destruct F as [F _].
  destruct (foreign_jdn_fits _ _ _ _ _ R Vf) as (Fit & _).
  exists (date_of CG (jdn_g y m d)). split; [exact F|]. split; [exists CG, (jdn_g y m d); split; [exact I|split; [exact Fit|reflexivity]]|].
  destruct (date_of_fields CG (jdn_g y m d)) as (Fc & _). exact Fc.
Qed.

(* a date of ANY calendar sent through the foreign type and back: absent when out of the foreign range, otherwise
   the Gregorian-calendar date of the SAME day *)
Lemma canonical_via_foreign ymin ymax u8 d : RangeOk ymin ymax -> Canonical d ->
  exists r, via_foreign ymin ymax u8 d = Ret r /\
    (forall x, r = Some x -> Canonical x /\ Date_f_jdn x = Date_f_jdn d /\ Date_f_calendar x = cal_of CG).
Proof.
  intros R (c & j & V & H & ->). unfold via_foreign. rewrite to_foreign_ok by assumption. cbn [bind].
  pose proof (glabel_valid j) as GV. destruct (glabel j) as [[y m] dd] eqn:GL. destruct GV as [VL EJ].
  unfold f_mk. destruct (f_valid ymin ymax (y, m, dd)) eqn:Vf.
  - pose proof (from_foreign_ok ymin ymax (y, m, dd) R Vf) as [F _]. rewrite F. cbn [bind]. rewrite EJ.
    eexists. split; [reflexivity|]. intros x X. inversion X; subst x.
    destruct (date_of_fields CG j) as (Fc & _ & _ & Fj & _). destruct (date_of_fields c j) as (_ & _ & _ & Fj' & _).
    split; [exists CG, j; split; [exact I|split; [exact H|reflexivity]]|]. split; [congruence|exact Fc].
  - eexists. split; [reflexivity|]. intros x X. discriminate.
Qed.

(* ------------------------------------------------------------------ iterator items *)
Lemma canonical_day_or_none c j x : ValidCal c -> day_or_none c j = Some x -> Canonical x /\ Date_f_jdn x = j /\ Date_f_calendar x = cal_of c.
Proof.
  intros V. unfold day_or_none. destruct (in_i32b j) eqn:E; [|discriminate]. intros X. inversion X.
  apply in_i32b_iff in E. destruct (date_of_fields c j) as (Fc & _ & _ & Fj & _).
  split; [exists c, j; auto|]. split; assumption.
Qed.

Lemma canonical_dates_list c y m : ValidCal c -> 0 < month_count c y (Month_discr m) ->
  Forall (fun x => Canonical x /\ Date_f_calendar x = cal_of c) (dates_list c y m).
Proof.
  intros V Ex. apply Forall_forall. intros x In. apply (dates_list_meaning c y m V Ex) in In.
  destruct In as (k & _ & I & ->). destruct (date_of_fields c (month_base c y m + k - 1)) as (Fc & _).
  split; [exists c, (month_base c y m + k - 1); auto|exact Fc].
Qed.

(* ------------------------------------------------------------------ histories over the enlarged operation set *)
Inductive xop : Type :=
| XBase (o : hop)                  (* succ, pred, convert_to, nth_date, rebuild from fields, print + re-parse *)
| XChrono | XTime                  (* into chrono::NaiveDate / time::Date and back *)
| XLater (n : nat) | XAndLater (n : nat) | XEarlier (n : nat) | XAndEarlier (n : nat). (* n-th item (from 0) of the open-ended iterator started at the date *)

Definition nth_item (n : nat) (m : M (list (option Date))) : M (option Date) := l <- m;; Ret (nth n l None).
Definition xstep (d : Date) (o : xop) : M (option Date) :=
  match o with
  | XBase o => hstep d o
  | XChrono => via_foreign chrono_ymin chrono_ymax false d
  | XTime => via_foreign time_ymin time_ymax true d
  | XLater n => nth_item n (later_take (S n) d)
  | XAndLater n => nth_item n (and_later_take (S n) d)
  | XEarlier n => nth_item n (earlier_take (S n) d)
  | XAndEarlier n => nth_item n (and_earlier_take (S n) d)
  end.
Fixpoint xrun (d : Date) (ops : list xop) : M Date :=
  match ops with
  | [] => Ret d
  | o :: rest => r <- xstep d o;; xrun (match r with Some x => x | None => d end) rest
  end.
Definition xop_ok (o : xop) : Prop := match o with XBase o => hop_ok o | _ => True end.

Lemma nth_map_seq {A} (f : nat -> option A) n : nth n (map f (seq 0 (S n))) None = f n.
Proof.
  rewrite (nth_indep _ None (f 0%nat)) by (rewrite map_length, seq_length; lia).
  rewrite map_nth, seq_nth by lia. reflexivity.
Qed.

Lemma xstep_canonical d o : Canonical d -> xop_ok o -> exists r, xstep d o = Ret r /\ (forall x, r = Some x -> Canonical x).
Proof.
  intros C Ho. destruct o as [o| | |n|n|n|n]; cbn [xstep xop_ok] in *.
  - apply hstep_canonical; assumption.
  - destruct (canonical_via_foreign chrono_ymin chrono_ymax false d chrono_range C) as (r & E & Cr). exists r. split; [exact E|]. intros x X. apply (Cr x X).
  - destruct (canonical_via_foreign time_ymin time_ymax true d time_range C) as (r & E & Cr). exists r. split; [exact E|]. intros x X. apply (Cr x X).
  - destruct C as (c & j & V & H & ->). unfold nth_item. rewrite (later_closed c V j (S n) H). cbn [bind]. rewrite nth_map_seq.
    eexists. split; [reflexivity|]. intros x X. apply (canonical_day_or_none c _ x V X).
  - destruct C as (c & j & V & H & ->). unfold nth_item. rewrite (and_later_closed c V j (S n) H). cbn [bind]. rewrite nth_map_seq.
    eexists. split; [reflexivity|]. intros x X. apply (canonical_day_or_none c _ x V X).
  - destruct C as (c & j & V & H & ->). unfold nth_item. rewrite (earlier_closed c V j (S n) H). cbn [bind]. rewrite nth_map_seq.
    eexists. split; [reflexivity|]. intros x X. apply (canonical_day_or_none c _ x V X).
  - destruct C as (c & j & V & H & ->). unfold nth_item. rewrite (and_earlier_closed c V j (S n) H). cbn [bind]. rewrite nth_map_seq.
    eexists. split; [reflexivity|]. intros x X. apply (canonical_day_or_none c _ x V X).
Qed.

Theorem xhistories_canonical ops : forall d, Canonical d -> Forall xop_ok ops -> exists d', xrun d ops = Ret d' /\ Canonical d'.
Proof.
  induction ops as [|o rest IH]; intros d C F; cbn [xrun].
  - exists d. auto.
  - inversion F; subst. destruct (xstep_canonical d o C H1) as (r & E & Cr). rewrite E. cbn [bind].
    apply IH; [|assumption]. destruct r as [x|]; [apply Cr; reflexivity|exact C].
Qed.
