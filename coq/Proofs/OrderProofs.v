(* OrderProofs.v — proofs about Hand/Order.v: the comparison of calendars and of dates are total orders
   (through an order-embedding key), equality is "cmp = Eq", equal values have equal hash streams,
   Julian < Reforming (ascending reformation) < Gregorian, and the Eq / Ord coherence of Date. *)
From JV Require Import Sem Gen.
From JV.Hand Require Import Order.
Import List ListNotations.
Open Scope Z_scope.

(* ------------------------------------------------------------------ laws of a three-way comparison *)
(* reflexive; antisymmetric (swapping the arguments flips the answer); transitive; Eq is a congruence.
   Totality is built into the type [comparison] together with antisymmetry (see [cmp_total]). *)
Definition cmp_laws {A} (cmp : A -> A -> comparison) : Prop :=
  (forall a, cmp a a = Eq) /\
  (forall a b, cmp b a = CompOpp (cmp a b)) /\
  (forall a b c, cmp a b = Lt -> cmp b c = Lt -> cmp a c = Lt) /\
  (forall a b c, cmp a b = Eq -> cmp a c = cmp b c).

Lemma cmp_total {A} (cmp : A -> A -> comparison) : cmp_laws cmp ->
  forall a b, cmp a b = Lt \/ cmp a b = Eq \/ cmp b a = Lt.
Proof. intros (_ & An & _ & _) a b. rewrite (An a b). destruct (cmp a b); cbn; auto. Qed.

Lemma cmp_eq_sym {A} (cmp : A -> A -> comparison) : cmp_laws cmp -> forall a b, cmp a b = Eq -> cmp b a = Eq.
Proof. intros (_ & An & _ & _) a b H. now rewrite (An a b), H. Qed.

Lemma cmp_eq_trans {A} (cmp : A -> A -> comparison) : cmp_laws cmp ->
  forall a b c, cmp a b = Eq -> cmp b c = Eq -> cmp a c = Eq.
Proof. intros (_ & _ & _ & Cg) a b c H1 H2. now rewrite (Cg a b c H1). Qed.

Lemma cmp_gt_lt {A} (cmp : A -> A -> comparison) : cmp_laws cmp -> forall a b, cmp a b = Gt <-> cmp b a = Lt.
Proof. intros (_ & An & _ & _) a b. rewrite (An a b). destruct (cmp a b); cbn; split; congruence. Qed.

Lemma Zcompare_laws : cmp_laws Z.compare.
Proof.
  repeat split.
  - apply Z.compare_refl.
  - intros a b. now rewrite (Z.compare_antisym a b).
  - intros a b c. rewrite !Z.compare_lt_iff. lia.
  - intros a b c H. apply Z.compare_eq in H. now subst.
Qed.

Definition lex_cmp {A B} (cA : A -> A -> comparison) (cB : B -> B -> comparison) (x y : A * B) : comparison :=
  match cA (fst x) (fst y) with Eq => cB (snd x) (snd y) | c => c end.

Lemma lex_laws {A B} (cA : A -> A -> comparison) (cB : B -> B -> comparison) :
  cmp_laws cA -> cmp_laws cB -> cmp_laws (lex_cmp cA cB).
Proof.
  intros LA LB. pose proof LA as (RA & AA & TA & CA). pose proof LB as (RB & AB & TB & CB).
  unfold lex_cmp. repeat split.
  - intros [a b]. cbn [fst snd]. now rewrite RA, RB.
  - intros [a b] [a' b']. cbn [fst snd]. rewrite (AA a a'). destruct (cA a a'); cbn [CompOpp]; auto.
  - intros [a b] [a' b'] [a'' b'']. cbn [fst snd].
    destruct (cA a a') eqn:E1; try discriminate.
    + rewrite (CA _ _ a'' E1). destruct (cA a' a''); try discriminate; auto. apply TB.
    + destruct (cA a' a'') eqn:E2; try discriminate.
      * intros _ _. (* a < a' = a'' *)
        assert (E3 : cA a'' a' = Eq) by (now apply cmp_eq_sym).
        rewrite (AA a'' a), (CA _ _ a E3), <- (AA a' a), E1. reflexivity.
      * intros _ _. now rewrite (TA _ _ _ E1 E2).
  - intros [a b] [a' b'] [a'' b'']. cbn [fst snd].
    destruct (cA a a') eqn:E1; try discriminate.
    intros E2. rewrite (CA _ _ a'' E1). destruct (cA a' a''); auto.
Qed.

Lemma embed_laws {A B} (cmpA : A -> A -> comparison) (cB : B -> B -> comparison) (key : A -> B) :
  cmp_laws cB -> (forall a b, cmpA a b = cB (key a) (key b)) -> cmp_laws cmpA.
Proof.
  intros (R & An & T & C) H. repeat split; intros; rewrite ?H in *; eauto.
Qed.

(* ------------------------------------------------------------------ C11: calendars *)
(* order-embedding key *)
Definition inner_cal_key (c : inner_Calendar) : Z * Z :=
  match c with
  | inner_Calendar_Julian => (0, 0)
  | inner_Calendar_Reforming r _ => (1, r)
  | inner_Calendar_Gregorian => (2, 0)
  end.
Definition cal_key (c : Calendar) : Z * Z := inner_cal_key (Calendar_f_0 c).
Definition key_cmp : Z * Z -> Z * Z -> comparison := lex_cmp Z.compare Z.compare.

Lemma cal_cmp_key a b : cal_cmp a b = key_cmp (cal_key a) (cal_key b).
Proof. destruct a as [[| |r g]], b as [[| |r' g']]; reflexivity. Qed.

Theorem cal_cmp_laws : cmp_laws cal_cmp.
Proof. apply (embed_laws cal_cmp key_cmp cal_key); [apply lex_laws; apply Zcompare_laws | apply cal_cmp_key]. Qed.

Lemma cal_eq_iff_cmp a b : cal_eq a b = true <-> cal_cmp a b = Eq.
Proof. unfold cal_eq, inner_cal_eq, cal_cmp, cmp_is_eq. destruct (inner_cal_cmp _ _); split; congruence. Qed.

Lemma key_cmp_eq k k' : key_cmp k k' = Eq <-> k = k'.
Proof.
  destruct k as [a b], k' as [a' b']. unfold key_cmp, lex_cmp. cbn [fst snd]. split.
  - destruct (a ?= a') eqn:E; try discriminate. intros E'. apply Z.compare_eq in E, E'. now subst.
  - intros H. inversion H. now rewrite !Z.compare_refl.
Qed.

Lemma cal_cmp_eq_key a b : cal_cmp a b = Eq <-> cal_key a = cal_key b.
Proof. rewrite cal_cmp_key. apply key_cmp_eq. Qed.

Lemma cal_partial_cmp_some a b : cal_partial_cmp a b = Some (cal_cmp a b).
Proof. reflexivity. Qed.

Lemma cal_hash_key a b : cal_key a = cal_key b -> cal_hash a = cal_hash b.
Proof. destruct a as [[| |r g]], b as [[| |r' g']]; cbn; intros H; inversion H; reflexivity. Qed.

Theorem cal_eq_hash a b : cal_eq a b = true -> cal_hash a = cal_hash b.
Proof. intros H. apply cal_hash_key, cal_cmp_eq_key, cal_eq_iff_cmp, H. Qed.

(* the hash stream is even injective up to cal_eq *)
Lemma cal_hash_inj a b : cal_hash a = cal_hash b -> cal_eq a b = true.
Proof.
  intros H. apply cal_eq_iff_cmp, cal_cmp_eq_key.
  destruct a as [[| |r g]], b as [[| |r' g']]; cbn in *; inversion H; reflexivity.
Qed.

(* the documented order: Julian < every reforming calendar (ascending reformation) < Gregorian *)
Theorem cal_order_doc :
  (forall r g, cal_cmp Calendar_JULIAN (mkCalendar (inner_Calendar_Reforming r g)) = Lt) /\
  (forall r g, cal_cmp (mkCalendar (inner_Calendar_Reforming r g)) Calendar_GREGORIAN = Lt) /\
  cal_cmp Calendar_JULIAN Calendar_GREGORIAN = Lt /\
  (forall r g r' g', cal_cmp (mkCalendar (inner_Calendar_Reforming r g)) (mkCalendar (inner_Calendar_Reforming r' g'))
                     = (r ?= r')).
Proof. repeat split. Qed.

(* cal_eq ignores the gap record: calendars with the same reformation are equal whatever their gaps *)
Lemma cal_eq_ignores_gap r g g' :
  cal_eq (mkCalendar (inner_Calendar_Reforming r g)) (mkCalendar (inner_Calendar_Reforming r g')) = true.
Proof. unfold cal_eq, inner_cal_eq. cbn. now rewrite Z.compare_refl. Qed.

(* calendars that are cal_eq and carry the same gap are identical *)
Definition cal_gap (c : Calendar) : option inner_ReformGap :=
  match Calendar_f_0 c with inner_Calendar_Reforming _ g => Some g | _ => None end.
Lemma cal_eq_same_gap a b : cal_eq a b = true -> cal_gap a = cal_gap b -> a = b.
Proof.
  intros H G. apply cal_eq_iff_cmp, cal_cmp_eq_key in H.
  destruct a as [[| |r g]], b as [[| |r' g']]; cbn in *; inversion H; inversion G; reflexivity.
Qed.

(* ------------------------------------------------------------------ C11: dates *)
Definition date_key (d : Date) : Z * (Z * Z) := (Date_f_jdn d, cal_key (Date_f_calendar d)).

Lemma date_cmp_key a b : date_cmp a b = lex_cmp Z.compare key_cmp (date_key a) (date_key b).
Proof. unfold date_cmp, lex_cmp, date_key. cbn [fst snd]. rewrite cal_cmp_key. reflexivity. Qed.

Theorem date_cmp_laws : cmp_laws date_cmp.
Proof.
  apply (embed_laws date_cmp (lex_cmp Z.compare key_cmp) date_key); [|apply date_cmp_key].
  apply lex_laws; [apply Zcompare_laws | apply lex_laws; apply Zcompare_laws].
Qed.

Theorem date_cmp_eq_iff a b :
  date_cmp a b = Eq <-> Date_f_jdn a = Date_f_jdn b /\ cal_eq (Date_f_calendar a) (Date_f_calendar b) = true.
Proof.
  unfold date_cmp. rewrite cal_eq_iff_cmp. split.
  - destruct (Date_f_jdn a ?= Date_f_jdn b) eqn:E; try discriminate. apply Z.compare_eq in E. auto.
  - intros [-> H]. now rewrite Z.compare_refl.
Qed.

Lemma date_partial_cmp_some a b : date_partial_cmp a b = Some (date_cmp a b).
Proof. reflexivity. Qed.

Lemma month_eqb_eq a b : month_eqb a b = true <-> a = b.
Proof. unfold month_eqb. split; [|intros ->; apply Z.eqb_refl]. destruct a, b; cbn; congruence. Qed.

(* derived equality, spelled out *)
Lemma date_eq_iff a b : date_eq a b = true <->
  cal_eq (Date_f_calendar a) (Date_f_calendar b) = true /\ Date_f_year a = Date_f_year b /\
  Date_f_ordinal a = Date_f_ordinal b /\ Date_f_month a = Date_f_month b /\ Date_f_day a = Date_f_day b /\
  Date_f_day_ordinal a = Date_f_day_ordinal b /\ Date_f_jdn a = Date_f_jdn b.
Proof.
  unfold date_eq. rewrite !andb_true_iff, !Z.eqb_eq, month_eqb_eq. tauto.
Qed.

(* k1 == k2 -> hash(k1) == hash(k2) *)
Theorem date_eq_hash a b : date_eq a b = true -> date_hash a = date_hash b.
Proof.
  rewrite date_eq_iff. intros (Hc & Hy & Ho & Hm & Hd & Hdo & Hj). unfold date_hash.
  rewrite (cal_eq_hash _ _ Hc), Hy, Ho, Hm, Hd, Hdo, Hj. reflexivity.
Qed.

(* == implies cmp = Equal, always *)
Theorem date_eq_cmp a b : date_eq a b = true -> date_cmp a b = Eq.
Proof. rewrite date_eq_iff, date_cmp_eq_iff. tauto. Qed.

(* Eq / Ord coherence.  cmp looks only at (jdn, calendar up to cal_eq); == looks at every field.  They agree on
   dates whose remaining fields are determined by (calendar, jdn) — [Hcanon]: both are the result of at_jdn —
   provided calendars that compare equal are identical, i.e. carry the same gap record — [Hgap]. *)
Theorem date_coherent a b :
  Calendar_at_jdn (Date_f_calendar a) (Date_f_jdn a) = Ret a ->
  Calendar_at_jdn (Date_f_calendar b) (Date_f_jdn b) = Ret b ->
  (cal_eq (Date_f_calendar a) (Date_f_calendar b) = true -> cal_gap (Date_f_calendar a) = cal_gap (Date_f_calendar b)) ->
  (date_eq a b = true <-> date_cmp a b = Eq).
Proof.
  intros Ha Hb Hgap. split; [apply date_eq_cmp|].
  rewrite date_cmp_eq_iff. intros [Hj Hc].
  assert (Ec : Date_f_calendar a = Date_f_calendar b) by (apply cal_eq_same_gap; auto).
  assert (E : a = b). { rewrite Ec, Hj, Hb in Ha. now inversion Ha. }
  subst b. apply date_eq_iff. rewrite (proj2 (cal_eq_iff_cmp _ _)); [tauto|].
  destruct cal_cmp_laws as (R & _). apply R.
Qed.

(* under the same hypotheses, dates that compare Equal hash identically *)
Corollary date_cmp_hash a b :
  Calendar_at_jdn (Date_f_calendar a) (Date_f_jdn a) = Ret a ->
  Calendar_at_jdn (Date_f_calendar b) (Date_f_jdn b) = Ret b ->
  (cal_eq (Date_f_calendar a) (Date_f_calendar b) = true -> cal_gap (Date_f_calendar a) = cal_gap (Date_f_calendar b)) ->
  date_cmp a b = Eq -> date_hash a = date_hash b.
Proof. intros Ha Hb Hg H. apply date_eq_hash. now apply (date_coherent a b Ha Hb Hg). Qed.

(* ------------------------------------------------------------------ non-vacuity examples *)
Definition ex_gap1582 : inner_ReformGap :=
  mkinner_ReformGap (mkinner_Date 1582 277 Month_October 4) (mkinner_Date 1582 278 Month_October 15) inner_GapKind_IntraMonth 287 10.
(* the same reformation with a (wrong) different gap record: still cal_eq, same hash, cmp = Eq *)
Definition ex_cal_badgap : Calendar :=
  mkCalendar (inner_Calendar_Reforming 2299161
    (mkinner_ReformGap (mkinner_Date 0 0 Month_January 0) (mkinner_Date 0 0 Month_January 0) inner_GapKind_MultiYear 0 0)).

Example ex_cal_order :
  cal_cmp Calendar_JULIAN Calendar_REFORM1582 = Lt /\ cal_cmp Calendar_REFORM1582 Calendar_GREGORIAN = Lt /\
  cal_cmp Calendar_REFORM1582 ex_cal_badgap = Eq /\ cal_eq Calendar_REFORM1582 ex_cal_badgap = true /\
  cal_hash Calendar_REFORM1582 = cal_hash ex_cal_badgap /\ Calendar_REFORM1582 <> ex_cal_badgap /\
  cal_hash Calendar_REFORM1582 = [(W_u8, 3); (W_i32, 2299161)].
Proof. repeat split. discriminate. Qed.

Definition ex_d1 : Date := mkDate Calendar_REFORM1582 1582 278 Month_October 15 5 2299161.
Definition ex_d2 : Date := mkDate Calendar_GREGORIAN 1582 288 Month_October 15 15 2299161.

(* the hypotheses of date_coherent hold for real dates; the same day in two calendars is ordered by calendar *)
Example ex_date_coherent_hyps :
  Calendar_at_jdn (Date_f_calendar ex_d1) (Date_f_jdn ex_d1) = Ret ex_d1 /\
  Calendar_at_jdn (Date_f_calendar ex_d2) (Date_f_jdn ex_d2) = Ret ex_d2 /\
  date_eq ex_d1 ex_d1 = true /\ date_cmp ex_d1 ex_d1 = Eq /\
  date_eq ex_d1 ex_d2 = false /\ date_cmp ex_d1 ex_d2 = Lt.
Proof. repeat split; vm_compute; reflexivity. Qed.

(* why [date_coherent] needs its hypotheses: a record that is not the canonical date of its day number
   compares Equal to the canonical one without being == to it *)
Example ex_date_noncanonical :
  let bogus := mkDate Calendar_REFORM1582 1 1 Month_January 1 1 2299161 in
  date_cmp ex_d1 bogus = Eq /\ date_eq ex_d1 bogus = false.
Proof. split; vm_compute; reflexivity. Qed.
