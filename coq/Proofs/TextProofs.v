(* Proofs/TextProofs.v — proofs about Hand/Text.v (Display for Date, Calendar::parse_date).
   Part 0 is the specification vocabulary in which the C13 statements are written. *)
From JV Require Import Sem Gen Hand.Names Hand.Text Proofs.NamesProofs.
Open Scope Z_scope.
Ltac Zify.zify_post_hook ::= Z.to_euclidean_division_equations.

(* ================================================================ 0. specification vocabulary *)
(* a text made of ASCII digits only *)
Definition is_digits (s : list Z) : Prop := Forall (fun c => is_digit c = true) s.

(* its value as a decimal numeral, most significant digit first *)
Fixpoint dval_from (acc : Z) (s : list Z) : Z :=
  match s with
  | [] => acc
  | c :: r => dval_from (acc * 10 + (c - 48)) r
  end.
Definition digits_value (s : list Z) : Z := dval_from 0 s.

Definition len (s : list Z) : Z := Z.of_nat (List.length s).

(* optional sign in front of the year *)
Inductive Sign := SgNone | SgPlus | SgMinus.
Definition sign_codes (sg : Sign) : list Z :=
  match sg with SgNone => [] | SgPlus => [43] | SgMinus => [45] end.
Definition signed_value (sg : Sign) (ds : list Z) : Z :=
  match sg with SgMinus => - digits_value ds | _ => digits_value ds end.

(* The language accepted by the SYNTACTIC part of parse_date, with the numbers it denotes:
     sign? ds1 '-' ds2              (year, day of year)
     sign? ds1 '-' ds2 '-' ds3      (year, month, day)
   ds_i non-empty ASCII digit strings; year fits i32; the other fields fit u32; month in 1..=12. *)
Inductive Grammar : list Z -> Z -> inner_DayInYear -> Prop :=
| G_ordinal sg ds1 ds2 :
    ds1 <> [] -> is_digits ds1 -> ds2 <> [] -> is_digits ds2 ->
    in_i32 (signed_value sg ds1) -> in_u32 (digits_value ds2) ->
    Grammar (sign_codes sg ++ ds1 ++ 45 :: ds2) (signed_value sg ds1) (inner_DayInYear_Ordinal (digits_value ds2))
| G_ymd sg ds1 ds2 ds3 m :
    ds1 <> [] -> is_digits ds1 -> ds2 <> [] -> is_digits ds2 -> ds3 <> [] -> is_digits ds3 ->
    in_i32 (signed_value sg ds1) -> digits_value ds2 = Month_discr m -> in_u32 (digits_value ds3) ->
    Grammar (sign_codes sg ++ ds1 ++ 45 :: ds2 ++ 45 :: ds3) (signed_value sg ds1)
            (inner_DayInYear_Date m (digits_value ds3)).

(* errors that parse_date reports before it ever calls a constructor *)
Definition syntactic (e : ParseDateError) : Prop :=
  match e with PDE_InvalidDate _ => False | _ => True end.

(* ================================================================ 1. decimal numerals *)
Lemma is_digit_range c : is_digit c = true <-> 48 <= c <= 57.
Proof. unfold is_digit. lia. Qed.

Lemma is_digits_app a b : is_digits (a ++ b) <-> is_digits a /\ is_digits b.
Proof. apply Forall_app. Qed.

Lemma dval_from_app a s t : dval_from a (s ++ t) = dval_from (dval_from a s) t.
Proof. revert a. induction s as [|c s IH]; intros a; cbn [dval_from app]; [reflexivity | apply IH]. Qed.

Lemma len_nonneg s : 0 <= len s.
Proof. unfold len. lia. Qed.
Lemma len_cons c s : len (c :: s) = len s + 1.
Proof. unfold len. cbn [List.length]. lia. Qed.
Lemma len_app s t : len (s ++ t) = len s + len t.
Proof. unfold len. rewrite app_length. lia. Qed.

Lemma dval_from_lin a s : dval_from a s = a * 10 ^ len s + dval_from 0 s.
Proof.
  revert a. induction s as [|c s IH]; intros a; cbn [dval_from].
  - unfold len. cbn. lia.
  - rewrite IH, (IH (0 * 10 + (c - 48))), len_cons, Z.pow_add_r by (pose proof (len_nonneg s); lia). lia.
Qed.

Lemma dval_bounds s : is_digits s -> 0 <= dval_from 0 s < 10 ^ len s.
Proof.
  induction 1 as [|c s Hc Hs IH]; cbn [dval_from].
  - unfold len. cbn. lia.
  - apply is_digit_range in Hc. rewrite dval_from_lin, len_cons, Z.pow_add_r by (pose proof (len_nonneg s); lia).
    assert (0 < 10 ^ len s) by (apply Z.pow_pos_nonneg; pose proof (len_nonneg s); lia). nia.
Qed.

Lemma dval_from_mono a s : is_digits s -> 0 <= a -> a <= dval_from a s.
Proof.
  intros Hs. revert a. induction Hs as [|c s Hc Hs IH]; intros a Ha; cbn [dval_from]; [lia|].
  apply is_digit_range in Hc. specialize (IH (a * 10 + (c - 48))). lia.
Qed.

(* ---------------------------------------------------------------- digits_rev / show_dec / show_u *)
(* value of a least-significant-first digit list *)
Fixpoint lsb_val (l : list Z) : Z :=
  match l with [] => 0 | c :: r => (c - 48) + 10 * lsb_val r end.

Lemma dval_rev l : dval_from 0 (rev l) = lsb_val l.
Proof.
  induction l as [|c l IH]; cbn [rev lsb_val]; [reflexivity|].
  rewrite dval_from_app, IH. cbn [dval_from]. lia.
Qed.

Lemma pow10_S f : 10 ^ Z.of_nat (S f) = 10 * 10 ^ Z.of_nat f.
Proof. rewrite Nat2Z.inj_succ, Z.pow_succ_r by lia. reflexivity. Qed.

Lemma digits_rev_val fuel n : 0 <= n < 10 ^ Z.of_nat fuel -> lsb_val (digits_rev fuel n) = n.
Proof.
  revert n. induction fuel as [|f IH]; intros n Hn.
  - cbn in Hn. cbn. lia.
  - rewrite pow10_S in Hn. cbn [digits_rev]. destruct (n <? 10) eqn:E.
    + cbn [lsb_val]. lia.
    + cbn [lsb_val]. rewrite IH by lia. lia.
Qed.

Lemma digits_rev_digits fuel n : 0 <= n -> is_digits (digits_rev fuel n).
Proof.
  revert n. induction fuel as [|f IH]; intros n Hn; cbn [digits_rev]; [constructor|].
  destruct (n <? 10) eqn:E.
  - constructor; [apply is_digit_range; lia | constructor].
  - constructor; [apply is_digit_range; lia | apply IH; lia].
Qed.

Lemma digits_rev_nonempty f n : digits_rev (S f) n <> [].
Proof. cbn [digits_rev]. destruct (n <? 10); discriminate. Qed.

(* no leading zero, said with lengths: a numeral of k digits for n >= 1 has 10^k <= 10 n *)
Lemma digits_rev_len fuel n :
  1 <= n < 10 ^ Z.of_nat fuel -> 10 ^ len (digits_rev fuel n) <= 10 * n.
Proof.
  revert n. induction fuel as [|f IH]; intros n Hn.
  - cbn in Hn. lia.
  - rewrite pow10_S in Hn. cbn [digits_rev]. destruct (n <? 10) eqn:E.
    + change (10 ^ len [48 + n]) with 10. lia.
    + rewrite len_cons, Z.pow_add_r by (pose proof (len_nonneg (digits_rev f (n / 10))); lia).
      specialize (IH (n / 10)). lia.
Qed.

Lemma fuel_ok n : 0 <= n -> n < 10 ^ Z.of_nat (S (Z.to_nat (Z.log2 n))).
Proof.
  intros Hn. rewrite Nat2Z.inj_succ, Z2Nat.id by apply Z.log2_nonneg.
  destruct (Z.eq_dec n 0) as [-> | Hz]; [cbn; lia|].
  pose proof (Z.log2_spec n ltac:(lia)) as [_ H].
  eapply Z.lt_le_trans; [exact H|].
  apply Z.pow_le_mono_l. lia.
Qed.

Lemma show_dec_digits n : 0 <= n -> is_digits (show_dec n).
Proof. intros. unfold show_dec, is_digits. apply Forall_rev. apply digits_rev_digits. assumption. Qed.

Lemma show_dec_value n : 0 <= n -> digits_value (show_dec n) = n.
Proof. intros. unfold show_dec, digits_value. rewrite dval_rev. apply digits_rev_val. split; [lia | apply fuel_ok; lia]. Qed.

Lemma show_dec_nonempty n : show_dec n <> [].
Proof.
  unfold show_dec. intros H. apply (f_equal (@rev Z)) in H. rewrite rev_involutive in H.
  cbn [rev] in H. revert H. apply digits_rev_nonempty.
Qed.

Lemma len_rev (l : list Z) : len (rev l) = len l.
Proof. unfold len. rewrite rev_length. reflexivity. Qed.

Lemma show_dec_len n : 1 <= n -> 10 ^ len (show_dec n) <= 10 * n.
Proof. intros. unfold show_dec. rewrite len_rev. apply digits_rev_len. split; [lia | apply fuel_ok; lia]. Qed.

Lemma show_dec_zero : show_dec 0 = [48].
Proof. reflexivity. Qed.

(* "no shorter representation": every digit string with the same value is at least as long *)
Lemma show_dec_shortest n s :
  0 <= n -> s <> [] -> is_digits s -> digits_value s = n -> len (show_dec n) <= len s.
Proof.
  intros Hn Hne Hs Hv.
  destruct (Z.eq_dec n 0) as [-> | Hz].
  - rewrite show_dec_zero. destruct s; [congruence|]. rewrite len_cons. unfold len at 1. cbn. pose proof (len_nonneg s). lia.
  - pose proof (show_dec_len n ltac:(lia)) as H1.
    pose proof (dval_bounds s Hs) as H2. unfold digits_value in Hv. rewrite Hv in H2.
    destruct (Z_le_gt_dec (len (show_dec n)) (len s)) as [|Hgt]; [assumption|exfalso].
    assert (10 ^ (len s + 1) <= 10 ^ len (show_dec n)) by (apply Z.pow_le_mono_r; lia).
    rewrite Z.pow_add_r in H by (pose proof (len_nonneg s); lia). lia.
Qed.

Lemma is_digits_repeat k : is_digits (repeat 48 k).
Proof. induction k; cbn [repeat]; constructor; [reflexivity | assumption]. Qed.

Lemma dval_repeat_zero k a s : dval_from a (repeat 48 k ++ s) = dval_from (a * 10 ^ Z.of_nat k) s.
Proof.
  revert a. induction k as [|k IH]; intros a.
  - cbn [repeat app]. f_equal. cbn. lia.
  - cbn [repeat app dval_from]. rewrite IH, pow10_S. f_equal. lia.
Qed.

Lemma show_u_digits w n : 0 <= n -> is_digits (show_u w n).
Proof. intros. unfold show_u. apply is_digits_app. split; [apply is_digits_repeat | apply show_dec_digits; assumption]. Qed.

Lemma show_u_value w n : 0 <= n -> digits_value (show_u w n) = n.
Proof.
  intros. unfold show_u, digits_value. rewrite dval_repeat_zero. cbn [Z.mul]. apply show_dec_value. assumption.
Qed.

Lemma show_u_nonempty w n : show_u w n <> [].
Proof.
  unfold show_u. intros H. apply app_eq_nil in H. destruct H as [_ H]. revert H. apply show_dec_nonempty.
Qed.

Lemma show_u_length w n : List.length (show_u w n) = Nat.max w (List.length (show_dec n)).
Proof. unfold show_u. rewrite app_length, repeat_length. lia. Qed.

(* the padded numeral: at least w long, and if longer than w it is the shortest numeral *)
Lemma show_u_shape w n :
  (w <= List.length (show_u w n))%nat /\
  ((List.length (show_u w n) = w)%nat \/ show_u w n = show_dec n).
Proof.
  split; [rewrite show_u_length; lia|].
  unfold show_u. destruct (Nat.le_gt_cases (List.length (show_dec n)) w) as [H|H].
  - left. rewrite app_length, repeat_length. lia.
  - right. replace (w - List.length (show_dec n))%nat with O by lia. reflexivity.
Qed.

(* complete specification of show_u, and it determines the text uniquely *)
Definition padded_decimal (w : nat) (n : Z) (s : list Z) : Prop :=
  is_digits s /\ s <> [] /\ digits_value s = n /\ (w <= List.length s)%nat /\
  (forall t, t <> [] -> is_digits t -> digits_value t = n -> (w <= List.length t)%nat -> (List.length s <= List.length t)%nat).

Lemma show_u_padded w n : 0 <= n -> padded_decimal w n (show_u w n).
Proof.
  intros Hn. repeat split.
  - apply show_u_digits; assumption.
  - apply show_u_nonempty.
  - apply show_u_value; assumption.
  - apply show_u_shape.
  - intros t Hne Ht Hv Hw. rewrite show_u_length.
    pose proof (show_dec_shortest n t Hn Hne Ht Hv) as H. unfold len in H. lia.
Qed.

(* digit strings of equal length and equal value are equal *)
Lemma digits_inj s t :
  is_digits s -> is_digits t -> List.length s = List.length t -> digits_value s = digits_value t -> s = t.
Proof.
  unfold digits_value. intros Hs. revert t. induction Hs as [|c s Hc Hs IH]; intros t Ht Hl Hv.
  - destruct t; [reflexivity | discriminate].
  - destruct Ht as [|d t Hd Ht]; [discriminate|].
    cbn [dval_from] in Hv. rewrite (dval_from_lin (0 * 10 + (c - 48))), (dval_from_lin (0 * 10 + (d - 48))) in Hv.
    injection Hl as Hl. assert (Hlen : len s = len t) by (unfold len; congruence). rewrite Hlen in Hv.
    apply is_digit_range in Hc. apply is_digit_range in Hd.
    pose proof (dval_bounds s Hs) as Bs. pose proof (dval_bounds t Ht) as Bt. rewrite Hlen in Bs.
    assert (0 < 10 ^ len t) by (apply Z.pow_pos_nonneg; pose proof (len_nonneg t); lia).
    assert (c = d) by nia. subst d. f_equal. apply IH; try assumption. nia.
Qed.

Lemma padded_decimal_unique w n s t : padded_decimal w n s -> padded_decimal w n t -> s = t.
Proof.
  intros (Hs1 & Hs2 & Hs3 & Hs4 & Hs5) (Ht1 & Ht2 & Ht3 & Ht4 & Ht5).
  apply digits_inj; try assumption; [|congruence].
  apply Nat.le_antisymm; [apply Hs5 | apply Ht5]; assumption.
Qed.

(* ================================================================ 2. inner::scan *)
Local Arguments is_digit : simpl never.

(* the rest of the text after a scanned numeral: empty or starting with a non-digit *)
Definition stops (b : list Z) : Prop := match b with [] => True | c :: _ => is_digit c = false end.

Lemma scan_cons c s :
  scan is_digit (c :: s) = if is_digit c then let '(a, b) := scan is_digit s in (c :: a, b) else ([], c :: s).
Proof. reflexivity. Qed.

Lemma scan_app a b : is_digits a -> stops b -> scan is_digit (a ++ b) = (a, b).
Proof.
  intros Ha Hb. induction Ha as [|c a Hc Ha IH]; cbn [app].
  - destruct b as [|c b]; [reflexivity|]. cbn [stops] in Hb. rewrite scan_cons, Hb. reflexivity.
  - rewrite scan_cons, Hc, IH. reflexivity.
Qed.

Lemma scan_inv s : forall a b, scan is_digit s = (a, b) -> s = a ++ b /\ is_digits a /\ stops b.
Proof.
  induction s as [|c s IH]; intros a b H.
  - injection H as <- <-. repeat split. constructor.
  - rewrite scan_cons in H. destruct (is_digit c) eqn:Hc.
    + destruct (scan is_digit s) as [a' b'] eqn:E. injection H as <- <-.
      destruct (IH a' b' eq_refl) as (-> & Ha & Hb). repeat split; [constructor; assumption | assumption].
    + injection H as <- <-. repeat split; [constructor | exact Hc].
Qed.

(* the stateful predicate of parse_int: after the first character it is plain is_ascii_digit *)
Lemma scan_st_false s : scan_st int_pred false s = scan is_digit s.
Proof.
  unfold scan. induction s as [|c s IH]; [reflexivity|].
  cbn [scan_st int_pred andb orb]. rewrite IH. reflexivity.
Qed.

Lemma scan_int_cons c s :
  scan_st int_pred true (c :: s) =
  if (c =? 45) || (c =? 43) || is_digit c then let '(a, b) := scan is_digit s in (c :: a, b) else ([], c :: s).
Proof. cbn [scan_st int_pred andb]. rewrite scan_st_false. reflexivity. Qed.

Lemma scan_int_app sg ds b :
  ds <> [] -> is_digits ds -> stops b -> scan_st int_pred true (sign_codes sg ++ ds ++ b) = (sign_codes sg ++ ds, b).
Proof.
  intros Hne Hd Hb. destruct sg; cbn [sign_codes app].
  - destruct Hd as [|c r Hc Hr]; [congruence|]. cbn [app].
    rewrite scan_int_cons, Hc, orb_true_r, scan_app by assumption. reflexivity.
  - rewrite scan_int_cons. change ((43 =? 45) || (43 =? 43) || is_digit 43) with true. cbv iota.
    rewrite scan_app by assumption. reflexivity.
  - rewrite scan_int_cons. change ((45 =? 45) || (45 =? 43) || is_digit 45) with true. cbv iota.
    rewrite scan_app by assumption. reflexivity.
Qed.

(* ================================================================ 3. str::parse::<i32>, str::parse::<u32> *)
Lemma parse_digits_pos lo hi ds :
  is_digits ds -> forall acc, lo <= 0 -> 0 <= acc <= hi ->
  parse_digits false lo hi acc ds =
  if dval_from acc ds <=? hi then Ok (dval_from acc ds) else Err IEK_PosOverflow.
Proof.
  induction 1 as [|c r Hc Hr IH]; intros acc Hlo Hacc; cbn [parse_digits dval_from].
  - replace (acc <=? hi) with true by lia. reflexivity.
  - rewrite Hc. apply is_digit_range in Hc.
    pose proof (dval_from_mono (acc * 10 + (c - 48)) r Hr ltac:(lia)) as Hm.
    unfold chko. destruct ((lo <=? acc * 10) && (acc * 10 <=? hi)) eqn:E1.
    + destruct ((lo <=? acc * 10 + (c - 48)) && (acc * 10 + (c - 48) <=? hi)) eqn:E2.
      * apply IH; lia.
      * replace (dval_from (acc * 10 + (c - 48)) r <=? hi) with false by lia. reflexivity.
    + replace (dval_from (acc * 10 + (c - 48)) r <=? hi) with false by lia. reflexivity.
Qed.

Lemma parse_digits_neg lo hi ds :
  is_digits ds -> forall acc, 0 <= hi -> lo <= acc <= 0 ->
  parse_digits true lo hi acc ds =
  if lo <=? - dval_from (- acc) ds then Ok (- dval_from (- acc) ds) else Err IEK_NegOverflow.
Proof.
  induction 1 as [|c r Hc Hr IH]; intros acc Hhi Hacc; cbn [parse_digits dval_from].
  - rewrite Z.opp_involutive. replace (lo <=? acc) with true by lia. reflexivity.
  - rewrite Hc. apply is_digit_range in Hc.
    replace (- acc * 10 + (c - 48)) with (- (acc * 10 - (c - 48))) by lia.
    pose proof (dval_from_mono (- (acc * 10 - (c - 48))) r Hr ltac:(lia)) as Hm.
    unfold chko. destruct ((lo <=? acc * 10) && (acc * 10 <=? hi)) eqn:E1.
    + destruct ((lo <=? acc * 10 - (c - 48)) && (acc * 10 - (c - 48) <=? hi)) eqn:E2.
      * apply IH; lia.
      * replace (lo <=? - dval_from (- (acc * 10 - (c - 48))) r) with false by lia. reflexivity.
    + replace (lo <=? - dval_from (- (acc * 10 - (c - 48))) r) with false by lia. reflexivity.
Qed.

Definition overflow_kind (sg : Sign) : IntErrorKind :=
  match sg with SgMinus => IEK_NegOverflow | _ => IEK_PosOverflow end.

Lemma parse_i32_signed sg ds :
  ds <> [] -> is_digits ds ->
  parse_i32 (sign_codes sg ++ ds) =
  if (i32_min <=? signed_value sg ds) && (signed_value sg ds <=? i32_max)
  then Ok (signed_value sg ds) else Err (overflow_kind sg).
Proof.
  intros Hne Hd. pose proof (dval_bounds ds Hd) as Hb.
  destruct ds as [|c r]; [congruence|]. pose proof Hd as Hd'. inversion Hd' as [|? ? Hc Hr]; subst.
  apply is_digit_range in Hc.
  unfold parse_i32, from_str_radix10, signed_value, digits_value, overflow_kind.
  destruct sg; cbn [sign_codes app].
  - assert (E : parse_digits false i32_min i32_max 0 (c :: r) =
                if dval_from 0 (c :: r) <=? i32_max then Ok (dval_from 0 (c :: r)) else Err IEK_PosOverflow)
      by (apply parse_digits_pos; [assumption | unfold i32_min; lia | unfold i32_max; lia]).
    replace (i32_min <=? dval_from 0 (c :: r)) with true by (unfold i32_min; lia). cbn [andb].
    destruct r as [|c2 r].
    + replace ((c =? 43) || (c =? 45)) with false by lia. exact E.
    + replace (c =? 43) with false by lia. replace (c =? 45) with false by lia. cbn [andb]. exact E.
  - change (43 =? 43) with true. cbv iota.
    replace (i32_min <=? dval_from 0 (c :: r)) with true by (unfold i32_min; lia). cbn [andb].
    apply parse_digits_pos; [assumption | unfold i32_min; lia | unfold i32_max; lia].
  - change (45 =? 43) with false. change ((45 =? 45) && true) with true. cbv iota.
    replace (- dval_from 0 (c :: r) <=? i32_max) with true by (unfold i32_max; lia). rewrite andb_true_r.
    rewrite parse_digits_neg; [reflexivity | assumption | unfold i32_max; lia | unfold i32_min; lia].
Qed.

Lemma parse_u32_digits ds :
  ds <> [] -> is_digits ds ->
  parse_u32 ds = if digits_value ds <=? u32_max then Ok (digits_value ds) else Err IEK_PosOverflow.
Proof.
  intros Hne Hd. destruct ds as [|c r]; [congruence|]. pose proof Hd as Hd'. inversion Hd' as [|? ? Hc Hr]; subst.
  apply is_digit_range in Hc.
  unfold parse_u32, from_str_radix10, digits_value.
  assert (E : parse_digits false 0 u32_max 0 (c :: r) =
              if dval_from 0 (c :: r) <=? u32_max then Ok (dval_from 0 (c :: r)) else Err IEK_PosOverflow)
    by (apply parse_digits_pos; [assumption | lia | unfold u32_max; lia]).
  destruct r as [|c2 r].
  - replace ((c =? 43) || (c =? 45)) with false by lia. exact E.
  - replace (c =? 43) with false by lia. replace (c =? 45) with false by lia. cbn [andb]. exact E.
Qed.

(* ================================================================ 4. inner::DateParser *)
Lemma dval_nonneg ds : is_digits ds -> 0 <= digits_value ds.
Proof. intros H. pose proof (dval_bounds ds H). unfold digits_value. lia. Qed.

(* ---------------------------------------------------------------- parse_uint *)
Lemma dp_parse_uint_app ds b :
  ds <> [] -> is_digits ds -> stops b ->
  dp_parse_uint (ds ++ b) =
  if digits_value ds <=? u32_max then Ok (digits_value ds, b) else Err (PDE_ParseInt IEK_PosOverflow).
Proof.
  intros Hne Hd Hb. unfold dp_parse_uint. rewrite scan_app by assumption.
  destruct ds as [|c r]; [congruence|].
  rewrite parse_u32_digits by assumption.
  destruct (digits_value (c :: r) <=? u32_max); reflexivity.
Qed.

Lemma dp_parse_uint_inv data n rest :
  dp_parse_uint data = Ok (n, rest) ->
  exists ds, data = ds ++ rest /\ ds <> [] /\ is_digits ds /\ stops rest /\ n = digits_value ds /\ in_u32 n.
Proof.
  unfold dp_parse_uint. destruct (scan is_digit data) as [a b] eqn:E.
  apply scan_inv in E. destruct E as (-> & Ha & Hb).
  destruct a as [|c a].
  - destruct ([] ++ b); discriminate.
  - rewrite parse_u32_digits by (assumption || discriminate).
    destruct (digits_value (c :: a) <=? u32_max) eqn:E; [|discriminate].
    intros [= <- <-]. exists (c :: a). repeat split; try assumption; try discriminate.
    + apply dval_nonneg; assumption.
    + lia.
Qed.

Lemma dp_parse_uint_err data e : dp_parse_uint data = Err e -> syntactic e.
Proof.
  unfold dp_parse_uint. destruct (scan is_digit data) as [a b].
  destruct a as [|c a].
  - destruct data; intros [= <-]; exact I.
  - destruct (parse_u32 (c :: a)); [discriminate | intros [= <-]; exact I].
Qed.

(* ---------------------------------------------------------------- parse_int *)
Lemma dp_parse_int_app sg ds b :
  ds <> [] -> is_digits ds -> stops b ->
  dp_parse_int (sign_codes sg ++ ds ++ b) =
  if (i32_min <=? signed_value sg ds) && (signed_value sg ds <=? i32_max)
  then Ok (signed_value sg ds, b) else Err (PDE_ParseInt (overflow_kind sg)).
Proof.
  intros Hne Hd Hb. unfold dp_parse_int. rewrite scan_int_app by assumption.
  destruct (sign_codes sg ++ ds) as [|c r] eqn:E.
  - apply app_eq_nil in E. destruct E. congruence.
  - rewrite <- E. rewrite parse_i32_signed by assumption.
    destruct ((i32_min <=? signed_value sg ds) && (signed_value sg ds <=? i32_max)); reflexivity.
Qed.

Lemma dp_parse_int_inv data n rest :
  dp_parse_int data = Ok (n, rest) ->
  exists sg ds, data = sign_codes sg ++ ds ++ rest /\ ds <> [] /\ is_digits ds /\ stops rest /\
                n = signed_value sg ds /\ in_i32 n.
Proof.
  unfold dp_parse_int. destruct data as [|c s]; [discriminate|].
  rewrite scan_int_cons.
  destruct ((c =? 45) || (c =? 43) || is_digit c) eqn:Hc; [|discriminate].
  destruct (scan is_digit s) as [a b] eqn:E. apply scan_inv in E. destruct E as (-> & Ha & Hb).
  assert (Hfin : forall sg ds, ds <> [] -> is_digits ds -> c :: a = sign_codes sg ++ ds ->
            match parse_i32 (c :: a) with Ok n0 => Ok (n0, b) | Err k => Err (PDE_ParseInt k) end = Ok (n, rest) ->
            exists sg ds, c :: a ++ b = sign_codes sg ++ ds ++ rest /\ ds <> [] /\ is_digits ds /\ stops rest /\
                          n = signed_value sg ds /\ in_i32 n).
  { intros sg ds Hne Hd Heq. rewrite Heq, parse_i32_signed by assumption.
    destruct ((i32_min <=? signed_value sg ds) && (signed_value sg ds <=? i32_max)) eqn:Er; [|discriminate].
    intros [= <- <-]. exists sg, ds. repeat split; try assumption.
    - change (c :: a ++ b) with ((c :: a) ++ b). rewrite Heq, app_assoc. reflexivity.
    - unfold in_i32. lia.
    - unfold in_i32. lia. }
  destruct (is_digit c) eqn:Hd.
  - apply (Hfin SgNone (c :: a)); [discriminate | constructor; assumption | reflexivity].
  - assert (Hs : c = 45 \/ c = 43) by lia.
    destruct a as [|c2 a].
    + destruct Hs as [-> | ->]; discriminate.
    + destruct Hs as [-> | ->].
      * apply (Hfin SgMinus (c2 :: a)); [discriminate | assumption | reflexivity].
      * apply (Hfin SgPlus (c2 :: a)); [discriminate | assumption | reflexivity].
Qed.

Lemma dp_parse_int_err data e : dp_parse_int data = Err e -> syntactic e.
Proof.
  unfold dp_parse_int. destruct (scan_st int_pred true data) as [a b].
  destruct a as [|c a].
  - destruct data; intros [= <-]; exact I.
  - destruct (parse_i32 (c :: a)); [discriminate | intros [= <-]; exact I].
Qed.

(* ---------------------------------------------------------------- scan_char *)
Lemma dp_scan_char_inv ch data u rest : dp_scan_char ch data = Ok (u, rest) -> data = ch :: rest.
Proof.
  unfold dp_scan_char. destruct data as [|c r]; [discriminate|].
  destruct (c =? ch) eqn:E; [|discriminate]. intros [= _ <-]. f_equal. lia.
Qed.

Lemma dp_scan_char_err ch data e : dp_scan_char ch data = Err e -> syntactic e.
Proof.
  unfold dp_scan_char. destruct data as [|c r]; [intros [= <-]; exact I|].
  destruct (c =? ch); [discriminate | intros [= <-]; exact I].
Qed.

Lemma dp_scan_char_hit ch rest : dp_scan_char ch (ch :: rest) = Ok (tt, rest).
Proof. unfold dp_scan_char. rewrite Z.eqb_refl. reflexivity. Qed.

Lemma stops_dash r : stops (45 :: r).
Proof. reflexivity. Qed.

(* ---------------------------------------------------------------- parse_day_in_year *)
Lemma month_of_digits m v : v = Month_discr m -> month_try_from 0 u32_max v = Some m.
Proof.
  intros ->. apply month_try_from_iff; [|reflexivity]. unfold u32_max. destruct m; cbn; lia.
Qed.

Lemma dp_parse_day_in_year_ordinal ds :
  ds <> [] -> is_digits ds -> in_u32 (digits_value ds) ->
  dp_parse_day_in_year ds = Ok (inner_DayInYear_Ordinal (digits_value ds), []).
Proof.
  intros Hne Hd Hr. unfold dp_parse_day_in_year.
  rewrite <- (app_nil_r ds) at 1. rewrite dp_parse_uint_app by (assumption || exact I).
  replace (digits_value ds <=? u32_max) with true by (unfold in_u32 in Hr; lia). reflexivity.
Qed.

Lemma dp_parse_day_in_year_date ds2 ds3 m b :
  ds2 <> [] -> is_digits ds2 -> digits_value ds2 = Month_discr m ->
  ds3 <> [] -> is_digits ds3 -> in_u32 (digits_value ds3) -> stops b ->
  dp_parse_day_in_year (ds2 ++ 45 :: ds3 ++ b) = Ok (inner_DayInYear_Date m (digits_value ds3), b).
Proof.
  intros Hne2 Hd2 Hm Hne3 Hd3 Hr3 Hb. unfold dp_parse_day_in_year.
  rewrite dp_parse_uint_app by (assumption || apply stops_dash).
  replace (digits_value ds2 <=? u32_max) with true by (rewrite Hm; unfold u32_max; destruct m; cbn; lia).
  rewrite (month_of_digits m) by assumption. rewrite dp_scan_char_hit.
  rewrite dp_parse_uint_app by assumption.
  replace (digits_value ds3 <=? u32_max) with true by (unfold in_u32 in Hr3; lia). reflexivity.
Qed.

Lemma dp_parse_day_in_year_inv data diny rest :
  dp_parse_day_in_year data = Ok (diny, rest) ->
  (exists ds2, data = ds2 /\ rest = [] /\ ds2 <> [] /\ is_digits ds2 /\ in_u32 (digits_value ds2) /\
               diny = inner_DayInYear_Ordinal (digits_value ds2)) \/
  (exists ds2 ds3 m, data = ds2 ++ 45 :: ds3 ++ rest /\ ds2 <> [] /\ is_digits ds2 /\ digits_value ds2 = Month_discr m /\
               ds3 <> [] /\ is_digits ds3 /\ in_u32 (digits_value ds3) /\ stops rest /\
               diny = inner_DayInYear_Date m (digits_value ds3)).
Proof.
  unfold dp_parse_day_in_year.
  destruct (dp_parse_uint data) as [[f1 d1]|e] eqn:E1; [|discriminate].
  apply dp_parse_uint_inv in E1. destruct E1 as (ds2 & -> & Hne2 & Hd2 & Hs2 & -> & Hr2).
  destruct d1 as [|c d1].
  - intros [= <- <-]. left. exists ds2. rewrite app_nil_r. repeat split; try assumption; apply Hr2.
  - destruct (month_try_from 0 u32_max (digits_value ds2)) as [m|] eqn:Em; [|discriminate].
    apply month_try_from_iff in Em; [|exact Hr2]. injection Em as Em.
    destruct (dp_scan_char 45 (c :: d1)) as [[u d2]|e] eqn:E2; [|discriminate].
    apply dp_scan_char_inv in E2. injection E2 as -> ->.
    destruct (dp_parse_uint d2) as [[day d3]|e] eqn:E3; [|discriminate].
    apply dp_parse_uint_inv in E3. destruct E3 as (ds3 & -> & Hne3 & Hd3 & Hs3 & -> & Hr3).
    intros [= <- <-]. right. exists ds2, ds3, m. repeat split; try assumption; try apply Hr3. symmetry; assumption.
Qed.

Lemma dp_parse_day_in_year_err data e : dp_parse_day_in_year data = Err e -> syntactic e.
Proof.
  unfold dp_parse_day_in_year.
  destruct (dp_parse_uint data) as [[f1 d1]|e1] eqn:E1; [|intros [= <-]; eapply dp_parse_uint_err; eassumption].
  destruct d1 as [|c d1]; [discriminate|].
  destruct (month_try_from 0 u32_max f1); [|intros [= <-]; exact I].
  destruct (dp_scan_char 45 (c :: d1)) as [[u d2]|e2] eqn:E2; [|intros [= <-]; eapply dp_scan_char_err; eassumption].
  destruct (dp_parse_uint d2) as [[day d3]|e3] eqn:E3; [discriminate|intros [= <-]; eapply dp_parse_uint_err; eassumption].
Qed.

(* ================================================================ 5. parse_fields = the grammar *)
Lemma grammar_parse_fields s y diny : Grammar s y diny -> parse_fields s = Ok (y, diny).
Proof.
  intros H. destruct H as [sg ds1 ds2 Hne1 Hd1 Hne2 Hd2 Hy Ho | sg ds1 ds2 ds3 m Hne1 Hd1 Hne2 Hd2 Hne3 Hd3 Hy Hm Hday];
    unfold parse_fields.
  - rewrite dp_parse_int_app by (assumption || apply stops_dash).
    replace ((i32_min <=? signed_value sg ds1) && (signed_value sg ds1 <=? i32_max)) with true
      by (unfold in_i32 in Hy; lia).
    rewrite dp_scan_char_hit, dp_parse_day_in_year_ordinal by assumption. reflexivity.
  - rewrite dp_parse_int_app by (assumption || apply stops_dash).
    replace ((i32_min <=? signed_value sg ds1) && (signed_value sg ds1 <=? i32_max)) with true
      by (unfold in_i32 in Hy; lia).
    rewrite dp_scan_char_hit.
    replace (ds2 ++ 45 :: ds3) with (ds2 ++ 45 :: ds3 ++ []) by (rewrite app_nil_r; reflexivity).
    rewrite (dp_parse_day_in_year_date ds2 ds3 m []) by (assumption || exact I). reflexivity.
Qed.

Lemma parse_fields_grammar s y diny : parse_fields s = Ok (y, diny) -> Grammar s y diny.
Proof.
  unfold parse_fields.
  destruct (dp_parse_int s) as [[year d1]|e] eqn:E1; [|discriminate].
  apply dp_parse_int_inv in E1. destruct E1 as (sg & ds1 & -> & Hne1 & Hd1 & Hs1 & -> & Hy).
  destruct (dp_scan_char 45 d1) as [[u d2]|e] eqn:E2; [|discriminate].
  apply dp_scan_char_inv in E2. subst d1.
  destruct (dp_parse_day_in_year d2) as [[diny' d3]|e] eqn:E3; [|discriminate].
  destruct d3 as [|c d3]; [|discriminate]. intros [= <- <-].
  apply dp_parse_day_in_year_inv in E3.
  destruct E3 as [(ds2 & -> & _ & Hne2 & Hd2 & Hr2 & ->) | (ds2 & ds3 & m & -> & Hne2 & Hd2 & Hm & Hne3 & Hd3 & Hr3 & _ & ->)].
  - apply G_ordinal; assumption.
  - rewrite app_nil_r. apply G_ymd; assumption.
Qed.

Lemma parse_fields_err s e : parse_fields s = Err e -> syntactic e.
Proof.
  unfold parse_fields.
  destruct (dp_parse_int s) as [[year d1]|e1] eqn:E1; [|intros [= <-]; eapply dp_parse_int_err; eassumption].
  destruct (dp_scan_char 45 d1) as [[u d2]|e2] eqn:E2; [|intros [= <-]; eapply dp_scan_char_err; eassumption].
  destruct (dp_parse_day_in_year d2) as [[diny' d3]|e3] eqn:E3; [|intros [= <-]; eapply dp_parse_day_in_year_err; eassumption].
  destruct d3; [discriminate | intros [= <-]; exact I].
Qed.

Lemma parse_fields_iff s y diny : parse_fields s = Ok (y, diny) <-> Grammar s y diny.
Proof. split; [apply parse_fields_grammar | apply grammar_parse_fields]. Qed.

Lemma Grammar_functional s y1 d1 y2 d2 : Grammar s y1 d1 -> Grammar s y2 d2 -> y1 = y2 /\ d1 = d2.
Proof. intros H1 H2. apply grammar_parse_fields in H1, H2. rewrite H1 in H2. injection H2 as -> ->. split; reflexivity. Qed.

Lemma Grammar_ranges s y diny :
  Grammar s y diny -> in_i32 y /\ match diny with inner_DayInYear_Ordinal o => in_u32 o | inner_DayInYear_Date _ d => in_u32 d end.
Proof. destruct 1; split; assumption. Qed.

(* ================================================================ 6. Calendar::parse_date *)
Definition in_grammar (s : list Z) : Prop := exists y diny, Grammar s y diny.

(* parse_date stopped before calling a constructor *)
Definition syntax_error (r : M (Result Date ParseDateError)) : Prop :=
  exists e, r = Ret (Err e) /\ syntactic e.

Lemma construct_date_not_syntax c y diny : ~ syntax_error (construct_date c y diny).
Proof.
  intros (e & H & He). unfold construct_date in H. destruct diny as [o | m d].
  - destruct (Calendar_at_ordinal_date c y o) as [[dt|e']|]; cbn [bind lift_date_result] in H; try discriminate.
    injection H as <-. exact He.
  - destruct (Calendar_at_ymd c y m d) as [[dt|e']|]; cbn [bind lift_date_result] in H; try discriminate.
    injection H as <-. exact He.
Qed.

Lemma parse_date_of_grammar c s y diny : Grammar s y diny -> parse_date c s = construct_date c y diny.
Proof. intros H. unfold parse_date. rewrite (grammar_parse_fields _ _ _ H). reflexivity. Qed.

Lemma parse_date_not_grammar c s : ~ in_grammar s -> syntax_error (parse_date c s).
Proof.
  intros H. unfold parse_date. destruct (parse_fields s) as [[y diny]|e] eqn:E.
  - exfalso. apply H. exists y, diny. apply parse_fields_grammar. assumption.
  - exists e. split; [reflexivity | eapply parse_fields_err; eassumption].
Qed.

Lemma in_grammar_dec s : in_grammar s \/ ~ in_grammar s.
Proof.
  destruct (parse_fields s) as [[y diny]|e] eqn:E.
  - left. exists y, diny. apply parse_fields_grammar. assumption.
  - right. intros (y & diny & G). apply grammar_parse_fields in G. congruence.
Qed.

Lemma grammar_iff c s : in_grammar s <-> ~ syntax_error (parse_date c s).
Proof.
  split.
  - intros (y & diny & G). rewrite (parse_date_of_grammar c _ _ _ G). apply construct_date_not_syntax.
  - intros H. destruct (in_grammar_dec s) as [|N]; [assumption|]. exfalso. apply H. apply parse_date_not_grammar. assumption.
Qed.

Definition ymd_no_panic (c : Calendar) : Prop :=
  forall y m d, in_i32 y -> in_u32 d -> Calendar_at_ymd c y m d <> Panic.
Definition ordinal_no_panic (c : Calendar) : Prop :=
  forall y o, in_i32 y -> in_u32 o -> Calendar_at_ordinal_date c y o <> Panic.

(* what parse_date answers when it got as far as a constructor *)
Definition semantic_answer (r : M (Result Date ParseDateError)) : Prop :=
  (exists d, r = Ret (Ok d)) \/ (exists e, r = Ret (Err (PDE_InvalidDate e))).

Lemma construct_date_semantic c y diny :
  ymd_no_panic c -> ordinal_no_panic c -> in_i32 y ->
  match diny with inner_DayInYear_Ordinal o => in_u32 o | inner_DayInYear_Date _ d => in_u32 d end ->
  semantic_answer (construct_date c y diny).
Proof.
  intros Hy Ho Ry Rd. unfold construct_date, semantic_answer. destruct diny as [o | m d].
  - specialize (Ho y o Ry Rd). destruct (Calendar_at_ordinal_date c y o) as [[dt|e']|]; cbn [bind lift_date_result];
      [left; eexists; reflexivity | right; eexists; reflexivity | congruence].
  - specialize (Hy y m d Ry Rd). destruct (Calendar_at_ymd c y m d) as [[dt|e']|]; cbn [bind lift_date_result];
      [left; eexists; reflexivity | right; eexists; reflexivity | congruence].
Qed.

Lemma semantic_not_syntax r : semantic_answer r -> ~ syntax_error r.
Proof.
  intros [(d & ->) | (e & ->)] (e' & H & He); [discriminate|]. injection H as <-. exact He.
Qed.

Lemma grammar_accept c s :
  ymd_no_panic c -> ordinal_no_panic c -> (in_grammar s <-> semantic_answer (parse_date c s)).
Proof.
  intros Hy Ho. split.
  - intros (y & diny & G). rewrite (parse_date_of_grammar c _ _ _ G).
    destruct (Grammar_ranges _ _ _ G). apply construct_date_semantic; assumption.
  - intros H. apply (grammar_iff c). apply semantic_not_syntax. assumption.
Qed.

Lemma parse_date_total c s : ymd_no_panic c -> ordinal_no_panic c -> parse_date c s <> Panic.
Proof.
  intros Hy Ho. destruct (in_grammar_dec s) as [G | N].
  - apply (grammar_accept c s Hy Ho) in G. destruct G as [(d & ->) | (e & ->)]; discriminate.
  - apply (parse_date_not_grammar c) in N. destruct N as (e & -> & _). discriminate.
Qed.

(* the whole statement of C13_grammar for one calendar and one text *)
Definition grammar_statement (c : Calendar) (s : list Z) : Prop :=
  (* texts of the grammar are handed to the constructor with exactly the numbers they denote *)
  (forall y diny, Grammar s y diny -> parse_date c s = construct_date c y diny) /\
  (* the numbers are determined by the text *)
  (forall y1 d1 y2 d2, Grammar s y1 d1 -> Grammar s y2 d2 -> y1 = y2 /\ d1 = d2) /\
  (* every other text gives a syntactic error, and only those do *)
  (in_grammar s <-> ~ syntax_error (parse_date c s)) /\
  (~ in_grammar s -> syntax_error (parse_date c s)) /\
  (* if the constructors cannot panic: accepted-or-InvalidDate iff in the grammar *)
  (ymd_no_panic c -> ordinal_no_panic c -> (in_grammar s <-> semantic_answer (parse_date c s))).

Lemma grammar_thm c s : grammar_statement c s.
Proof.
  repeat split.
  - apply parse_date_of_grammar.
  - eapply Grammar_functional; eassumption.
  - eapply Grammar_functional; eassumption.
  - apply grammar_iff.
  - apply grammar_iff.
  - apply parse_date_not_grammar.
  - apply grammar_accept; assumption.
  - apply grammar_accept; assumption.
Qed.

(* ================================================================ 7. Display *)
Definition sign_of (y : Z) : Sign := if y <? 0 then SgMinus else SgNone.

Lemma show_date_text d :
  show_date d = Ret (sign_codes (sign_of (Date_f_year d)) ++ show_u 4 (Z.abs (Date_f_year d)) ++ [45] ++
                     show_u 2 (Month_discr (Date_f_month d)) ++ [45] ++ show_u 2 (Date_f_day d)).
Proof.
  unfold show_date, show_date_gen, Date_year, Date_month, Month_number, Date_day, sign_of. cbn [bind].
  destruct (Date_f_year d <? 0) eqn:E; cbn [sign_codes].
  - rewrite <- !app_assoc. reflexivity.
  - rewrite Z.abs_eq by lia. rewrite <- !app_assoc. reflexivity.
Qed.

Lemma show_date_alt_text d :
  show_date_alt d = Ret (sign_codes (sign_of (Date_f_year d)) ++ show_u 4 (Z.abs (Date_f_year d)) ++ [45] ++
                         show_u 3 (Date_f_ordinal d)).
Proof.
  unfold show_date_alt, show_date_gen, Date_year, Date_ordinal, sign_of. cbn [bind].
  destruct (Date_f_year d <? 0) eqn:E; cbn [sign_codes].
  - rewrite <- !app_assoc. reflexivity.
  - rewrite Z.abs_eq by lia. rewrite <- !app_assoc. reflexivity.
Qed.

Definition display_shape_statement : Prop :=
  (forall d,
     show_date d = Ret (sign_codes (sign_of (Date_f_year d)) ++ show_u 4 (Z.abs (Date_f_year d)) ++ [45] ++
                        show_u 2 (Month_discr (Date_f_month d)) ++ [45] ++ show_u 2 (Date_f_day d)) /\
     show_date_alt d = Ret (sign_codes (sign_of (Date_f_year d)) ++ show_u 4 (Z.abs (Date_f_year d)) ++ [45] ++
                            show_u 3 (Date_f_ordinal d))) /\
  (* show_u w n is THE decimal numeral of n padded with zeros to w digits *)
  (forall w n, 0 <= n -> padded_decimal w n (show_u w n)) /\
  (forall w n s t, padded_decimal w n s -> padded_decimal w n t -> s = t).

Lemma display_shape : display_shape_statement.
Proof.
  repeat split; try apply show_date_text; try apply show_date_alt_text; try (apply show_u_padded; assumption).
  apply padded_decimal_unique.
Qed.

(* ================================================================ 8. round trip *)
Lemma signed_value_show y : signed_value (sign_of y) (show_u 4 (Z.abs y)) = y.
Proof.
  unfold signed_value, sign_of. destruct (y <? 0) eqn:E; rewrite show_u_value by lia; lia.
Qed.

Lemma show_grammar_ymd y m day :
  in_i32 y -> in_u32 day ->
  Grammar (sign_codes (sign_of y) ++ show_u 4 (Z.abs y) ++ [45] ++ show_u 2 (Month_discr m) ++ [45] ++ show_u 2 day)
          y (inner_DayInYear_Date m day).
Proof.
  intros Hy Hd.
  assert (Hm : 0 <= Month_discr m) by (destruct m; cbn; lia).
  assert (Hday : 0 <= day) by (unfold in_u32 in Hd; lia).
  pose proof (G_ymd (sign_of y) (show_u 4 (Z.abs y)) (show_u 2 (Month_discr m)) (show_u 2 day) m) as G.
  rewrite signed_value_show, !show_u_value in G by lia.
  apply G; try apply show_u_nonempty; try (apply show_u_digits; lia); try assumption; reflexivity.
Qed.

Lemma show_grammar_ordinal y o :
  in_i32 y -> in_u32 o ->
  Grammar (sign_codes (sign_of y) ++ show_u 4 (Z.abs y) ++ [45] ++ show_u 3 o) y (inner_DayInYear_Ordinal o).
Proof.
  intros Hy Ho.
  assert (Hord : 0 <= o) by (unfold in_u32 in Ho; lia).
  pose proof (G_ordinal (sign_of y) (show_u 4 (Z.abs y)) (show_u 3 o)) as G.
  rewrite signed_value_show, !show_u_value in G by lia.
  apply G; try apply show_u_nonempty; try (apply show_u_digits; lia); assumption.
Qed.

Definition roundtrip_statement : Prop :=
  (forall c d txt,
     in_i32 (Date_f_year d) -> in_u32 (Date_f_day d) -> show_date d = Ret txt ->
     parse_date c txt =
     (r <- Calendar_at_ymd c (Date_f_year d) (Date_f_month d) (Date_f_day d);; Ret (lift_date_result r))) /\
  (forall c d txt,
     in_i32 (Date_f_year d) -> in_u32 (Date_f_ordinal d) -> show_date_alt d = Ret txt ->
     parse_date c txt =
     (r <- Calendar_at_ordinal_date c (Date_f_year d) (Date_f_ordinal d);; Ret (lift_date_result r))) /\
  (* rendering never panics *)
  (forall d, exists txt alt, show_date d = Ret txt /\ show_date_alt d = Ret alt).

Lemma roundtrip : roundtrip_statement.
Proof.
  repeat split.
  - intros c d txt Hy Hd H. rewrite show_date_text in H. injection H as <-.
    exact (parse_date_of_grammar c _ _ _ (show_grammar_ymd _ (Date_f_month d) _ Hy Hd)).
  - intros c d txt Hy Ho H. rewrite show_date_alt_text in H. injection H as <-.
    exact (parse_date_of_grammar c _ _ _ (show_grammar_ordinal _ _ Hy Ho)).
  - intros d. do 2 eexists. split; [apply show_date_text | apply show_date_alt_text].
Qed.

(* with the constructors' own round-trip property (proved elsewhere from the core theorems) as a hypothesis *)
Definition roundtrip_canonical_statement : Prop :=
  (forall d txt,
     in_i32 (Date_f_year d) -> in_u32 (Date_f_day d) ->
     Calendar_at_ymd (Date_f_calendar d) (Date_f_year d) (Date_f_month d) (Date_f_day d) = Ret (Ok d) ->
     show_date d = Ret txt -> parse_date (Date_f_calendar d) txt = Ret (Ok d)) /\
  (forall d txt,
     in_i32 (Date_f_year d) -> in_u32 (Date_f_ordinal d) ->
     Calendar_at_ordinal_date (Date_f_calendar d) (Date_f_year d) (Date_f_ordinal d) = Ret (Ok d) ->
     show_date_alt d = Ret txt -> parse_date (Date_f_calendar d) txt = Ret (Ok d)).

Lemma roundtrip_canonical : roundtrip_canonical_statement.
Proof.
  destruct roundtrip as (R1 & R2 & _). split.
  - intros d txt Hy Hd Hc Hs. rewrite (R1 _ _ _ Hy Hd Hs), Hc. reflexivity.
  - intros d txt Hy Ho Hc Hs. rewrite (R2 _ _ _ Hy Ho Hs), Hc. reflexivity.
Qed.

(* ================================================================ 9. totality *)
Definition total_statement : Prop :=
  forall c s,
    (forall y m d, in_i32 y -> in_u32 d -> Calendar_at_ymd c y m d <> Panic) ->
    (forall y o, in_i32 y -> in_u32 o -> Calendar_at_ordinal_date c y o <> Panic) ->
    parse_date c s <> Panic.

Lemma total : total_statement.
Proof. intros c s Hy Ho. apply parse_date_total; assumption. Qed.

(* ================================================================ 10. non-vacuity examples *)
(* --- display_shape: the shape is met by concrete dates, including a negative and a 5-digit year *)
Example display_ex1 :
  exists d, Calendar_at_jdn Calendar_REFORM1582 0 = Ret d /\
            show_date d = Ret (codes "-4712-01-01") /\ show_date_alt d = Ret (codes "-4712-001").
Proof. eexists. split; [vm_compute; reflexivity | split; vm_compute; reflexivity]. Qed.
Example display_ex2 :
  exists d, Calendar_at_jdn Calendar_GREGORIAN 5373484 = Ret d /\
            show_date d = Ret (codes "9999-12-31") /\ show_date_alt d = Ret (codes "9999-365").
Proof. eexists. split; [vm_compute; reflexivity | split; vm_compute; reflexivity]. Qed.
Example display_ex3 :
  exists d, Calendar_at_jdn Calendar_GREGORIAN 5373485 = Ret d /\
            show_date d = Ret (codes "10000-01-01") /\ show_date_alt d = Ret (codes "10000-001").
Proof. eexists. split; [vm_compute; reflexivity | split; vm_compute; reflexivity]. Qed.
Example display_ex4 : padded_decimal 4 44 (codes "0044") /\ ~ padded_decimal 4 44 (codes "00044") /\ ~ padded_decimal 4 44 (codes "44").
Proof.
  split; [exact (show_u_padded 4 44 ltac:(lia))|]. split.
  - intros H. pose proof (padded_decimal_unique _ _ _ _ H (show_u_padded 4 44 ltac:(lia))). discriminate.
  - intros (_ & _ & _ & H & _). cbn in H. lia.
Qed.

(* --- grammar: members, with the numbers they denote *)
Example grammar_ex1 : Grammar (codes "2023-04-30") 2023 (inner_DayInYear_Date Month_April 30).
Proof. apply parse_fields_grammar. reflexivity. Qed.
Example grammar_ex2 : Grammar (codes "-0044-075") (-44) (inner_DayInYear_Ordinal 75).
Proof. apply parse_fields_grammar. reflexivity. Qed.
Example grammar_ex3 : Grammar (codes "+2147483647-000012-4294967295") 2147483647 (inner_DayInYear_Date Month_December 4294967295).
Proof. apply parse_fields_grammar. reflexivity. Qed.
Example grammar_ex4 : Grammar (codes "-2147483648-1") (-2147483648) (inner_DayInYear_Ordinal 1).
Proof. apply parse_fields_grammar. reflexivity. Qed.
Example grammar_ex5 :
  exists d, parse_date Calendar_REFORM1582 (codes "1582-10-15") = Ret (Ok d) /\ Date_f_jdn d = 2299161.
Proof. eexists. split; [vm_compute; reflexivity | reflexivity]. Qed.
(* in the grammar but not a date of the calendar: the error comes from the constructor *)
Example grammar_ex6 :
  in_grammar (codes "1582-10-10") /\
  parse_date Calendar_REFORM1582 (codes "1582-10-10") = Ret (Err (PDE_InvalidDate (DateError_SkippedDate 1582 Month_October 10))).
Proof. split; [do 2 eexists; apply parse_fields_grammar; reflexivity | vm_compute; reflexivity]. Qed.

(* --- grammar: non-members, one for each syntactic error (the answer does not depend on the calendar) *)
Local Ltac not_member := intros (y & diny & G); apply grammar_parse_fields in G; vm_compute in G; discriminate.
Example syntax_ex1 c : ~ in_grammar (codes "") /\ parse_date c (codes "") = Ret (Err PDE_EmptyInt).
Proof. split; [not_member | reflexivity]. Qed.
Example syntax_ex2 c : ~ in_grammar (codes "x") /\ parse_date c (codes "x") = Ret (Err (PDE_InvalidIntStart 120)).
Proof. split; [not_member | reflexivity]. Qed.
Example syntax_ex3 c : ~ in_grammar (codes "-") /\ parse_date c (codes "-") = Ret (Err (PDE_ParseInt IEK_InvalidDigit)).
Proof. split; [not_member | reflexivity]. Qed.
Example syntax_ex4 c : ~ in_grammar (codes "2147483648-01-01") /\
                       parse_date c (codes "2147483648-01-01") = Ret (Err (PDE_ParseInt IEK_PosOverflow)).
Proof. split; [not_member | reflexivity]. Qed.
Example syntax_ex5 c : ~ in_grammar (codes "-2147483649-01-01") /\
                       parse_date c (codes "-2147483649-01-01") = Ret (Err (PDE_ParseInt IEK_NegOverflow)).
Proof. split; [not_member | reflexivity]. Qed.
Example syntax_ex6 c : ~ in_grammar (codes "2023") /\ parse_date c (codes "2023") = Ret (Err (PDE_UnexpectedEnd 45)).
Proof. split; [not_member | reflexivity]. Qed.
Example syntax_ex7 c : ~ in_grammar (codes "2023/04/30") /\ parse_date c (codes "2023/04/30") = Ret (Err (PDE_UnexpectedChar 45 47)).
Proof. split; [not_member | reflexivity]. Qed.
Example syntax_ex8 c : ~ in_grammar (codes "2023-") /\ parse_date c (codes "2023-") = Ret (Err PDE_EmptyInt).
Proof. split; [not_member | reflexivity]. Qed.
Example syntax_ex9 c : ~ in_grammar (codes "2023--4") /\ parse_date c (codes "2023--4") = Ret (Err (PDE_InvalidUIntStart 45)).
Proof. split; [not_member | reflexivity]. Qed.
Example syntax_ex10 c : ~ in_grammar (codes "2023-13-01") /\ parse_date c (codes "2023-13-01") = Ret (Err (PDE_InvalidMonth 13)).
Proof. split; [not_member | reflexivity]. Qed.
Example syntax_ex11 c : ~ in_grammar (codes "2023-00x") /\ parse_date c (codes "2023-00x") = Ret (Err (PDE_InvalidMonth 0)).
Proof. split; [not_member | reflexivity]. Qed.
Example syntax_ex12 c : ~ in_grammar (codes "2023-04-30 ") /\ parse_date c (codes "2023-04-30 ") = Ret (Err PDE_Trailing).
Proof. split; [not_member | reflexivity]. Qed.
Example syntax_ex13 c : ~ in_grammar (codes "2023-04-4294967296") /\
                        parse_date c (codes "2023-04-4294967296") = Ret (Err (PDE_ParseInt IEK_PosOverflow)).
Proof. split; [not_member | reflexivity]. Qed.
(* ARABIC-INDIC DIGIT THREE and MINUS SIGN are not accepted *)
Example syntax_ex14 c : ~ in_grammar [50; 48; 50; 1635; 45; 49] /\
                        parse_date c [50; 48; 50; 1635; 45; 49] = Ret (Err (PDE_UnexpectedChar 45 1635)).
Proof. split; [not_member | reflexivity]. Qed.
Example syntax_ex15 c : ~ in_grammar [8722; 52; 52; 45; 49] /\
                        parse_date c [8722; 52; 52; 45; 49] = Ret (Err (PDE_InvalidIntStart 8722)).
Proof. split; [not_member | reflexivity]. Qed.

(* --- round trip: hypotheses satisfiable, conclusion as expected, for the three kinds of calendar *)
Example roundtrip_ex1 :
  exists d txt, Calendar_at_jdn Calendar_REFORM1582 2299160 = Ret d /\
    in_i32 (Date_f_year d) /\ in_u32 (Date_f_day d) /\ in_u32 (Date_f_ordinal d) /\
    Calendar_at_ymd (Date_f_calendar d) (Date_f_year d) (Date_f_month d) (Date_f_day d) = Ret (Ok d) /\
    show_date d = Ret txt /\ txt = codes "1582-10-04" /\ parse_date (Date_f_calendar d) txt = Ret (Ok d).
Proof.
  do 2 eexists. split; [vm_compute; reflexivity|]. split; [vm_compute; split; discriminate|].
  split; [vm_compute; split; discriminate|]. split; [vm_compute; split; discriminate|].
  split; [vm_compute; reflexivity|]. split; [vm_compute; reflexivity|]. split; vm_compute; reflexivity.
Qed.
Example roundtrip_ex2 :
  exists d txt, Calendar_at_jdn Calendar_JULIAN (-100000) = Ret d /\
    Calendar_at_ordinal_date (Date_f_calendar d) (Date_f_year d) (Date_f_ordinal d) = Ret (Ok d) /\
    show_date_alt d = Ret txt /\ txt = codes "-4986-079" /\ parse_date (Date_f_calendar d) txt = Ret (Ok d).
Proof.
  do 2 eexists. split; [vm_compute; reflexivity|]. split; [vm_compute; reflexivity|].
  split; [vm_compute; reflexivity|]. split; vm_compute; reflexivity.
Qed.

(* --- totality: the conclusion on inputs of every kind (computed) *)
Example total_ex1 :
  parse_date Calendar_GREGORIAN (codes "2023-02-30") =
  Ret (Err (PDE_InvalidDate (DateError_DayOutOfRange 2023 Month_February 30 1 28))).
Proof. vm_compute. reflexivity. Qed.
Example total_ex2 :
  parse_date Calendar_GREGORIAN (codes "2147483647-001") = Ret (Err (PDE_InvalidDate DateError_Arithmetic)).
Proof. vm_compute. reflexivity. Qed.
