(* Core.v — the lemmas that the core property files (Properties/C*_core.v) cite, assembled from the
   refinement results (AtJdn, AtYmd, Year, Month, Reform, SuccPred, Boundary) and the spec-level facts. *)
From JV Require Import Sem Gen Spec SpecX.
From JV.Proofs Require Import SpecFacts GapFacts Cal Cmp Inner Year MonthGeom Shape Month MonthSpec SpecSums Walk SpecOrd SpecInv AtJdn AtYmd SpecSets SpecStep SuccPred Reform Boundary.
Import ListNotations.
Open Scope Z_scope.
Ltac Zify.zify_post_hook ::= Z.to_euclidean_division_equations.

(* ------------------------------------------------------------------ round trip *)
Lemma ordinal_fwd c j : ValidCal c -> jdn_of_ordinal c (l_year (lbl c j)) (ordinal_of c j) = j.
Proof.
  intros V. unfold jdn_of_ordinal, ordinal_of. rewrite lbl_year_eq.
  pose proof (jyear_spec j) as JS. pose proof (gyear_spec j) as GS.
  pose proof (J0_step (jyear j)). pose proof (G0_step (gyear j)).
  destruct (is_old c j) eqn:IO.
  - assert (j - J0 (jyear j) + 1 <= old_days c (jyear j)).
    { destruct c as [| |r]; cbn [is_old old_days] in *; try discriminate; lia. }
    replace (j - J0 (jyear j) + 1 <=? old_days c (jyear j)) with true by lia. lia.
  - assert (new_start c (gyear j) <= j /\ 0 <= old_days c (gyear j)).
    { pose proof (ylen_bounds (jleap (gyear j))). destruct c as [| |r]; cbn [is_old new_start old_days] in *; try discriminate; lia. }
    replace (old_days c (gyear j) + (j - new_start c (gyear j)) + 1 <=? old_days c (gyear j)) with false by lia. lia.
Qed.

Lemma chk_jdn_in v : in_i32 v -> chk_jdn v = Some v.
Proof. intros H. unfold chk_jdn. apply in_i32b_iff in H. rewrite H. reflexivity. Qed.

Lemma at_ordinal_date_of c j : ValidCal c -> in_i32 j ->
  at_ordinal_date_spec c (l_year (lbl c j)) (ordinal_of c j) = Ok (date_of c j).
Proof.
  intros V Hj. destruct (ordinal_closed c j V) as [B O]. set (y := l_year (lbl c j)) in *.
  unfold at_ordinal_date_spec. replace ((ordinal_of c j <? 1) || (year_count c y <? ordinal_of c j)) with false by lia.
  unfold date_result. unfold y. rewrite ordinal_fwd by exact V. rewrite chk_jdn_in by exact Hj. reflexivity.
Qed.

Lemma at_ymd_of c j : ValidCal c -> in_i32 j ->
  at_ymd_spec c (l_year (lbl c j)) (month_of_Z (l_month (lbl c j))) (l_day (lbl c j)) = Ok (date_of c j).
Proof.
  intros V Hj. pose proof (ord_locate c j V) as OL. unfold OrdLocate in OL. pose proof (ordinal_fwd c j V) as OF.
  destruct (lbl c j) as [[y m] d] eqn:EL. cbn [l_year l_month l_day fst snd] in *. destruct OL as (Mr & B & DO & NTH).
  unfold at_ymd_spec. rewrite Month_discr_of_Z by exact Mr.
  pose proof (msum_succ c y m Mr) as S. pose proof (month_count_range c y m) as MC.
  assert (Ex : 0 < month_count c y m) by lia.
  replace (month_count c y m =? 0) with false by lia.
  pose proof (shape_of_wf c y m V Mr Ex) as W. pose proof (shape_of_len c y m V Mr Ex) as SL.
  assert (PR : 1 <= day_ordinal_of c j <= sh_len (shape_of c y m)) by lia.
  assert (In : sh_in (shape_of c y m) d = true) by (rewrite <- NTH; apply sh_nth_in; assumption).
  assert (Ord : sh_ord (shape_of c y m) d = day_ordinal_of c j) by (rewrite <- NTH; apply sh_ord_nth; assumption).
  unfold sh_day_err. rewrite In, Ord. unfold date_result.
  replace (msum c y m + day_ordinal_of c j) with (ordinal_of c j) by lia. rewrite OF. rewrite chk_jdn_in by exact Hj. reflexivity.
Qed.

Lemma lbl_valid c j : 1 <= l_month (lbl c j) <= 12 /\ 1 <= l_day (lbl c j) <= 31.
Proof.
  unfold lbl. destruct (is_old c j).
  - pose proof (jlabel_valid j) as V. destruct (jlabel j) as [[y m] d]. destruct V as [[Vm Vd] _]. pose proof (mlen_bounds (jleap y) m). cbn. lia.
  - pose proof (glabel_valid j) as V. destruct (glabel j) as [[y m] d]. destruct V as [[Vm Vd] _]. pose proof (mlen_bounds (gleap y) m). cbn. lia.
Qed.

Theorem roundtrip c j : ValidCal c -> in_i32 j ->
  exists d, Calendar_at_jdn (cal_of c) j = Ret d /\ Date_f_jdn d = j /\
    Calendar_at_ymd (cal_of c) (Date_f_year d) (Date_f_month d) (Date_f_day d) = Ret (Ok d) /\
    Calendar_at_ordinal_date (cal_of c) (Date_f_year d) (Date_f_ordinal d) = Ret (Ok d).
Proof.
  intros V Hj. exists (date_of c j). destruct (date_of_fields c j) as (Fc & Fy & Fo & Fj & Fm & Fd & Fdo).
  rewrite Fy, Fo, Fm, Fd, Fj. split; [apply at_jdn_ok; assumption|]. split; [reflexivity|].
  assert (Hy : in_i32 (l_year (lbl c j))) by (apply year_i32; exact Hj).
  pose proof (lbl_valid c j) as [_ LD]. destruct (ordinal_closed c j V) as [B O]. pose proof (year_count_le c (l_year (lbl c j))) as [YC _].
  split.
  - rewrite at_ymd_ok by (try assumption; range). rewrite at_ymd_of by assumption. reflexivity.
  - rewrite at_ordinal_date_ok by (try assumption; range). rewrite at_ordinal_date_of by assumption. reflexivity.
Qed.

Theorem ymd_injective c j1 j2 d1 d2 : ValidCal c -> in_i32 j1 -> in_i32 j2 ->
  Calendar_at_jdn (cal_of c) j1 = Ret d1 -> Calendar_at_jdn (cal_of c) j2 = Ret d2 ->
  Date_f_year d1 = Date_f_year d2 -> Date_f_month d1 = Date_f_month d2 -> Date_f_day d1 = Date_f_day d2 -> j1 = j2.
Proof.
  intros V H1 H2 E1 E2 Ey Em Ed. rewrite at_jdn_ok in E1, E2 by assumption. inversion E1; inversion E2; subst d1 d2.
  destruct (date_of_fields c j1) as (_ & Fy1 & _ & _ & Fm1 & Fd1 & _). destruct (date_of_fields c j2) as (_ & Fy2 & _ & _ & Fm2 & Fd2 & _).
  rewrite Fy1, Fy2 in Ey. rewrite Fm1, Fm2 in Em. rewrite Fd1, Fd2 in Ed.
  pose proof (lbl_valid c j1) as [M1 _]. pose proof (lbl_valid c j2) as [M2 _].
  apply (f_equal Month_discr) in Em. rewrite !Month_discr_of_Z in Em by assumption.
  apply (lbl_inj c); [exact V|]. destruct (lbl c j1) as [[y1 m1] dd1], (lbl c j2) as [[y2 m2] dd2]. cbn [l_year l_month l_day fst snd] in *. congruence.
Qed.

Theorem configurations k : WfCal k <->
  (k = Calendar_JULIAN \/ k = Calendar_GREGORIAN \/ exists r, in_i32 r /\ Calendar_reforming r = Ret (Ok k)).
Proof.
  split.
  - intros (c & V & ->). destruct c as [| |r]; [left; reflexivity|right; left; reflexivity|right; right].
    exists r. cbn [ValidCal] in V. unfold ValidR in V. split; [range|]. rewrite reforming_ok by range. unfold reforming_spec.
    replace (r <? 1830692) with false by lia. replace (2147439588 <? r) with false by lia. reflexivity.
  - intros [->|[->|(r & Hr & E)]]; [exists CJ; split; [exact I|reflexivity]|exists CG; split; [exact I|reflexivity]|].
    rewrite reforming_ok in E by exact Hr. unfold reforming_spec in E.
    destruct (Z.ltb_spec r 1830692); [discriminate|]. destruct (Z.ltb_spec 2147439588 r); [discriminate|].
    inversion E. exists (CR r). split; [cbn; unfold ValidR; lia|reflexivity].
Qed.

(* ------------------------------------------------------------------ C02: proleptic calendars *)
Lemma at_jdn_label c j : ValidCal c -> in_i32 j ->
  exists d, Calendar_at_jdn (cal_of c) j = Ret d /\
    (Date_f_year d, Month_discr (Date_f_month d), Date_f_day d) = lbl c j /\ Date_f_jdn d = j /\ Date_f_calendar d = cal_of c.
Proof.
  intros V Hj. exists (date_of c j). split; [apply at_jdn_ok; assumption|].
  destruct (date_of_fields c j) as (Fc & Fy & _ & Fj & Fm & Fd & _). rewrite Fy, Fm, Fd, Fj, Fc.
  pose proof (lbl_valid c j) as [Mr _]. rewrite Month_discr_of_Z by exact Mr.
  destruct (lbl c j) as [[y m] d]. repeat split; reflexivity.
Qed.

Lemma year_kind_proleptic y : in_i32 y ->
  Calendar_year_kind Calendar_JULIAN y = Ret (if jleap y then YearKind_Leap else YearKind_Common) /\
  Calendar_year_kind Calendar_GREGORIAN y = Ret (if gleap y then YearKind_Leap else YearKind_Common).
Proof.
  intros Hy. unfold Calendar_year_kind. cbn [Calendar_JULIAN Calendar_GREGORIAN Calendar_f_0].
  rewrite is_julian_leap_year_ok, is_gregorian_leap_year_ok. cbn [bind]. destruct (jleap y), (gleap y); split; reflexivity.
Qed.
Lemma jleap_iff y : jleap y = true <-> y mod 4 = 0. Proof. unfold jleap. lia. Qed.
Lemma gleap_iff y : gleap y = true <-> (y mod 4 = 0 /\ (y mod 100 <> 0 \/ y mod 400 = 0)). Proof. unfold gleap. lia. Qed.

Definition proleptic_at_ymd (c : cal) (leap : Z -> bool) (jdn_of : Z -> Z -> Z -> Z) (y : Z) (m : Month) (d : Z) : Result Date DateError :=
  let mz := Month_discr m in
  if (1 <=? d) && (d <=? mlen (leap y) mz)
  then (if in_i32b (jdn_of y mz d) then Ok (date_of c (jdn_of y mz d)) else Err DateError_Arithmetic)
  else Err (DateError_DayOutOfRange y m d 1 (mlen (leap y) mz)).

Lemma at_ymd_proleptic c leap jdn_of Y0 y m d :
  (c = CJ /\ leap = jleap /\ jdn_of = jdn_j /\ Y0 = J0) \/ (c = CG /\ leap = gleap /\ jdn_of = jdn_g /\ Y0 = G0) ->
  in_i32 y -> in_u32 d ->
  Calendar_at_ymd (cal_of c) y m d = Ret (proleptic_at_ymd c leap jdn_of y m d).
Proof.
  intros Hc Hy Hd. assert (V : ValidCal c) by (destruct Hc as [[-> _]|[-> _]]; exact I).
  rewrite at_ymd_ok by assumption. f_equal. unfold at_ymd_spec, proleptic_at_ymd.
  pose proof (Month_discr_range m) as Mr. set (mz := Month_discr m) in *.
  pose proof (mlen_bounds (leap y) mz) as ML.
  assert (MC : month_count c y mz = mlen (leap y) mz /\ shape_of c y mz = inner_MonthShape_Normal (mlen (leap y) mz)
               /\ forall p, 1 <= p <= mlen (leap y) mz -> jdn_of_ordinal c y (msum c y mz + p) = jdn_of y mz p).
  { destruct Hc as [(-> & -> & -> & ->)|(-> & -> & -> & ->)].
    - unfold month_count, shape_of, shape_from. cbn [old_mdays new_mdays new_mfirst natural_len]. rewrite !Z.eqb_refl.
      split; [lia|]. split; [reflexivity|]. intros p Hp. rewrite msum_closed by lia. cbn [osum nsum]. rewrite cum13_cum by exact Mr.
      unfold jdn_of_ordinal, jdn_j. cbn [old_days]. pose proof (cum_bounds (jleap y) mz Mr). replace (cum (jleap y) mz + 0 + p <=? ylen (jleap y)) with true by lia. lia.
    - unfold month_count, shape_of, shape_from. cbn [old_mdays new_mdays new_mfirst natural_len].
      replace (Z.max 0 (mlen (gleap y) mz - 1 + 1)) with (mlen (gleap y) mz) by lia.
      replace (mlen (gleap y) mz =? 0) with false by lia. change (0 =? 0) with true. change (1 =? 1) with true.
      split; [lia|]. split; [reflexivity|]. intros p Hp. rewrite msum_closed by lia. cbn [osum nsum]. rewrite cum13_cum by exact Mr.
      unfold jdn_of_ordinal, jdn_g. cbn [old_days new_start]. pose proof (cum_bounds (gleap y) mz Mr). replace (0 + cum (gleap y) mz + p <=? 0) with false by lia. lia. }
  destruct MC as (MC & SH & JO). rewrite MC, SH. replace (mlen (leap y) mz =? 0) with false by lia.
  unfold sh_day_err. cbn [sh_in sh_ord sh_natural sh_last sh_first].
  destruct ((1 <=? d) && (d <=? mlen (leap y) mz)) eqn:In; [|reflexivity].
  unfold date_result, chk_jdn. rewrite JO by lia. destruct (in_i32b (jdn_of y mz d)); reflexivity.
Qed.

(* ------------------------------------------------------------------ C03 *)
Lemma reforming_labels r j : lbl (CR r) j = if j <? r then lbl CJ j else lbl CG j.
Proof. unfold lbl. cbn [is_old]. destruct (j <? r); reflexivity. Qed.

Lemma skips_forward r : ValidR r -> lex_lt (lbl (CR r) (r - 1)) (lbl (CR r) r).
Proof. intros V. apply lbl_mono; [exact V|lia]. Qed.

(* ------------------------------------------------------------------ C07: classification of construction requests *)
Definition first_day_of (c : cal) (y m : Z) : Z := if 0 <? old_mdays c y m then 1 else new_mfirst c y m.
Definition last_day_of (c : cal) (y m : Z) : Z := if 0 <? new_mdays c y m then mlen (gleap y) m else old_mdays c y m.
Definition jdn_of_ymd (c : cal) (y m d : Z) : Z := if d <=? old_mdays c y m then jdn_j y m d else jdn_g y m d.

Definition at_ymd_class (c : cal) (y : Z) (m : Month) (d : Z) : Result Date DateError :=
  let mz := Month_discr m in
  if month_count c y mz =? 0 then Err (DateError_SkippedDate y m d)
  else if incalb c y mz d then date_result c (jdn_of_ymd c y mz d)
  else if (1 <=? d) && (d <=? natural_len c y mz) then Err (DateError_SkippedDate y m d)
  else Err (DateError_DayOutOfRange y m d (first_day_of c y mz) (last_day_of c y mz)).

Lemma shape_first_last c y m : ValidCal c -> 1 <= m <= 12 -> 0 < month_count c y m ->
  sh_first (shape_of c y m) = first_day_of c y m /\ sh_last (shape_of c y m) = last_day_of c y m.
Proof.
  intros V Mr Ex. destruct (month_facts c y m V Mr) as [O F N NL OO NN GP]. unfold month_count in Ex.
  unfold shape_of, shape_from, first_day_of, last_day_of. pose proof (mlen_bounds (gleap y) m).
  destruct (Z.eqb_spec (new_mdays c y m) 0) as [N0|N0].
  - replace (0 <? new_mdays c y m) with false by lia. replace (0 <? old_mdays c y m) with true by lia.
    destruct (Z.eqb_spec (old_mdays c y m) (natural_len c y m)); cbn [sh_first sh_last]; lia.
  - assert (Np : 0 < new_mdays c y m) by (destruct N as [N|[_ [N _]]]; lia). specialize (NN Np).
    replace (0 <? new_mdays c y m) with true by lia.
    destruct (Z.eqb_spec (old_mdays c y m) 0) as [O0|O0].
    + replace (0 <? old_mdays c y m) with false by lia. destruct (Z.eqb_spec (new_mfirst c y m) 1); cbn [sh_first sh_last]; lia.
    + replace (0 <? old_mdays c y m) with true by lia. cbn [sh_first sh_last]. lia.
Qed.

Lemma jdn_of_ymd_label c y m d : ValidCal c -> incalb c y m d = true -> lbl c (jdn_of_ymd c y m d) = (y, m, d).
Proof.
  intros V H. unfold incalb in H. unfold jdn_of_ymd, lbl.
  assert (Mr : 1 <= m <= 12) by lia.
  pose proof (mlen_bounds (jleap y) m) as MJ. pose proof (mlen_bounds (gleap y) m) as MG.
  destruct c as [| |r]; cbn [old_mdays new_mfirst is_old] in *.
  - replace (d <=? mlen (jleap y) m) with true by lia. apply jlabel_iff. unfold valid_md. split; lia.
  - replace (d <=? 0) with false by lia. apply glabel_iff. unfold valid_md. split; lia.
  - destruct (Z.leb_spec d (Z.max 0 (Z.min (mlen (jleap y) m) (r - jdn_j y m 1)))) as [Old|New].
    + assert (1 <= d).
      { destruct (Z.le_gt_cases 1 d); [assumption|exfalso]. pose proof (month_facts (CR r) y m V Mr) as [O F N NL OO NN GP]. cbn [new_mfirst] in *. lia. }
      replace (jdn_j y m d <? r) with true by (unfold jdn_j in *; lia). apply jlabel_iff. unfold valid_md. split; lia.
    + replace (jdn_g y m d <? r) with false by (unfold jdn_g in *; lia). apply glabel_iff. unfold valid_md. split; lia.
Qed.

Theorem at_ymd_classified c y m d : ValidCal c -> in_i32 y -> in_u32 d ->
  Calendar_at_ymd (cal_of c) y m d = Ret (at_ymd_class c y m d).
Proof.
  intros V Hy Hd. rewrite at_ymd_ok by assumption. f_equal. unfold at_ymd_spec, at_ymd_class.
  pose proof (Month_discr_range m) as Mr. set (mz := Month_discr m) in *. pose proof (month_count_range c y mz) as MC.
  destruct (Z.eqb_spec (month_count c y mz) 0) as [Z0|NZ]; [reflexivity|].
  assert (Ex : 0 < month_count c y mz) by lia.
  pose proof (shape_of_wf c y mz V Mr Ex) as W.
  unfold sh_day_err. rewrite (shape_of_in c y mz V Mr Ex d), (shape_of_natural c y mz).
  destruct (shape_first_last c y mz V Mr Ex) as [-> ->].
  destruct (incalb c y mz d) eqn:In; [|destruct ((1 <=? d) && (d <=? natural_len c y mz)); reflexivity].
  (* the day number: the unique day carrying the label *)
  f_equal. rewrite <- (shape_of_in c y mz V Mr Ex d) in In.
  destruct (ymd_inv c y mz d _ _ V Mr Ex In eq_refl eq_refl) as (EL & _ & _).
  apply (lbl_inj c); [exact V|]. rewrite EL. symmetry. apply jdn_of_ymd_label; [exact V|]. rewrite <- (shape_of_in c y mz V Mr Ex d). exact In.
Qed.

(* meaning of the ingredients of the classification *)
Theorem month_empty_iff c y m : ValidCal c -> 1 <= m <= 12 -> (month_count c y m = 0 <-> forall d, ~ InCal c y m d).
Proof.
  intros V Mr. pose proof (month_interval c y m V Mr) as E. pose proof (month_count_range c y m) as MC. split.
  - intros Z0 d [j EL]. assert (In : InMonth c y m j) by (unfold InMonth; rewrite EL; split; reflexivity). apply E in In. lia.
  - intros No. destruct (Z.eq_dec (month_count c y m) 0) as [|N]; [assumption|exfalso].
    pose proof (proj2 (E (month_lo c y m)) ltac:(lia)) as [Ey Em].
    destruct (lbl c (month_lo c y m)) as [[y' m'] d'] eqn:EL. cbn [l_year l_month fst snd] in *. apply (No d'). exists (month_lo c y m). rewrite EL. congruence.
Qed.

(* ------------------------------------------------------------------ C08 / C09 *)
Lemma month_sum_year c y : fold_right Z.add 0 (map (month_count c y) (zseq 1 12)) = year_count c y.
Proof.
  rewrite <- msum_total. unfold msum. change (Z.to_nat 13) with 13%nat.
  change (zseq 1 12) with [1;2;3;4;5;6;7;8;9;10;11;12]. cbn [msum_n map fold_right]. cbn [Z.of_nat Pos.of_succ_nat Pos.succ]. lia.
Qed.

Lemma year_kind_skipped_iff c y : year_kind_of c y = KSkipped <-> year_count c y = 0.
Proof.
  unfold year_kind_of. destruct (Z.eqb_spec (year_count c y) 0) as [E|N]; [tauto|].
  split; [|contradiction]. destruct ((new_days c y =? 0) && (year_count c y =? ylen (jleap y))); [destruct (jleap y); discriminate|].
  destruct ((old_days c y =? 0) && (year_count c y =? ylen (gleap y))); [destruct (gleap y); discriminate|]. destruct (incalb c y 2 29); discriminate.
Qed.

Record ShapeDescribes (c : cal) (y mz : Z) (s : MonthShape) : Prop := {
  sd_len : MonthShape_len s = Ret (month_count c y mz);
  sd_contains : forall d, in_u32 d -> MonthShape_contains s d = Ret (incalb c y mz d);
  sd_first : MonthShape_first_day s = Ret (first_day_of c y mz);
  sd_last : MonthShape_last_day s = Ret (last_day_of c y mz);
  sd_nth : forall k, in_u32 k -> MonthShape_nth_day s k =
           Ret (if (1 <=? k) && (k <=? month_count c y mz) then Some (sh_nth (shape_of c y mz) k) else None);
  sd_ord : forall d, in_u32 d -> MonthShape_day_ordinal s d =
           Ret (if incalb c y mz d then Some (sh_ord (shape_of c y mz) d) else None);
  (* the enumeration: k |-> k-th day is strictly increasing from 1..len onto the existing days *)
  sd_enum_in : forall k, 1 <= k <= month_count c y mz -> incalb c y mz (sh_nth (shape_of c y mz) k) = true;
  sd_enum_mono : forall k k', 1 <= k -> k < k' -> sh_nth (shape_of c y mz) k < sh_nth (shape_of c y mz) k';
  sd_enum_onto : forall d, incalb c y mz d = true ->
                 1 <= sh_ord (shape_of c y mz) d <= month_count c y mz /\ sh_nth (shape_of c y mz) (sh_ord (shape_of c y mz) d) = d;
  (* the gap: exactly the natural days that do not exist; contiguous; None iff none is missing *)
  sd_gap : MonthShape_gap s = Ret (match sh_gap (shape_of c y mz) with None => None | Some (a, b) => Some (mkRange a b false) end) /\
           match sh_gap (shape_of c y mz) with
           | None => forall d, incalb c y mz d = true <-> 1 <= d <= natural_len c y mz
           | Some (a, b) => a <= b /\ forall d, (a <= d <= b <-> (1 <= d <= natural_len c y mz /\ incalb c y mz d = false))
           end;
  (* the kind says where the removed range sits *)
  sd_kind : exists k, MonthShape_kind s = Ret k /\
            match k, sh_gap (shape_of c y mz) with
            | MonthKind_Normal, None => True
            | MonthKind_Headless, Some (a, b) => a = 1 /\ b < natural_len c y mz
            | MonthKind_Tailless, Some (a, b) => 1 < a /\ b = natural_len c y mz
            | MonthKind_Gapped, Some (a, b) => 1 < a /\ b < natural_len c y mz
            | _, _ => False
            end;
  sd_ident : MonthShape_year s = Ret y /\ Month_discr (MonthShape_f_month s) = mz /\ MonthShape_calendar s = Ret (cal_of c)
}.

Theorem month_shape_described c y m : ValidCal c -> in_i32 y ->
  (month_count c y (Month_discr m) = 0 /\ Calendar_month_shape (cal_of c) y m = Ret None) \/
  (0 < month_count c y (Month_discr m) /\ exists s, Calendar_month_shape (cal_of c) y m = Ret (Some s) /\ ShapeDescribes c y (Month_discr m) s).
Proof.
  intros V Hy. rewrite month_shape_ok by assumption. unfold month_shape_spec.
  pose proof (Month_discr_range m) as Mr. set (mz := Month_discr m) in *. pose proof (month_count_range c y mz) as MC.
  destruct (Z.eqb_spec (month_count c y mz) 0) as [Z0|NZ]; [left; split; [exact Z0|reflexivity]|right].
  assert (Ex : 0 < month_count c y mz) by lia. split; [exact Ex|]. eexists. split; [reflexivity|].
  pose proof (shape_of_wf c y mz V Mr Ex) as W. pose proof (shape_of_len c y mz V Mr Ex) as SL.
  pose proof (shape_of_natural c y mz) as SN. destruct (shape_first_last c y mz V Mr Ex) as [SF SLa].
  assert (SI : forall d, sh_in (shape_of c y mz) d = incalb c y mz d) by (intros d; apply shape_of_in; assumption).
  split.
  - rewrite len_ok by exact W. rewrite SL. reflexivity.
  - intros d Hd. rewrite contains_ok; try exact W. rewrite SI. reflexivity.
  - rewrite first_day_ok; try exact W. rewrite SF. reflexivity.
  - rewrite last_day_ok; try exact W. rewrite SLa. reflexivity.
  - intros k Hk. rewrite nth_day_ok by assumption. rewrite SL. reflexivity.
  - intros d Hd. rewrite day_ordinal_ok by assumption. rewrite SI. reflexivity.
  - intros k Hk. rewrite <- SI. apply sh_nth_in; [exact W|lia].
  - intros k k' H1 H2. apply sh_nth_mono; assumption.
  - intros d Hd. rewrite <- SI in Hd. rewrite <- SL. split; [apply sh_ord_range; assumption|apply sh_nth_ord; assumption].
  - split; [apply Shape.gap_ok; exact W|]. pose proof (sh_gap_spec _ W) as G. rewrite SN in G.
    destruct (sh_gap (shape_of c y mz)) as [[a b]|].
    + destruct G as [G1 G2]. split; [exact G1|]. intros d. rewrite <- SI. apply G2.
    + intros d. rewrite <- SI. apply G.
  - eexists. split; [apply kind_ok; try exact W|]. rewrite <- SN. destruct (shape_of c y mz); cbn [WfShape sh_gap sh_natural sh_last] in *; lia.
  - repeat split; reflexivity.
Qed.

(* ------------------------------------------------------------------ C12: thresholds for wholly skipped months / years *)
Theorem year_skip_threshold r y : year_count (CR r) y = 0 -> 19582149 <= r.
Proof.
  unfold year_count. cbn [old_days new_days]. pose proof (G0_step y) as GS. pose proof (ylen_bounds (gleap y)) as YB.
  intros H. assert (A : r <= J0 y \/ J0 (y + 1) <= J0 y) by lia. assert (B : G0 (y + 1) <= r) by lia.
  pose proof (J0_step y). pose proof (ylen_bounds (jleap y)).
  assert (Y : 48901 <= y). { unfold J0, G0 in *. lia. }
  assert (G0 48902 <= G0 (y + 1)). { destruct (Z.eq_dec 48902 (y + 1)) as [<-|]; [lia|]. pose proof (G0_mono 48902 (y + 1) ltac:(lia)). lia. }
  change (G0 48902) with 19582149 in *. lia.
Qed.

Theorem month_skip_threshold r y m : 1 <= m <= 12 -> month_count (CR r) y m = 0 -> 3145930 <= r.
Proof.
  intros Mr H. unfold month_count in H. cbn [old_mdays new_mdays new_mfirst] in H.
  pose proof (mlen_bounds (jleap y) m) as MJ. pose proof (mlen_bounds (gleap y) m) as MG.
  assert (A : r <= jdn_j y m 1) by lia. assert (B : jdn_g y m 1 + mlen (gleap y) m <= r) by lia.
  pose proof (delta_eq y m 1 Mr) as D.
  assert (DL : mlen (gleap y) m <= delta y m) by lia.
  (* the offset reaches a whole month only from February 3901 on *)
  assert (P : 3901 < y \/ (y = 3901 /\ 2 <= m)).
  { unfold delta, J0, G0, after_feb, mlen, jleap, gleap in DL.
    destruct (Z.eqb_spec m 2) as [->|N2].
    - change (3 <=? 2) with false in DL. rewrite !andb_false_r in DL.
      destruct (Z.eqb_spec (y mod 4) 0), (Z.eqb_spec (y mod 100) 0), (Z.eqb_spec (y mod 400) 0); cbn [negb orb andb] in DL; lia.
    - destruct ((m =? 4) || (m =? 6) || (m =? 9) || (m =? 11)), (Z.leb_spec 3 m);
      destruct (Z.eqb_spec (y mod 4) 0), (Z.eqb_spec (y mod 100) 0), (Z.eqb_spec (y mod 400) 0); cbn [negb orb andb] in DL; lia. }
  assert (V : valid_md (gleap 3901) 2 1) by (unfold valid_md; cbn; lia).
  assert (V' : valid_md (gleap y) m 1) by (unfold valid_md; lia).
  assert (L : jdn_g 3901 2 1 <= jdn_g y m 1).
  { destruct (Z.eq_dec y 3901) as [->|NY].
    - destruct (Z.eq_dec m 2) as [->|NM]; [lia|].
      assert (X : lex_lt (3901, 2, 1) (3901, m, 1)) by (unfold lex_lt, l_year, l_month, l_day; cbn [fst snd]; lia).
      apply (jdn_g_lex 3901 2 1 3901 m 1 V V') in X. lia.
    - assert (X : lex_lt (3901, 2, 1) (y, m, 1)) by (unfold lex_lt, l_year, l_month, l_day; cbn [fst snd]; lia).
      apply (jdn_g_lex 3901 2 1 y m 1 V V') in X. lia. }
  change (jdn_g 3901 2 1) with 3145902 in L. lia.
Qed.
