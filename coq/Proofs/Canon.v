(* Canon.v — every date the API hands out is the calendar's canonical date for its day number:
   producers return canonical dates, steps preserve canonicity, hence every finite history does. *)
From JV Require Import Sem Gen Spec SpecX.
From JV.Hand Require Import Names Text.
From JV.Proofs Require Import SpecFacts GapFacts Cal Cmp Inner Year Shape Month MonthSpec SpecSums AtJdn AtYmd SpecSets SpecStep SuccPred Reform Boundary Core TextProofs.
Import ListNotations.
Open Scope Z_scope.
Ltac Zify.zify_post_hook ::= Z.to_euclidean_division_equations.

Definition Canonical (d : Date) : Prop := exists c j, ValidCal c /\ in_i32 j /\ d = date_of c j.

Lemma canonical_at_jdn c j : ValidCal c -> in_i32 j -> exists d, Calendar_at_jdn (cal_of c) j = Ret d /\ Canonical d.
Proof. intros V H. exists (date_of c j). split; [apply at_jdn_ok; assumption|exists c, j; auto]. Qed.

Lemma date_result_canonical c v d : ValidCal c -> date_result c v = Ok d -> Canonical d.
Proof.
  intros V H. unfold date_result in H. destruct (chk_jdn v) as [j|] eqn:E; [|discriminate]. inversion H; subst.
  apply chk_jdn_some in E. destruct E as [-> I]. exists c, v. auto.
Qed.

Lemma canonical_at_ymd c y m d : ValidCal c -> in_i32 y -> in_u32 d ->
  exists r, Calendar_at_ymd (cal_of c) y m d = Ret r /\ (forall x, r = Ok x -> Canonical x /\ Date_f_calendar x = cal_of c).
Proof.
  intros V Hy Hd. eexists. split; [apply at_ymd_ok; assumption|]. intros x E. unfold at_ymd_spec in E.
  destruct (month_count c y (Month_discr m) =? 0); [discriminate|]. destruct (sh_day_err _ _ _ _); [|discriminate].
  pose proof (date_result_canonical c _ x V E) as C. split; [exact C|].
  unfold date_result in E. destruct (chk_jdn _); inversion E. apply (SuccPred.date_of_fields c z).
Qed.
Lemma canonical_at_ordinal_date c y o : ValidCal c -> in_i32 y -> in_u32 o ->
  exists r, Calendar_at_ordinal_date (cal_of c) y o = Ret r /\ (forall x, r = Ok x -> Canonical x /\ Date_f_calendar x = cal_of c).
Proof.
  intros V Hy Ho. eexists. split; [apply at_ordinal_date_ok; assumption|]. intros x E. unfold at_ordinal_date_spec in E.
  destruct ((o <? 1) || (year_count c y <? o)); [discriminate|].
  pose proof (date_result_canonical c _ x V E) as C. split; [exact C|].
  unfold date_result in E. destruct (chk_jdn _); inversion E. apply (SuccPred.date_of_fields c z).
Qed.
Lemma canonical_at_unix_time c t : ValidCal c -> in_i64 t ->
  exists r, Calendar_at_unix_time (cal_of c) t = Ret r /\ (forall x s, r = Ok (x, s) -> Canonical x).
Proof.
  intros V Ht. eexists. split; [apply at_unix_time_ok; assumption|]. intros x s E.
  destruct (in_i32b (t / 86400 + 2440588)) eqn:I; [|discriminate]. inversion E; subst. exists c, (t / 86400 + 2440588). split; [exact V|]. split; [apply in_i32b_iff; exact I|reflexivity].
Qed.
Lemma canonical_boundary c : ValidCal c ->
  exists a b, Calendar_last_julian_date (cal_of c) = Ret a /\ Calendar_first_gregorian_date (cal_of c) = Ret b /\
    (forall x, a = Some x -> Canonical x) /\ (forall x, b = Some x -> Canonical x).
Proof.
  intros V. eexists _, _. split; [apply last_julian_date_ok; exact V|]. split; [apply first_gregorian_date_ok; exact V|].
  destruct c as [| |r]; split; intros x E; try discriminate; inversion E; subst; cbn [ValidCal] in V; unfold ValidR in V.
  - exists (CR r), (r - 1). split; [exact V|]. split; [range|reflexivity].
  - exists (CR r), r. split; [exact V|]. split; [range|reflexivity].
Qed.

(* the receiver's own month shape, then nth_date *)
Lemma canonical_nth_date c y m k : ValidCal c -> in_i32 y -> in_u32 k ->
  forall s, Calendar_month_shape (cal_of c) y m = Ret (Some s) ->
  exists r, MonthShape_nth_date s k = Ret r /\ (forall x, r = Some x -> Canonical x /\ Date_f_calendar x = cal_of c).
Proof.
  intros V Hy Hk s E. rewrite month_shape_ok in E by assumption. unfold month_shape_spec in E.
  pose proof (Month_discr_range m) as Mr. pose proof (month_count_range c y (Month_discr m)) as MC.
  destruct (Z.eqb_spec (month_count c y (Month_discr m)) 0) as [Z0|NZ]; [discriminate|]. inversion E; subst s. clear E.
  assert (Ex : 0 < month_count c y (Month_discr m)) by lia.
  pose proof (shape_of_wf c y _ V Mr Ex) as W. unfold MonthShape_nth_date. rewrite nth_day_ok by assumption. cbn [bind].
  destruct ((1 <=? k) && (k <=? sh_len (shape_of c y (Month_discr m)))) eqn:In.
  - cbn [MonthShape_f_calendar MonthShape_f_year MonthShape_f_month].
    assert (Dr : in_u32 (sh_nth (shape_of c y (Month_discr m)) k)).
    { pose proof (sh_nth_in _ k W ltac:(lia)) as X. pose proof (sh_in_natural _ _ W X). pose proof (shape_of_natural c y (Month_discr m)).
      destruct (month_facts c y _ V Mr). range. }
    destruct (canonical_at_ymd c y m _ V Hy Dr) as (r & Er & Cr). rewrite Er. cbn [bind].
    destruct r as [x|e]; eexists; split; try reflexivity; intros x' X; inversion X; subst. apply Cr. reflexivity.
  - eexists. split; [reflexivity|]. intros x X. discriminate.
Qed.

Lemma canonical_succ_pred d : Canonical d ->
  exists a b, Date_succ d = Ret a /\ Date_pred d = Ret b /\
    (forall x, a = Some x -> Canonical x /\ Date_f_calendar x = Date_f_calendar d /\ Date_f_jdn x = Date_f_jdn d + 1) /\
    (forall x, b = Some x -> Canonical x /\ Date_f_calendar x = Date_f_calendar d /\ Date_f_jdn x = Date_f_jdn d - 1).
Proof.
  intros (c & j & V & H & ->). eexists _, _. split; [apply succ_ok; assumption|]. split; [apply pred_ok; assumption|].
  destruct (SuccPred.date_of_fields c j) as (Fc & _ & _ & Fj & _). rewrite Fc, Fj.
  split; intros x E.
  - destruct (Z.ltb_spec j i32_max); [|discriminate]. inversion E; subst. destruct (SuccPred.date_of_fields c (j + 1)) as (Fc' & _ & _ & Fj' & _).
    split; [exists c, (j + 1); split; [exact V|split; [range|reflexivity]]|auto].
  - destruct (Z.ltb_spec i32_min j); [|discriminate]. inversion E; subst. destruct (SuccPred.date_of_fields c (j - 1)) as (Fc' & _ & _ & Fj' & _).
    split; [exists c, (j - 1); split; [exact V|split; [range|reflexivity]]|auto].
Qed.
Lemma canonical_convert d c' : Canonical d -> ValidCal c' ->
  exists x, Date_convert_to d (cal_of c') = Ret x /\ Canonical x /\ Date_f_jdn x = Date_f_jdn d /\ Date_f_calendar x = cal_of c'.
Proof.
  intros (c & j & V & H & ->) V'. exists (date_of c' j). split; [apply convert_to_ok; assumption|].
  destruct (SuccPred.date_of_fields c j) as (_ & _ & _ & Fj & _). destruct (SuccPred.date_of_fields c' j) as (Fc' & _ & _ & Fj' & _).
  split; [exists c', j; auto|]. rewrite Fj, Fj'. auto.
Qed.

(* text: whatever parse_date accepts is canonical; rendering a canonical date and parsing it returns it *)
Lemma canonical_parse c s : ValidCal c ->
  exists r, parse_date (cal_of c) s = Ret r /\ (forall x, r = Ok x -> Canonical x /\ Date_f_calendar x = cal_of c).
Proof.
  intros V. unfold parse_date. destruct (parse_fields s) as [[y diny]|e] eqn:PF.
  - apply parse_fields_iff in PF. unfold construct_date. inversion PF; subst.
    + destruct (canonical_at_ordinal_date c _ _ V H3 H4) as (r & Er & Cr). rewrite Er. cbn [bind]. eexists. split; [reflexivity|].
      intros x X. destruct r; inversion X; subst. apply Cr. reflexivity.
    + destruct (canonical_at_ymd c _ m _ V H5 H7) as (r & Er & Cr). rewrite Er. cbn [bind]. eexists. split; [reflexivity|].
      intros x X. destruct r; inversion X; subst. apply Cr. reflexivity.
  - eexists. split; [reflexivity|]. intros x X. discriminate.
Qed.
Lemma canonical_reparse d : Canonical d ->
  exists t1 t2, show_date d = Ret t1 /\ show_date_alt d = Ret t2 /\
    parse_date (Date_f_calendar d) t1 = Ret (Ok d) /\ parse_date (Date_f_calendar d) t2 = Ret (Ok d).
Proof.
  intros (c & j & V & H & ->). destruct (roundtrip_canonical) as [R1 R2].
  destruct (TextProofs.roundtrip) as (_ & _ & Sh). destruct (Sh (date_of c j)) as (t1 & t2 & S1 & S2).
  exists t1, t2. split; [exact S1|]. split; [exact S2|].
  destruct (Core.roundtrip c j V H) as (d & E & _ & Ey & Eo). rewrite at_jdn_ok in E by assumption. inversion E; subst d.
  destruct (SuccPred.date_of_fields c j) as (Fc & Fy & Fo & _ & _ & Fd & _).
  pose proof (lbl_valid c j) as [_ LD]. destruct (ordinal_closed c j V) as [B O]. pose proof (year_count_le c (l_year (lbl c j))) as [YC _].
  split.
  - apply R1; [rewrite Fy; apply year_i32; exact H|rewrite Fd; range|rewrite Fc; exact Ey|exact S1].
  - apply R2; [rewrite Fy; apply year_i32; exact H|rewrite Fo; range|rewrite Fc; exact Eo|exact S2].
Qed.

(* ------------------------------------------------------------------ histories *)
Inductive hop : Type :=
| HSucc | HPred | HConvert (c : cal) | HNth (k : Z) | HYmd | HOrd | HText | HTextAlt.

Definition lift_opt {A} (m : M (option A)) : M (option A) := m.
Definition hstep (d : Date) (o : hop) : M (option Date) :=
  match o with
  | HSucc => Date_succ d
  | HPred => Date_pred d
  | HConvert c' => x <- Date_convert_to d (cal_of c');; Ret (Some x)
  | HNth k =>
    s <- Calendar_month_shape (Date_f_calendar d) (Date_f_year d) (Date_f_month d);;
    match s with Some s => MonthShape_nth_date s k | None => Ret None end
  | HYmd => r <- Calendar_at_ymd (Date_f_calendar d) (Date_f_year d) (Date_f_month d) (Date_f_day d);;
            Ret (match r with Ok x => Some x | Err _ => None end)
  | HOrd => r <- Calendar_at_ordinal_date (Date_f_calendar d) (Date_f_year d) (Date_f_ordinal d);;
            Ret (match r with Ok x => Some x | Err _ => None end)
  | HText => t <- show_date d;; r <- parse_date (Date_f_calendar d) t;; Ret (match r with Ok x => Some x | Err _ => None end)
  | HTextAlt => t <- show_date_alt d;; r <- parse_date (Date_f_calendar d) t;; Ret (match r with Ok x => Some x | Err _ => None end)
  end.
(* an operation that yields no date leaves the current date unchanged (as in the correspondence stream `history`) *)
Fixpoint hrun (d : Date) (ops : list hop) : M Date :=
  match ops with
  | [] => Ret d
  | o :: rest => r <- hstep d o;; hrun (match r with Some x => x | None => d end) rest
  end.
Definition hop_ok (o : hop) : Prop := match o with HConvert c => ValidCal c | HNth k => in_u32 k | _ => True end.

Lemma hstep_canonical d o : Canonical d -> hop_ok o -> exists r, hstep d o = Ret r /\ (forall x, r = Some x -> Canonical x).
Proof.
  intros C Ho. destruct o; cbn [hstep hop_ok] in *.
  - destruct (canonical_succ_pred d C) as (a & b & Ea & _ & Ca & _). exists a. split; [exact Ea|]. intros x E. apply (Ca x E).
  - destruct (canonical_succ_pred d C) as (a & b & _ & Eb & _ & Cb). exists b. split; [exact Eb|]. intros x E. apply (Cb x E).
  - destruct (canonical_convert d c C Ho) as (x & E & Cx & _). rewrite E. cbn [bind]. eexists. split; [reflexivity|]. intros x' X. inversion X; subst. exact Cx.
  - destruct C as (c & j & V & H & ->). destruct (SuccPred.date_of_fields c j) as (Fc & Fy & _ & _ & Fm & _). rewrite Fc, Fy, Fm.
    assert (Hy : in_i32 (l_year (lbl c j))) by (apply year_i32; exact H).
    rewrite month_shape_ok by assumption. cbn [bind].
    destruct (month_shape_spec c (l_year (lbl c j)) (month_of_Z (l_month (lbl c j)))) as [s|] eqn:MS.
    + assert (E : Calendar_month_shape (cal_of c) (l_year (lbl c j)) (month_of_Z (l_month (lbl c j))) = Ret (Some s)) by (rewrite month_shape_ok by assumption; rewrite MS; reflexivity).
      destruct (canonical_nth_date c _ _ k V Hy Ho s E) as (r & Er & Cr). exists r. split; [exact Er|]. intros x X. apply (Cr x X).
    + eexists. split; [reflexivity|]. intros x X. discriminate.
  - destruct C as (c & j & V & H & ->).
    destruct (Core.roundtrip c j V H) as (d & E & _ & Ey & _). rewrite at_jdn_ok in E by assumption. inversion E; subst d.
    destruct (SuccPred.date_of_fields c j) as (Fc & _). rewrite Fc. rewrite Ey. cbn [bind]. eexists. split; [reflexivity|]. intros x X. inversion X; subst. exists c, j. auto.
  - destruct C as (c & j & V & H & ->).
    destruct (Core.roundtrip c j V H) as (d & E & _ & _ & Eo). rewrite at_jdn_ok in E by assumption. inversion E; subst d.
    destruct (SuccPred.date_of_fields c j) as (Fc & _). rewrite Fc. rewrite Eo. cbn [bind]. eexists. split; [reflexivity|]. intros x X. inversion X; subst. exists c, j. auto.
  - destruct (canonical_reparse d C) as (t1 & t2 & S1 & _ & P1 & _). rewrite S1. cbn [bind]. rewrite P1. cbn [bind]. eexists. split; [reflexivity|]. intros x X. inversion X; subst. exact C.
  - destruct (canonical_reparse d C) as (t1 & t2 & _ & S2 & _ & P2). rewrite S2. cbn [bind]. rewrite P2. cbn [bind]. eexists. split; [reflexivity|]. intros x X. inversion X; subst. exact C.
Qed.

Theorem histories_canonical ops : forall d, Canonical d -> Forall hop_ok ops -> exists d', hrun d ops = Ret d' /\ Canonical d'.
Proof.
  induction ops as [|o rest IH]; intros d C F; cbn [hrun].
  - exists d. auto.
  - inversion F; subst. destruct (hstep_canonical d o C H1) as (r & E & Cr). rewrite E. cbn [bind].
    apply IH; [|assumption]. destruct r as [x|]; [apply Cr; reflexivity|exact C].
Qed.
