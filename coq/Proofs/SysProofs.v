(* SysProofs.v — proofs about Hand/Sys.v: system2jdn is unix2jdn of the FLOOR of the (rational) instant,
   errs exactly when the whole seconds do not fit i64, and never panics. *)
From JV Require Import Sem Gen.
From JV.Hand Require Import Sys.
Require JV.Proofs.Inner.
Open Scope Z_scope.
Ltac Zify.zify_post_hook ::= Z.to_euclidean_division_equations.

(* floor of  +-(secs + nanos / 10^9)  for 0 <= nanos < 10^9 *)
Definition sys_floor (before : bool) (secs nanos : Z) : Z :=
  if before then - secs - (if nanos >? 0 then 1 else 0) else secs.

(* it really is the floor: the largest integer t with t * 10^9 <= +-(secs * 10^9 + nanos) *)
Lemma sys_floor_is_floor (before : bool) (secs nanos : Z) : 0 <= nanos < nanos_per_sec ->
  let x := (if before then -1 else 1) * (secs * nanos_per_sec + nanos) in
  sys_floor before secs nanos * nanos_per_sec <= x < (sys_floor before secs nanos + 1) * nanos_per_sec.
Proof.
  unfold sys_floor, nanos_per_sec. intros H. destruct before; cbn zeta.
  - destruct (nanos >? 0) eqn:E; lia.
  - lia.
Qed.

Lemma unix2jdn_no_panic t : in_i64 t -> exists r, unix2jdn t = Ret r.
Proof. intros H. rewrite JV.Proofs.Inner.unix2jdn_ok by exact H. eexists; reflexivity. Qed.

Lemma try_from_fits v : v <= i64_max -> i64_try_from_u64 v = Some v.
Proof. unfold i64_try_from_u64. intros. now replace (v <=? i64_max) with true by lia. Qed.
Lemma try_from_over v : i64_max < v -> i64_try_from_u64 v = None.
Proof. unfold i64_try_from_u64. intros. now replace (v <=? i64_max) with false by lia. Qed.

Theorem system_floor before secs nanos :
  0 <= secs -> 0 <= nanos < nanos_per_sec ->
  (secs <= i64_max -> system2jdn_model before secs nanos = unix2jdn (sys_floor before secs nanos)) /\
  (i64_max < secs -> system2jdn_model before secs nanos = Ret (Err mkArithmeticError)) /\
  (exists r, system2jdn_model before secs nanos = Ret r).
Proof.
  intros Hs Hn.
  assert (Fits : secs <= i64_max -> system2jdn_model before secs nanos = unix2jdn (sys_floor before secs nanos)).
  { intros Hf. unfold system2jdn_model, sys_duration_since, sys_floor.
    destruct before; cbn [andb].
    - destruct ((secs =? 0) && (nanos =? 0)) eqn:Z0; cbn [negb].
      + assert (secs = 0 /\ nanos = 0) as [-> ->] by lia. reflexivity.
      + rewrite (try_from_fits secs Hf). destruct (nanos >? 0) eqn:Np.
        * unfold i64_neg, gen_neg. rewrite chk_ok by range. cbn [bind].
          rewrite i64_sub_ok by range. reflexivity.
        * unfold i64_neg, gen_neg. rewrite chk_ok by range. cbn [bind]. now rewrite Z.sub_0_r.
    - rewrite (try_from_fits secs Hf). reflexivity. }
  assert (Over : i64_max < secs -> system2jdn_model before secs nanos = Ret (Err mkArithmeticError)).
  { intros Hf. unfold system2jdn_model, sys_duration_since.
    destruct (before && _); rewrite (try_from_over secs Hf); reflexivity. }
  split; [exact Fits|]. split; [exact Over|].
  destruct (Z.le_gt_cases secs i64_max) as [Hf | Hf].
  - rewrite (Fits Hf). apply unix2jdn_no_panic. unfold sys_floor, nanos_per_sec in *.
    destruct before; [destruct (nanos >? 0)|]; range.
  - rewrite Over by lia. eexists; reflexivity.
Qed.

(* at_system_time = at_jdn of that day; it panics only if at_jdn does *)
Theorem at_system_time_spec c before secs nanos :
  at_system_time_model c before secs nanos =
  (r <- system2jdn_model before secs nanos;;
   match r with
   | Ok (jdn, s) => d <- Calendar_at_jdn c jdn;; Ret (Ok (d, s))
   | Err e => Ret (Err e)
   end).
Proof. reflexivity. Qed.

(* the same computation as at_unix_time on the floor *)
Theorem at_system_time_unix c before secs nanos :
  0 <= secs <= i64_max -> 0 <= nanos < nanos_per_sec ->
  at_system_time_model c before secs nanos = Calendar_at_unix_time c (sys_floor before secs nanos).
Proof.
  intros Hs Hn. unfold at_system_time_model, Calendar_at_unix_time.
  destruct (system_floor before secs nanos) as (F & _ & _); [lia | exact Hn |].
  rewrite F by lia. destruct (unix2jdn _) as [[[j s]|e]|]; reflexivity.
Qed.

(* ------------------------------------------------------------------ non-vacuity examples *)
(* one nanosecond before the epoch is in second -1, i.e. 23:59:59 of JDN 2440587; the epoch itself (given as
   "before by zero") is second 0 of JDN 2440588; 2^63 seconds do not fit *)
Example ex_system2jdn :
  system2jdn_model true 0 1 = Ret (Ok (2440587, 86399)) /\
  system2jdn_model true 0 0 = Ret (Ok (2440588, 0)) /\
  system2jdn_model true 86400 0 = Ret (Ok (2440587, 0)) /\
  system2jdn_model false 1682906621 999999999 = Ret (Ok (2460066, 7421)) /\
  system2jdn_model false 9223372036854775808 0 = Ret (Err mkArithmeticError) /\
  system2jdn_model true 9223372036854775807 1 = Ret (Err mkArithmeticError).
Proof. repeat split; vm_compute; reflexivity. Qed.
