(* TextCore.v — the text theorems of TextProofs.v with their hypotheses about the constructors discharged from the
   core development: for every calendar a user can hold. *)
From JV Require Import Sem Gen Spec SpecX.
From JV.Hand Require Import Names Text.
From JV.Proofs Require Import SpecFacts Inner Cal Core Canon AtJdn AtYmd SuccPred TextProofs.
Import List ListNotations.
Open Scope Z_scope.

Lemma at_ymd_no_panic c : ValidCal c -> forall y m d, in_i32 y -> in_u32 d -> Calendar_at_ymd (cal_of c) y m d <> Panic.
Proof. intros V y m d Hy Hd. rewrite at_ymd_ok by assumption. discriminate. Qed.
Lemma at_ordinal_no_panic c : ValidCal c -> forall y o, in_i32 y -> in_u32 o -> Calendar_at_ordinal_date (cal_of c) y o <> Panic.
Proof. intros V y o Hy Ho. rewrite at_ordinal_date_ok by assumption. discriminate. Qed.

(* every date of every calendar, printed in either form and parsed in the same calendar, comes back *)
Theorem text_roundtrip_all c j : ValidCal c -> in_i32 j ->
  exists t1 t2, show_date (date_of c j) = Ret t1 /\ show_date_alt (date_of c j) = Ret t2 /\
    parse_date (cal_of c) t1 = Ret (Ok (date_of c j)) /\ parse_date (cal_of c) t2 = Ret (Ok (date_of c j)).
Proof.
  intros V H. assert (C : Canonical (date_of c j)) by (exists c, j; auto).
  destruct (canonical_reparse _ C) as (t1 & t2 & S1 & S2 & P1 & P2).
  destruct (date_of_fields c j) as (Fc & _). rewrite Fc in P1, P2. exists t1, t2. auto.
Qed.

(* parsing never panics, whatever the string; and it answers semantically (a date or an invalid-date error) exactly
   on the grammar *)
Theorem parse_total_all c s : ValidCal c -> parse_date (cal_of c) s <> Panic.
Proof. intros V. apply total; [exact (at_ymd_no_panic c V)|exact (at_ordinal_no_panic c V)]. Qed.

Theorem grammar_all c s : ValidCal c -> (in_grammar s <-> semantic_answer (parse_date (cal_of c) s)).
Proof.
  intros V. destruct (grammar_thm (cal_of c) s) as (_ & _ & _ & _ & G).
  apply G; [exact (at_ymd_no_panic c V)|exact (at_ordinal_no_panic c V)].
Qed.
