(* Glue_C02_core.v — proofs of the statements of Properties/C02_core.v that need a few steps beyond a library lemma
   (rephrasing only: no induction, no case analysis of the model).  The scripts were moved out of the property file so
   that it contains nothing but statements closed by [exact]. *)
From JV Require Import Sem Gen Spec SpecX.
From JV.Proofs Require Import SpecFacts Cal Core.
Open Scope Z_scope.

Lemma C02_julian_labels_lemma : forall j, in_i32 j ->
  exists d, Calendar_at_jdn Calendar_JULIAN j = Ret d /\
    (Date_f_year d, Month_discr (Date_f_month d), Date_f_day d) = jlabel j /\ Date_f_jdn d = j /\ Date_f_calendar d = Calendar_JULIAN.
Proof. intros j H. exact (at_jdn_label CJ j I H). Qed.

Lemma C02_gregorian_labels_lemma : forall j, in_i32 j ->
  exists d, Calendar_at_jdn Calendar_GREGORIAN j = Ret d /\
    (Date_f_year d, Month_discr (Date_f_month d), Date_f_day d) = glabel j /\ Date_f_jdn d = j /\ Date_f_calendar d = Calendar_GREGORIAN.
Proof. intros j H. exact (at_jdn_label CG j I H). Qed.

Lemma C02_leap_rule_meaning_lemma : forall y,
  (jleap y = true <-> y mod 4 = 0) /\ (gleap y = true <-> (y mod 4 = 0 /\ (y mod 100 <> 0 \/ y mod 400 = 0))).
Proof. intros y. split; [exact (jleap_iff y)|exact (gleap_iff y)]. Qed.

Lemma C02_at_ymd_exact_or_arithmetic_lemma : forall y m d, in_i32 y -> in_u32 d ->
  Calendar_at_ymd Calendar_JULIAN y m d = Ret (proleptic_at_ymd CJ jleap jdn_j y m d) /\
  Calendar_at_ymd Calendar_GREGORIAN y m d = Ret (proleptic_at_ymd CG gleap jdn_g y m d).
Proof.
  intros y m d Hy Hd. split.
  - exact (at_ymd_proleptic CJ jleap jdn_j J0 y m d (or_introl (conj eq_refl (conj eq_refl (conj eq_refl eq_refl)))) Hy Hd).
  - exact (at_ymd_proleptic CG gleap jdn_g G0 y m d (or_intror (conj eq_refl (conj eq_refl (conj eq_refl eq_refl)))) Hy Hd).
Qed.

Lemma C02_day_number_of_label_lemma : forall y m d,
  (valid_md (jleap y) m d -> jlabel (jdn_j y m d) = (y, m, d)) /\ (valid_md (gleap y) m d -> glabel (jdn_g y m d) = (y, m, d)).
Proof. intros y m d. split; intros V; [apply jlabel_iff|apply glabel_iff]; auto. Qed.

