(* Glue_C07_core.v — proofs of the statements of Properties/C07_core.v that need a few steps beyond a library lemma
   (rephrasing only: no induction, no case analysis of the model).  The scripts were moved out of the property file so
   that it contains nothing but statements closed by [exact]. *)
From JV Require Import Sem Gen Spec SpecX.
From JV.Proofs Require Import SpecFacts Cal Core AtYmd SpecSets SpecInv.
Open Scope Z_scope.

Lemma C07_result_is_the_calendars_date_lemma : forall c v, date_result c v = if in_i32b v then Ok (date_of c v) else Err DateError_Arithmetic.
Proof. intros c v. unfold date_result, chk_jdn. destruct (in_i32b v); reflexivity. Qed.

