(* Total.v — no public const fn panics or overflows: every call returns (Ret), for every argument value of
   its Rust types and every receiver a user can hold.  (Panic in the model = panic!/unreachable!/failed
   debug_assert!/arithmetic overflow with overflow checks on.) *)
From JV Require Import Sem Gen Spec SpecX.
From JV.Proofs Require Import SpecFacts GapFacts Cal Cmp Inner Year Shape Month MonthSpec SpecSums AtJdn AtYmd SpecSets SpecStep SuccPred Reform Boundary Core Canon.
Open Scope Z_scope.

Definition Total {A} (m : M A) : Prop := exists v, m = Ret v.
(* month shapes a user can hold: results of month_shape on a calendar a user can hold *)
Definition UserShape (s : MonthShape) : Prop :=
  exists c y m, ValidCal c /\ in_i32 y /\ Calendar_month_shape (cal_of c) y m = Ret (Some s).

Lemma user_shape_form s : UserShape s -> exists c y m, ValidCal c /\ in_i32 y /\ 0 < month_count c y (Month_discr m) /\
  s = mkMonthShape (cal_of c) y m (shape_of c y (Month_discr m)) /\ WfShape (shape_of c y (Month_discr m)).
Proof.
  intros (c & y & m & V & Hy & E). exists c, y, m. rewrite month_shape_ok in E by assumption. unfold month_shape_spec in E.
  pose proof (month_count_range c y (Month_discr m)). destruct (Z.eqb_spec (month_count c y (Month_discr m)) 0); [discriminate|]. inversion E as [E'].
  assert (Ex : 0 < month_count c y (Month_discr m)) by lia.
  split; [exact V|]. split; [exact Hy|]. split; [exact Ex|]. split; [reflexivity|].
  apply shape_of_wf; [exact V|apply Month_discr_range|exact Ex].
Qed.

Theorem total_calendar c : ValidCal c ->
  (forall j, in_i32 j -> Total (Calendar_at_jdn (cal_of c) j)) /\
  (forall y o, in_i32 y -> in_u32 o -> Total (Calendar_at_ordinal_date (cal_of c) y o)) /\
  (forall t, in_i64 t -> Total (Calendar_at_unix_time (cal_of c) t)) /\
  (forall y m d, in_i32 y -> in_u32 d -> Total (Calendar_at_ymd (cal_of c) y m d)) /\
  Total (Calendar_first_gregorian_date (cal_of c)) /\ Total (Calendar_last_julian_date (cal_of c)) /\
  Total (Calendar_is_proleptic (cal_of c)) /\ Total (Calendar_is_reforming (cal_of c)) /\ Total (Calendar_reformation (cal_of c)) /\
  (forall y m, in_i32 y -> Total (Calendar_month_shape (cal_of c) y m)) /\
  (forall y, in_i32 y -> Total (Calendar_year_kind (cal_of c) y)) /\ (forall y, in_i32 y -> Total (Calendar_year_length (cal_of c) y)).
Proof.
  intros V. unfold Total.
  split; [intros; eexists; apply at_jdn_ok; assumption|]. split; [intros; eexists; apply at_ordinal_date_ok; assumption|].
  split; [intros; eexists; apply at_unix_time_ok; assumption|]. split; [intros; eexists; apply at_ymd_ok; assumption|].
  split; [eexists; apply first_gregorian_date_ok; exact V|]. split; [eexists; apply last_julian_date_ok; exact V|].
  destruct (observers_ok c) as (A & B & C). split; [eexists; exact C|]. split; [eexists; exact B|]. split; [eexists; exact A|].
  split; [intros; eexists; apply month_shape_ok; assumption|]. split; [intros; eexists; apply year_kind_ok; assumption|intros; eexists; apply year_length_ok; assumption].
Qed.

Theorem total_free :
  (forall r, in_i32 r -> Total (Calendar_reforming r)) /\ (forall t, in_i64 t -> Total (unix2jdn t)) /\ (forall j, in_i32 j -> Total (jdn2unix j)) /\
  (forall j, in_i32 j -> Total (Weekday_for_jdn j)) /\ Total MonthIter_new.
Proof.
  unfold Total. split; [intros; eexists; apply reforming_ok; assumption|]. split; [intros; eexists; apply unix2jdn_ok; assumption|].
  split; [intros; eexists; apply jdn2unix_ok; assumption|]. split; [intros; eexists; apply for_jdn_ok; assumption|eexists; reflexivity].
Qed.

Theorem total_date d : Canonical d ->
  Total (Date_and_earlier d) /\ Total (Date_and_later d) /\ Total (Date_earlier d) /\ Total (Date_later d) /\
  Total (Date_calendar d) /\ Total (Date_day d) /\ Total (Date_day_ordinal d) /\ Total (Date_day_ordinal0 d) /\
  Total (Date_is_gregorian d) /\ Total (Date_is_julian d) /\ Total (Date_julian_day_number d) /\ Total (Date_month d) /\
  Total (Date_ordinal d) /\ Total (Date_ordinal0 d) /\ Total (Date_pred d) /\ Total (Date_succ d) /\ Total (Date_weekday d) /\ Total (Date_year d) /\
  (forall c', ValidCal c' -> Total (Date_convert_to d (cal_of c'))).
Proof.
  intros (c & j & V & H & ->). unfold Total. destruct (ordinal0_ok c j V H) as [O0 D0].
  do 7 (split; [eexists; reflexivity|]). split; [eexists; exact D0|]. split; [eexists; apply is_gregorian_ok|]. split; [eexists; apply is_julian_ok|].
  do 3 (split; [eexists; reflexivity|]). split; [eexists; exact O0|]. split; [eexists; apply pred_ok; assumption|]. split; [eexists; apply succ_ok; assumption|].
  split; [eexists; apply weekday_ok; assumption|]. split; [eexists; reflexivity|].
  intros c' V'. eexists; apply convert_to_ok; assumption.
Qed.

Theorem total_month_shape s : UserShape s ->
  Total (MonthShape_calendar s) /\ Total (MonthShape_year s) /\ Total (MonthShape_month s) /\ Total (MonthShape_len s) /\
  Total (MonthShape_first_day s) /\ Total (MonthShape_last_day s) /\ Total (MonthShape_gap s) /\ Total (MonthShape_kind s) /\ Total (MonthShape_days s) /\
  (forall d, in_u32 d -> Total (MonthShape_contains s d)) /\ (forall d, in_u32 d -> Total (MonthShape_day_ordinal s d)) /\
  (forall k, in_u32 k -> Total (MonthShape_nth_day s k)) /\ (forall k, in_u32 k -> Total (MonthShape_nth_date s k)).
Proof.
  intros U. pose proof U as (c0 & y0 & m0 & V0 & Hy0 & E0). destruct (user_shape_form s U) as (c & y & m & V & Hy & Ex & -> & W). unfold Total.
  split; [eexists; reflexivity|]. split; [eexists; reflexivity|]. split; [eexists; reflexivity|].
  split; [eexists; apply len_ok; exact W|]. split; [eexists; apply first_day_ok; try exact W|]. split; [eexists; apply last_day_ok; try exact W|].
  split; [eexists; apply Shape.gap_ok; exact W|]. split; [eexists; reflexivity|].
  split; [unfold MonthShape_days, Days_new; rewrite len_ok by exact W; cbn [bind]; eexists; reflexivity|].
  split; [intros d Hd; eexists; apply contains_ok; try exact W|]. split; [intros d Hd; eexists; apply day_ordinal_ok; assumption|].
  split; [intros k Hk; eexists; apply nth_day_ok; assumption|].
  intros k Hk. destruct (canonical_nth_date c0 y0 m0 k V0 Hy0 Hk _ E0) as (r & Er & _). exists r. exact Er.
Qed.

Theorem total_enums :
  (forall m, Total (Month_name m) /\ Total (Month_short_name m) /\ Total (Month_number m) /\ Total (Month_number0 m) /\ Total (Month_pred m) /\ Total (Month_succ m)) /\
  (forall w, Total (Weekday_name w) /\ Total (Weekday_short_name w) /\ Total (Weekday_number w) /\ Total (Weekday_number0 w) /\ Total (Weekday_pred w) /\ Total (Weekday_succ w)) /\
  (forall k, Total (YearKind_is_common k) /\ Total (YearKind_is_leap k) /\ Total (YearKind_is_reform k) /\ Total (YearKind_is_skipped k)).
Proof.
  unfold Total. split; [intros m; destruct m; repeat split; eexists; reflexivity|]. split; [intros w; destruct w; repeat split; eexists; reflexivity|].
  intros k; destruct k; repeat split; eexists; reflexivity.
Qed.
