(* IterProofs.v — proofs about Hand/Iter.v:
   * the RangeInclusive model refines a double-ended queue of the integers start..=end (no overflow at MAX);
   * Days / Dates / MonthIter, run on ANY finite sequence of next / next_back / len calls, produce exactly the
     outputs of the reference deque machine [deque_run] on the list of items, and [deque_run] satisfies the
     partition / exact-length / fused properties ([deque_ok]);
   * Later / Earlier / AndLater / AndEarlier yield the iterates of succ / pred and are fused. *)
From JV Require Import Sem Gen.
From JV.Hand Require Import Iter.
Import List ListNotations.
Open Scope Z_scope.
Ltac Zify.zify_post_hook ::= Z.to_euclidean_division_equations.

(* ------------------------------------------------------------------ lists *)
(* lo, lo+1, ..., lo+n-1 *)
Fixpoint ri_seq (lo : Z) (n : nat) : list Z :=
  match n with O => [] | S n' => lo :: ri_seq (lo + 1) n' end.

Fixpoint last_opt {A} (l : list A) : option A :=
  match l with [] => None | x :: l' => match l' with [] => Some x | _ => last_opt l' end end.

Lemma ri_seq_length lo n : length (ri_seq lo n) = n.
Proof. revert lo; induction n; intros; cbn [ri_seq length]; [reflexivity | now rewrite IHn]. Qed.

Lemma ri_seq_snoc lo n : ri_seq lo (S n) = ri_seq lo n ++ [lo + Z.of_nat n].
Proof.
  revert lo; induction n as [|n IH]; intros lo.
  - cbn. now rewrite Z.add_0_r.
  - change (ri_seq lo (S (S n))) with (lo :: ri_seq (lo + 1) (S n)). rewrite IH.
    cbn [ri_seq app]. do 3 f_equal. lia.
Qed.

Lemma ri_seq_in lo n x : In x (ri_seq lo n) <-> lo <= x < lo + Z.of_nat n.
Proof.
  revert lo; induction n as [|n IH]; intros lo; cbn [ri_seq In].
  - lia.
  - rewrite IH. lia.
Qed.

Lemma ri_seq_app lo n m : ri_seq lo (n + m) = ri_seq lo n ++ ri_seq (lo + Z.of_nat n) m.
Proof.
  revert lo; induction n as [|n IH]; intros lo.
  - cbn [ri_seq app Nat.add]. now rewrite Z.add_0_r.
  - cbn [ri_seq app Nat.add]. rewrite IH. do 3 f_equal. lia.
Qed.

Lemma last_opt_snoc {A} (l : list A) x : last_opt (l ++ [x]) = Some x.
Proof.
  induction l as [|y l IH]; [reflexivity|].
  cbn [app last_opt]. destruct (l ++ [x]) eqn:E; [destruct l; discriminate | exact IH].
Qed.

Lemma snoc_cases {A} (l : list A) : l = [] \/ exists l' x, l = l' ++ [x].
Proof.
  induction l as [|y l IH]; [now left | right].
  destruct IH as [-> | (l' & x & ->)]; [exists [], y | exists (y :: l'), x]; reflexivity.
Qed.

Lemma last_opt_none {A} (l : list A) : last_opt l = None -> l = [].
Proof. destruct (snoc_cases l) as [-> | (l' & x & ->)]; [reflexivity | now rewrite last_opt_snoc]. Qed.

Lemma hd_error_none {A} (l : list A) : hd_error l = None -> l = [].
Proof. destruct l; [reflexivity | discriminate]. Qed.

(* ------------------------------------------------------------------ C17: RangeInclusive refines a deque *)
(* the items still to come *)
Definition ri_abs (r : RangeInclusive) : list Z :=
  if ri_is_empty r then [] else ri_seq (ri_start r) (Z.to_nat (ri_end r - ri_start r + 1)).

(* while items remain, both bounds are values of the element type 0..=hi (the fields of an empty range are
   never used again) *)
Definition ri_wf (hi : Z) (r : RangeInclusive) : Prop :=
  ri_is_empty r = false -> 0 <= ri_start r /\ ri_end r <= hi.

Lemma ri_abs_nonempty r :
  ri_is_empty r = false -> ri_exhausted r = false /\ ri_start r <= ri_end r.
Proof. unfold ri_is_empty. destruct (ri_exhausted r); cbn [orb negb]; [discriminate|]. intros. split; [reflexivity | lia]. Qed.

Lemma ri_next_refines hi r : ri_wf hi r ->
  exists r', ri_next hi r = Ret (hd_error (ri_abs r), r') /\ ri_abs r' = tl (ri_abs r) /\ ri_wf hi r'.
Proof.
  intros W. unfold ri_next, ri_abs.
  destruct (ri_is_empty r) eqn:Em.
  - exists r. cbn [hd_error tl]. rewrite Em. split; [reflexivity|]. split; [reflexivity | exact W].
  - destruct (ri_abs_nonempty r Em) as [Hx Hle]. destruct (W Em) as [Hs He].
    destruct (ri_start r <? ri_end r) eqn:Lt.
    + rewrite chk_ok by lia. cbn [bind].
      exists (mkRange (ri_start r + 1) (ri_end r) (ri_exhausted r)).
      replace (Z.to_nat (ri_end r - ri_start r + 1)) with (S (Z.to_nat (ri_end r - ri_start r))) by lia.
      cbn [ri_seq hd_error tl]. split; [reflexivity|]. split.
      * unfold ri_is_empty. cbn [ri_start ri_end ri_exhausted]. rewrite Hx. cbn [orb].
        replace (ri_start r + 1 <=? ri_end r) with true by lia. cbn [negb].
        f_equal. lia.
      * unfold ri_wf. cbn [ri_start ri_end]. intros _. lia.
    + exists (mkRange (ri_start r) (ri_end r) true).
      replace (Z.to_nat (ri_end r - ri_start r + 1)) with 1%nat by lia.
      cbn [ri_seq hd_error tl]. split; [reflexivity|]. split; [reflexivity|].
      unfold ri_wf, ri_is_empty. cbn [ri_exhausted orb]. discriminate.
Qed.

Lemma ri_next_back_refines hi r : ri_wf hi r ->
  exists r', ri_next_back hi r = Ret (last_opt (ri_abs r), r') /\ ri_abs r' = removelast (ri_abs r) /\ ri_wf hi r'.
Proof.
  intros W. unfold ri_next_back, ri_abs.
  destruct (ri_is_empty r) eqn:Em.
  - exists r. cbn [last_opt removelast]. rewrite Em. split; [reflexivity|]. split; [reflexivity | exact W].
  - destruct (ri_abs_nonempty r Em) as [Hx Hle]. destruct (W Em) as [Hs He].
    destruct (ri_start r <? ri_end r) eqn:Lt.
    + rewrite chk_ok by lia. cbn [bind].
      exists (mkRange (ri_start r) (ri_end r - 1) (ri_exhausted r)).
      replace (Z.to_nat (ri_end r - ri_start r + 1)) with (S (Z.to_nat (ri_end r - ri_start r))) by lia.
      rewrite ri_seq_snoc, last_opt_snoc, removelast_last.
      replace (ri_start r + Z.of_nat (Z.to_nat (ri_end r - ri_start r))) with (ri_end r) by lia.
      split; [reflexivity|]. split.
      * unfold ri_is_empty. cbn [ri_start ri_end ri_exhausted]. rewrite Hx. cbn [orb].
        replace (ri_start r <=? ri_end r - 1) with true by lia. cbn [negb].
        f_equal. lia.
      * unfold ri_wf. cbn [ri_start ri_end]. intros _. lia.
    + exists (mkRange (ri_start r) (ri_end r) true).
      replace (Z.to_nat (ri_end r - ri_start r + 1)) with 1%nat by lia.
      cbn [ri_seq last_opt removelast]. replace (ri_end r) with (ri_start r) at 1 by lia.
      split; [reflexivity|]. split; [reflexivity|].
      unfold ri_wf, ri_is_empty. cbn [ri_exhausted orb]. discriminate.
Qed.

Lemma ri_len_refines hi r : ri_wf hi r -> hi < usize_max ->
  ri_len r = Ret (Z.of_nat (length (ri_abs r))).
Proof.
  intros W Hhi. unfold ri_len, ri_size_hint, ri_abs.
  destruct (ri_is_empty r) eqn:Em; [reflexivity|].
  destruct (ri_abs_nonempty r Em) as [Hx Hle]. destruct (W Em) as [Hs He].
  unfold ri_steps_between. replace (ri_start r <=? ri_end r) with true by lia.
  cbn [fst snd]. unfold usize_saturating_add, usize_checked_add.
  replace (ri_end r - ri_start r + 1 <=? usize_max) with true by lia.
  unfold exact_len. cbn [fst snd]. rewrite Z.eqb_refl. rewrite ri_seq_length. f_equal. lia.
Qed.

Lemma ri_fused hi r : ri_abs r = [] -> ri_next hi r = Ret (None, r) /\ ri_next_back hi r = Ret (None, r).
Proof.
  unfold ri_abs, ri_next, ri_next_back. destruct (ri_is_empty r) eqn:Em; [now split|].
  destruct (ri_abs_nonempty r Em) as [Hx Hle].
  replace (Z.to_nat (ri_end r - ri_start r + 1)) with (S (Z.to_nat (ri_end r - ri_start r))) by lia.
  discriminate.
Qed.

Theorem range_refines_deque hi r : ri_wf hi r ->
  (exists r', ri_next hi r = Ret (hd_error (ri_abs r), r') /\ ri_abs r' = tl (ri_abs r) /\ ri_wf hi r') /\
  (exists r', ri_next_back hi r = Ret (last_opt (ri_abs r), r') /\ ri_abs r' = removelast (ri_abs r) /\ ri_wf hi r') /\
  (hi < usize_max -> ri_len r = Ret (Z.of_nat (length (ri_abs r)))) /\
  (ri_abs r = [] -> ri_next hi r = Ret (None, r) /\ ri_next_back hi r = Ret (None, r)).
Proof.
  intros W. split; [now apply ri_next_refines|]. split; [now apply ri_next_back_refines|].
  split; [now apply ri_len_refines | apply ri_fused].
Qed.

(* a fresh range a..=b *)
Lemma ri_abs_fresh a b : ri_abs (mkRange a b false) = ri_seq a (Z.to_nat (b - a + 1)).
Proof.
  unfold ri_abs, ri_is_empty. cbn [ri_start ri_end ri_exhausted orb].
  destruct (a <=? b) eqn:E; cbn [negb]; [reflexivity|].
  replace (Z.to_nat (b - a + 1)) with 0%nat by lia. reflexivity.
Qed.

(* ------------------------------------------------------------------ the reference deque machine *)
Fixpoint deque_run {A} (ops : list itop) (l : list A) : list (itout A) :=
  match ops with
  | [] => []
  | OpNext :: ops' => OutFront (hd_error l) :: deque_run ops' (tl l)
  | OpNextBack :: ops' => OutBack (last_opt l) :: deque_run ops' (removelast l)
  | OpLen :: ops' => OutLen (Z.of_nat (length l)) :: deque_run ops' l
  end.

(* simulation: an iterator whose three methods act on the abstraction like a deque produces deque_run *)
Lemma iter_run_refines {S A} (next back : S -> M (option A * S)) (len : S -> M Z) (R : S -> list A -> Prop) :
  (forall st l, R st l -> exists st', next st = Ret (hd_error l, st') /\ R st' (tl l)) ->
  (forall st l, R st l -> exists st', back st = Ret (last_opt l, st') /\ R st' (removelast l)) ->
  (forall st l, R st l -> len st = Ret (Z.of_nat (length l))) ->
  forall ops st l, R st l -> iter_run next back len ops st = Ret (deque_run ops l).
Proof.
  intros Hn Hb Hl ops. induction ops as [|op ops IH]; intros st l HR; [reflexivity|].
  destruct op; cbn [iter_run deque_run].
  - destruct (Hn st l HR) as (st' & -> & HR'). cbn [bind fst snd]. rewrite (IH _ _ HR'). reflexivity.
  - destruct (Hb st l HR) as (st' & -> & HR'). cbn [bind fst snd]. rewrite (IH _ _ HR'). reflexivity.
  - rewrite (Hl st l HR). cbn [bind]. rewrite (IH _ _ HR). reflexivity.
Qed.

(* ---- what the outputs of the deque machine look like *)
Definition fronts {A} (outs : list (itout A)) : list A :=
  flat_map (fun o => match o with OutFront (Some x) => [x] | _ => [] end) outs.
Definition backs {A} (outs : list (itout A)) : list A :=
  flat_map (fun o => match o with OutBack (Some x) => [x] | _ => [] end) outs.
Definition yielded {A} (outs : list (itout A)) : nat := (length (fronts outs) + length (backs outs))%nat.
Definition out_none {A} (o : itout A) : Prop :=
  match o with OutFront None | OutBack None => True | _ => False end.
Definition out_empty {A} (o : itout A) : Prop :=
  match o with OutFront None | OutBack None => True | OutLen n => n = 0 | _ => False end.

(* [outs] is a correct behaviour of a double-ended, exact-size, fused iterator over the items [L]:
   (1) the items taken from the front, in order, then some untouched middle part, then the items taken from the
       back in reverse order, make up L;
   (2) every `len` answer is |L| minus the number of items yielded before it;
   (3) a None answer comes only when all |L| items have been yielded, and from then on every answer is None / 0. *)
Definition deque_ok {A} (L : list A) (outs : list (itout A)) : Prop :=
  (exists mid, L = fronts outs ++ mid ++ rev (backs outs)) /\
  (forall pre n post, outs = pre ++ OutLen n :: post -> n = Z.of_nat (length L) - Z.of_nat (yielded pre)) /\
  (forall pre o post, outs = pre ++ o :: post -> out_none o ->
     yielded pre = length L /\ Forall out_empty post).

Lemma deque_run_length {A} ops (l : list A) : length (deque_run ops l) = length ops.
Proof. revert l; induction ops as [|[] ops IH]; intros; cbn [deque_run length]; now rewrite ?IH. Qed.

Lemma deque_run_nil_empty {A} ops : Forall out_empty (@deque_run A ops []).
Proof. induction ops as [|[] ops IH]; cbn [deque_run hd_error tl last_opt removelast length]; constructor; cbn; auto. Qed.

Lemma deque_partition {A} ops (l : list A) :
  exists mid, l = fronts (deque_run ops l) ++ mid ++ rev (backs (deque_run ops l)).
Proof.
  revert l; induction ops as [|op ops IH]; intros l.
  - exists l. cbn. now rewrite app_nil_r.
  - destruct op; cbn [deque_run].
    + destruct l as [|x l]; cbn [hd_error tl].
      * destruct (IH []) as (mid & E). exists mid. exact E.
      * destruct (IH l) as (mid & E). exists mid. unfold fronts, backs in *. cbn [flat_map app]. now rewrite <- E.
    + destruct (snoc_cases l) as [-> | (l' & x & ->)].
      * cbn [last_opt removelast]. destruct (IH []) as (mid & E). exists mid. exact E.
      * rewrite last_opt_snoc, removelast_last. destruct (IH l') as (mid & E). exists mid.
        unfold fronts, backs in *. cbn [flat_map app rev]. rewrite !app_assoc. f_equal.
        rewrite <- !app_assoc. exact E.
    + destruct (IH l) as (mid & E). exists mid. exact E.
Qed.

Lemma yielded_cons {A} (o : itout A) outs :
  yielded (o :: outs) =
  ((match o with OutFront (Some _) | OutBack (Some _) => 1 | _ => 0 end) + yielded outs)%nat.
Proof. unfold yielded, fronts, backs. cbn [flat_map]. rewrite !app_length. destruct o as [[x|]|[x|]|n]; cbn [length]; lia. Qed.

Lemma length_tl_hd {A} (l : list A) :
  length l = ((match hd_error l with Some _ => 1 | None => 0 end) + length (tl l))%nat.
Proof. destruct l; reflexivity. Qed.
Lemma length_removelast_last {A} (l : list A) :
  length l = ((match last_opt l with Some _ => 1 | None => 0 end) + length (removelast l))%nat.
Proof.
  destruct (snoc_cases l) as [-> | (l' & x & ->)]; [reflexivity|].
  rewrite last_opt_snoc, removelast_last, app_length. cbn [length]. lia.
Qed.

Lemma deque_len_exact {A} ops (l : list A) pre n post :
  deque_run ops l = pre ++ OutLen n :: post -> n = Z.of_nat (length l) - Z.of_nat (yielded pre).
Proof.
  revert l pre; induction ops as [|op ops IH]; intros l pre E.
  - destruct pre; discriminate.
  - destruct pre as [|o pre].
    + destruct op; cbn [deque_run app] in E; inversion E. unfold yielded. cbn. lia.
    + cbn [app] in E. rewrite yielded_cons.
      destruct op; cbn [deque_run] in E; inversion E as [[Eo E']]; specialize (IH _ _ E').
      * rewrite (length_tl_hd l). destruct (hd_error l); lia.
      * rewrite (length_removelast_last l). destruct (last_opt l); lia.
      * lia.
Qed.

Lemma deque_fused {A} ops (l : list A) pre o post :
  deque_run ops l = pre ++ o :: post -> out_none o -> yielded pre = length l /\ Forall out_empty post.
Proof.
  revert l pre; induction ops as [|op ops IH]; intros l pre E Ho.
  - destruct pre; discriminate.
  - destruct pre as [|o' pre].
    + destruct op; cbn [deque_run app] in E; inversion E as [[Eo E']]; subst o; cbn in Ho.
      * destruct (hd_error l) eqn:Eh; [contradiction|]. apply hd_error_none in Eh. subst l.
        split; [reflexivity | apply deque_run_nil_empty].
      * destruct (last_opt l) eqn:Eh; [contradiction|]. apply last_opt_none in Eh. subst l.
        split; [reflexivity | apply deque_run_nil_empty].
      * contradiction.
    + cbn [app] in E. rewrite yielded_cons.
      destruct op; cbn [deque_run] in E; inversion E as [[Eo E']]; destruct (IH _ _ E' Ho) as [Hy Hp];
        (split; [|exact Hp]).
      * rewrite (length_tl_hd l). destruct (hd_error l); lia.
      * rewrite (length_removelast_last l). destruct (last_opt l); lia.
      * lia.
Qed.

Theorem deque_run_ok {A} ops (L : list A) : deque_ok L (deque_run ops L).
Proof.
  split; [apply deque_partition|]. split.
  - intros pre n post E. now apply (deque_len_exact ops L pre n post).
  - intros pre o post E Ho. now apply (deque_fused ops L pre o post).
Qed.

(* ------------------------------------------------------------------ Forall2 along the deque operations *)
Section F2.
  Context {A B : Type} (P : A -> B -> Prop).
  Lemma F2_tl ks l : Forall2 P ks l -> Forall2 P (tl ks) (tl l).
  Proof. intros H; destruct H; [constructor | assumption]. Qed.
  Lemma F2_removelast ks l : Forall2 P ks l -> Forall2 P (removelast ks) (removelast l).
  Proof.
    induction 1 as [|k d ks l Hkd H IH]; [constructor|].
    cbn [removelast]. destruct H; [constructor|]. constructor; assumption.
  Qed.
  Lemma F2_length ks l : Forall2 P ks l -> length ks = length l.
  Proof. induction 1; cbn [length]; congruence. Qed.
  Lemma F2_hd ks l : Forall2 P ks l ->
    match hd_error ks, hd_error l with Some k, Some d => P k d | None, None => True | _, _ => False end.
  Proof. intros H; destruct H; cbn; auto. Qed.
  Lemma F2_last ks l : Forall2 P ks l ->
    match last_opt ks, last_opt l with Some k, Some d => P k d | None, None => True | _, _ => False end.
  Proof.
    induction 1 as [|k d ks l Hkd H IH]; [exact I|].
    cbn [last_opt]. destruct H; [exact Hkd | exact IH].
  Qed.
End F2.

(* finite choice: a list of witnesses *)
Lemma F2_choice {A B} (P : A -> B -> Prop) (ks : list A) :
  (forall k, In k ks -> exists d, P k d) -> exists l, Forall2 P ks l.
Proof.
  induction ks as [|k ks IH]; intros H; [exists []; constructor|].
  destruct (H k (or_introl eq_refl)) as (d & Hd).
  destruct IH as (l & Hl); [intros; apply H; now right|].
  exists (d :: l). now constructor.
Qed.

(* ------------------------------------------------------------------ the shape g(inner.next()?) *)
Section MapRi.
  Context {A : Type} (hi : Z) (g : Z -> M (option A)).
  Definition mapri_R (r : RangeInclusive) (l : list A) : Prop :=
    ri_wf hi r /\ Forall2 (fun k d => g k = Ret (Some d)) (ri_abs r) l.

  Lemma mapri_next_sim r l : mapri_R r l ->
    exists r', mapri_step (ri_next hi) g r = Ret (hd_error l, r') /\ mapri_R r' (tl l).
  Proof.
    intros [W F]. destruct (ri_next_refines hi r W) as (r' & E & Ea & W').
    exists r'. unfold mapri_step. rewrite E. cbn [bind fst snd]. split.
    - pose proof (F2_hd _ _ _ F) as H. destruct (hd_error (ri_abs r)), (hd_error l); try contradiction.
      + rewrite H. reflexivity.
      + reflexivity.
    - split; [exact W'|]. rewrite Ea. now apply F2_tl.
  Qed.

  Lemma mapri_back_sim r l : mapri_R r l ->
    exists r', mapri_step (ri_next_back hi) g r = Ret (last_opt l, r') /\ mapri_R r' (removelast l).
  Proof.
    intros [W F]. destruct (ri_next_back_refines hi r W) as (r' & E & Ea & W').
    exists r'. unfold mapri_step. rewrite E. cbn [bind fst snd]. split.
    - pose proof (F2_last _ _ _ F) as H. destruct (last_opt (ri_abs r)), (last_opt l); try contradiction.
      + rewrite H. reflexivity.
      + reflexivity.
    - split; [exact W'|]. rewrite Ea. now apply F2_removelast.
  Qed.

  Lemma mapri_len_sim r l : hi < usize_max -> mapri_R r l -> ri_len r = Ret (Z.of_nat (length l)).
  Proof. intros Hhi [W F]. rewrite (ri_len_refines hi r W Hhi). now rewrite (F2_length _ _ _ F). Qed.
End MapRi.

Lemma u32_lt_usize : u32_max < usize_max. Proof. reflexivity. Qed.
Lemma u16_lt_usize : u16_max < usize_max. Proof. reflexivity. Qed.

(* ------------------------------------------------------------------ C17: Days *)
Definition days_R (s : MonthShape) (st : Days) (l : list Z) : Prop :=
  Days_f_month_shape st = s /\ mapri_R u32_max (MonthShape_nth_day s) (Days_f_inner st) l.

Lemma days_iter_refines s ops st l : days_R s st l ->
  iter_run days_next days_next_back days_len ops st = Ret (deque_run ops l).
Proof.
  apply (iter_run_refines days_next days_next_back days_len (days_R s)); clear; intros st l [Es R].
  - destruct (mapri_next_sim _ _ _ _ R) as (r' & E & R'). unfold days_next. rewrite Es, E. cbn [bind fst snd].
    eexists. split; [reflexivity|]. split; [reflexivity | exact R'].
  - destruct (mapri_back_sim _ _ _ _ R) as (r' & E & R'). unfold days_next_back. rewrite Es, E. cbn [bind fst snd].
    eexists. split; [reflexivity|]. split; [reflexivity | exact R'].
  - unfold days_len, days_size_hint. exact (mapri_len_sim _ _ _ _ u32_lt_usize R).
Qed.

Theorem days_run_refines s n L :
  MonthShape_len s = Ret n -> n <= u32_max ->
  Forall2 (fun k d => MonthShape_nth_day s k = Ret (Some d)) (ri_seq 1 (Z.to_nat n)) L ->
  forall ops, days_run ops s = Ret (deque_run ops L) /\ deque_ok L (deque_run ops L).
Proof.
  intros Hl Hn F ops. split; [|apply deque_run_ok].
  unfold days_run, MonthShape_days, Days_new. rewrite Hl. cbn [bind].
  apply (days_iter_refines s). split; [reflexivity|]. cbn [Days_f_inner]. split.
  - unfold ri_wf. cbn [ri_start ri_end]. intros _. lia.
  - rewrite ri_abs_fresh. replace (n - 1 + 1) with n by lia. exact F.
Qed.

Theorem days_spec s n :
  MonthShape_len s = Ret n -> n <= u32_max ->
  (forall k, 1 <= k <= n -> exists d, MonthShape_nth_day s k = Ret (Some d)) ->
  exists L, Forall2 (fun k d => MonthShape_nth_day s k = Ret (Some d)) (ri_seq 1 (Z.to_nat n)) L /\
    forall ops, days_run ops s = Ret (deque_run ops L) /\ deque_ok L (deque_run ops L).
Proof.
  intros Hl Hn Hd.
  destruct (F2_choice (fun k d => MonthShape_nth_day s k = Ret (Some d)) (ri_seq 1 (Z.to_nat n))) as (L & F).
  { intros k Hk. apply ri_seq_in in Hk. apply Hd. lia. }
  exists L. split; [exact F|]. now apply (days_run_refines s n L Hl).
Qed.

(* ------------------------------------------------------------------ C17: MonthIter *)
Definition all_months : list Month :=
  [Month_January; Month_February; Month_March; Month_April; Month_May; Month_June; Month_July; Month_August;
   Month_September; Month_October; Month_November; Month_December].

Definition months_R (st : MonthIter) (l : list Month) : Prop := mapri_R u16_max monthiter_item (MonthIter_f_0 st) l.

Lemma months_iter_refines ops st l : months_R st l ->
  iter_run monthiter_next monthiter_next_back monthiter_len ops st = Ret (deque_run ops l).
Proof.
  apply (iter_run_refines monthiter_next monthiter_next_back monthiter_len months_R); clear; intros st l R.
  - destruct (mapri_next_sim _ _ _ _ R) as (r' & E & R'). unfold monthiter_next. rewrite E. cbn [bind fst snd].
    eexists. split; [reflexivity | exact R'].
  - destruct (mapri_back_sim _ _ _ _ R) as (r' & E & R'). unfold monthiter_next_back. rewrite E. cbn [bind fst snd].
    eexists. split; [reflexivity | exact R'].
  - unfold monthiter_len, monthiter_size_hint. exact (mapri_len_sim _ _ _ _ u16_lt_usize R).
Qed.

Theorem months_spec ops :
  months_run ops = Ret (deque_run ops all_months) /\ deque_ok all_months (deque_run ops all_months).
Proof.
  split; [|apply deque_run_ok].
  unfold months_run, MonthIter_new. cbn [bind]. apply months_iter_refines.
  unfold months_R. cbn [MonthIter_f_0]. split.
  - unfold ri_wf. cbn [ri_start ri_end]. intros _. unfold u16_max. lia.
  - rewrite ri_abs_fresh. change (Z.to_nat (12 - 1 + 1)) with 12%nat. cbn [ri_seq Z.add Pos.add Pos.succ].
    unfold all_months. repeat constructor.
Qed.

(* ------------------------------------------------------------------ C17: Dates (over the trimmed range) *)
Definition dates_R (s : MonthShape) (st : Dates) (l : list Date) : Prop :=
  Dates_f_month_shape st = s /\ mapri_R u32_max (MonthShape_nth_date s) (Dates_f_inner st) l.

Lemma dates_iter_refines s ops st l : dates_R s st l ->
  iter_run dates_next dates_next_back dates_len ops st = Ret (deque_run ops l).
Proof.
  apply (iter_run_refines dates_next dates_next_back dates_len (dates_R s)); clear; intros st l [Es R].
  - destruct (mapri_next_sim _ _ _ _ R) as (r' & E & R'). unfold dates_next. rewrite Es, E. cbn [bind fst snd].
    eexists. split; [reflexivity|]. split; [reflexivity | exact R'].
  - destruct (mapri_back_sim _ _ _ _ R) as (r' & E & R'). unfold dates_next_back. rewrite Es, E. cbn [bind fst snd].
    eexists. split; [reflexivity|]. split; [reflexivity | exact R'].
  - unfold dates_len, dates_size_hint. exact (mapri_len_sim _ _ _ _ u32_lt_usize R).
Qed.

Lemma trim_front_unfold fuel s start e :
  dates_trim_front fuel s start e =
  (c <- (if start <=? e then d <- MonthShape_nth_date s start;; Ret (opt_is_none d) else Ret false);;
   if c then match fuel with
             | O => Panic
             | S f => start' <- u32_add start 1;; dates_trim_front f s start' e
             end
   else Ret start).
Proof. destruct fuel; reflexivity. Qed.
Lemma trim_back_unfold fuel s start e :
  dates_trim_back fuel s start e =
  (c <- (if start <=? e then d <- MonthShape_nth_date s e;; Ret (opt_is_none d) else Ret false);;
   if c then match fuel with
             | O => Panic
             | S f => e' <- u32_sub e 1;; dates_trim_back f s start e'
             end
   else Ret e).
Proof. destruct fuel; reflexivity. Qed.

Section DatesTrim.
  (* the days of the month (ordinals 1..n) that have a Date are exactly the interval a..b; if there is none,
     the interval is written (n+1)..n *)
  Context (s : MonthShape) (n a b : Z).
  Hypothesis Hn : n < u32_max.
  Hypothesis Ha : 1 <= a.
  Hypothesis Hb : b <= n.
  Hypothesis Hab : a <= b \/ (a = n + 1 /\ b = n).
  Hypothesis Hsome : forall k, a <= k <= b -> exists d, MonthShape_nth_date s k = Ret (Some d).
  Hypothesis Hnone : forall k, 1 <= k < a \/ b < k <= n -> MonthShape_nth_date s k = Ret None.

  Lemma trim_front_spec fuel : forall start, 1 <= start <= a -> a - start <= Z.of_nat fuel ->
    dates_trim_front fuel s start n = Ret a.
  Proof.
    induction fuel as [|fuel IH]; intros start Hs Hf; rewrite trim_front_unfold.
    - assert (start = a) by lia. subst start.
      destruct (a <=? n) eqn:E.
      + destruct (Hsome a) as (d & ->); [lia|]. reflexivity.
      + reflexivity.
    - destruct (Z.eq_dec start a) as [-> | Hne].
      + destruct (a <=? n) eqn:E.
        * destruct (Hsome a) as (d & ->); [lia|]. reflexivity.
        * reflexivity.
      + replace (start <=? n) with true by lia. rewrite Hnone by lia. cbn [bind opt_is_none].
        rewrite u32_add_ok by (unfold in_u32, u32_max in *; lia). cbn [bind]. apply IH; lia.
  Qed.

  Lemma trim_back_spec fuel : forall e, b <= e <= n -> e - b <= Z.of_nat fuel ->
    dates_trim_back fuel s a e = Ret b.
  Proof.
    induction fuel as [|fuel IH]; intros e He Hf; rewrite trim_back_unfold.
    - assert (e = b) by lia. subst e.
      destruct (a <=? b) eqn:E.
      + destruct (Hsome b) as (d & ->); [lia|]. reflexivity.
      + reflexivity.
    - destruct (Z.eq_dec e b) as [-> | Hne].
      + destruct (a <=? b) eqn:E.
        * destruct (Hsome b) as (d & ->); [lia|]. reflexivity.
        * reflexivity.
      + replace (a <=? e) with true by lia. rewrite Hnone by lia. cbn [bind opt_is_none].
        rewrite u32_sub_ok by (unfold in_u32, u32_max in *; lia). cbn [bind]. apply IH; lia.
  Qed.

  Lemma dates_new_spec : MonthShape_len s = Ret n -> dates_new s = Ret (mkDates s (mkRange a b false)).
  Proof.
    intros Hl. unfold dates_new. rewrite Hl. cbn [bind].
    rewrite trim_front_spec by lia. cbn [bind].
    rewrite trim_back_spec by lia. reflexivity.
  Qed.

  Theorem dates_spec_sec : MonthShape_len s = Ret n ->
    exists L, Forall2 (fun k d => MonthShape_nth_date s k = Ret (Some d)) (ri_seq a (Z.to_nat (b - a + 1))) L /\
      forall ops, dates_run ops s = Ret (deque_run ops L) /\ deque_ok L (deque_run ops L).
  Proof.
    intros Hl.
    destruct (F2_choice (fun k d => MonthShape_nth_date s k = Ret (Some d)) (ri_seq a (Z.to_nat (b - a + 1))))
      as (L & F).
    { intros k Hk. apply ri_seq_in in Hk. apply Hsome. lia. }
    exists L. split; [exact F|]. intros ops. split; [|apply deque_run_ok].
    unfold dates_run. rewrite (dates_new_spec Hl). cbn [bind].
    apply (dates_iter_refines s). split; [reflexivity|]. cbn [Dates_f_inner]. split.
    - unfold ri_wf. cbn [ri_start ri_end]. intros _. lia.
    - rewrite ri_abs_fresh. exact F.
  Qed.
End DatesTrim.

(* ------------------------------------------------------------------ C10: Later / Earlier / AndLater / AndEarlier *)
Section Iterate.
  Context (valid : Date -> Prop) (step : Date -> M (option Date)) (f : Date -> option Date).
  Hypothesis step_spec : forall d, valid d -> step d = Ret (f d).
  Hypothesis step_valid : forall d d', valid d -> f d = Some d' -> valid d'.

  Definition obind (o : option Date) : option Date := match o with Some d => f d | None => None end.
  (* f^n, stopping at None *)
  Fixpoint oiter (n : nat) (o : option Date) : option Date :=
    match n with O => o | S n' => oiter n' (obind o) end.
  Definition ovalid (o : option Date) : Prop := match o with Some d => valid d | None => True end.

  Lemma ovalid_bind o : ovalid o -> ovalid (obind o).
  Proof. destruct o as [d|]; cbn; [|auto]. intros V. destruct (f d) eqn:E; cbn; [eauto | exact I]. Qed.
  Lemma oiter_none n : oiter n None = None.
  Proof. induction n; cbn; auto. Qed.
  Lemma oiter_add i j o : oiter (i + j) o = oiter j (oiter i o).
  Proof. revert o; induction i; intros; cbn [oiter Nat.add]; auto. Qed.
  Lemma oiter_fused i j o : oiter i o = None -> (i <= j)%nat -> oiter j o = None.
  Proof. intros H Hij. replace j with (i + (j - i))%nat by lia. rewrite oiter_add, H. apply oiter_none. Qed.

  Section LaterLike.
    Context {St : Type} (next : St -> M (option Date * St)) (mk : option Date -> St).
    Hypothesis next_mk : forall o, next (mk o) =
      match o with None => Ret (None, mk None) | Some d => r <- step d;; Ret (r, mk r) end.
    Lemma later_like n : forall o, ovalid o ->
      iter_take next n (mk o) = Ret (map (fun i => oiter (S i) o) (seq 0 n)).
    Proof.
      induction n as [|n IH]; intros o V; [reflexivity|].
      cbn [iter_take]. rewrite next_mk.
      assert (E : match o with None => Ret (None, mk None) | Some d => r <- step d;; Ret (r, mk r) end
                  = Ret (obind o, mk (obind o))).
      { destruct o as [d|]; [|reflexivity]. cbn in V. rewrite (step_spec d V). reflexivity. }
      rewrite E. cbn [bind fst snd]. rewrite (IH _ (ovalid_bind o V)). cbn [bind].
      change (seq 0 (S n)) with (0%nat :: seq 1 n). rewrite <- seq_shift. cbn [map]. rewrite map_map. reflexivity.
    Qed.
  End LaterLike.

  Section AndLaterLike.
    Context {St : Type} (next : St -> M (option Date * St)) (mk : option Date -> St).
    Hypothesis next_mk : forall o, next (mk o) =
      match o with None => Ret (None, mk None) | Some d => r <- step d;; Ret (Some d, mk r) end.
    Lemma and_later_like n : forall o, ovalid o ->
      iter_take next n (mk o) = Ret (map (fun i => oiter i o) (seq 0 n)).
    Proof.
      induction n as [|n IH]; intros o V; [reflexivity|].
      cbn [iter_take]. rewrite next_mk.
      assert (E : match o with None => Ret (None, mk None) | Some d => r <- step d;; Ret (Some d, mk r) end
                  = Ret (o, mk (obind o))).
      { destruct o as [d|]; [|reflexivity]. cbn in V. rewrite (step_spec d V). reflexivity. }
      rewrite E. cbn [bind fst snd]. rewrite (IH _ (ovalid_bind o V)). cbn [bind].
      change (seq 0 (S n)) with (0%nat :: seq 1 n). rewrite <- seq_shift. cbn [map]. rewrite map_map. reflexivity.
    Qed.
  End AndLaterLike.
End Iterate.

Section LaterSpec.
  (* [valid] : an invariant of dates that succ preserves (e.g. "is the canonical date of its day number");
     [f] : what succ computes on valid dates.  Both are discharged by the core development. *)
  Context (valid : Date -> Prop) (f : Date -> option Date).
  Hypothesis succ_spec : forall d, valid d -> Date_succ d = Ret (f d).
  Hypothesis succ_valid : forall d d', valid d -> f d = Some d' -> valid d'.

  Theorem later_spec d n : valid d ->
    later_take n d = Ret (map (fun i => oiter f (S i) (Some d)) (seq 0 n)).
  Proof.
    intros V. unfold later_take, Date_later, Later_new. cbn [bind].
    apply (later_like valid Date_succ f succ_spec succ_valid later_next mkLater); [|exact V].
    intros [d'|]; reflexivity.
  Qed.
  Theorem and_later_spec d n : valid d ->
    and_later_take n d = Ret (map (fun i => oiter f i (Some d)) (seq 0 n)).
  Proof.
    intros V. unfold and_later_take, Date_and_later, AndLater_new. cbn [bind].
    apply (and_later_like valid Date_succ f succ_spec succ_valid and_later_next mkAndLater); [|exact V].
    intros [d'|]; reflexivity.
  Qed.
End LaterSpec.

Section EarlierSpec.
  Context (valid : Date -> Prop) (f : Date -> option Date).
  Hypothesis pred_spec : forall d, valid d -> Date_pred d = Ret (f d).
  Hypothesis pred_valid : forall d d', valid d -> f d = Some d' -> valid d'.

  Theorem earlier_spec d n : valid d ->
    earlier_take n d = Ret (map (fun i => oiter f (S i) (Some d)) (seq 0 n)).
  Proof.
    intros V. unfold earlier_take, Date_earlier, Earlier_new. cbn [bind].
    apply (later_like valid Date_pred f pred_spec pred_valid earlier_next mkEarlier); [|exact V].
    intros [d'|]; reflexivity.
  Qed.
  Theorem and_earlier_spec d n : valid d ->
    and_earlier_take n d = Ret (map (fun i => oiter f i (Some d)) (seq 0 n)).
  Proof.
    intros V. unfold and_earlier_take, Date_and_earlier, AndEarlier_new. cbn [bind].
    apply (and_later_like valid Date_pred f pred_spec pred_valid and_earlier_next mkAndEarlier); [|exact V].
    intros [d'|]; reflexivity.
  Qed.
End EarlierSpec.

(* the state-level fused property: once the stored date is None, next returns None and stays there *)
Lemma later_state_fused : later_next (mkLater None) = Ret (None, mkLater None).
Proof. reflexivity. Qed.
Lemma earlier_state_fused : earlier_next (mkEarlier None) = Ret (None, mkEarlier None).
Proof. reflexivity. Qed.
Lemma and_later_state_fused : and_later_next (mkAndLater None) = Ret (None, mkAndLater None).
Proof. reflexivity. Qed.
Lemma and_earlier_state_fused : and_earlier_next (mkAndEarlier None) = Ret (None, mkAndEarlier None).
Proof. reflexivity. Qed.

(* ------------------------------------------------------------------ non-vacuity examples *)
(* the range u32::MAX..=u32::MAX yields its item without overflow and is then exhausted *)
Example ex_range_at_max :
  ri_wf u32_max (mkRange 4294967295 4294967295 false) /\
  ri_next u32_max (mkRange 4294967295 4294967295 false) = Ret (Some 4294967295, mkRange 4294967295 4294967295 true) /\
  ri_next u32_max (mkRange 4294967295 4294967295 true) = Ret (None, mkRange 4294967295 4294967295 true) /\
  ri_next_back u32_max (mkRange 0 0 false) = Ret (Some 0, mkRange 0 0 true) /\
  ri_len (mkRange 0 4294967295 false) = Ret 4294967296.
Proof. split; [intros _; cbn; unfold u32_max; lia|]. repeat split. Qed.

(* October 1582 of the REFORM1582 calendar: 21 days, 1..4 and 15..31 *)
Definition ex_oct1582 : MonthShape :=
  mkMonthShape Calendar_REFORM1582 1582 Month_October (inner_MonthShape_Gapped 5 14 31).

Lemma small_range_cases (P : Z -> Prop) lo n :
  Forall P (ri_seq lo n) -> forall k, lo <= k < lo + Z.of_nat n -> P k.
Proof. intros H k Hk. rewrite Forall_forall in H. apply H. now apply ri_seq_in. Qed.

Example ex_days_hyps :
  Calendar_month_shape Calendar_REFORM1582 1582 Month_October = Ret (Some ex_oct1582) /\
  MonthShape_len ex_oct1582 = Ret 21 /\ 21 <= u32_max /\
  (forall k, 1 <= k <= 21 -> exists d, MonthShape_nth_day ex_oct1582 k = Ret (Some d)).
Proof.
  split; [vm_compute; reflexivity|]. split; [vm_compute; reflexivity|]. split; [unfold u32_max; lia|].
  intros k Hk. apply (small_range_cases (fun k => exists d, MonthShape_nth_day ex_oct1582 k = Ret (Some d)) 1 21); [|lia].
  cbn [ri_seq Z.add Pos.add Pos.succ]. repeat constructor; eexists; vm_compute; reflexivity.
Qed.

Example ex_days_run :
  days_run [OpLen; OpNext; OpNextBack; OpNext; OpNext; OpNext; OpNext; OpLen] ex_oct1582 =
  Ret [OutLen 21; OutFront (Some 1); OutBack (Some 31); OutFront (Some 2); OutFront (Some 3); OutFront (Some 4);
       OutFront (Some 15); OutLen 15].
Proof. vm_compute. reflexivity. Qed.

Example ex_months_run :
  months_run [OpNext; OpNextBack; OpLen] =
  Ret [OutFront (Some Month_January); OutBack (Some Month_December); OutLen 10].
Proof. vm_compute. reflexivity. Qed.

(* March -5884202 of the Julian calendar, the first month of the supported range: the days 1..15 have Julian
   day numbers below i32::MIN and no Date; Dates::new trims them: a = 16, b = n = 31 *)
Definition ex_first_month : MonthShape :=
  mkMonthShape Calendar_JULIAN (-5884202) Month_March (inner_MonthShape_Normal 31).

Example ex_dates_hyps :
  Calendar_month_shape Calendar_JULIAN (-5884202) Month_March = Ret (Some ex_first_month) /\
  MonthShape_len ex_first_month = Ret 31 /\ 31 < u32_max /\ 1 <= 16 /\ 31 <= 31 /\ (16 <= 31 \/ (16 = 31 + 1 /\ 31 = 31)) /\
  (forall k, 16 <= k <= 31 -> exists d, MonthShape_nth_date ex_first_month k = Ret (Some d)) /\
  (forall k, 1 <= k < 16 \/ 31 < k <= 31 -> MonthShape_nth_date ex_first_month k = Ret None).
Proof.
  split; [vm_compute; reflexivity|]. split; [vm_compute; reflexivity|]. split; [unfold u32_max; lia|].
  split; [lia|]. split; [lia|]. split; [lia|]. split.
  - intros k Hk.
    apply (small_range_cases (fun k => exists d, MonthShape_nth_date ex_first_month k = Ret (Some d)) 16 16); [|lia].
    cbn [ri_seq Z.add Pos.add Pos.succ]. repeat constructor; eexists; vm_compute; reflexivity.
  - intros k Hk.
    apply (small_range_cases (fun k => MonthShape_nth_date ex_first_month k = Ret None) 1 15); [|lia].
    cbn [ri_seq Z.add Pos.add Pos.succ]. repeat constructor; vm_compute; reflexivity.
Qed.

Example ex_dates_new :
  dates_new ex_first_month = Ret (mkDates ex_first_month (mkRange 16 31 false)).
Proof. vm_compute. reflexivity. Qed.

(* the last three days of the supported range in the Gregorian calendar; succ of the last one is None *)
Definition ex_last (k : Z) : Date :=
  match Calendar_at_jdn Calendar_GREGORIAN (2147483647 - k) with Ret d => d | Panic => mkDate Calendar_GREGORIAN 0 0 Month_January 0 0 0 end.
Definition ex_valid (d : Date) : Prop := d = ex_last 2 \/ d = ex_last 1 \/ d = ex_last 0.
Definition ex_succ (d : Date) : option Date :=
  if Date_f_jdn d =? 2147483645 then Some (ex_last 1) else if Date_f_jdn d =? 2147483646 then Some (ex_last 0) else None.

Example ex_later_hyps :
  (forall d, ex_valid d -> Date_succ d = Ret (ex_succ d)) /\
  (forall d d', ex_valid d -> ex_succ d = Some d' -> ex_valid d') /\
  ex_valid (ex_last 2).
Proof.
  split; [|split].
  - intros d [-> | [-> | ->]]; vm_compute; reflexivity.
  - intros d d' [-> | [-> | ->]]; vm_compute; intros H; inversion H; unfold ex_valid; vm_compute; auto.
  - now left.
Qed.

Example ex_later_run :
  later_take 4 (ex_last 2) = Ret [Some (ex_last 1); Some (ex_last 0); None; None] /\
  and_later_take 4 (ex_last 2) = Ret [Some (ex_last 2); Some (ex_last 1); Some (ex_last 0); None].
Proof. split; vm_compute; reflexivity. Qed.

Definition ex_first (k : Z) : Date :=
  match Calendar_at_jdn Calendar_JULIAN (-2147483648 + k) with Ret d => d | Panic => mkDate Calendar_JULIAN 0 0 Month_January 0 0 0 end.
Definition ex_valid_e (d : Date) : Prop := d = ex_first 1 \/ d = ex_first 0.
Definition ex_pred (d : Date) : option Date :=
  if Date_f_jdn d =? -2147483647 then Some (ex_first 0) else None.

Example ex_earlier_hyps :
  (forall d, ex_valid_e d -> Date_pred d = Ret (ex_pred d)) /\
  (forall d d', ex_valid_e d -> ex_pred d = Some d' -> ex_valid_e d') /\
  ex_valid_e (ex_first 1) /\
  earlier_take 3 (ex_first 1) = Ret [Some (ex_first 0); None; None].
Proof.
  split; [|split; [|split]].
  - intros d [-> | ->]; vm_compute; reflexivity.
  - intros d d' [-> | ->]; vm_compute; intros H; inversion H; unfold ex_valid_e; vm_compute; auto.
  - now left.
  - vm_compute. reflexivity.
Qed.
