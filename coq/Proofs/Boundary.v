(* Boundary.v — observers: the boundary dates of a reforming calendar, Old/New Style flags,
   conversion between calendars, timestamps, zero-based ordinals, weekday. *)
From JV Require Import Sem Gen Spec SpecX.
From JV.Proofs Require Import SpecFacts GapFacts Cal Cmp Inner Year MonthGeom Shape Month MonthSpec SpecSums Walk SpecOrd SpecInv AtJdn AtYmd SpecSets SpecStep SuccPred Reform.
Open Scope Z_scope.
Ltac Zify.zify_post_hook ::= Z.to_euclidean_division_equations.

Theorem last_julian_date_ok c : ValidCal c ->
  Calendar_last_julian_date (cal_of c) = Ret (match c with CR r => Some (date_of c (r - 1)) | _ => None end).
Proof.
  intros V. destruct c as [| |r]; try reflexivity.
  cbn [ValidCal] in V. destruct (gap_info r V) as (py & pm & pd & qy & qm & qd & GI).
  unfold Calendar_last_julian_date. autounfold with gen_new. change (Calendar_f_0 (cal_of (CR r))) with (inner_Calendar_Reforming r (gap_of r)). cbv iota beta zeta.
  rewrite i32_sub_ok by (unfold ValidR in V; range). cbn [bind].
  rewrite (gap_of_eq _ _ _ _ _ _ _ GI). unfold the_gap.
  cbn [inner_ReformGap_f_pre_reform inner_Date_f_year inner_Date_f_ordinal inner_Date_f_month inner_Date_f_day].
  f_equal. f_equal. unfold date_of, lbl, ordinal_of, day_ordinal_of, lbl. cbn [is_old]. replace (r - 1 <? r) with true by lia.
  pose proof (gi_pre _ _ _ _ _ _ _ GI) as EP.
  assert (PY : jyear (r - 1) = py) by (unfold jlabel in EP; destruct (md_of _ _); inversion EP; reflexivity).
  rewrite EP, PY. f_equal. lia.
Qed.

Theorem first_gregorian_date_ok c : ValidCal c ->
  Calendar_first_gregorian_date (cal_of c) = Ret (match c with CR r => Some (date_of c r) | _ => None end).
Proof.
  intros V. destruct c as [| |r]; try reflexivity.
  cbn [ValidCal] in V. destruct (gap_info r V) as (py & pm & pd & qy & qm & qd & GI).
  unfold Calendar_first_gregorian_date. autounfold with gen_new. change (Calendar_f_0 (cal_of (CR r))) with (inner_Calendar_Reforming r (gap_of r)). cbv iota beta zeta.
  pose proof (gi_pre _ _ _ _ _ _ _ GI) as EP. pose proof (gi_post _ _ _ _ _ _ _ GI) as EQ.
  assert (QY : gyear r = qy) by (unfold glabel in EQ; destruct (md_of _ _); inversion EQ; reflexivity).
  pose proof (g_rp _ _ _ _ _ _ _ GI) as [RP PD]. pose proof (g_rq _ _ _ _ _ _ _ GI) as [RQ QD].
  pose proof (g_pm _ _ _ _ _ _ _ GI) as PM. pose proof (g_qm _ _ _ _ _ _ _ GI) as QM.
  pose proof (old_days_eq _ _ _ _ _ _ _ GI qy) as OD. pose proof (r_year_bounds _ _ _ _ _ _ _ GI) as [[A B] [C D]].
  pose proof (py_le_qy _ _ _ _ _ _ _ GI) as PQ. pose proof (g_pq _ _ _ _ _ _ _ GI) as PQl. pose proof (mlen_bounds (jleap py) pm) as MLP.
  assert (DO : day_ordinal_of (CR r) r = if (py =? qy) && (pm =? qm) then pd + 1 else 1).
  { unfold day_ordinal_of, lbl. cbn [is_old]. replace (r <? r) with false by lia. rewrite EQ.
    destruct (new_eq _ _ _ _ _ _ _ GI qy qm QM eq_refl eq_refl) as [NF _]. rewrite NF.
    destruct ((py =? qy) && (pm =? qm)) eqn:I.
    - assert (py = qy /\ pm = qm) as [E1 E2] by lia. rewrite (old_eq _ _ _ _ _ _ _ GI qy qm QM (eq_sym E1) (eq_sym E2)). lia.
    - assert (L : ym_ltP py pm qy qm) by (unfold ym_ltP in *; lia). rewrite (old_greater _ _ _ _ _ _ _ GI qy qm QM L). lia. }
  assert (OO : ordinal_of (CR r) r = if py =? qy then r - J0 py + 1 else 1).
  { unfold ordinal_of. cbn [is_old new_start]. replace (r <? r) with false by lia. rewrite QY, OD.
    replace (Z.max r (G0 qy)) with r by lia. destruct (Z.eqb_spec py qy) as [E|N].
    - subst py. replace (qy <? qy) with false by lia. rewrite Z.eqb_refl. lia.
    - replace (qy <? py) with false by lia. replace (qy =? py) with false by lia. lia. }
  unfold date_of, lbl. cbn [is_old]. replace (r <? r) with false by lia. rewrite EQ, DO, OO.
  rewrite (gap_of_eq _ _ _ _ _ _ _ GI). unfold the_gap.
  cbn [inner_ReformGap_f_pre_reform inner_ReformGap_f_post_reform inner_ReformGap_f_kind inner_Date_f_year inner_Date_f_ordinal inner_Date_f_month inner_Date_f_day].
  unfold gap_kind. destruct (Z.eqb_spec py qy) as [E|N].
  - destruct (Z.eqb_spec pm qm); cbn [andb].
    + rewrite u32_add_ok by range. cbn [bind]. reflexivity.
    + reflexivity.
  - cbn [andb]. destruct (py + 1 =? qy); reflexivity.
Qed.

Theorem is_julian_ok c j : Date_is_julian (date_of c j) = Ret (is_old c j).
Proof.
  unfold Date_is_julian, Date_julian_day_number. destruct (date_of_fields c j) as (Fc & _ & _ & Fj & _). rewrite ?Fc, ?Fj.
  destruct c; cbn [cal_of Calendar_JULIAN Calendar_GREGORIAN Calendar_f_0 is_old bind]; rewrite ?Fj; cbn [bind];
    first [reflexivity | f_equal; lia].
Qed.
Theorem is_gregorian_ok c j : Date_is_gregorian (date_of c j) = Ret (negb (is_old c j)).
Proof.
  unfold Date_is_gregorian.
  first [ rewrite is_julian_ok; cbn [bind]; reflexivity
        | unfold Date_julian_day_number; destruct (date_of_fields c j) as (Fc & _ & _ & Fj & _); rewrite ?Fc, ?Fj;
          destruct c; cbn [cal_of Calendar_JULIAN Calendar_GREGORIAN Calendar_f_0 is_old bind negb]; rewrite ?Fj; cbn [bind];
          first [reflexivity | f_equal; lia] ].
Qed.

Theorem convert_to_ok c c' j : ValidCal c' -> in_i32 j ->
  Date_convert_to (date_of c j) (cal_of c') = Ret (date_of c' j).
Proof.
  intros V Hj. unfold Date_convert_to, Date_julian_day_number. destruct (date_of_fields c j) as (_ & _ & _ & Fj & _). rewrite Fj. cbn [bind].
  apply at_jdn_ok; assumption.
Qed.

Theorem at_unix_time_ok c t : ValidCal c -> in_i64 t ->
  Calendar_at_unix_time (cal_of c) t =
  Ret (if in_i32b (t / 86400 + 2440588) then Ok (date_of c (t / 86400 + 2440588), t mod 86400) else Err mkArithmeticError).
Proof.
  intros V Ht. unfold Calendar_at_unix_time. rewrite unix2jdn_ok by exact Ht. cbn [bind].
  destruct (in_i32b (t / 86400 + 2440588)) eqn:E; [|reflexivity].
  rewrite at_jdn_ok by (try assumption; apply in_i32b_iff; exact E). reflexivity.
Qed.

Theorem ordinal0_ok c j : ValidCal c -> in_i32 j ->
  Date_ordinal0 (date_of c j) = Ret (ordinal_of c j - 1) /\ Date_day_ordinal0 (date_of c j) = Ret (day_ordinal_of c j - 1).
Proof.
  intros V Hj. unfold Date_ordinal0, Date_day_ordinal0. destruct (date_of_fields c j) as (_ & _ & Fo & _ & _ & _ & Fd). rewrite Fo, Fd.
  pose proof (ymddo_at c j V) as A. pose proof (ord_locate c j V) as OL. unfold OrdLocate in OL.
  destruct (lbl c j) as [[y m] d] eqn:EL. destruct A as [_ OR]. destruct OL as (Mr & B & DO & _).
  pose proof (msum_succ c y m Mr) as S. pose proof (month_facts c y m V Mr) as [O F N NL OO NN GP].
  pose proof (mlen_bounds (gleap y) m). pose proof (month_count_range c y m) as MC.
  assert (month_count c y m <= 62). { unfold month_count. destruct N as [N|[_ [N _]]]; lia. }
  split; rewrite u32_sub_ok by range; reflexivity.
Qed.

Theorem weekday_ok c j : in_i32 j -> Date_weekday (date_of c j) = Ret (weekday_of_number (j mod 7 + 1)).
Proof.
  intros Hj. unfold Date_weekday. destruct (date_of_fields c j) as (_ & _ & _ & Fj & _). rewrite Fj. apply for_jdn_ok; exact Hj.
Qed.

Theorem observers_ok c :
  Calendar_reformation (cal_of c) = Ret (match c with CR r => Some r | _ => None end) /\
  Calendar_is_reforming (cal_of c) = Ret (match c with CR _ => true | _ => false end) /\
  Calendar_is_proleptic (cal_of c) = Ret (match c with CR _ => false | _ => true end).
Proof. destruct c; repeat split; reflexivity. Qed.
