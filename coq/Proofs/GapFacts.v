(* GapFacts.v — spec-level facts about a reformation at day r, 1830692 <= r <= 2147439588:
   the first Gregorian label is strictly later than the last Julian label (the calendar only skips
   forward), and the Julian day number of the first Gregorian label still fits in 32 bits. *)
From Coq Require Import ZArith Lia ZifyBool Bool List.
From JV Require Import Spec.
From JV.Proofs Require Import SpecFacts.
Open Scope Z_scope.
Ltac Zify.zify_post_hook ::= Z.to_euclidean_division_equations.

Lemma gleap_jleap y : gleap y = true -> jleap y = true.
Proof. unfold gleap, jleap. lia. Qed.
Lemma mlen_g_le_j y m : mlen (gleap y) m <= mlen (jleap y) m.
Proof. pose proof (gleap_jleap y) as H. unfold mlen. destruct (m =? 2), (gleap y), (jleap y); try lia; discriminate (H eq_refl). Qed.
Lemma valid_g_j y m d : valid_md (gleap y) m d -> valid_md (jleap y) m d.
Proof. unfold valid_md. pose proof (mlen_g_le_j y m). lia. Qed.

Definition after_feb (leap : bool) (m : Z) : Z := if leap && (3 <=? m) then 1 else 0.
Lemma cum_after_feb l m : 1 <= m <= 12 -> cum l m = cum false m + after_feb l m.
Proof.
  intros H.
  assert (C : forallb (fun m => cum l m =? cum false m + after_feb l m) (zseq 1 12) = true)
    by (destruct l; vm_compute; reflexivity).
  pose proof (range_forall _ _ _ C m ltac:(cbn; lia)) as E. cbv beta in E. lia.
Qed.

(* offset between the Julian and the Gregorian day number of one and the same label *)
Definition delta (y m : Z) : Z := (J0 y + after_feb (jleap y) m) - (G0 y + after_feb (gleap y) m).
Lemma delta_eq y m d : 1 <= m <= 12 -> jdn_j y m d - jdn_g y m d = delta y m.
Proof. intros H. unfold jdn_j, jdn_g, delta. rewrite (cum_after_feb (jleap y) m H), (cum_after_feb (gleap y) m H). lia. Qed.

Lemma delta_pos y m : 1 <= m <= 12 -> (0 < delta y m <-> (300 < y \/ (y = 300 /\ 3 <= m))).
Proof.
  intros H. unfold delta, J0, G0, after_feb, jleap, gleap.
  destruct (Z.eqb_spec (y mod 4) 0), (Z.eqb_spec (y mod 100) 0), (Z.eqb_spec (y mod 400) 0), (Z.leb_spec 3 m);
    cbn [negb orb andb]; lia.
Qed.

Lemma jdn_g_lex_le y m d y' m' d' : valid_md (gleap y) m d -> valid_md (gleap y') m' d' ->
  jdn_g y m d <= jdn_g y' m' d' -> (y < y' \/ (y = y' /\ (m < m' \/ (m = m' /\ d <= d')))).
Proof.
  intros V V' H. destruct (Z.eq_dec (jdn_g y m d) (jdn_g y' m' d')) as [E|N].
  - assert (glabel (jdn_g y m d) = (y, m, d)) as A by (apply glabel_iff; auto).
    assert (glabel (jdn_g y m d) = (y', m', d')) as B by (apply glabel_iff; auto).
    rewrite A in B. inversion B; subst. lia.
  - pose proof (proj1 (jdn_g_lex y m d y' m' d' V V') ltac:(lia)) as L.
    unfold lex_lt, l_year, l_month, l_day in L. cbn [fst snd] in L. lia.
Qed.

Record GapInfo (r py pm pd qy qm qd : Z) : Prop := {
  gi_pre : jlabel (r - 1) = (py, pm, pd);
  gi_post : glabel r = (qy, qm, qd);
  gi_vp : valid_md (jleap py) pm pd;
  gi_ep : jdn_j py pm pd = r - 1;
  gi_vq : valid_md (gleap qy) qm qd;
  gi_eq : jdn_g qy qm qd = r;
  gi_vqj : valid_md (jleap qy) qm qd;
  gi_fwd : r < jdn_j qy qm qd;
  gi_fit : jdn_j qy qm qd <= 2147483647;
  gi_lex : lex_lt (py, pm, pd) (qy, qm, qd);
  gi_py : 300 <= py <= 5874777;
  gi_qy : 300 <= qy <= 5874777
}.

Lemma gap_info r : ValidR r -> exists py pm pd qy qm qd, GapInfo r py pm pd qy qm qd.
Proof.
  intros [Lo Hi].
  destruct (jlabel (r - 1)) as [[py pm] pd] eqn:EP. destruct (glabel r) as [[qy qm] qd] eqn:EQ.
  exists py, pm, pd, qy, qm, qd.
  pose proof (proj1 (jlabel_iff _ _ _ _) EP) as [VP JP]. pose proof (proj1 (glabel_iff _ _ _ _) EQ) as [VQ JQ].
  pose proof (valid_g_j _ _ _ VQ) as VQJ.
  assert (Mq : 1 <= qm <= 12) by (destruct VQ; assumption).
  (* position of the first Gregorian label relative to 0300-03-01 and to 5874777-10-17 *)
  assert (V300 : valid_md (gleap 300) 3 1) by (unfold valid_md; cbn; lia).
  assert (E300 : jdn_g 300 3 1 = 1830692) by reflexivity.
  pose proof (jdn_g_lex_le 300 3 1 qy qm qd V300 VQ ltac:(lia)) as Lo'.
  assert (VMax : valid_md (gleap 5874777) 10 17) by (unfold valid_md; cbn; lia).
  assert (EMax : jdn_g 5874777 10 17 = 2147439588) by reflexivity.
  pose proof (jdn_g_lex_le qy qm qd 5874777 10 17 VQ VMax ltac:(lia)) as Hi'.
  pose proof (delta_eq qy qm qd Mq) as D.
  assert (Dpos : 0 < delta qy qm) by (apply delta_pos; lia).
  assert (Fwd : r < jdn_j qy qm qd) by lia.
  assert (Fit : jdn_j qy qm qd <= 2147483647).
  { assert (VMaxJ : valid_md (jleap 5874777) 10 17) by (unfold valid_md; cbn; lia).
    assert (EMaxJ : jdn_j 5874777 10 17 = 2147483647) by reflexivity.
    destruct (Z.eq_dec (jdn_j qy qm qd) (jdn_j 5874777 10 17)) as [E|N]; [lia|].
    destruct (Z.lt_ge_cases (jdn_j 5874777 10 17) (jdn_j qy qm qd)) as [G|G]; [|lia].
    apply (jdn_j_lex 5874777 10 17 qy qm qd VMaxJ VQJ) in G.
    unfold lex_lt, l_year, l_month, l_day in G. cbn [fst snd] in G. lia. }
  assert (Lex : lex_lt (py, pm, pd) (qy, qm, qd)).
  { apply (jdn_j_lex py pm pd qy qm qd VP VQJ). lia. }
  split; try assumption.
  - (* py bounds *)
    unfold lex_lt, l_year, l_month, l_day in Lex. cbn [fst snd] in Lex.
    assert (300 <= py).
    { destruct (Z.lt_ge_cases py 300) as [L|G]; [|lia]. exfalso.
      assert (V : valid_md (jleap 300) 1 1) by (unfold valid_md; cbn; lia).
      assert (lex_lt (py, pm, pd) (300, 1, 1)) as X by (unfold lex_lt, l_year; cbn [fst snd]; lia).
      apply (jdn_j_lex py pm pd 300 1 1 VP V) in X. assert (jdn_j 300 1 1 = 1830633) by reflexivity. lia. }
    lia.
  - lia.
Qed.
