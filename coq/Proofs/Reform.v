(* Reform.v — Calendar::reforming: accepted exactly for 1830692 <= r <= 2147439588, returning exactly the
   calendar value described from the specification ([cal_of (CR r)]), with the right error elsewhere. *)
From JV Require Import Sem Gen Spec SpecX.
From JV.Proofs Require Import SpecFacts GapFacts Cal Cmp Inner Year MonthGeom Shape Month MonthSpec SpecSums Walk SpecOrd SpecInv AtJdn AtYmd Meq.
Open Scope Z_scope.
Ltac Zify.zify_post_hook ::= Z.to_euclidean_division_equations.

Definition reforming_spec (r : Z) : Result Calendar ReformingError :=
  if r <? 1830692 then Err ReformingError_InvalidReformation
  else if 2147439588 <? r then Err ReformingError_Arithmetic
  else Ok (cal_of (CR r)).

Lemma for_dates_ok py pm qy qm : in_i32 (py + 1) -> 1 <= pm <= 12 -> 1 <= qm <= 12 ->
  inner_GapKind_for_dates py (month_of_Z pm) qy (month_of_Z qm) = Ret (gap_kind py pm qy qm).
Proof.
  intros H PM QM. unfold inner_GapKind_for_dates, gap_kind. autounfold with gen_new.
  rewrite ?Month_eq_ok. rewrite ?Month_discr_of_Z by assumption.
  destruct (Z.eqb_spec py qy) as [E|N]; destruct (Z.eqb_spec pm qm) as [E2|N2]; destruct (Z.eqb_spec (py + 1) qy) as [E3|N3];
    try (exfalso; lia);
    repeat first [ progress cbn [bind negb andb orb] | rewrite i32_add_ok by exact H | progress cmp_simpl
                 | match goal with |- context[if ?c then _ else _] => destruct c eqn:? end ];
    try reflexivity; exfalso; lia.
Qed.

(* fields of the two proleptic dates that reforming() looks at *)
Lemma date_of_CJ j : let '(y, m, d) := jlabel j in
  date_of CJ j = mkDate Calendar_JULIAN y (j - J0 (jyear j) + 1) (month_of_Z m) d d j.
Proof.
  unfold date_of, lbl, ordinal_of, day_ordinal_of, lbl. cbn [is_old cal_of]. destruct (jlabel j) as [[y m] d]. reflexivity.
Qed.
Lemma date_of_CG j : let '(y, m, d) := glabel j in
  date_of CG j = mkDate Calendar_GREGORIAN y (j - G0 (gyear j) + 1) (month_of_Z m) d d j.
Proof.
  unfold date_of, lbl, ordinal_of, day_ordinal_of, lbl. cbn [is_old cal_of old_days new_start old_mdays new_mfirst].
  destruct (glabel j) as [[y m] d]. f_equal; lia.
Qed.

(* The proof first derives every arithmetic fact about the two boundary labels, the adjusted ordinal and the three
   bands of r, WITHOUT looking at the generated function; then [rf_norm] evaluates the function under those facts,
   whatever the order and nesting of its tests (each comparison the facts decide is replaced by its value, each call
   by its characterisation, each remaining test is split), and the leaves are closed by computation and lia. *)
Ltac rf_ifd :=
  match goal with
  | |- context[if ?c then _ else _] =>
    lazymatch c with
    | context[if _ then _ else _] => fail
    | context[match _ with _ => _ end] => fail
    | _ => destruct c eqn:?
    end
  end.

Theorem reforming_ok r : in_i32 r -> Calendar_reforming r = Ret (reforming_spec r).
Proof.
  intros Hr. unfold Calendar_reforming, reforming_spec. unfold i32_checked_sub.
  destruct (Z.eq_dec r i32_min) as [->|NMin].
  { rewrite chko_none by (unfold i32_min, i32_max; lia). reflexivity. }
  rewrite chko_ok by range.
  change Calendar_JULIAN with (cal_of CJ). change Calendar_GREGORIAN with (cal_of CG).
  assert (AJ1 : Calendar_at_jdn (cal_of CJ) (r - 1) = Ret (date_of CJ (r - 1))) by (apply at_jdn_ok; [exact I|range]).
  assert (AG1 : Calendar_at_jdn (cal_of CG) r = Ret (date_of CG r)) by (apply at_jdn_ok; [exact I|exact Hr]).
  pose proof (date_of_CJ (r - 1)) as DJ. pose proof (date_of_CG r) as DG.
  pose proof (jlabel_valid (r - 1)) as VJ. pose proof (glabel_valid r) as VG.
  destruct (jlabel (r - 1)) as [[py pm] pd] eqn:EP. destruct (glabel r) as [[qy qm] qd] eqn:EQ.
  destruct VJ as [[PM PD] JP]. destruct VG as [[QM QD] JQ].
  rewrite DJ in AJ1. rewrite DG in AG1. clear DJ DG.
  assert (PY : jyear (r - 1) = py). { apply jyear_unique. unfold jdn_j in JP. pose proof (cum_bounds (jleap py) pm PM). pose proof (J0_step py). lia. }
  assert (QY : gyear r = qy). { apply gyear_unique. unfold jdn_g in JQ. pose proof (cum_bounds (gleap qy) qm QM). pose proof (G0_step qy). lia. }
  rewrite PY in AJ1. rewrite QY in AG1.
  assert (HQY : in_i32 qy) by (rewrite <- QY; apply i32_year_g; exact Hr).
  assert (HPY : in_i32 py /\ in_i32 (py + 1)).
  { pose proof (jyear_spec (r - 1)) as S. rewrite PY in S. unfold J0 in S. split; range. }
  (* the ordinal of the first Gregorian label in the Julian year *)
  pose proof (cum_bounds (gleap qy) qm QM) as CGb. pose proof (cum_bounds (jleap qy) qm QM) as CJb.
  pose proof (cum_after_feb (jleap qy) qm QM) as AJ. pose proof (cum_after_feb (gleap qy) qm QM) as AG.
  pose proof (ylen_bounds (jleap qy)). pose proof (ylen_bounds (gleap qy)). pose proof (mlen_g_le_j qy qm) as MGJ.
  set (jord := cum (jleap qy) qm + qd).
  assert (JO : 1 <= jord <= 366) by (subst jord; lia).
  assert (AdjE : ((Z.rem qy 100 =? 0) = true /\ (Z.rem qy 400 =? 0) = false /\ (2 <? qm) = true -> jord = r - G0 qy + 1 + 1) /\
                 ((Z.rem qy 100 =? 0) = false \/ (Z.rem qy 400 =? 0) = true \/ (2 <? qm) = false -> jord = r - G0 qy + 1)).
  { unfold jdn_g in JQ. unfold after_feb in *. subst jord. unfold jleap, gleap in *.
    destruct (Z.eqb_spec (Z.rem qy 100) 0), (Z.eqb_spec (Z.rem qy 400) 0), (Z.ltb_spec 2 qm),
             (Z.eqb_spec (qy mod 4) 0), (Z.eqb_spec (qy mod 100) 0), (Z.eqb_spec (qy mod 400) 0), (Z.leb_spec 3 qm);
      cbn [andb orb negb] in *; split; intros; try lia; intuition (try discriminate; try lia). }
  destruct AdjE as [AdjT AdjF].
  assert (ORD : 1 <= r - G0 qy + 1 <= 366) by (unfold jdn_g in JQ; lia).
  assert (ORDP : 1 <= r - 1 - J0 py + 1 <= 366) by (unfold jdn_j in JP; pose proof (cum_bounds (jleap py) pm PM); pose proof (ylen_bounds (jleap py)); lia).
  (* get_jdn in the Julian calendar, at that ordinal = the Julian day number of the first Gregorian label *)
  assert (JOy : jord <= ylen (jleap qy)).
  { subst jord. lia. }
  assert (GJ : forall o, o = jord -> Calendar_get_jdn (cal_of CJ) qy o = Ret (jdn_result (jdn_j qy qm qd))).
  { intros o ->. rewrite get_jdn_julian by (try assumption; unfold year_count; cbn [old_days new_days]; lia).
    unfold jdn_of_ordinal, jdn_j. cbn [old_days]. replace (jord <=? ylen (jleap qy)) with true by lia. subst jord. do 2 f_equal. lia. }
  pose proof (delta_eq qy qm qd QM) as DE. pose proof (delta_pos qy qm QM) as DP.
  assert (V300 : valid_md (gleap 300) 3 1) by (unfold valid_md; cbn; lia).
  assert (VMax : valid_md (gleap 5874777) 10 17) by (unfold valid_md; cbn; lia).
  assert (VMaxJ : valid_md (jleap 5874777) 10 17) by (unfold valid_md; cbn; lia).
  assert (VQ : valid_md (gleap qy) qm qd) by (split; assumption).
  assert (VQJ : valid_md (jleap qy) qm qd) by (apply valid_g_j; exact VQ).
  assert (R100 : i32_rem qy 100 = Ret (Z.rem qy 100)) by (apply i32_rem_pos; lia).
  assert (R400 : i32_rem qy 400 = Ret (Z.rem qy 400)) by (apply i32_rem_pos; lia).
  assert (MLT : Month_lt Month_February (month_of_Z qm) = Ret (2 <? qm)).
  { rewrite Month_lt_ok. rewrite Month_discr_of_Z by exact QM. reflexivity. }
  (* evaluation of the generated function under the facts in the context *)
  Ltac rf_norm :=
    repeat first
    [ progress cbn [bind negb andb orb Date_f_year Date_f_ordinal Date_f_month Date_f_day inner_Date_f_ordinal]
    | progress cbv zeta
    | progress autounfold with gen_new
    | progress unfold Date_ordinal, Date_year, Date_month, Date_day
    | match goal with
      | H : Calendar_at_jdn _ _ = Ret _ |- _ => rewrite H
      | H : i32_rem _ _ = Ret _ |- _ => rewrite H
      | H : Month_lt _ _ = Ret _ |- _ => rewrite H
      | H : forall o, o = _ -> Calendar_get_jdn _ _ o = _ |- _ => rewrite H by lia
      | H : inner_GapKind_for_dates _ _ _ _ = Ret _ |- _ => rewrite H
      end
    | rewrite u32_add_ok by range
    | rewrite u32_sub_ok by range
    | progress cmp_simpl
    | rf_ifd ].
  destruct (Z.ltb_spec r 1830692) as [Low|NotLow].
  - (* not skipping forward *)
    assert (D0 : delta qy qm <= 0).
    { destruct (Z.lt_ge_cases 0 (delta qy qm)) as [P|]; [|lia]. exfalso. apply DP in P.
      assert (L : lex_lt (300, 3, 1) (qy, qm, qd) \/ (qy, qm, qd) = (300, 3, 1)).
      { unfold lex_lt, l_year, l_month, l_day. cbn [fst snd]. destruct (Z.eq_dec qd 1) as [->|]; [|left; lia].
        destruct (Z.eq_dec qm 3) as [->|]; [|left; lia]. destruct (Z.eq_dec qy 300) as [->|]; [right; reflexivity|left; lia]. }
      destruct L as [L|L].
      - apply (jdn_g_lex 300 3 1 qy qm qd V300 VQ) in L. change (jdn_g 300 3 1) with 1830692 in L. lia.
      - injection L as E1 E2 E3. rewrite E1, E2, E3 in JQ. change (jdn_g 300 3 1) with 1830692 in JQ. lia. }
    assert (DB : -100000 < delta qy qm).
    { pose proof (gyear_spec r) as GSp. rewrite QY in GSp.
      assert (-5884400 <= qy) by (unfold G0 in GSp; range).
      unfold delta, J0, G0, after_feb. destruct (jleap qy && (3 <=? qm)), (gleap qy && (3 <=? qm)); lia. }
    unfold jdn_result, chk_jdn, in_i32b in GJ. unfold i32_min, i32_max in *.
    rf_norm; try reflexivity; exfalso; lia.
  - destruct (Z.ltb_spec 2147439588 r) as [High|NotHigh].
    + (* the Julian date of the first Gregorian label is beyond the 32-bit range *)
      assert (L : lex_lt (5874777, 10, 17) (qy, qm, qd)).
      { apply (jdn_g_lex 5874777 10 17 qy qm qd VMax VQ). change (jdn_g 5874777 10 17) with 2147439588. lia. }
      apply (jdn_j_lex 5874777 10 17 qy qm qd VMaxJ VQJ) in L. change (jdn_j 5874777 10 17) with 2147483647 in L.
      unfold jdn_result, chk_jdn, in_i32b in GJ. unfold i32_min, i32_max in *.
      rf_norm; try reflexivity; exfalso; lia.
    + (* accepted *)
      assert (VR : ValidR r) by (unfold ValidR; lia).
      destruct (gap_info r VR) as (py' & pm' & pd' & qy' & qm' & qd' & GI).
      pose proof (gi_pre _ _ _ _ _ _ _ GI) as E1. pose proof (gi_post _ _ _ _ _ _ _ GI) as E2. rewrite EP in E1. rewrite EQ in E2.
      inversion E1; inversion E2; subst py' pm' pd' qy' qm' qd'.
      pose proof (gi_fwd _ _ _ _ _ _ _ GI). pose proof (gi_fit _ _ _ _ _ _ _ GI).
      assert (FD : inner_GapKind_for_dates py (month_of_Z pm) qy (month_of_Z qm) = Ret (gap_kind py pm qy qm)) by (apply for_dates_ok; tauto).
      pose proof (py_le_qy _ _ _ _ _ _ _ GI) as PQ. pose proof (r_year_bounds _ _ _ _ _ _ _ GI) as [[A B] [C D]].
      pose proof (G0_step qy). pose proof (J0_step py).
      change (cal_of (CR r)) with (mkCalendar (inner_Calendar_Reforming r (gap_of r))). unfold gap_of. rewrite EP, EQ. unfold gap_kind in *.
      unfold jdn_result, chk_jdn, in_i32b in GJ. unfold i32_min, i32_max in *.
      clear DE DP V300 VMax VMaxJ VQ VQJ AJ AG CGb CJb MGJ JP JQ PD QD JO JOy E1 E2 EP EQ.
      destruct (Z.eqb_spec py qy) as [E|N].
      * pose proof (same_year_gap _ _ _ _ _ _ _ GI E) as SG. rewrite E in *.
        rf_norm; try reflexivity; try (repeat f_equal; lia); exfalso; lia.
      * rf_norm; try reflexivity; try (repeat f_equal; lia); exfalso; lia.
Qed.
