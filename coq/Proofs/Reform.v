(* Reform.v — Calendar::reforming: accepted exactly for 1830692 <= r <= 2147439588, returning exactly the
   calendar value described from the specification ([cal_of (CR r)]), with the right error elsewhere. *)
From JV Require Import Sem Gen Spec SpecX.
From JV.Proofs Require Import SpecFacts GapFacts Cal Cmp Inner Year MonthGeom Shape Month MonthSpec SpecSums Walk SpecOrd SpecInv AtJdn AtYmd.
Open Scope Z_scope.
Ltac Zify.zify_post_hook ::= Z.to_euclidean_division_equations.

Definition reforming_spec (r : Z) : Result Calendar ReformingError :=
  if r <? 1830692 then Err ReformingError_InvalidReformation
  else if 2147439588 <? r then Err ReformingError_Arithmetic
  else Ok (cal_of (CR r)).

Lemma for_dates_ok py pm qy qm : in_i32 (py + 1) -> 1 <= pm <= 12 -> 1 <= qm <= 12 ->
  inner_GapKind_for_dates py (month_of_Z pm) qy (month_of_Z qm) = Ret (gap_kind py pm qy qm).
Proof.
  intros H PM QM. unfold inner_GapKind_for_dates, gap_kind. rewrite Month_eq_ok. rewrite !Month_discr_of_Z by assumption.
  destruct (py =? qy); cbn [bind]; [destruct (pm =? qm); reflexivity|].
  rewrite i32_add_ok by exact H. cbn [bind]. destruct (py + 1 =? qy); reflexivity.
Qed.

(* fields of the two proleptic dates that reforming() looks at *)
Lemma date_of_CJ j : let '(y, m, d) := jlabel j in
  date_of CJ j = mkDate Calendar_JULIAN y (j - J0 (jyear j) + 1) (month_of_Z m) d d j.
Proof.
  unfold date_of, lbl, ordinal_of, day_ordinal_of, lbl. cbn [is_old cal_of]. destruct (jlabel j) as [[y m] d]. reflexivity.
Qed.
Lemma date_of_CG j : let '(y, m, d) := glabel j in
  date_of CG j = mkDate Calendar_GREGORIAN y (j - G0 (gyear j) + 1) (month_of_Z m) d d j.
Proof.
  unfold date_of, lbl, ordinal_of, day_ordinal_of, lbl. cbn [is_old cal_of old_days new_start old_mdays new_mfirst].
  destruct (glabel j) as [[y m] d]. f_equal; lia.
Qed.

Theorem reforming_ok r : in_i32 r -> Calendar_reforming r = Ret (reforming_spec r).
Proof.
  intros Hr. unfold Calendar_reforming, reforming_spec. unfold i32_checked_sub.
  destruct (Z.eq_dec r i32_min) as [->|NMin].
  { rewrite chko_none by (unfold i32_min, i32_max; lia). reflexivity. }
  rewrite chko_ok by range. cbv zeta.
  change Calendar_JULIAN with (cal_of CJ). change Calendar_GREGORIAN with (cal_of CG).
  rewrite at_jdn_ok by (cbn; auto; range). cbn [bind]. rewrite at_jdn_ok by (cbn; auto). cbn [bind].
  pose proof (date_of_CJ (r - 1)) as DJ. pose proof (date_of_CG r) as DG.
  pose proof (jlabel_valid (r - 1)) as VJ. pose proof (glabel_valid r) as VG.
  destruct (jlabel (r - 1)) as [[py pm] pd] eqn:EP. destruct (glabel r) as [[qy qm] qd] eqn:EQ.
  destruct VJ as [[PM PD] JP]. destruct VG as [[QM QD] JQ].
  rewrite DJ, DG. unfold Date_ordinal, Date_year. cbn [bind Date_f_year Date_f_ordinal Date_f_month Date_f_day].
  assert (PY : jyear (r - 1) = py). { apply jyear_unique. unfold jdn_j in JP. pose proof (cum_bounds (jleap py) pm PM). pose proof (J0_step py). lia. }
  assert (QY : gyear r = qy). { apply gyear_unique. unfold jdn_g in JQ. pose proof (cum_bounds (gleap qy) qm QM). pose proof (G0_step qy). lia. }
  rewrite PY, QY.
  assert (HQY : in_i32 qy) by (rewrite <- QY; apply i32_year_g; exact Hr).
  assert (HPY : in_i32 py /\ in_i32 (py + 1)).
  { pose proof (jyear_spec (r - 1)) as S. rewrite PY in S. unfold J0 in S. split; range. }
  rewrite !i32_rem_pos by lia. cbn [bind]. rewrite Month_lt_ok. rewrite Month_discr_of_Z by exact QM. cbn [Month_discr].
  (* the ordinal of the first Gregorian label in the Julian year *)
  pose proof (cum_bounds (gleap qy) qm QM) as CGb. pose proof (cum_bounds (jleap qy) qm QM) as CJb.
  pose proof (cum_after_feb (jleap qy) qm QM) as AJ. pose proof (cum_after_feb (gleap qy) qm QM) as AG.
  pose proof (ylen_bounds (jleap qy)). pose proof (ylen_bounds (gleap qy)). pose proof (mlen_g_le_j qy qm) as MGJ.
  set (jord := cum (jleap qy) qm + qd).
  assert (JO : 1 <= jord <= 366) by (subst jord; lia).
  assert (Adj : forall k : Z -> M (Result Calendar ReformingError),
     (t19 <- (if Z.rem qy 100 =? 0 then (Ret (negb (Z.rem qy 400 =? 0))) else Ret false);;
      t20 <- (if t19 then Ret (2 <? qm) else Ret false);;
      if t20 then ordinal <- u32_add (r - G0 qy + 1) 1;; k ordinal else k (r - G0 qy + 1)) = k jord).
  { intros k. unfold jdn_g in JQ. unfold after_feb, jleap, gleap in *.
    destruct (Z.eqb_spec (Z.rem qy 100) 0) as [C100|C100]; cbn [bind].
    - destruct (Z.eqb_spec (Z.rem qy 400) 0) as [C400|C400]; cbn [bind negb].
      + f_equal. subst jord. unfold jleap, gleap.
        replace (qy mod 4 =? 0) with true in * by lia. replace (qy mod 100 =? 0) with true in * by lia. replace (qy mod 400 =? 0) with true in * by lia.
        cbn [andb orb negb] in *. lia.
      + destruct (Z.ltb_spec 2 qm); cbn [bind].
        * rewrite u32_add_ok by range. cbn [bind]. f_equal. subst jord. unfold jleap, gleap.
          replace (qy mod 4 =? 0) with true in * by lia. replace (qy mod 100 =? 0) with true in * by lia. replace (qy mod 400 =? 0) with false in * by lia.
          replace (3 <=? qm) with true in * by lia. cbn [andb orb negb] in *. lia.
        * f_equal. subst jord. unfold jleap, gleap.
          replace (3 <=? qm) with false in * by lia. rewrite !andb_false_r in *. lia.
    - f_equal. subst jord. unfold jleap, gleap.
      destruct (Z.eqb_spec (qy mod 4) 0), (Z.eqb_spec (qy mod 100) 0), (Z.eqb_spec (qy mod 400) 0), (Z.leb_spec 3 qm); cbn [andb orb negb] in *; lia. }
  rewrite Adj. clear Adj.
  (* get_jdn in the Julian calendar = Julian day number of the first Gregorian label *)
  assert (GJ : Calendar_get_jdn (cal_of CJ) qy jord = Ret (jdn_result (jdn_j qy qm qd))).
  { unfold Calendar_get_jdn. cbv zeta. rewrite Year.gap_ok. cbn [bind]. change (Calendar_f_0 (cal_of CJ)) with inner_Calendar_Julian. cbn [orb].
    rewrite julian2jdn_ok by assumption. cbn [bind]. unfold jdn_result, jdn_j. subst jord. replace (J0 qy + (cum (jleap qy) qm + qd) - 1) with (J0 qy + cum (jleap qy) qm + qd - 1) by lia. reflexivity. }
  rewrite GJ. cbn [bind]. clear GJ.
  pose proof (delta_eq qy qm qd QM) as DE. pose proof (delta_pos qy qm QM) as DP.
  assert (V300 : valid_md (gleap 300) 3 1) by (unfold valid_md; cbn; lia).
  assert (VMax : valid_md (gleap 5874777) 10 17) by (unfold valid_md; cbn; lia).
  assert (VMaxJ : valid_md (jleap 5874777) 10 17) by (unfold valid_md; cbn; lia).
  assert (VQ : valid_md (gleap qy) qm qd) by (split; assumption).
  assert (VQJ : valid_md (jleap qy) qm qd) by (apply valid_g_j; exact VQ).
  unfold jdn_result, chk_jdn.
  destruct (Z.ltb_spec r 1830692) as [Low|NotLow].
  - (* not skipping forward *)
    assert (D0 : delta qy qm <= 0).
    { destruct (Z.lt_ge_cases 0 (delta qy qm)) as [P|]; [|lia]. exfalso. apply DP in P.
      assert (L : lex_lt (300, 3, 1) (qy, qm, qd) \/ (qy, qm, qd) = (300, 3, 1)).
      { unfold lex_lt, l_year, l_month, l_day. cbn [fst snd]. destruct (Z.eq_dec qd 1) as [->|]; [|left; lia].
        destruct (Z.eq_dec qm 3) as [->|]; [|left; lia]. destruct (Z.eq_dec qy 300) as [->|]; [right; reflexivity|left; lia]. }
      destruct L as [L|L].
      - apply (jdn_g_lex 300 3 1 qy qm qd V300 VQ) in L. change (jdn_g 300 3 1) with 1830692 in L. lia.
      - injection L as E1 E2 E3. rewrite E1, E2, E3 in JQ. change (jdn_g 300 3 1) with 1830692 in JQ. lia. }
    destruct (in_i32b (jdn_j qy qm qd)) eqn:Fit.
    + replace (jdn_j qy qm qd <=? r) with true by lia. reflexivity.
    + assert (DB : -100000 < delta qy qm).
      { pose proof (gyear_spec r) as GSp. rewrite QY in GSp.
        assert (-5884400 <= qy) by (unfold G0 in GSp; range).
        unfold delta, J0, G0, after_feb. destruct (jleap qy && (3 <=? qm)), (gleap qy && (3 <=? qm)); lia. }
      replace (r <? 0) with true; [reflexivity|]. unfold in_i32b, in_i32, i32_min, i32_max in *. lia.
  - destruct (Z.ltb_spec 2147439588 r) as [High|NotHigh].
    + (* the Julian date of the first Gregorian label is beyond the 32-bit range *)
      assert (L : lex_lt (5874777, 10, 17) (qy, qm, qd)).
      { apply (jdn_g_lex 5874777 10 17 qy qm qd VMax VQ). change (jdn_g 5874777 10 17) with 2147439588. lia. }
      apply (jdn_j_lex 5874777 10 17 qy qm qd VMaxJ VQJ) in L. change (jdn_j 5874777 10 17) with 2147483647 in L.
      replace (in_i32b (jdn_j qy qm qd)) with false by (unfold in_i32b, i32_min, i32_max; lia).
      replace (r <? 0) with false by lia. reflexivity.
    + (* accepted *)
      assert (VR : ValidR r) by (unfold ValidR; lia).
      destruct (gap_info r VR) as (py' & pm' & pd' & qy' & qm' & qd' & GI).
      pose proof (gi_pre _ _ _ _ _ _ _ GI) as E1. pose proof (gi_post _ _ _ _ _ _ _ GI) as E2. rewrite EP in E1. rewrite EQ in E2.
      inversion E1; inversion E2; subst py' pm' pd' qy' qm' qd'.
      pose proof (gi_fwd _ _ _ _ _ _ _ GI). pose proof (gi_fit _ _ _ _ _ _ _ GI).
      replace (in_i32b (jdn_j qy qm qd)) with true by (unfold in_i32b, i32_min, i32_max; lia).
      replace (jdn_j qy qm qd <=? r) with false by lia.
      rewrite for_dates_ok by (try assumption; tauto). cbn [bind].
      pose proof (py_le_qy _ _ _ _ _ _ _ GI) as PQ. pose proof (r_year_bounds _ _ _ _ _ _ _ GI) as [[A B] [C D]].
      pose proof (G0_step qy). pose proof (J0_step py).
      unfold cal_of. unfold gap_of. rewrite EP, EQ. unfold gap_kind.
      destruct (Z.eqb_spec py qy) as [E|N].
      * pose proof (same_year_gap _ _ _ _ _ _ _ GI E) as SG. rewrite E in *.
        assert (KK : (match (if pm =? qm then inner_GapKind_IntraMonth else inner_GapKind_CrossMonth) with
                      | inner_GapKind_IntraMonth | inner_GapKind_CrossMonth => true | _ => false end) = true) by (destruct (pm =? qm); reflexivity).
        destruct (pm =? qm); cbn [inner_Date_f_ordinal];
          rewrite u32_add_ok by range; cbn [bind]; rewrite u32_sub_ok by range; cbn [bind];
          rewrite u32_sub_ok by range; cbn [bind]; rewrite u32_sub_ok by range; cbn [bind];
          do 4 f_equal; lia.
      * destruct (py + 1 =? qy); cbn [inner_Date_f_ordinal]; rewrite u32_sub_ok by range; cbn [bind]; do 4 f_equal; lia.
Qed.
