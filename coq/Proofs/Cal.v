(* Cal.v — the calendars a user can hold, as values of the generated [Calendar] type, described
   from the specification: [cal_of c] is built from spec labels only.  (That [Calendar_reforming r]
   returns exactly [cal_of (CR r)] is proved in Reform.v.) *)
From JV Require Import Sem Gen Spec.
From JV.Proofs Require Import SpecFacts.
Open Scope Z_scope.
Ltac Zify.zify_post_hook ::= Z.to_euclidean_division_equations.

Definition month_of_Z (n : Z) : Month :=
  if n =? 1 then Month_January else if n =? 2 then Month_February else if n =? 3 then Month_March
  else if n =? 4 then Month_April else if n =? 5 then Month_May else if n =? 6 then Month_June
  else if n =? 7 then Month_July else if n =? 8 then Month_August else if n =? 9 then Month_September
  else if n =? 10 then Month_October else if n =? 11 then Month_November else Month_December.

Lemma Month_discr_range m : 1 <= Month_discr m <= 12.
Proof. destruct m; cbn; lia. Qed.
Lemma month_of_Z_discr m : month_of_Z (Month_discr m) = m.
Proof. destruct m; reflexivity. Qed.
Lemma Month_discr_of_Z n : 1 <= n <= 12 -> Month_discr (month_of_Z n) = n.
Proof.
  intros H.
  assert (C : n = 1 \/ n = 2 \/ n = 3 \/ n = 4 \/ n = 5 \/ n = 6 \/ n = 7 \/ n = 8 \/ n = 9 \/ n = 10 \/ n = 11 \/ n = 12) by lia.
  repeat (destruct C as [->|C]; [reflexivity|]). subst. reflexivity.
Qed.
Lemma Month_discr_inj a b : Month_discr a = Month_discr b -> a = b.
Proof. intros H. rewrite <- (month_of_Z_discr a), <- (month_of_Z_discr b), H. reflexivity. Qed.

Definition gap_kind (py pm qy qm : Z) : inner_GapKind :=
  if py =? qy then (if pm =? qm then inner_GapKind_IntraMonth else inner_GapKind_CrossMonth)
  else if py + 1 =? qy then inner_GapKind_CrossYear else inner_GapKind_MultiYear.

(* the gap record of the reforming calendar with reformation day r, from spec labels *)
Definition gap_of (r : Z) : inner_ReformGap :=
  let '(py, pm, pd) := jlabel (r - 1) in
  let '(qy, qm, qd) := glabel r in
  let po := r - 1 - J0 py + 1 in      (* Julian day-of-year of day r-1 *)
  let qo := r - G0 qy + 1 in          (* Gregorian day-of-year of day r *)
  let kind := gap_kind py pm qy qm in
  let same_year := py =? qy in
  mkinner_ReformGap
    (mkinner_Date py po (month_of_Z pm) pd)
    (mkinner_Date qy (if same_year then po + 1 else 1) (month_of_Z qm) qd)
    kind
    (if same_year then qo - 1 else 0)
    (if same_year then qo - po - 1 else qo - 1).

Definition cal_of (c : cal) : Calendar :=
  match c with
  | CJ => Calendar_JULIAN
  | CG => Calendar_GREGORIAN
  | CR r => mkCalendar (inner_Calendar_Reforming r (gap_of r))
  end.

(* every calendar value obtainable through the public API (fields are private) *)
Definition WfCal (k : Calendar) : Prop := exists c, ValidCal c /\ k = cal_of c.

Lemma cal_of_inj c c' : cal_of c = cal_of c' -> c = c'.
Proof. destruct c, c'; cbn; intros H; try discriminate; try reflexivity. inversion H. reflexivity. Qed.
