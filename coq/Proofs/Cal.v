(* Cal.v — the calendars a user can hold, as values of the generated [Calendar] type, described
   from the specification: [cal_of c] is built from spec labels only.  (That [Calendar_reforming r]
   returns exactly [cal_of (CR r)] is proved in Reform.v.) *)
From JV Require Import Sem Gen Spec SpecX.
From JV.Proofs Require Import SpecFacts.
Open Scope Z_scope.
Ltac Zify.zify_post_hook ::= Z.to_euclidean_division_equations.

Lemma Month_discr_range m : 1 <= Month_discr m <= 12.
Proof. destruct m; cbn; lia. Qed.
Lemma month_of_Z_discr m : month_of_Z (Month_discr m) = m.
Proof. destruct m; reflexivity. Qed.
Lemma Month_discr_of_Z n : 1 <= n <= 12 -> Month_discr (month_of_Z n) = n.
Proof.
  intros H.
  assert (C : n = 1 \/ n = 2 \/ n = 3 \/ n = 4 \/ n = 5 \/ n = 6 \/ n = 7 \/ n = 8 \/ n = 9 \/ n = 10 \/ n = 11 \/ n = 12) by lia.
  repeat (destruct C as [->|C]; [reflexivity|]). subst. reflexivity.
Qed.
Lemma Month_discr_inj a b : Month_discr a = Month_discr b -> a = b.
Proof. intros H. rewrite <- (month_of_Z_discr a), <- (month_of_Z_discr b), H. reflexivity. Qed.

(* the gap record of the reforming calendar with reformation day r, from spec labels *)

(* every calendar value obtainable through the public API (fields are private) *)
Definition WfCal (k : Calendar) : Prop := exists c, ValidCal c /\ k = cal_of c.

Lemma cal_of_inj c c' : cal_of c = cal_of c' -> c = c'.
Proof. destruct c, c'; cbn; intros H; try discriminate; try reflexivity. inversion H. reflexivity. Qed.
