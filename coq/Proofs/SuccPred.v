(* SuccPred.v — Date::succ / Date::pred on canonical dates: the calendar's date for the next / previous
   day number, absent only at the 32-bit limits. *)
From JV Require Import Sem Gen Spec SpecX.
From JV.Proofs Require Import SpecFacts GapFacts Cal Cmp Inner Year MonthGeom Shape Month MonthSpec SpecSums Walk SpecOrd SpecInv AtJdn AtYmd SpecSets SpecStep Meq.
Open Scope Z_scope.
Ltac Zify.zify_post_hook ::= Z.to_euclidean_division_equations.

Lemma date_of_fields c j :
  Date_f_calendar (date_of c j) = cal_of c /\ Date_f_year (date_of c j) = l_year (lbl c j) /\
  Date_f_ordinal (date_of c j) = ordinal_of c j /\ Date_f_jdn (date_of c j) = j /\
  Date_f_month (date_of c j) = month_of_Z (l_month (lbl c j)) /\ Date_f_day (date_of c j) = l_day (lbl c j) /\
  Date_f_day_ordinal (date_of c j) = day_ordinal_of c j.
Proof. unfold date_of. destruct (lbl c j) as [[y m] d]. cbn. repeat split; reflexivity. Qed.

Lemma year_i32 c j : in_i32 j -> in_i32 (l_year (lbl c j)).
Proof. intros H. rewrite lbl_year_eq. destruct (is_old c j); [apply i32_year_j|apply i32_year_g]; exact H. Qed.

(* next_year_after / prev_year_before: facts first, then evaluation of whatever shape the code has *)
Ltac ny_pre :=
  repeat first
  [ progress cbn [bind]
  | progress cbv zeta
  | progress autounfold with gen_new
  | rewrite Year.gap_ok ].
Ltac ny_norm :=
  repeat first
  [ progress cbn [bind andb orb negb inner_ReformGap_f_pre_reform inner_ReformGap_f_post_reform inner_Date_f_year]
  | progress cbv zeta
  | rewrite i32_add_ok by assumption
  | rewrite i32_sub_ok by assumption
  | progress cmp_simpl
  | match goal with |- context[if ?c then _ else _] => destruct c eqn:? end ].

Lemma next_year_after_ok c y : ValidCal c -> in_i32 (y + 1) ->
  Calendar_next_year_after (cal_of c) y = Ret (next_year c y).
Proof.
  intros V Hy. unfold Calendar_next_year_after. ny_pre.
  destruct c as [| |r]; cbn [next_year]; try (ny_norm; reflexivity).
  cbn [ValidCal] in V. unfold gap_of.
  destruct (jlabel (r - 1)) as [[py pm] pd] eqn:EP. destruct (glabel r) as [[qy qm] qd] eqn:EQ.
  assert (PY : jyear (r - 1) = py) by (unfold jlabel in EP; destruct (md_of _ _); inversion EP; reflexivity).
  assert (QY : gyear r = qy) by (unfold glabel in EQ; destruct (md_of _ _); inversion EQ; reflexivity).
  rewrite ?PY, ?QY. ny_norm; first [ reflexivity | exfalso; lia | f_equal; lia ].
Qed.
Lemma prev_year_before_ok c y : ValidCal c -> in_i32 (y - 1) ->
  Calendar_prev_year_before (cal_of c) y = Ret (prev_year c y).
Proof.
  intros V Hy. unfold Calendar_prev_year_before. ny_pre.
  destruct c as [| |r]; cbn [prev_year]; try (ny_norm; reflexivity).
  cbn [ValidCal] in V. unfold gap_of.
  destruct (jlabel (r - 1)) as [[py pm] pd] eqn:EP. destruct (glabel r) as [[qy qm] qd] eqn:EQ.
  assert (PY : jyear (r - 1) = py) by (unfold jlabel in EP; destruct (md_of _ _); inversion EP; reflexivity).
  assert (QY : gyear r = qy) by (unfold glabel in EQ; destruct (md_of _ _); inversion EQ; reflexivity).
  rewrite ?PY, ?QY. ny_norm; first [ reflexivity | exfalso; lia | f_equal; lia ].
Qed.

(* what the walk returns on the fields of a date *)
Lemma ymddo_of c j : ValidCal c ->
  ymddo_spec c (l_year (lbl c j)) (ordinal_of c j) =
  Ok (month_of_Z (l_month (lbl c j)), l_day (lbl c j), day_ordinal_of c j).
Proof. intros V. pose proof (ymddo_at c j V) as A. destruct (lbl c j) as [[y m] d]. destruct A as [A _]. exact A. Qed.

Lemma date_of_eq c j y o : l_year (lbl c j) = y -> ordinal_of c j = o ->
  mkDate (cal_of c) y o (month_of_Z (l_month (lbl c j))) (l_day (lbl c j)) (day_ordinal_of c j) j = date_of c j.
Proof. intros <- <-. unfold date_of. destruct (lbl c j) as [[y m] d]. reflexivity. Qed.

(* The two proofs below are written against what Date::succ / Date::pred CALL (ordinal2ymddo, next_year_after,
   prev_year_before, year_length, with which arguments) and not against the shape of their text: every fact that may be
   needed is established first, then [sp_norm] rewrites with whatever applies, in whatever order the code asks. *)
Ltac sp_norm :=
  repeat first
  [ progress cbn [bind]
  | progress cbv zeta
  | progress autounfold with gen_new
  | progress unfold Date_calendar, Date_year, Date_ordinal, Date_julian_day_number
  | match goal with
    | H : Date_f_calendar _ = _ |- _ => rewrite H
    | H : Date_f_year _ = _ |- _ => rewrite H
    | H : Date_f_ordinal _ = _ |- _ => rewrite H
    | H : Date_f_jdn _ = _ |- _ => rewrite H
    | H : ymddo_spec _ _ _ = _ |- _ => rewrite H
    end
  | rewrite u32_add_ok by range
  | rewrite u32_sub_ok by range
  | rewrite ordinal2ymddo_ok by (try assumption; range)
  | rewrite next_year_after_ok by assumption
  | rewrite prev_year_before_ok by assumption
  | rewrite year_length_ok by assumption
  | progress cmp_simpl ].

Theorem succ_ok c j : ValidCal c -> in_i32 j ->
  Date_succ (date_of c j) = Ret (if j <? i32_max then Some (date_of c (j + 1)) else None).
Proof.
  intros V Hj. unfold Date_succ. destruct (date_of_fields c j) as (Fc & Fy & Fo & Fj & _).
  unfold i32_checked_add. rewrite ?Fj.
  destruct (Z.ltb_spec j i32_max) as [Lt|Ge]; [|rewrite chko_none by range; reflexivity].
  rewrite chko_ok by range.
  destruct (ordinal_closed c j V) as [B O]. set (y := l_year (lbl c j)) in *.
  pose proof (year_count_le c y) as [YC _].
  assert (Hy : in_i32 y) by (apply year_i32; exact Hj).
  assert (Hj1 : in_i32 (j + 1)) by range.
  destruct (Z.lt_ge_cases (ordinal_of c j) (year_count c y)) as [Same|Last].
  - destruct (same_year_next c j V Same) as [NY NO]. fold y in NY.
    pose proof (ymddo_of c (j + 1) V) as W. rewrite NY, NO in W.
    sp_norm. f_equal. f_equal. apply date_of_eq; assumption.
  - assert (Eq : ordinal_of c j = year_count c y) by lia.
    destruct (new_year_next c j V Eq) as [NE NO]. fold y in NE.
    pose proof (next_year_spec c j V NE) as NX. fold y in NX.
    assert (E1 : ymddo_spec c y (ordinal_of c j + 1) = Err (DateError_OrdinalOutOfRange y (ordinal_of c j + 1) (year_count c y))).
    { unfold ymddo_spec. replace ((ordinal_of c j + 1 <? 1) || (year_count c y <? ordinal_of c j + 1)) with true by lia. reflexivity. }
    assert (Hy1 : in_i32 (l_year (lbl c (j + 1)))) by (apply year_i32; exact Hj1).
    assert (HY1 : in_i32 (y + 1)).
    { (* the next calendar year is at most the year of day j+1 *)
      rewrite !lbl_year_eq in *. unfold y. rewrite lbl_year_eq.
      destruct (is_old c j); [pose proof (jyear_spec j) as S; unfold J0 in S|pose proof (gyear_spec j) as S; unfold G0 in S]; range. }
    pose proof (ymddo_of c (j + 1) V) as W. rewrite NO, NX in W.
    assert (Hn : in_i32 (next_year c y)) by (rewrite <- NX; exact Hy1).
    sp_norm. f_equal. f_equal. rewrite <- NX. apply date_of_eq; [reflexivity|assumption].
Qed.

Theorem pred_ok c j : ValidCal c -> in_i32 j ->
  Date_pred (date_of c j) = Ret (if i32_min <? j then Some (date_of c (j - 1)) else None).
Proof.
  intros V Hj. unfold Date_pred. destruct (date_of_fields c j) as (Fc & Fy & Fo & Fj & _).
  unfold i32_checked_sub. rewrite ?Fj.
  destruct (Z.ltb_spec i32_min j) as [Gt|Le]; [|rewrite chko_none by range; reflexivity].
  rewrite chko_ok by range.
  destruct (ordinal_closed c j V) as [B O]. set (y := l_year (lbl c j)) in *.
  pose proof (year_count_le c y) as [YC _].
  assert (Hy : in_i32 y) by (apply year_i32; exact Hj).
  assert (Hj1 : in_i32 (j - 1)) by range.
  destruct (Z.ltb_spec 1 (ordinal_of c j)) as [Same|First].
  - destruct (same_year_prev c j V Same) as [NY NO]. fold y in NY.
    pose proof (ymddo_of c (j - 1) V) as W. rewrite NY, NO in W.
    sp_norm. replace (1 <? ordinal_of c j) with true by lia. sp_norm.
    f_equal. f_equal. apply date_of_eq; assumption.
  - assert (Eq : ordinal_of c j = 1) by lia.
    destruct (new_year_prev c j V Eq) as [NE NO]. fold y in NE.
    pose proof (prev_year_spec c j V NE) as NX. fold y in NX.
    assert (Hy1 : in_i32 (l_year (lbl c (j - 1)))) by (apply year_i32; exact Hj1).
    assert (HY1 : in_i32 (y - 1)).
    { rewrite !lbl_year_eq in *. unfold y. rewrite lbl_year_eq.
      destruct (is_old c j); [pose proof (jyear_spec j) as S; unfold J0 in S|pose proof (gyear_spec j) as S; unfold G0 in S]; range. }
    pose proof (year_count_le c (l_year (lbl c (j - 1)))) as [YC' _].
    pose proof (ymddo_of c (j - 1) V) as W. rewrite NO, NX in W.
    assert (Hn : in_i32 (prev_year c y)) by (rewrite <- NX; exact Hy1).
    rewrite NX in YC'.
    sp_norm. replace (1 <? ordinal_of c j) with false by lia. sp_norm.
    f_equal. f_equal. rewrite <- NX. apply date_of_eq; [reflexivity|assumption].
Qed.
