(* Glue_C15_core.v — proofs of the statements of Properties/C15_core.v that need a few steps beyond a library lemma
   (rephrasing only: no induction, no case analysis of the model).  The scripts were moved out of the property file so
   that it contains nothing but statements closed by [exact]. *)
From JV Require Import Sem Gen Spec SpecX.
From JV.Proofs Require Import SpecFacts Cal Core Inner Boundary AtJdn.
Require JV.Proofs.Enums.
Open Scope Z_scope.

Lemma C15_cycle_lemma : forall j, in_i32 j ->
  exists w, Weekday_for_jdn j = Ret w /\ Weekday_discr w = j mod 7 + 1 /\ Weekday_number w = Ret (j mod 7 + 1).
Proof.
  intros j H. exists (weekday_of_number (j mod 7 + 1)). split; [apply for_jdn_ok; exact H|].
  assert (1 <= j mod 7 + 1 <= 7) by (pose proof (Z.mod_pos_bound j 7 ltac:(lia)); lia).
  split; [apply weekday_number_of; assumption|unfold Weekday_number; rewrite weekday_number_of by assumption; reflexivity].
Qed.

Lemma C15_monday_and_successor_lemma : forall j, in_i32 j -> in_i32 (j + 1) ->
  exists w w', Weekday_for_jdn j = Ret w /\ Weekday_for_jdn (j + 1) = Ret w' /\
    (w = Weekday_Monday <-> j mod 7 = 0) /\ Weekday_discr w' = Weekday_discr w mod 7 + 1.
Proof.
  intros j H H'. exists (weekday_of_number (j mod 7 + 1)), (weekday_of_number ((j + 1) mod 7 + 1)).
  split; [apply for_jdn_ok; exact H|]. split; [apply for_jdn_ok; exact H'|].
  pose proof (Z.mod_pos_bound j 7 ltac:(lia)). pose proof (Z.mod_pos_bound (j + 1) 7 ltac:(lia)).
  rewrite !weekday_number_of by lia. split.
  - split; intros X.
    + apply (f_equal Weekday_discr) in X. rewrite weekday_number_of in X by lia. cbn in X. lia.
    + replace (j mod 7 + 1) with 1 by lia. reflexivity.
  - assert ((j + 1) mod 7 = (j mod 7 + 1) mod 7) by (rewrite Z.add_mod_idemp_l by lia; reflexivity). lia.
Qed.

Lemma C15_anchor_lemma : Weekday_for_jdn 2460066 = Ret Weekday_Monday /\ Weekday_for_jdn 0 = Ret Weekday_Monday /\ Weekday_for_jdn (-1) = Ret Weekday_Sunday.
Proof. repeat split; vm_compute; reflexivity. Qed.

Lemma C15_calendar_independent_lemma : forall c c' j, ValidCal c -> ValidCal c' -> in_i32 j ->
  exists d d', Calendar_at_jdn (cal_of c) j = Ret d /\ Calendar_at_jdn (cal_of c') j = Ret d' /\ Date_weekday d = Date_weekday d' /\ Date_weekday d = Weekday_for_jdn j.
Proof.
  intros c c' j V V' H. exists (date_of c j), (date_of c' j). split; [apply at_jdn_ok; assumption|]. split; [apply at_jdn_ok; assumption|].
  rewrite !weekday_ok by exact H. rewrite for_jdn_ok by exact H. split; reflexivity.
Qed.

