(* Glue_C08_core.v — proofs of the statements of Properties/C08_core.v that need a few steps beyond a library lemma
   (rephrasing only: no induction, no case analysis of the model).  The scripts were moved out of the property file so
   that it contains nothing but statements closed by [exact]. *)
From JV Require Import Sem Gen Spec SpecX.
From JV.Proofs Require Import SpecFacts Cal Core Year SpecSets.
Import ListNotations.
Require JV.Proofs.Enums.
Open Scope Z_scope.

Lemma C08_length_is_count_lemma : forall c y, ValidCal c -> in_i32 y ->
  Calendar_year_length (cal_of c) y = Ret (year_count c y) /\ CountIs (InYear c y) (year_count c y).
Proof. intros c y V Hy. split; [apply year_length_ok; assumption|apply year_count_is; exact V]. Qed.

Lemma C08_length_is_month_sum_lemma : forall c y, ValidCal c -> in_i32 y ->
  fold_right Z.add 0 (map (month_count c y) [1;2;3;4;5;6;7;8;9;10;11;12]) = year_count c y /\
  forall m, (month_count c y (Month_discr m) = 0 /\ Calendar_month_shape (cal_of c) y m = Ret None) \/
            (exists s, Calendar_month_shape (cal_of c) y m = Ret (Some s) /\ MonthShape_len s = Ret (month_count c y (Month_discr m))).
Proof.
  intros c y V Hy. split; [exact (month_sum_year c y)|]. intros m.
  destruct (month_shape_described c y m V Hy) as [[Z0 E]|[_ (s & E & D)]]; [left; auto|right; exists s; split; [exact E|apply D]].
Qed.

Lemma C08_feb29_meaning_lemma : forall c y, ValidCal c -> (incalb c y 2 29 = true <-> InCal c y 2 29).
Proof. intros c y V. exact (incal_iff c y 2 29 V). Qed.

